--------------------------- MODULE CondPrim ---------------------------
(* C18 - condition primitives implement their documented matching.                  *)
(*                                                                                  *)
(* One Layer-P operator per documented primitive (docs/en_us/condition/request/*.md, *)
(* session/*.md, response/*.md, system/time.md, condition_naming_convention.md) over  *)
(* small attribute alphabets.  A case is (conditions, requests, relation):            *)
(*   rel "T"/"F"  the single condition is true / false on the single request           *)
(*   rel "G"      gray: the documents do not decide (replayed for panics only)          *)
(*   rel "ONE"    exactly one of the conditions is true on the request                  *)
(*   rel "NONE"   none of the conditions is true on the request                         *)
(*   rel "SAME"   the condition gives the same answer on both requests                  *)
(* (the last three state the hash primitives without fixing the hash function).        *)
(* "A missing attribute makes the primitive false" (statement of C18) is part of every  *)
(* operator.  Layer M: the code's way of computing the same answer where it differs in   *)
(* form (host:port split, '/'-normalised element prefix, byte-wise IP compare, clock in  *)
(* a fixed zone); TLC checks M = P on every decisive case.                              *)
EXTENDS Integers, Sequences, FiniteSets, TLC

CONSTANTS Groups,     \* which groups to enumerate
          StrLen,     \* longest attribute value string
          PatLen,     \* longest pattern in a two-pattern list
          Big         \* TRUE: the larger alphabets (thorough tier)

------------------------------------------------------------------------
(* strings are sequences of one-character strings                                    *)
Range(s) == {s[k] : k \in 1..Len(s)}
StrsUpTo(chars, n) == UNION {[1..k -> chars] : k \in 0..n}
RECURSIVE Str(_)
Str(s) == IF s = <<>> THEN "" ELSE s[1] \o Str(Tail(s))
RECURSIVE JoinBar(_)
JoinBar(ps) == IF Len(ps) = 0 THEN "" ELSE IF Len(ps) = 1 THEN ps[1] ELSE ps[1] \o "|" \o JoinBar(Tail(ps))
StrList(ps) == JoinBar([k \in 1..Len(ps) |-> Str(ps[k])])

IsPrefix(p, s) == Len(p) <= Len(s) /\ SubSeq(s, 1, Len(p)) = p
IsSuffix(p, s) == Len(p) <= Len(s) /\ SubSeq(s, Len(s) - Len(p) + 1, Len(s)) = p
Contains(p, s) == \E i \in 0..(Len(s) - Len(p)) : SubSeq(s, i + 1, i + Len(p)) = p
Up(ch) == CASE ch = "a" -> "A" [] ch = "b" -> "B" [] ch = "c" -> "C" [] ch = "d" -> "D" [] OTHER -> ch
Fold(s) == [k \in 1..Len(s) |-> Up(s[k])]
F(s, fold) == IF fold THEN Fold(s) ELSE s
B2E(b) == IF b THEN "T" ELSE "F"

\* the four comparison operations of condition_naming_convention.md
Test(op, p, s) == CASE op = "in" -> p = s [] op = "prefix_in" -> IsPrefix(p, s)
                    [] op = "suffix_in" -> IsSuffix(p, s) [] op = "contain" -> Contains(p, s)
MatchAny(op, pats, s, fold) == \E p \in pats : Test(op, F(p, fold), F(s, fold))
\* "a list of ... concatenated using |": an empty list entry is either an empty pattern or no
\* pattern - decided only where both readings agree
ListVerdict(op, pats, s, fold) ==
  LET loose  == MatchAny(op, Range(pats), s, fold)
      strict == MatchAny(op, {p \in Range(pats) : p # <<>>}, s, fold) IN
    IF loose = strict THEN B2E(loose) ELSE "G"
\* documents silent on letter case: decided only where exact and case-folded comparison agree
CaseVerdict(exact, folded) == IF exact = folded THEN B2E(exact) ELSE "G"

------------------------------------------------------------------------
(* argument and case constructors (the JSON the harness reads)                        *)
AS(str)     == [s |-> str]
AB(b)       == [b |-> b]
AIP(f, n)   == [ip |-> [fam |-> f, n |-> n]]
AIPs(l)     == [iplist |-> l]
ATime(t)    == [time |-> t]
ATod(t)     == [tod |-> t]
Cond(p, a)  == [prim |-> p, args |-> a]
Case1(tag, p, a, req, rel) == [tag |-> tag, conds |-> <<Cond(p, a)>>, reqs |-> <<req>>, rel |-> rel]

Chars  == {"a", "A", "b"}
Vals   == StrsUpTo(Chars, StrLen)
Pats1  == StrsUpTo(Chars, 2)                                   \* single pattern (incl. the empty one)
PatLists == {<<p>> : p \in Pats1} \cup {<<p, q>> : p \in StrsUpTo(Chars, PatLen), q \in StrsUpTo(Chars, PatLen)}
Opt(S) == {[abs |-> TRUE, s |-> <<>>]} \cup {[abs |-> FALSE, s |-> v] : v \in S}

------------------------------------------------------------------------
(* group "str": value matchers on query / cookie / request header / response header    *)
StrPrims == [query |-> {"in", "prefix_in", "suffix_in"}, cookie |-> {"in", "prefix_in", "suffix_in", "contain"},
             header |-> {"in", "prefix_in", "suffix_in", "contain"}, resheader |-> {"in"}]
StrIn == {[car |-> car, op |-> op, pats |-> ps, v |-> v, fold |-> fo] :
             car \in DOMAIN StrPrims, op \in {"in", "prefix_in", "suffix_in", "contain"},
             ps \in PatLists, v \in Opt(Vals), fo \in BOOLEAN}
StrOK(x) == x.op \in StrPrims[x.car]
StrP(x) == IF x.v.abs THEN "F" ELSE ListVerdict(x.op, x.pats, x.v.s, x.fold)
StrM(x) == IF x.v.abs THEN "F" ELSE B2E(MatchAny(x.op, Range(x.pats), x.v.s, x.fold))
StrName(x) == CASE x.car = "query" -> "req_query_value_" \o x.op [] x.car = "cookie" -> "req_cookie_value_" \o x.op
                [] x.car = "header" -> "req_header_value_" \o x.op [] x.car = "resheader" -> "res_header_value_" \o x.op
StrReq(x) ==
  LET kv == IF x.v.abs THEN <<>> ELSE <<<<IF x.car \in {"header", "resheader"} THEN "X-K" ELSE "k", Str(x.v.s), "1">>>> IN
  CASE x.car = "query" -> [query |-> kv]
    [] x.car = "cookie" -> [cookies |-> kv]
    [] x.car = "header" -> [headers |-> kv]
    [] x.car = "resheader" -> [res |-> [code |-> 200, headers |-> kv]]
StrCase(x) == Case1(IF x.v.abs THEN (IF <<>> \in Range(x.pats) THEN "absent-emptypat" ELSE "absent") ELSE "present",
                    StrName(x),
                    <<AS(IF x.car \in {"header", "resheader"} THEN "X-K" ELSE "k"), AS(StrList(x.pats)), AB(x.fold)>>,
                    StrReq(x), StrP(x))

(* group "path": req_path_in / prefix_in / suffix_in / contain                          *)
PChars == {"a", "A", "/"}
PathTails == {s \in StrsUpTo(PChars, StrLen) : s = <<>> \/ s[1] # "/"}       \* path = "/" \o tail
PathPatLists == {<<p>> : p \in StrsUpTo(PChars, 2)} \cup
                {<<p, q>> : p \in StrsUpTo(PChars, PatLen), q \in StrsUpTo(PChars, PatLen)}
PathIn == {[op |-> op, pats |-> ps, s |-> <<"/">> \o t, fold |-> fo] :
             op \in {"in", "prefix_in", "suffix_in", "contain"}, ps \in PathPatLists, t \in PathTails, fo \in BOOLEAN}
PathP(x) == ListVerdict(x.op, x.pats, x.s, x.fold)
PathM(x) == B2E(MatchAny(x.op, Range(x.pats), x.s, x.fold))
PathCase(x) == Case1("path", "req_path_" \o x.op, <<AS(StrList(x.pats)), AB(x.fold)>>, [path |-> Str(x.s)], PathP(x))

(* group "elem": req_path_element_prefix_in - the pattern's path elements are a prefix of the   *)
(* path's elements ("/api/report/" matches /api/report and /api/report/x, not /api/reportx)     *)
RECURSIVE Split(_, _, _)
Split(s, i, cur) == IF i > Len(s) THEN <<cur>>
                    ELSE IF s[i] = "/" THEN <<cur>> \o Split(s, i + 1, <<>>) ELSE Split(s, i + 1, Append(cur, s[i]))
Elems(s) == LET a == Tail(Split(s, 1, <<>>)) IN            \* s starts with "/": drop the empty head
              IF Len(a) > 0 /\ a[Len(a)] = <<>> THEN SubSeq(a, 1, Len(a) - 1) ELSE a
NoEmptyElem(s) == \A k \in 1..(Len(s) - 1) : ~(s[k] = "/" /\ s[k+1] = "/")
ElemMatch(q, p, fold) == LET eq == Elems(F(q, fold))  ep == Elems(F(p, fold)) IN IsPrefix(eq, ep)
AddSlash(s) == IF Len(s) > 0 /\ s[Len(s)] = "/" THEN s ELSE Append(s, "/")
ElemPats == {<<"/">> \o t : t \in StrsUpTo(PChars, 2)}
ElemIn == {[pats |-> ps, s |-> <<"/">> \o t, fold |-> fo] :
             ps \in {<<p>> : p \in ElemPats} \cup {<<p, q>> : p \in ElemPats, q \in {<<"/", "a">>, <<"/", "A", "/">>}},
             t \in PathTails, fo \in BOOLEAN}
ElemP(x) == IF NoEmptyElem(x.s) /\ \A p \in Range(x.pats) : NoEmptyElem(p)
            THEN B2E(\E p \in Range(x.pats) : ElemMatch(p, x.s, x.fold)) ELSE "G"
ElemM(x) == B2E(\E p \in Range(x.pats) : IsPrefix(F(AddSlash(p), x.fold), F(AddSlash(x.s), x.fold)))
ElemCase(x) == Case1("elem", "req_path_element_prefix_in", <<AS(StrList(x.pats)), AB(x.fold)>>, [path |-> Str(x.s)], ElemP(x))

(* group "host": req_host_in - case-insensitive, the optional port of the Host header is ignored *)
HostStrs == StrsUpTo(Chars, 2) \ {<<>>}
HostIn == {[pats |-> ps, h |-> h, port |-> po] :
             ps \in {<<p>> : p \in HostStrs} \cup {<<p, q>> : p \in HostStrs, q \in {<<"b">>, <<"A", "b">>}},
             h \in HostStrs, po \in {"", "80", "8080"}}
HostP(x) == B2E(\E p \in Range(x.pats) : Fold(p) = Fold(x.h))
HostM(x) == LET wire == x.h \o (IF x.port = "" THEN <<>> ELSE <<":", x.port>>)         \* Host header value
                cut  == IF \E k \in 1..Len(wire) : wire[k] = ":"
                        THEN SubSeq(wire, 1, (CHOOSE k \in 1..Len(wire) : wire[k] = ":" /\ \A j \in 1..(k-1) : wire[j] # ":") - 1)
                        ELSE wire IN
              B2E(Fold(cut) \in {Fold(p) : p \in Range(x.pats)})
HostCase(x) == Case1("host", "req_host_in", <<AS(StrList(x.pats))>>, [host |-> Str(x.h), port |-> x.port], HostP(x))

(* group "port": req_port_in - the port of the Host header; without a port the documents are silent *)
Ports == {"80", "8080", "443"}
PortIn == {[pats |-> ps, port |-> po] : ps \in {<<p>> : p \in Ports} \cup {<<p, q>> : p \in Ports, q \in Ports}, po \in Ports \cup {""}}
PortP(x) == IF x.port = "" THEN "G" ELSE B2E(x.port \in Range(x.pats))
PortCase(x) == Case1("port", "req_port_in", <<AS(JoinBar(x.pats))>>, [host |-> "a.example", port |-> x.port], PortP(x))

(* groups "qkey" / "ckey": key presence in query / cookie                                *)
Keys == {<<"a">>, <<"A">>, <<"a", "b">>, <<"b">>}
KeyLists == {<<p>> : p \in Keys} \cup {<<p, q>> : p \in Keys, q \in Keys}
KeySeqs == {<<>>} \cup {<<k>> : k \in Keys} \cup {<<k, l>> : k \in Keys, l \in Keys}
KeyTest(op, pats, keys, fold) == \E k \in Range(keys), p \in Range(pats) : Test(op, F(p, fold), F(k, fold))
QKeyIn == {[op |-> op, pats |-> ps, keys |-> ks, eq |-> e] : op \in {"in", "prefix_in"}, ps \in KeyLists, ks \in KeySeqs, e \in {"0", "1"}}
QKeyP(x) == CaseVerdict(KeyTest(x.op, x.pats, x.keys, FALSE), KeyTest(x.op, x.pats, x.keys, TRUE))
QKeyCase(x) == Case1("qkey", IF x.op = "in" THEN "req_query_key_in" ELSE "req_query_key_prefix_in", <<AS(StrList(x.pats))>>,
                     [query |-> [k \in 1..Len(x.keys) |-> <<Str(x.keys[k]), "1", x.eq>>]], QKeyP(x))
CKeyIn == {[pats |-> ps, keys |-> ks] : ps \in KeyLists, ks \in KeySeqs}
CKeyP(x) == CaseVerdict(KeyTest("in", x.pats, x.keys, FALSE), KeyTest("in", x.pats, x.keys, TRUE))
CKeyCase(x) == Case1("ckey", "req_cookie_key_in", <<AS(StrList(x.pats))>>,
                     [cookies |-> [k \in 1..Len(x.keys) |-> <<Str(x.keys[k]), "1">>]], CKeyP(x))

(* group "hkey": req_header_key_in / res_header_key_in - keys in canonical form; a header that  *)
(* is present with an empty value, or a non-canonical key in the list, is not decided            *)
HNames == {"X-A", "X-Ab"}
HWire(n, lower) == IF lower THEN (IF n = "X-A" THEN "x-a" ELSE "x-ab") ELSE n
HKeyIn == {[res |-> r, pats |-> ps, hdrs |-> hs, lower |-> lo] :
             r \in BOOLEAN,
             ps \in {<<p>> : p \in HNames \cup {"x-a"}} \cup {<<"X-A", "X-Ab">>, <<"X-Ab", "X-A">>},
             hs \in {<<>>} \cup {<<<<n, v>>>> : n \in HNames, v \in {"1", ""}} \cup {<<<<"X-A", v>>, <<"X-Ab", w>>>> : v \in {"1", ""}, w \in {"1", ""}},
             lo \in BOOLEAN}
HKeyP(x) ==
  IF \E p \in Range(x.pats) : p \notin HNames THEN "G"
  ELSE LET hit(h) == h[1] \in Range(x.pats) IN
         IF \E h \in Range(x.hdrs) : hit(h) /\ h[2] # "" THEN "T"
         ELSE IF \E h \in Range(x.hdrs) : hit(h) THEN "G" ELSE "F"
HKeyCase(x) ==
  LET hs == [k \in 1..Len(x.hdrs) |-> <<HWire(x.hdrs[k][1], x.lower /\ ~x.res), x.hdrs[k][2]>>] IN
    Case1("hkey", IF x.res THEN "res_header_key_in" ELSE "req_header_key_in", <<AS(JoinBar(x.pats))>>,
          IF x.res THEN [res |-> [code |-> 200, headers |-> hs]] ELSE [headers |-> hs], HKeyP(x))

(* group "method": req_method_in (valid methods GET/POST/PUT/DELETE, written in upper case)      *)
Methods == {"GET", "POST", "PUT", "DELETE"}
MethodIn == {[pats |-> ps, m |-> m] :
               ps \in {<<p>> : p \in Methods \cup {"get"}} \cup {<<p, q>> : p \in Methods, q \in Methods}, m \in Methods \cup {"HEAD"}}
MethodP(x) == IF \E p \in Range(x.pats) : p \notin Methods THEN "G" ELSE B2E(x.m \in Range(x.pats))
MethodCase(x) == Case1("method", "req_method_in", <<AS(JoinBar(x.pats))>>, [method |-> x.m], MethodP(x))

(* group "tls": req_proto_secure, ses_tls_sni_in, ses_tls_client_auth, ses_tls_client_ca_in       *)
TlsIn == {[prim |-> "req_proto_secure", secure |-> s, sni |-> "", cauth |-> FALSE, ca |-> "", pats |-> <<>>] : s \in BOOLEAN}
    \cup {[prim |-> "ses_tls_client_auth", secure |-> s, sni |-> "", cauth |-> a, ca |-> "", pats |-> <<>>] : s \in BOOLEAN, a \in BOOLEAN}
    \cup {[prim |-> "ses_tls_sni_in", secure |-> s, sni |-> n, cauth |-> FALSE, ca |-> "", pats |-> ps] :
            s \in BOOLEAN, n \in {"", "a.b", "A.b", "c.d"}, ps \in {<<"a.b">>, <<"c.d">>, <<"a.b", "c.d">>, <<"c.d", "a.b">>}}
    \cup {[prim |-> "ses_tls_client_ca_in", secure |-> s, sni |-> "", cauth |-> a, ca |-> n, pats |-> ps] :
            s \in BOOLEAN, a \in BOOLEAN, n \in {"", "ca1", "CA1", "ca3"}, ps \in {<<"ca1">>, <<"ca2">>, <<"ca2", "ca1">>}}
LowerEq(u, v) == (u = v) \/ ({u, v} = {"a.b", "A.b"}) \/ ({u, v} = {"ca1", "CA1"})
TlsP(x) ==
  CASE x.prim = "req_proto_secure" -> B2E(x.secure)
    [] x.prim = "ses_tls_client_auth" -> B2E(x.secure /\ x.cauth)
    [] x.prim = "ses_tls_sni_in" ->
         IF ~x.secure \/ x.sni = "" THEN "F"
         ELSE CaseVerdict(x.sni \in Range(x.pats), \E p \in Range(x.pats) : LowerEq(p, x.sni))
    [] x.prim = "ses_tls_client_ca_in" ->
         IF ~x.secure \/ ~x.cauth \/ x.ca = "" THEN "F"
         ELSE CaseVerdict(x.ca \in Range(x.pats), \E p \in Range(x.pats) : LowerEq(p, x.ca))
TlsCase(x) == Case1("tls", x.prim, IF x.pats = <<>> THEN <<>> ELSE <<AS(JoinBar(x.pats))>>,
                    [secure |-> x.secure, sni |-> x.sni, cauth |-> x.cauth, ca |-> x.ca], TlsP(x))

(* group "iprange": req_cip_range, req_vip_range, ses_sip_range, ses_vip_range: [start_ip, end_ip] *)
(* addresses are offsets from a base address of their family (alphabet map in the harness)         *)
IPVals == IF Big THEN {0, 1, 2, 255, 256, 257, 65535, 65536} ELSE {0, 1, 255, 256, 257}
Addrs == {[fam |-> f, n |-> n] : f \in {4, 6}, n \in IPVals}
NoAddr == [fam |-> 0, n |-> 0]
RangePrims == {"req_cip_range", "req_vip_range", "ses_sip_range", "ses_vip_range"}
IPRangeIn == {[prim |-> p, fam |-> f, lo |-> lo, hi |-> hi, probe |-> pr] :
                p \in RangePrims, f \in {4, 6}, lo \in IPVals, hi \in IPVals, pr \in Addrs \cup {NoAddr}}
IPRangeOK(x) == x.lo <= x.hi
IPRangeP(x) == IF x.probe.fam = 0 THEN "F" ELSE IF x.probe.fam # x.fam THEN "F" ELSE B2E(x.lo <= x.probe.n /\ x.probe.n <= x.hi)
\* mechanism: big-endian bytes compared lexicographically (bytes.Compare)
Bytes(n) == <<(n \div 65536) % 256, (n \div 256) % 256, n % 256>>
LexLE(a, b) == \/ a = b
               \/ \E k \in 1..Len(a) : a[k] < b[k] /\ \A j \in 1..(k - 1) : a[j] = b[j]
IPRangeM(x) == IF x.probe.fam = 0 \/ x.probe.fam # x.fam THEN "F"
               ELSE B2E(LexLE(Bytes(x.lo), Bytes(x.probe.n)) /\ LexLE(Bytes(x.probe.n), Bytes(x.hi)))
AddrField(prim, a) == CASE prim = "req_cip_range" -> [cip |-> a] [] prim = "ses_sip_range" -> [sip |-> a] [] OTHER -> [vip |-> a]
IPRangeCase(x) == Case1("iprange", x.prim, <<AIP(x.fam, x.lo), AIP(x.fam, x.hi)>>, AddrField(x.prim, x.probe), IPRangeP(x))

(* group "vipin": req_vip_in(vip_list)                                                           *)
VipIn == {[pats |-> ps, vip |-> v] :
            ps \in {<<a>> : a \in Addrs} \cup {<<a, b>> : a \in Addrs, b \in {[fam |-> 4, n |-> 1], [fam |-> 6, n |-> 256]}},
            v \in Addrs \cup {NoAddr}}
VipP(x) == IF x.vip.fam = 0 THEN "F" ELSE B2E(x.vip \in Range(x.pats))
VipCase(x) == Case1("vipin", "req_vip_in", <<AIPs(x.pats)>>, [vip |-> x.vip], VipP(x))

(* group "hash": *_hash_in - "value after hash is 0..9999"; the hash function is not documented, so   *)
(* only function-independent facts are stated: the whole range matches every present value, two        *)
(* complementary ranges match exactly one, a missing attribute matches nothing, and with                *)
(* case_insensitive = true two values that differ in letter case only get the same answer               *)
HashCars == {"cip", "query", "cookie", "header"}
HashVals == {<<"a">>, <<"A", "b">>, <<"a", "B">>, <<"b", "b", "a">>}
HashCuts == IF Big THEN {0, 1, 99, 4999, 5000, 9997, 9998} ELSE {0, 4999, 9998}
RECURSIVE Dec(_)
Dec(n) == IF n < 10 THEN <<"0","1","2","3","4","5","6","7","8","9">>[n + 1] ELSE Dec(n \div 10) \o Dec(n % 10)
Sect(a, b) == Dec(a) \o "-" \o Dec(b)
HashName(car) == CASE car = "cip" -> "req_cip_hash_in" [] car = "query" -> "req_query_value_hash_in"
                   [] car = "cookie" -> "req_cookie_value_hash_in" [] car = "header" -> "req_header_value_hash_in"
HashArgs(car, sect, fold) == IF car = "cip" THEN <<AS(sect)>> ELSE <<AS(IF car = "header" THEN "X-K" ELSE "k"), AS(sect), AB(fold)>>
HashReq(car, v) ==                 \* v: [abs, s] for strings, [abs, a] for addresses
  IF v.abs THEN [path |-> "/"]
  ELSE CASE car = "cip" -> [cip |-> v.a] [] car = "query" -> [query |-> <<<<"k", Str(v.s), "1">>>>]
         [] car = "cookie" -> [cookies |-> <<<<"k", Str(v.s)>>>>] [] car = "header" -> [headers |-> <<<<"X-K", Str(v.s)>>>>]
HashPresent(car) == IF car = "cip" THEN {[abs |-> FALSE, a |-> a] : a \in {[fam |-> 4, n |-> 1], [fam |-> 4, n |-> 257], [fam |-> 6, n |-> 1]}}
                    ELSE {[abs |-> FALSE, s |-> s] : s \in HashVals}
HashAbsent == [abs |-> TRUE, s |-> <<>>, a |-> NoAddr]
HashIn ==
  UNION {
       {[kind |-> "full", car |-> car, v |-> v, fold |-> fo, cut |-> 0] : v \in HashPresent(car) \cup {HashAbsent}, fo \in BOOLEAN}
  \cup {[kind |-> "split", car |-> car, v |-> v, fold |-> fo, cut |-> k] :
          v \in HashPresent(car) \cup {HashAbsent}, fo \in BOOLEAN, k \in HashCuts}
  \cup (IF car = "cip" THEN {} ELSE
        {[kind |-> "fold", car |-> car, v |-> [abs |-> FALSE, s |-> s], fold |-> TRUE, cut |-> k] : s \in HashVals, k \in HashCuts})
    : car \in HashCars }
HashCase(x) ==
  CASE x.kind = "full" ->
         [tag |-> IF x.v.abs THEN "absent" ELSE "full", conds |-> <<Cond(HashName(x.car), HashArgs(x.car, Sect(0, 9999), x.fold))>>,
          reqs |-> <<HashReq(x.car, x.v)>>, rel |-> IF x.v.abs THEN "F" ELSE "T"]
    [] x.kind = "split" ->
         [tag |-> IF x.v.abs THEN "absent" ELSE "split",
          conds |-> <<Cond(HashName(x.car), HashArgs(x.car, Sect(0, x.cut), x.fold)),
                      Cond(HashName(x.car), HashArgs(x.car, Sect(x.cut + 1, 9999), x.fold))>>,
          reqs |-> <<HashReq(x.car, x.v)>>, rel |-> IF x.v.abs THEN "NONE" ELSE "ONE"]
    [] x.kind = "fold" ->
         [tag |-> "fold", conds |-> <<Cond(HashName(x.car), HashArgs(x.car, Sect(0, x.cut), TRUE))>>,
          reqs |-> <<HashReq(x.car, x.v), HashReq(x.car, [abs |-> FALSE, s |-> Fold(x.v.s)])>>, rel |-> "SAME"]

(* group "tag": req_tag_match(tagName, tagValue)                                                 *)
TagLists == {<<>>, <<"x">>, <<"y">>, <<"x", "y">>, <<"y", "x", "w">>}
TagIn == {[name |-> n, val |-> v, t1 |-> l1, t2 |-> l2] : n \in {"t1", "t2", "t3"}, v \in {"x", "y", "z"}, l1 \in TagLists, l2 \in TagLists}
TagP(x) == B2E(CASE x.name = "t1" -> x.val \in Range(x.t1) [] x.name = "t2" -> x.val \in Range(x.t2) [] OTHER -> FALSE)
TagCase(x) == Case1("tag", "req_tag_match", <<AS(x.name), AS(x.val)>>, [tags |-> <<<<"t1">> \o x.t1, <<"t2">> \o x.t2>>], TagP(x))

(* groups "time" / "tod": bfe_time_range, bfe_periodic_time_range; the current time is mocked with  *)
(* X-Bfe-Debug-Time (time.md, Appendix A); zone letters and offsets from Appendix B                 *)
Zones == {"Z", "H", "N"}
Off(z) == CASE z = "Z" -> 0 [] z = "H" -> 8 * 3600 [] z = "N" -> -3600
Locals == IF Big THEN {0, 1, 3599, 3600, 3601, 7200, 28800, 28801, 32400} ELSE {0, 1, 3600, 3601, 28800, 32400}
Wall(l, z) == [sec |-> l, zone |-> z, abs |-> FALSE]
Inst(t) == t.sec - Off(t.zone)                               \* seconds on the UTC axis
TimeIn == {[s |-> Wall(ls, zs), e |-> Wall(le, ze), now |-> Wall(ln, zn)] :
             ls \in Locals, le \in Locals, ln \in Locals, zs \in Zones, ze \in (IF Big THEN Zones ELSE {"H"}), zn \in Zones}
TimeOK(x) == Inst(x.s) <= Inst(x.e) /\ (Big \/ x.s.zone \in {"H", "Z"})
TimeP(x) == B2E(Inst(x.s) <= Inst(x.now) /\ Inst(x.now) <= Inst(x.e))
TimeCase(x) == Case1("time", "bfe_time_range", <<ATime(x.s), ATime(x.e)>>, [time |-> x.now], TimeP(x))

Day == 86400
Tods == IF Big THEN {0, 1, 3600, 43200, 72000, 86399} ELSE {0, 3600, 43200, 86399}
TodNow == IF Big THEN {0, 1, 3599, 3600, 3601, 43200, 86399, 86400, 90000} ELSE {0, 3599, 3600, 3601, 43200, 86399, 90000}
TodIn == {[s |-> ts, e |-> te, z |-> z, now |-> Wall(ln, zn)] : ts \in Tods, te \in Tods, z \in Zones, ln \in TodNow, zn \in Zones}
TodOK(x) == x.s <= x.e
ClockIn(t, z) == (Inst(t) + Off(z) + 2 * Day) % Day           \* seconds since midnight in zone z
TodP(x) == LET c == ClockIn(x.now, x.z) IN B2E(x.s <= c /\ c <= x.e)
\* mechanism: hour, minute, second of the instant converted to the zone
TodM(x) == LET u == Inst(x.now) + Off(x.z) + 2 * Day
               h == (u \div 3600) % 24   m == (u \div 60) % 60   s == u % 60 IN
             B2E(h * 3600 + m * 60 + s >= x.s /\ h * 3600 + m * 60 + s <= x.e)
TodCase(x) == Case1("tod", "bfe_periodic_time_range", <<ATod(Wall(x.s, x.z)), ATod(Wall(x.e, x.z)), AS("")>>, [time |-> x.now], TodP(x))

(* group "rescode": res_code_in; without a response the attribute is missing                      *)
Codes == {"200", "404", "500"}
ResCodeIn == {[pats |-> ps, code |-> co] : ps \in {<<p>> : p \in Codes} \cup {<<p, q>> : p \in Codes, q \in Codes}, co \in {0, 200, 201, 404, 500}}
CodeStr(n) == CASE n = 200 -> "200" [] n = 201 -> "201" [] n = 404 -> "404" [] n = 500 -> "500" [] OTHER -> ""
ResCodeP(x) == IF x.code = 0 THEN "F" ELSE B2E(CodeStr(x.code) \in Range(x.pats))
ResCodeCase(x) == Case1("rescode", "res_code_in", <<AS(JoinBar(x.pats))>>,
                        IF x.code = 0 THEN [path |-> "/"] ELSE [res |-> [code |-> x.code, headers |-> <<>>]], ResCodeP(x))

(* group "urlreg": req_url_regmatch with metacharacter-free literals and the anchors ^ and $       *)
UrlIn == {[lit |-> l, al |-> al, ar |-> ar, s |-> <<"/">> \o t, q |-> q] :
            l \in StrsUpTo(PChars, 2) \ {<<>>}, al \in BOOLEAN, ar \in BOOLEAN, t \in PathTails, q \in BOOLEAN}
UrlP(x) == LET uri == x.s \o (IF x.q THEN <<"?", "k", "=", "a">> ELSE <<>>) IN
             B2E(CASE x.al /\ x.ar -> x.lit = uri [] x.al -> IsPrefix(x.lit, uri) [] x.ar -> IsSuffix(x.lit, uri)
                   [] OTHER -> Contains(x.lit, uri))
UrlCase(x) == Case1("urlreg", "req_url_regmatch", <<AS((IF x.al THEN "^" ELSE "") \o Str(x.lit) \o (IF x.ar THEN "$" ELSE ""))>>,
                    [path |-> Str(x.s), query |-> IF x.q THEN <<<<"k", "a", "1">>>> ELSE <<>>], UrlP(x))

(* group "trusted": req_cip_trusted                                                               *)
TrustedCase(b) == Case1("trusted", "req_cip_trusted", <<>>, [trusted |-> b], B2E(b))

------------------------------------------------------------------------
VARIABLE c      \* [g |-> group, x |-> abstract input]
vars == <<c>>
Pick(g, S) == g \in Groups /\ \E x \in S : c = [g |-> g, x |-> x]
Init ==
  \/ Pick("str", {x \in StrIn : StrOK(x)})      \/ Pick("path", PathIn)       \/ Pick("elem", ElemIn)
  \/ Pick("host", HostIn)     \/ Pick("port", PortIn)       \/ Pick("qkey", QKeyIn)     \/ Pick("ckey", CKeyIn)
  \/ Pick("hkey", HKeyIn)     \/ Pick("method", MethodIn)   \/ Pick("tls", TlsIn)
  \/ Pick("iprange", {x \in IPRangeIn : IPRangeOK(x)})     \/ Pick("vipin", VipIn)     \/ Pick("hash", HashIn)
  \/ Pick("tag", TagIn)       \/ Pick("time", {x \in TimeIn : TimeOK(x)})            \/ Pick("tod", {x \in TodIn : TodOK(x)})
  \/ Pick("rescode", ResCodeIn) \/ Pick("urlreg", UrlIn)    \/ Pick("trusted", BOOLEAN)
Next == UNCHANGED c

TheCase ==
  CASE c.g = "str" -> StrCase(c.x) [] c.g = "path" -> PathCase(c.x) [] c.g = "elem" -> ElemCase(c.x)
    [] c.g = "host" -> HostCase(c.x) [] c.g = "port" -> PortCase(c.x) [] c.g = "qkey" -> QKeyCase(c.x)
    [] c.g = "ckey" -> CKeyCase(c.x) [] c.g = "hkey" -> HKeyCase(c.x) [] c.g = "method" -> MethodCase(c.x)
    [] c.g = "tls" -> TlsCase(c.x) [] c.g = "iprange" -> IPRangeCase(c.x) [] c.g = "vipin" -> VipCase(c.x)
    [] c.g = "hash" -> HashCase(c.x) [] c.g = "tag" -> TagCase(c.x) [] c.g = "time" -> TimeCase(c.x)
    [] c.g = "tod" -> TodCase(c.x) [] c.g = "rescode" -> ResCodeCase(c.x) [] c.g = "urlreg" -> UrlCase(c.x)
    [] c.g = "trusted" -> TrustedCase(c.x)

\* Layer M against Layer P, wherever P is decisive
MOf == CASE c.g = "str" -> StrM(c.x) [] c.g = "path" -> PathM(c.x) [] c.g = "elem" -> ElemM(c.x)
         [] c.g = "host" -> HostM(c.x) [] c.g = "iprange" -> IPRangeM(c.x) [] c.g = "tod" -> TodM(c.x)
         [] OTHER -> TheCase.rel
MSatisfiesP == LET p == TheCase.rel IN p \in {"T", "F"} => MOf = p

\* the documents' examples
S(str) == CASE str = "/api/report" -> <<"/","a","p","i","/","r","e","p","o","r","t">>
            [] str = "/api/report/" -> <<"/","a","p","i","/","r","e","p","o","r","t","/">>
            [] str = "/api/report/x" -> <<"/","a","p","i","/","r","e","p","o","r","t","/","x">>
            [] str = "/api/reportx" -> <<"/","a","p","i","/","r","e","p","o","r","t","x">>
ASSUME /\ ElemMatch(S("/api/report/"), S("/api/report"), FALSE) /\ ElemMatch(S("/api/report/"), S("/api/report/x"), FALSE)
       /\ ~ElemMatch(S("/api/report/"), S("/api/reportx"), FALSE)
       /\ ElemMatch(S("/api/report"), S("/api/report/x"), FALSE)             \* '/' added automatically
       /\ Test("prefix_in", <<"/", "a">>, <<"/", "a", "b">>) /\ ~Test("prefix_in", <<"a">>, <<"/", "a">>)
       /\ Test("suffix_in", <<"b">>, <<"a", "b">>) /\ Test("contain", <<"b">>, <<"a", "b", "a">>) /\ ~Test("in", <<"a">>, <<"a", "b">>)
       /\ Off("H") = 8 * 3600                                                  \* H = +8, Beijing time
       \* bfe_time_range("20190204203000H", "20190204204500H") at 20190204124000Z (= 20:40 H) is true
       /\ LET s == Wall(20 * 3600 + 1800, "H")  e == Wall(20 * 3600 + 2700, "H")  n == Wall(12 * 3600 + 2400, "Z") IN
            Inst(s) <= Inst(n) /\ Inst(n) <= Inst(e)
       /\ ClockIn(Wall(12 * 3600 + 2400, "Z"), "H") = 20 * 3600 + 2400
       /\ Dec(9999) = "9999" /\ Dec(0) = "0" /\ Sect(100, 200) = "100-200"
========================================================================
