-------------------------- MODULE TraceConc --------------------------
(* C05 (with C03): really concurrent executions of bal_slb.BalanceRR — picker           *)
(* goroutines (all algorithms), availability flippers, a reloader changing weights —    *)
(* recorded as call start / call end events ordered by one atomic counter.  The effect  *)
(* of a call lies somewhere between its start and its end, so the spec tracks, for      *)
(* every backend, the SET of availability values and weight signs it may have at the    *)
(* current instant, and for every pick in flight which backends may have been eligible  *)
(* at some instant of the call.  Layer P: every pick returns (no panic, no hang); a     *)
(* returned backend may have been eligible at some instant of the call; an error is     *)
(* returned only if at some instant of the call no backend need have been eligible.     *)
EXTENDS Integers, Sequences, FiniteSets, TLC, Json

CONSTANT N
B == 1..N
Tr == ndJsonDeserialize("trace.ndjson")

VARIABLES l, av, wp, fl, up, picks, dead, bad
\* av[b], wp[b]: sets of possible values (availability; weight > 0)
\* fl: flips in flight [b -> new value]; up: reload in flight (new weight signs) or <<>>
\* picks: [call id -> [could: SUBSET B, none: BOOLEAN]]
tvars == <<l, av, wp, fl, up, picks, dead, bad>>
Ev == Tr[l]
Mark(why) == bad' = bad \cup {[cid |-> Ev.cid, l |-> l, why |-> why]} /\ dead' = TRUE
Keep == UNCHANGED <<bad, dead>>

MayBe(a, w, b) == TRUE \in a[b] /\ TRUE \in w[b]
MayNot(a, w, b) == FALSE \in a[b] \/ FALSE \in w[b]
\* fold the current instant into every pick in flight
Fold(p, a, w) == [i \in DOMAIN p |->
                    [could |-> p[i].could \cup {b \in B : MayBe(a, w, b)},
                     none |-> p[i].none \/ \A b \in B : MayNot(a, w, b)]]

TInit == /\ l = 1 /\ av = [b \in B |-> {FALSE}] /\ wp = [b \in B |-> {FALSE}]
         /\ fl = <<>> /\ up = <<>> /\ picks = <<>> /\ dead = FALSE /\ bad = {}

TNew == /\ Ev.ev = "new"
        /\ av' = [b \in B |-> {Ev.av[b]}] /\ wp' = [b \in B |-> {Ev.w[b] > 0}]
        /\ fl' = <<>> /\ up' = <<>> /\ picks' = <<>> /\ dead' = FALSE /\ UNCHANGED bad

TFlipStart == /\ Ev.ev = "flip_start"
              /\ av' = [av EXCEPT ![Ev.b] = @ \cup {Ev.v}]
              /\ fl' = (Ev.b :> Ev.v) @@ fl
              /\ picks' = Fold(picks, av', wp) /\ Keep /\ UNCHANGED <<wp, up>>
TFlipEnd == /\ Ev.ev = "flip_end"
            /\ av' = [av EXCEPT ![Ev.b] = {Ev.v}]
            /\ fl' = [x \in DOMAIN fl \ {Ev.b} |-> fl[x]]
            /\ picks' = Fold(picks, av', wp) /\ Keep /\ UNCHANGED <<wp, up>>
TUpdStart == /\ Ev.ev = "upd_start"
             /\ wp' = [b \in B |-> wp[b] \cup {Ev.w[b] > 0}]
             /\ up' = Ev.w
             /\ picks' = Fold(picks, av, wp') /\ Keep /\ UNCHANGED <<av, fl>>
TUpdEnd == /\ Ev.ev = "upd_end"
           /\ wp' = [b \in B |-> {Ev.w[b] > 0}]
           /\ up' = <<>>
           /\ picks' = Fold(picks, av, wp') /\ Keep /\ UNCHANGED <<av, fl>>
TPickStart == /\ Ev.ev = "pick_start"
              /\ picks' = (Ev.id :> [could |-> {b \in B : MayBe(av, wp, b)},
                                     none |-> \A b \in B : MayNot(av, wp, b)]) @@ picks
              /\ Keep /\ UNCHANGED <<av, wp, fl, up>>
TPickEnd == /\ Ev.ev = "pick_end"
            /\ LET p == picks[Ev.id] IN
                 IF Ev.b = 0 - 1 THEN Mark("panic")
                 ELSE IF Ev.b = 0 - 2 THEN Mark("hang")
                 ELSE IF Ev.b = 0 THEN (IF p.none THEN Keep ELSE Mark("ErrorAlthoughEligibleThroughout"))
                 ELSE IF Ev.b \in p.could THEN Keep
                 ELSE Mark("IneligibleThroughoutCall")
            /\ picks' = [x \in DOMAIN picks \ {Ev.id} |-> picks[x]]
            /\ UNCHANGED <<av, wp, fl, up>>
TOther == /\ Ev.ev \in {"ss", "end"}
          /\ (IF Ev.ev = "end" /\ Ev.panic THEN Mark("panic") ELSE Keep)
          /\ UNCHANGED <<av, wp, fl, up, picks>>
TSkip == dead /\ Ev.ev # "new" /\ Keep /\ UNCHANGED <<av, wp, fl, up, picks>>

TNext == /\ l <= Len(Tr) /\ l' = l + 1
         /\ \/ TNew
            \/ ~dead /\ (TFlipStart \/ TFlipEnd \/ TUpdStart \/ TUpdEnd \/ TPickStart \/ TPickEnd \/ TOther)
            \/ TSkip
Report == (l = Len(Tr) + 1) => PrintT(ToJson([done |-> TRUE, consumed |-> l - 1, bad |-> bad]))
Accepted == TLCGet("stats").diameter - 1 = Len(Tr)
======================================================================
