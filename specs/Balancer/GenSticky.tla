-------------------------- MODULE GenSticky --------------------------
(* Enumerates the configurations whose residue tables are recorded from the real code. *)
EXTENDS Sticky, Json
Perms == {s \in [1..N -> B] : \A i, j \in 1..N : i # j => s[i] # s[j]}
Emit == PrintT(ToJson([n |-> N, w |-> w, av |-> av, perms |-> Perms]))
======================================================================
