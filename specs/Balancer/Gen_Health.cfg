CONSTANTS
  FailNum = @FAILNUM@
  SuccNum = @SUCCNUM@
  Threads = {1, 2, 3}
  MaxCk = 3
  MaxFails = 30
  MaxProbes = 30
  MaxOps = @OPS@
INIT GInit
NEXT GNext
INVARIANT Emit
CHECK_DEADLOCK FALSE
