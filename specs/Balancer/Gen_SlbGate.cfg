CONSTANTS
  N = @N@
  MaxW = 2
  MaxConn = @MAXCONN@
INIT Init
NEXT Next
INVARIANT Emit
CHECK_DEADLOCK FALSE
