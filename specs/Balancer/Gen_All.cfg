CONSTANTS
  N = @N@
  WLo = @WLO@
  WHi = @WHI@
  Scale = @SCALE@
  AnyOrder = @ANYORDER@
  MaxConn = @MAXCONN@
  MaxPicks = @PICKS@
  MaxFlips = @FLIPS@
  MaxUpdates = @UPDATES@
  MaxConnOps = @CONNOPS@
  Algos = {"smooth", "simple", "sticky", "wlc_smooth", "wlc_simple"}
  MaxOps = @OPS@
  Focus = @FOCUS@
INIT GInit
NEXT GNext
INVARIANTS Emit
CHECK_DEADLOCK FALSE
