---------------------------- MODULE Reload ----------------------------
(* C09: cluster-table / gslb reloads (bfe_balance.BalTable.BalTableReload ->           *)
(* BalanceGslb.Reload -> BalanceGslb.BackendReload -> BalanceRR.Update).               *)
(* Objects (backends) have identities; a key is (cluster, sub-cluster, backend) where  *)
(* backend stands for one (name, address) pair.  Layer P: an object whose key persists *)
(* survives with its state; an object whose key disappears (backend, sub-cluster or    *)
(* cluster removed or renamed) is released exactly once and never selected again; new  *)
(* keys get fresh, selectable objects.                                                 *)
EXTENDS Integers, Sequences, FiniteSets, TLC

CONSTANTS Clusters, Subs, Backs, MaxReloads, MaxTouch, MaxIds

Keys == Clusters \X Subs \X Backs
\* a configuration is a set of keys; a sub-cluster exists iff it has a backend, a cluster
\* iff it has a sub-cluster (gslb.data and cluster_table.data are consistent)
Confs == (SUBSET Keys) \ {{}}

SubsOf(c0) == {<<k[1], k[2]>> : k \in c0}
\* zero-weight sub-clusters: every cluster keeps at least one sub-cluster with positive weight
ZeroSets(c0) == {z \in SUBSET SubsOf(c0) : \A k \in c0 : \E s \in SubsOf(c0) : s[1] = k[1] /\ ~(s \in z)}

VARIABLES conf,      \* current configuration
          zero,      \* sub-clusters configured with weight 0 (cross-retry targets only)
          live,      \* [conf -> id] live object per key
          ost,       \* [1..nid -> [key, avail, conn, rel]] every object ever created
          nid, nre, ntouch,
          sel        \* last selection [cluster, id] or none
vars == <<conf, zero, live, ost, nid, nre, ntouch, sel>>

NoSel == [c |-> "none", id |-> 0]

RECURSIVE Assign(_, _, _)
\* give fresh ids nid+1.. to the keys of set S (deterministic order by CHOOSE)
Assign(S, n, f) == IF S = {} THEN f
                   ELSE LET k == CHOOSE x \in S : TRUE
                        IN Assign(S \ {k}, n + 1, f @@ (k :> n + 1))

Init == \E c0 \in Confs : \E z0 \in ZeroSets(c0) :
          /\ conf = c0 /\ zero = z0
          /\ live = Assign(c0, 0, <<>>)
          /\ nid = Cardinality(c0)
          /\ ost = [i \in 1..Cardinality(c0) |->
                      [key |-> CHOOSE k \in c0 : Assign(c0, 0, <<>>)[k] = i,
                       avail |-> TRUE, conn |-> 0, rel |-> 0]]
          /\ nre = 0 /\ ntouch = 0 /\ sel = NoSel

Reload(c1, z1) ==
    /\ z1 \in ZeroSets(c1) /\ zero' = z1
    /\ nre < MaxReloads /\ nid + Cardinality(c1 \ conf) <= MaxIds
    /\ LET gone == conf \ c1
           new == c1 \ conf
           lv == Assign(new, nid, [k \in (conf \cap c1) |-> live[k]])
           n1 == nid + Cardinality(new)
       IN /\ live' = lv
          /\ nid' = n1
          /\ ost' = [i \in 1..n1 |->
                       IF i <= nid
                         THEN IF ost[i].key \in gone /\ live[ost[i].key] = i
                                THEN [ost[i] EXCEPT !.rel = @ + 1] ELSE ost[i]
                         ELSE [key |-> CHOOSE k \in new : lv[k] = i,
                               avail |-> TRUE, conn |-> 0, rel |-> 0]]
    /\ conf' = c1 /\ nre' = nre + 1 /\ sel' = NoSel /\ UNCHANGED ntouch

\* the proxy / health check changes a live backend's state between reloads
Touch(k) == /\ ntouch < MaxTouch /\ k \in conf
            /\ \E a \in BOOLEAN, d \in {0, 1} :
                 ost' = [ost EXCEPT ![live[k]].avail = a, ![live[k]].conn = @ + d]
            /\ ntouch' = ntouch + 1 /\ sel' = NoSel /\ UNCHANGED <<conf, zero, live, nid, nre>>

\* first choice: a positive-weight sub-cluster; a zero-weight one only as cross-retry target when
\* some positive-weight sub-cluster of the cluster has no available backend
PosDown(c) == \E s \in SubsOf(conf) : s[1] = c /\ ~(s \in zero)
                 /\ \A k \in conf : (k[1] = c /\ k[2] = s[2]) => ~ost[live[k]].avail
SelOK(c, k) == k[1] = c /\ ost[live[k]].avail /\ (~(<<k[1], k[2]>> \in zero) \/ PosDown(c))
Select(c) == /\ \E k \in conf : SelOK(c, k) /\ sel' = [c |-> c, id |-> live[k]]
             /\ UNCHANGED <<conf, zero, live, ost, nid, nre, ntouch>>

Next == \/ \E c1 \in Confs : \E z1 \in ZeroSets(c1) : Reload(c1, z1)
        \/ \E k \in Keys : Touch(k)
        \/ \E c \in Clusters : Select(c)
Spec == Init /\ [][Next]_vars

------------------------------------------------------------------------
LiveIds == {live[k] : k \in conf}
ReleasedAtMostOnce == \A i \in 1..nid : ost[i].rel <= 1
LiveNotReleased == \A i \in LiveIds : ost[i].rel = 0
DeadReleased == \A i \in (1..nid) \ LiveIds : ost[i].rel = 1
OnePerKey == \A k1, k2 \in conf : live[k1] = live[k2] => k1 = k2
SelectLive == sel.id # 0 => sel.id \in LiveIds /\ ost[sel.id].key[1] = sel.c /\ ost[sel.id].avail
SelectPositive == sel.id # 0 => (~(<<ost[sel.id].key[1], ost[sel.id].key[2]>> \in zero) \/ PosDown(sel.c))
=======================================================================
