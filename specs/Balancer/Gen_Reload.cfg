CONSTANTS
  Clusters = {"c1", "c2"}
  Subs = {"s1", "s2"}
  Backs = {@BACKS@}
  MaxReloads = @RELOADS@
  MaxTouch = @TOUCH@
  MaxIds = 60
  MaxOps = @OPS@
INIT GInit
NEXT GNext
INVARIANT Emit
CHECK_DEADLOCK FALSE
