--------------------------- MODULE GenSlb ---------------------------
(* Behaviour generator: Slb plus a history variable; every behaviour of full length *)
(* is printed as one JSON case (ops with arguments and the mechanism's reply).      *)
EXTENDS Slb, Json
CONSTANTS MaxOps,
          Focus      \* TRUE: reloads change one thing only (remove / re-add backends with all other weights kept, or change one weight)
VARIABLES h, fin
gvars == <<vars, h, fin>>

Op(o) == Len(h) <= MaxOps /\ h' = Append(h, o) /\ fin' = FALSE
Hdr == [op |-> "load", n |-> N, ord |-> ord, w |-> w]

GInit == Init /\ h = <<[op |-> "load", n |-> N, ord |-> ord, w |-> w]>> /\ fin = FALSE

GNext ==
  \/ SmoothPick /\ Op([op |-> "pick", algo |-> "smooth", r |-> 0, expM |-> reply'.b])
  \/ WlcSmoothPick /\ Op([op |-> "pick", algo |-> "wlc_smooth", r |-> 0, expM |-> reply'.b])
  \/ SimplePick /\ Op([op |-> "pick", algo |-> "simple", r |-> 0, expM |-> -1])
  \/ \E i \in 1..(N + 1) : WlcSimplePick(i) /\ Op([op |-> "pick", algo |-> "wlc_simple", r |-> 0, expM |-> -1])
  \/ \E r \in 0..MaxWsum : StickyPick(r) /\ Op([op |-> "pick", algo |-> "sticky", r |-> r, expM |-> reply'.b])
  \/ \E b \in B : Flip(b) /\ Op([op |-> "flip", b |-> b])
  \/ \E b \in B, d \in {-1, 1} : ConnOp(b, d) /\ Op([op |-> "conn", b |-> b, d |-> d])
  \/ \E nw \in [B -> Weights], keep \in SUBSET B :
        /\ (Focus => ((\A b \in keep \cap InList : nw[b] = w[b])
                       \/ (keep = InList /\ Cardinality({b \in B : nw[b] # w[b]}) = 1)))
        /\ Update(nw, keep) /\ Op([op |-> "update", w |-> nw, keep |-> SortedOf(keep)])
  \/ Len(h) = MaxOps + 1 /\ ~fin /\ fin' = TRUE /\ UNCHANGED <<vars, h>>

\* printed once per behaviour, when it has reached full length
Emit == fin => PrintT(ToJson([ops |-> h]))
=====================================================================
