---------------------------- MODULE SlbP ----------------------------
(* Layer P of the in-sub-cluster balancer (bfe_balance/bal_slb): only what the     *)
(* properties C01/C03/C04/C05 talk about and what is observable through the public *)
(* API: configured weights, availability, connection counts, the replies.          *)
(* No tie-break rule, no `current` vector, no list order appears here.             *)
EXTENDS Integers, Sequences, FiniteSets

CONSTANT N                 \* number of backend slots (ids 1..N; id = rank by address)
B == 1..N

VARIABLES w,               \* [B -> Int]   configured weight (<= 0 : not selectable)
          avail,           \* [B -> BOOLEAN]
          conns,           \* [B -> Nat]   active connections
          hist,            \* Seq(B)       smooth picks since the last load point
          fresh,           \* TRUE while eligible set and weights are those of the load point
                           \* and only smooth picks were made since
          reply            \* [algo, b, allowed] last reply; b = 0 is "error"
pvars == <<w, avail, conns, hist, fresh, reply>>

Eligible == {b \in B : avail[b] /\ w[b] > 0}

RECURSIVE SumOver(_, _)
SumOver(f, S) == IF S = {} THEN 0
                 ELSE LET x == CHOOSE y \in S : TRUE IN f[x] + SumOver(f, S \ {x})
W == SumOver(w, Eligible)

\* C04: minimal conns/weight, by cross-multiplication
ArgMin == {b \in Eligible : \A c \in Eligible : conns[b] * w[c] <= conns[c] * w[b]}

\* what a pick with algorithm a may return in the current state (C03, C04)
Allowed(a) == IF a \in {"wlc_smooth", "wlc_simple"} THEN ArgMin ELSE Eligible

NoReply == [algo |-> "none", b |-> 0, allowed |-> {}]

PInit(w0, av0) == /\ w = w0 /\ avail = av0
                  /\ conns = [b \in B |-> 0]
                  /\ hist = <<>> /\ fresh = TRUE /\ reply = NoReply

\* state change of a pick that returned b (0 = error) under algorithm a
PApplyPick(a, b) ==
    /\ reply' = [algo |-> a, b |-> b, allowed |-> Allowed(a)]
    /\ IF a = "smooth" /\ fresh /\ b # 0
         THEN hist' = Append(hist, b) /\ fresh' = fresh
         ELSE IF a = "smooth" THEN UNCHANGED <<hist, fresh>>
              ELSE hist' = <<>> /\ fresh' = FALSE      \* other algorithms disturb the smooth state
    /\ UNCHANGED <<w, avail, conns>>

PFlip(b) == /\ avail' = [avail EXCEPT ![b] = ~@]
            /\ hist' = <<>> /\ fresh' = FALSE /\ reply' = NoReply
            /\ UNCHANGED <<w, conns>>

PConn(b, d) == /\ conns[b] + d >= 0
               /\ conns' = [conns EXCEPT ![b] = @ + d]
               /\ reply' = NoReply
               /\ UNCHANGED <<w, avail, hist, fresh>>

\* (re)load: new weights (0 for backends that are not configured any more), availability and
\* connection counts of the configured backends after the reload; a load point for C01
PUpdate(nw, av1, cn1) == /\ w' = nw /\ hist' = <<>> /\ fresh' = TRUE /\ reply' = NoReply
                         /\ avail' = av1 /\ conns' = cn1

------------------------------------------------------------------------
\* Layer-P obligations

\* C03 + "error exactly when nothing is eligible"
ReplyOK == \/ reply.algo = "none"
           \/ reply.b # 0 /\ reply.b \in reply.allowed
           \/ reply.b = 0 /\ reply.allowed = {}

Count(b, s) == Cardinality({i \in 1..Len(s) : s[i] = b})

\* C01: every window of W consecutive smooth picks since the load point holds each
\* eligible backend exactly w[b] times (it suffices to look at the newest window:
\* the invariant is evaluated in every state).
Window == (fresh /\ W > 0 /\ Len(hist) >= W) =>
              \A b \in Eligible : Count(b, SubSeq(hist, Len(hist) - W + 1, Len(hist))) = w[b]

\* C01: the sequence repeats with period W
Periodic == (fresh /\ W > 0 /\ Len(hist) > W) => hist[Len(hist)] = hist[Len(hist) - W]

PTypeOK == /\ hist \in Seq(B) /\ fresh \in BOOLEAN
           /\ \A b \in B : conns[b] >= 0
========================================================================
