----------------------------- MODULE Slb -----------------------------
(* Layer M: the mechanism of bfe_balance/bal_slb/bal_rr.go, one action per public  *)
(* call / critical section (everything runs under brr.Lock).  EXTENDS the Layer-P  *)
(* module; TLC checks that every reachable state of the mechanism satisfies the    *)
(* Layer-P obligations (ReplyOK, Window, Periodic) plus mechanism invariants.      *)
EXTENDS SlbP, TLC

CONSTANTS WLo, WHi,    \* configurable weights are -WLo..WHi (may contain 0 and negatives)
          MaxConn, MaxPicks, MaxFlips, MaxUpdates, MaxConnOps,
          Scale,       \* internal weight = Scale * configured weight (100 in the code)
          AnyOrder,    \* TRUE: every configuration order of the backends; FALSE: address order only
          Algos        \* subset of {"smooth","simple","sticky","wlc_smooth","wlc_simple"}

Weights == (0 - WLo)..WHi

VARIABLES ord,         \* Seq(B): order of brr.backends (config order; sorted after sticky)
          cur,         \* [B -> Int] BackendRR.current
          nxt,         \* brr.next (1-based)
          nops         \* [picks, flips, updates, connops] bounds for model checking
mvars == <<ord, cur, nxt, nops>>
vars == <<pvars, mvars>>

Perms == {s \in [1..N -> B] : \A i, j \in 1..N : i # j => s[i] # s[j]}

RECURSIVE SeqSum(_, _)
SeqSum(f, s) == IF s = <<>> THEN 0 ELSE f[Head(s)] + SeqSum(f, Tail(s))

SelectSeq2(s, Test(_)) == SelectSeq(s, Test)
sw == [b \in B |-> Scale * w[b]]      \* BackendRR.weight
ElSeq(s) == SelectSeq(s, LAMBDA b : avail[b] /\ w[b] > 0)

\* ---- smoothBalance(backs): first strictly-greatest current in list order;
\*      total = sum of currents BEFORE the increment; all += weight; best -= total
RECURSIVE FirstMax(_, _, _)
FirstMax(s, best, c) == IF s = <<>> THEN best
                        ELSE IF best = 0 \/ c[Head(s)] > c[best]
                               THEN FirstMax(Tail(s), Head(s), c)
                               ELSE FirstMax(Tail(s), best, c)
SmoothOn(s, c) ==      \* s: eligible candidates in list order; returns [b, cur]
    IF s = <<>> THEN [b |-> 0, cur |-> c]
    ELSE LET best == FirstMax(s, 0, c)
             total == SeqSum(c, s)
             inS == {s[i] : i \in 1..Len(s)}
         IN [b |-> best,
             cur |-> [x \in B |-> IF x = best THEN c[x] + sw[x] - total
                                  ELSE IF x \in inS THEN c[x] + sw[x] ELSE c[x]]]

\* ---- leastConnsBalance: scan keeps `best`, replaced when strictly smaller ratio
RECURSIVE LcBest(_, _)
LcBest(s, best) == IF s = <<>> THEN best
                   ELSE IF best = 0 THEN LcBest(Tail(s), Head(s))
                   ELSE IF conns[best] * w[Head(s)] - conns[Head(s)] * w[best] > 0
                          THEN LcBest(Tail(s), Head(s))
                          ELSE LcBest(Tail(s), best)
LcCands == LET e == ElSeq(ord)  best == LcBest(e, 0)
           IN IF best = 0 THEN <<>>
              ELSE SelectSeq(e, LAMBDA b : conns[best] * w[b] - conns[b] * w[best] = 0)

\* ---- simpleBalance: the for-loop, with fuel; "diverged" = the loop would not end
Succ1(i) == IF i >= Len(ord) THEN 1 ELSE i + 1
RECURSIVE Scan(_, _, _, _, _)
Scan(i, start, allDown, c, fuel) ==
    IF fuel = 0 THEN [kind |-> "diverged", b |-> 0, cur |-> c, nxt |-> i]
    ELSE LET b == ord[i] IN
         IF avail[b] /\ c[b] > 0
           THEN [kind |-> "ok", b |-> b, cur |-> [c EXCEPT ![b] = @ - 1], nxt |-> Succ1(i)]
           ELSE LET ad == allDown /\ ~(avail[b] /\ w[b] > 0)
                    j == Succ1(i)
                IN IF j = start
                     THEN IF ad THEN [kind |-> "err", b |-> 0, cur |-> c, nxt |-> start]
                          ELSE Scan(1, 1, ad, sw, fuel - 1)        \* initWeight(); next = 0
                     ELSE Scan(j, start, ad, c, fuel - 1)
Simple == IF Len(ord) = 0 THEN [kind |-> "err", b |-> 0, cur |-> cur, nxt |-> nxt]
          ELSE Scan(nxt, nxt, TRUE, cur, 3 * N + 3)

\* ---- stickyBalance(key): eligible sorted by address (= id), cumulative weights
RECURSIVE Walk(_, _)
Walk(s, v) == IF s = <<>> THEN 0
              ELSE IF v - w[Head(s)] < 0 THEN Head(s) ELSE Walk(Tail(s), v - w[Head(s)])
InList == {ord[i] : i \in 1..Len(ord)}
RECURSIVE SortedOf(_)
SortedOf(S) == IF S = {} THEN <<>> ELSE LET m == CHOOSE x \in S : \A y \in S : x <= y IN <<m>> \o SortedOf(S \ {m})
Sorted == SortedOf(InList)

------------------------------------------------------------------------
Init == /\ \E w0 \in [B -> Weights] : PInit(w0, [b \in B |-> TRUE])
        /\ ord \in (IF AnyOrder THEN Perms ELSE {[i \in 1..N |-> i]})
        /\ cur = sw /\ nxt = 1
        /\ nops = [picks |-> 0, flips |-> 0, updates |-> 0, connops |-> 0]

Bump(f) == nops' = [nops EXCEPT ![f] = @ + 1]

CanPick(a) == a \in Algos /\ nops.picks < MaxPicks

SmoothPick == /\ CanPick("smooth")
              /\ LET r == SmoothOn(ElSeq(ord), cur) IN
                   /\ PApplyPick("smooth", r.b) /\ cur' = r.cur
              /\ Bump("picks") /\ UNCHANGED <<ord, nxt>>

WlcSmoothPick == /\ CanPick("wlc_smooth")
                 /\ LET cs == LcCands IN
                      IF Len(cs) = 1 THEN PApplyPick("wlc_smooth", cs[1]) /\ cur' = cur
                      ELSE LET r == SmoothOn(cs, cur) IN
                             PApplyPick("wlc_smooth", r.b) /\ cur' = r.cur
                 /\ Bump("picks") /\ UNCHANGED <<ord, nxt>>

\* randomBalance(candidates): i-th candidate, i chosen by rand
WlcSimplePick(i) == /\ CanPick("wlc_simple")
                    /\ LET cs == LcCands IN
                         IF cs = <<>> THEN i = 1 /\ PApplyPick("wlc_simple", 0)
                         ELSE i \in 1..Len(cs) /\ PApplyPick("wlc_simple", cs[i])
                    /\ Bump("picks") /\ UNCHANGED <<ord, nxt, cur>>

SimplePick == /\ CanPick("simple")
              /\ LET r == Simple IN
                   /\ r.kind # "diverged"      \* checked by invariant SimpleTerminates
                   /\ PApplyPick("simple", r.b) /\ cur' = r.cur /\ nxt' = r.nxt
              /\ Bump("picks") /\ UNCHANGED ord

\* key with hash residue r (mod W)
StickyPick(r) == /\ CanPick("sticky")
                 /\ LET e == ElSeq(Sorted) IN
                      IF e = <<>> THEN r = 0 /\ PApplyPick("sticky", 0)
                      ELSE r \in 0..(W - 1) /\ PApplyPick("sticky", Walk(e, r))
                 /\ ord' = Sorted                \* ensureSortedUnlocked sorts in place
                 /\ Bump("picks") /\ UNCHANGED <<cur, nxt>>

Flip(b) == /\ nops.flips < MaxFlips /\ b \in InList
           /\ PFlip(b)
           /\ Bump("flips") /\ UNCHANGED <<ord, cur, nxt>>

ConnOp(b, d) == /\ nops.connops < MaxConnOps /\ b \in InList
                /\ conns[b] + d <= MaxConn /\ PConn(b, d)
                /\ Bump("connops") /\ UNCHANGED <<ord, cur, nxt>>

\* Update(conf): backends in `keep` stay (UpdateWeight) or are created (at most one new one per
\* reload here: several new ones are appended in map-iteration order), the others are released
\* and leave the list; (after the fix of C01) current restarts from the new weight; next = 0.
Update(nw, keep) ==
    /\ nops.updates < MaxUpdates
    /\ keep # {} /\ \A b \in B \ keep : nw[b] = 0
    /\ Cardinality(keep \ InList) <= 1
    /\ PUpdate(nw, [b \in B |-> IF b \in keep \ InList THEN TRUE ELSE avail[b]],
                   [b \in B |-> IF b \in keep \cap InList THEN conns[b] ELSE 0])     \* new objects: available, no connections
    /\ cur' = [b \in B |-> Scale * nw[b]]
    /\ ord' = SelectSeq(ord, LAMBDA b : b \in keep) \o SortedOf(keep \ InList)
    /\ nxt' = 1 /\ nops' = [nops EXCEPT !.updates = @ + 1, !.picks = 0]

MaxWsum == N * 8
Next == \/ SmoothPick \/ WlcSmoothPick \/ SimplePick
        \/ \E i \in 1..(N + 1) : WlcSimplePick(i)
        \/ \E r \in 0..MaxWsum : StickyPick(r)
        \/ \E b \in B : Flip(b)
        \/ \E b \in B, d \in {-1, 1} : ConnOp(b, d)
        \/ \E nw \in [B -> Weights], keep \in SUBSET B : Update(nw, keep)
Spec == Init /\ [][Next]_vars

------------------------------------------------------------------------
\* mechanism invariants
SimpleTerminates == ("simple" \in Algos) => Simple.kind # "diverged"
\* one smooth pick after a load point the eligible currents sum to W
SumInv == (fresh /\ Len(hist) > 0) => SeqSum(cur, ElSeq(ord)) = Scale * W
NextInRange == Len(ord) > 0 => nxt \in 1..Len(ord)
========================================================================
