------------------------- MODULE TraceHealth -------------------------
(* Validates hook-recorded executions of real backends (concurrent request threads,     *)
(* real health-check goroutines, real release) against Layer P of Health.tla.           *)
(* Events are ordered by a per-backend sequence number taken inside the hook (under the *)
(* backend lock for state-changing events).  g = goroutine that emitted the event.      *)
EXTENDS Integers, Sequences, FiniteSets, TLC, Json

Tr == ndJsonDeserialize("trace.ndjson")
VARIABLES l, FailNum, SuccNum, SuccOld, grace, avail, consec, active, okrun, released, afterRel, dead, bad
\* SuccOld / grace: the health-check configuration can be reloaded while a checker runs; the checker reads it at
\* the top of every iteration, so the iteration whose probe is the first after the change may still use the old value
tvars == <<l, FailNum, SuccNum, SuccOld, grace, avail, consec, active, okrun, released, afterRel, dead, bad>>
Ev == Tr[l]
Mark(why) == bad' = bad \cup {[cid |-> Ev.cid, l |-> l, why |-> why]} /\ dead' = TRUE
Keep == UNCHANGED <<bad, dead>>
Get(f, g) == IF g \in DOMAIN f THEN f[g] ELSE 0
Put(f, g, v) == [x \in DOMAIN f \cup {g} |-> IF x = g THEN v ELSE f[x]]

TInit == /\ l = 1 /\ FailNum = 1 /\ SuccNum = 1 /\ SuccOld = 1 /\ grace = 0 /\ avail = TRUE /\ consec = 0 /\ active = {}
         /\ okrun = <<>> /\ released = FALSE /\ afterRel = <<>> /\ dead = FALSE /\ bad = {}

TNew == /\ Ev.ev = "new"
        /\ FailNum' = Ev.failNum /\ SuccNum' = Ev.succNum /\ SuccOld' = Ev.succNum /\ grace' = 0
        /\ avail' = TRUE /\ consec' = 0 /\ active' = {} /\ okrun' = <<>> /\ released' = FALSE
        /\ afterRel' = <<>> /\ dead' = FALSE /\ UNCHANGED bad

Same == UNCHANGED <<FailNum, SuccNum, SuccOld>> /\ grace' = (IF Ev.ev = "probe" /\ grace > 0 THEN grace - 1 ELSE grace)
NeedK == IF grace > 0 /\ SuccOld < SuccNum THEN SuccOld ELSE SuccNum

TAddFail == /\ Ev.ev = "add_fail" /\ consec' = consec + 1 /\ Keep
            /\ UNCHANGED <<avail, active, okrun, released, afterRel>>
TResetFail == /\ Ev.ev = "reset_fail" /\ consec' = 0 /\ Keep
              /\ UNCHANGED <<avail, active, okrun, released, afterRel>>

TUpdate == /\ Ev.ev = "update_status"
           /\ avail' = Ev.avail
           /\ IF avail /\ ~Ev.avail /\ consec < FailNum THEN Mark("DownBelowThreshold")
              ELSE IF consec >= FailNum /\ Ev.avail THEN Mark("StillInRotationAtThreshold")
              ELSE Keep
           /\ UNCHANGED <<consec, active, okrun, released, afterRel>>

TSetAvail == /\ Ev.ev = "set_avail"
             /\ avail' = Ev.avail
             /\ IF Ev.avail
                  THEN /\ consec' = 0 /\ active' = active \ {Ev.g}
                       /\ IF ~avail /\ ~(Ev.g \in active) THEN Mark("RestoredByNonChecker")
                          ELSE IF ~avail /\ Get(okrun, Ev.g) < NeedK THEN Mark("UpBeforeKSuccesses")
                          ELSE Keep
                  ELSE /\ UNCHANGED <<consec, active>>
                       /\ IF avail /\ consec < FailNum THEN Mark("DownBelowThreshold") ELSE Keep
             /\ UNCHANGED <<okrun, released, afterRel>>

TStart == /\ Ev.ev = "check_start"
          /\ active' = active \cup {Ev.g}
          /\ okrun' = Put(okrun, Ev.g, 0) /\ afterRel' = Put(afterRel, Ev.g, 0)
          /\ IF active # {} THEN Mark("TwoCheckers")
             ELSE IF avail THEN Mark("CheckerWhileInRotation") ELSE Keep
          /\ UNCHANGED <<avail, consec, released>>

TProbe == /\ Ev.ev = "probe"
          /\ okrun' = Put(okrun, Ev.g, IF Ev.arg = 1 THEN Get(okrun, Ev.g) + 1 ELSE 0)
          /\ afterRel' = Put(afterRel, Ev.g, Get(afterRel, Ev.g) + (IF released THEN 1 ELSE 0))
          /\ IF ~(Ev.g \in active) THEN Mark("ProbeByInactiveChecker")
             ELSE IF released /\ Get(afterRel, Ev.g) >= 1 THEN Mark("ProbeAfterRelease")
             ELSE Keep
          /\ UNCHANGED <<avail, consec, active, released>>

TExit == /\ Ev.ev = "check_exit" /\ active' = active \ {Ev.g} /\ Keep
         /\ UNCHANGED <<avail, consec, okrun, released, afterRel>>
TClose == /\ Ev.ev = "close" /\ released' = TRUE /\ Keep
          /\ UNCHANGED <<avail, consec, active, okrun, afterRel>>
\* emitted by the harness after waiting for quiescence
TEnd == /\ Ev.ev = "end"
        /\ IF released /\ active # {} THEN Mark("CheckerNotStoppedAfterRelease")
           ELSE IF Ev.panic THEN Mark("panic") ELSE Keep
        /\ UNCHANGED <<avail, consec, active, okrun, released, afterRel>>
\* Layer-M events carry no Layer-P obligation
\* health-check configuration reloaded (only the success threshold changes here)
TConf == /\ Ev.ev = "conf"
         /\ SuccOld' = (IF grace > 0 /\ SuccOld < SuccNum THEN SuccOld ELSE SuccNum)   \* smallest value still possibly in use
         /\ SuccNum' = Ev.succNum /\ grace' = 2 /\ Keep
         /\ UNCHANGED <<FailNum, avail, consec, active, okrun, released, afterRel>>
TOther == /\ Ev.ev \in {"add_succ", "reset_succ", "check_avail", "inc_conn", "dec_conn"} /\ Keep
          /\ UNCHANGED <<avail, consec, active, okrun, released, afterRel>>
TSkip == /\ dead /\ Ev.ev # "new" /\ Keep
         /\ UNCHANGED <<avail, consec, active, okrun, released, afterRel>>

TNext == /\ l <= Len(Tr) /\ l' = l + 1
         /\ \/ TNew
            \/ ~dead /\ TConf
            \/ dead /\ Ev.ev = "conf" /\ Keep /\ UNCHANGED <<FailNum, SuccNum, SuccOld, grace, avail, consec, active, okrun, released, afterRel>>
            \/ Ev.ev # "conf" /\ Same /\ ~dead /\ (TAddFail \/ TResetFail \/ TUpdate \/ TSetAvail \/ TStart \/ TProbe
                                 \/ TExit \/ TClose \/ TEnd \/ TOther)
            \/ Ev.ev # "conf" /\ Same /\ TSkip
Report == (l = Len(Tr) + 1) => PrintT(ToJson([done |-> TRUE, consumed |-> l - 1, bad |-> bad]))
Accepted == TLCGet("stats").diameter - 1 = Len(Tr)
======================================================================
