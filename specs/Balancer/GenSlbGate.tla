-------------------------- MODULE GenSlbGate --------------------------
EXTENDS SlbGate, Json
Emit == done => PrintT(ToJson([w |-> w, conns |-> conns, av |-> av0, flips |-> flips, algo |-> algo,
                               could |-> Could, errOk |-> NoneAtSomeInstant, mOut |-> out]))
=======================================================================
