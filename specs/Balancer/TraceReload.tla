------------------------- MODULE TraceReload -------------------------
(* Validates reload histories recorded from the real bfe_balance.BalTable against       *)
(* Layer P of Reload.tla.  Every init/reload event carries the configuration and a      *)
(* snapshot of the objects reachable from the table (key, object id, avail, conn) plus  *)
(* the ids of all objects seen so far whose close channel is closed.                    *)
EXTENDS Integers, Sequences, FiniteSets, TLC, Json

Tr == ndJsonDeserialize("trace.ndjson")
VARIABLES l, conf, zero, live, st, seen, closed, dead, bad
\* conf: set of keys; live: [key -> id]; st: [id -> [avail, conn]]; seen, closed: sets of ids
tvars == <<l, conf, zero, live, st, seen, closed, dead, bad>>
Ev == Tr[l]
Mark(why) == bad' = bad \cup {[cid |-> Ev.cid, l |-> l, why |-> why]}

ToSet(s) == {s[i] : i \in 1..Len(s)}
SnapKeys(sn) == {sn[i].key : i \in 1..Len(sn)}
SnapOf(sn, k) == CHOOSE i \in 1..Len(sn) : sn[i].key = k

TInit == /\ l = 1 /\ conf = {} /\ zero = {} /\ live = <<>> /\ st = <<>> /\ seen = {} /\ closed = {}
         /\ dead = FALSE /\ bad = {}

\* Layer-P verdict for a (re)load from (conf, live, st, seen, closed) to configuration c1 with
\* snapshot sn and closed-id set cl
Verdict(c1, sn, cl) ==
    LET keep == conf \cap c1  gone == conf \ c1  new == c1 \ conf IN
    IF Ev.panic THEN "panic"
    ELSE IF \E i, j \in 1..Len(sn) : i # j /\ sn[i].key = sn[j].key THEN "DuplicateLiveObject"
    ELSE IF \E k \in c1 : ~(k \in SnapKeys(sn)) THEN "KeyNotSelectable"
    ELSE IF \E k \in SnapKeys(sn) : ~(k \in c1) THEN "StaleObjectLive"
    ELSE IF \E k \in keep : sn[SnapOf(sn, k)].id # live[k] THEN "SurvivorReplaced"
    ELSE IF \E k \in keep : LET o == sn[SnapOf(sn, k)] IN
                              o.avail # st[live[k]].avail \/ o.conn # st[live[k]].conn
         THEN "SurvivorStateChanged"
    ELSE IF \E k \in gone : ~(live[k] \in cl) THEN "RemovedNotReleased"
    ELSE IF \E i \in 1..Len(sn) : sn[i].id \in cl THEN "LiveObjectReleased"
    ELSE IF \E k \in new : sn[SnapOf(sn, k)].id \in seen THEN "NewNotFresh"
    ELSE IF \E k \in new : LET o == sn[SnapOf(sn, k)] IN ~o.avail \/ o.conn # 0 THEN "NewNotClean"
    ELSE IF ~(closed \subseteq cl) THEN "ReleasedObjectReopened"
    ELSE "ok"

TLoad == /\ Ev.ev \in {"init", "reload"}
         /\ (Ev.ev = "reload" => ~dead)
         /\ LET c1 == ToSet(Ev.conf)  sn == Ev.snap  cl == ToSet(Ev.closed)
                v == IF Ev.ev = "init"
                       THEN (IF Ev.panic THEN "panic"
                             ELSE IF SnapKeys(sn) # c1 THEN "KeyNotSelectable" ELSE "ok")
                       ELSE Verdict(c1, sn, cl)
            IN /\ IF v = "ok" THEN bad' = bad /\ dead' = FALSE ELSE Mark(v) /\ dead' = TRUE
               /\ conf' = c1 /\ zero' = ToSet(Ev.zero)
               /\ live' = [k \in SnapKeys(sn) |-> sn[SnapOf(sn, k)].id]
               /\ st' = [i \in {sn[j].id : j \in 1..Len(sn)} |->
                           LET o == sn[CHOOSE j \in 1..Len(sn) : sn[j].id = i]
                           IN [avail |-> o.avail, conn |-> o.conn]]
               /\ seen' = (IF Ev.ev = "init" THEN {} ELSE seen) \cup {sn[j].id : j \in 1..Len(sn)}
               /\ closed' = cl

TTouch == /\ Ev.ev = "touch" /\ ~dead
          /\ st' = [st EXCEPT ![Ev.id] = [avail |-> Ev.avail, conn |-> Ev.conn]]
          /\ UNCHANGED <<conf, zero, live, seen, closed, dead, bad>>

TSelect == /\ Ev.ev = "select" /\ ~dead
           /\ LET ids == {live[k] : k \in {x \in conf : x[1] = Ev.c}}
                  okids == {i \in ids : st[i].avail}
                  subs == {<<k[1], k[2]>> : k \in {x \in conf : x[1] = Ev.c}}
                  posDown == \E s \in subs : ~(s \in zero) /\ \A k \in conf : (k[1] = s[1] /\ k[2] = s[2]) => ~st[live[k]].avail
                  subOf(i) == LET k == CHOOSE x \in conf : live[x] = i IN <<k[1], k[2]>>
              IN IF Ev.id = 0 - 1 THEN Mark("panic")
                 ELSE IF Ev.id = 0 THEN (IF okids = {} THEN bad' = bad ELSE Mark("SelectFailsAlthoughEligible"))
                 ELSE IF Ev.id \in closed THEN Mark("SelectReleased")
                 ELSE IF ~(Ev.id \in okids) THEN Mark("SelectNotLiveEligible")
                 ELSE IF subOf(Ev.id) \in zero /\ ~posDown THEN Mark("SelectZeroWeightSubCluster")
                 ELSE bad' = bad
           /\ UNCHANGED <<conf, zero, live, st, seen, closed, dead>>

TSkip == /\ Ev.ev \in {"touch", "select", "reload"} /\ dead
         /\ UNCHANGED <<conf, zero, live, st, seen, closed, dead, bad>>

TNext == l <= Len(Tr) /\ l' = l + 1 /\ (TLoad \/ TTouch \/ TSelect \/ TSkip)
Report == (l = Len(Tr) + 1) => PrintT(ToJson([done |-> TRUE, consumed |-> l - 1, bad |-> bad]))
Accepted == TLCGet("stats").diameter - 1 = Len(Tr)
======================================================================
