CONSTANTS
  Clusters = {"c1", "c2"}
  Subs = {"s1"@SUBS@}
  Backs = {"b1", "b2"}
  MaxReloads = @RELOADS@
  MaxTouch = @TOUCH@
  MaxIds = 12
INIT Init
NEXT Next
INVARIANTS ReleasedAtMostOnce LiveNotReleased DeadReleased OnePerKey SelectLive SelectPositive
CHECK_DEADLOCK FALSE
