CONSTANTS
  N = @N@
  MaxW = @MAXW@
INIT Init
NEXT Next
INVARIANT MPartition
CHECK_DEADLOCK FALSE
