CONSTANTS
  N = 4
  MaxW = 9
INIT TInit
NEXT TNext
INVARIANT Report
POSTCONDITION Accepted
CHECK_DEADLOCK FALSE
