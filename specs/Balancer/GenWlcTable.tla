--------------------------- MODULE GenWlcTable ---------------------------
(* C04 decision table: every (weight vector, connection-count vector) for N backends, as one  *)
(* history each: load, the ConnOps that build the counts, then WLC picks.  No expectation is  *)
(* printed: the recorded replies are judged by TraceSlb against SlbP.ArgMin (Layer P) in the  *)
(* state the trace has reached.  N = 4 with two weight classes reaches the shapes the         *)
(* exhaustive mechanism model (N <= 3) cannot: a minimum that is not first in the list, ties   *)
(* among backends of different weight, and non-minimal backends after them.                   *)
EXTENDS Integers, Sequences, Json, TLC
CONSTANTS N, Ws, MaxC, Picks, Algo
VARIABLE x
Init == x \in [w : [1..N -> Ws], c : [1..N -> 0..MaxC]]
Next == UNCHANGED x
RECURSIVE Rep(_, _)
Rep(e, k) == IF k = 0 THEN <<>> ELSE <<e>> \o Rep(e, k - 1)
RECURSIVE Conns(_, _)
Conns(c, b) == IF b > N THEN <<>> ELSE Rep([op |-> "conn", b |-> b, d |-> 1], c[b]) \o Conns(c, b + 1)
Ops(v) == <<[op |-> "load", n |-> N, ord |-> [i \in 1..N |-> i], w |-> v.w]>>
          \o Conns(v.c, 1) \o Rep([op |-> "pick", algo |-> Algo, r |-> 0], Picks)
Emit == PrintT(ToJson([ops |-> Ops(x)]))
===========================================================================
