CONSTANTS
  FailNum = @FAILNUM@
  SuccNum = @SUCCNUM@
  Threads = {1, 2@T3@}
  MaxCk = 3
  MaxFails = @MAXFAILS@
  MaxProbes = @MAXPROBES@
INIT Init
NEXT Next
INVARIANTS AtMostOneChecker DownOnlyAtThreshold DownAtThreshold UpOnlyAfterK NoProbeAfterRelease TypeOK
CHECK_DEADLOCK FALSE
