---------------------------- MODULE Health ----------------------------
(* C06: health state machine of one backend (bfe_balance/backend).  One action per     *)
(* critical section of the code: request threads run OnFail = AddFail ; UpdateStatus    *)
(* (two separately scheduled steps) and OnSuccess = ResetFail; a checker goroutine runs *)
(* poll -> probe -> (ok: AddSucc ; CheckAvail ; [SetAvail(true) ; exit]) | (fail:       *)
(* ResetSucc); Release closes the backend.                                              *)
(* Layer P (history variables only): out of rotation exactly at the failure threshold,  *)
(* at most one checker probing, back only after SuccNum consecutive successful probes,  *)
(* no probing after release (beyond one probe already in flight).                       *)
EXTENDS Integers, Sequences, FiniteSets, TLC

CONSTANTS FailNum, SuccNum, Threads, MaxCk, MaxFails, MaxProbes

VARIABLES avail, failNum, succNum,      \* BfeBackend fields (Layer M)
          tpc,                          \* [Threads -> {"idle","upd"}] OnFail between its two steps
          cpc,                          \* [1..MaxCk -> {"none","poll","probed_ok","probed_fail","checked_ok","exiting","done"}]
          nck, released,
          nfails, nprobes,              \* bounds
          \* history (Layer P)
          consec,                       \* consecutive request failures since the last success/restore
          okrun,                        \* [1..MaxCk -> consecutive successful probes of checker c]
          afterRel,                     \* [1..MaxCk -> probes started after release]
          lastEv                        \* last step, for action-style obligations
vars == <<avail, failNum, succNum, tpc, cpc, nck, released, nfails, nprobes, consec, okrun, afterRel, lastEv>>

Ck == 1..MaxCk
Active(c) == cpc[c] \in {"poll", "probing", "probed_ok", "probed_fail", "checked_ok"}

Init == /\ avail = TRUE /\ failNum = 0 /\ succNum = 0
        /\ tpc = [t \in Threads |-> "idle"]
        /\ cpc = [c \in Ck |-> "none"] /\ nck = 0 /\ released = FALSE
        /\ nfails = 0 /\ nprobes = 0 /\ consec = 0
        /\ okrun = [c \in Ck |-> 0] /\ afterRel = [c \in Ck |-> 0]
        /\ lastEv = [ev |-> "init", down |-> FALSE, up |-> FALSE, ck |-> 0]

Ev(e, d, u, c) == lastEv' = [ev |-> e, down |-> d, up |-> u, ck |-> c]

\* ---- request threads
AddFail(t) == /\ tpc[t] = "idle" /\ nfails < MaxFails
              /\ failNum' = failNum + 1 /\ consec' = consec + 1
              /\ tpc' = [tpc EXCEPT ![t] = "upd"] /\ nfails' = nfails + 1
              /\ Ev("add_fail", FALSE, FALSE, 0)
              /\ UNCHANGED <<avail, succNum, cpc, nck, released, nprobes, okrun, afterRel>>

UpdateStatus(t) ==
    /\ tpc[t] = "upd" /\ tpc' = [tpc EXCEPT ![t] = "idle"]
    /\ IF failNum >= FailNum
         THEN /\ avail' = FALSE
              /\ IF avail /\ nck < MaxCk          \* true -> false edge spawns the checker
                   THEN /\ nck' = nck + 1
                        /\ cpc' = [cpc EXCEPT ![nck + 1] = "poll"]
                   ELSE UNCHANGED <<nck, cpc>>
              /\ Ev("update_status", avail, FALSE, 0)
         ELSE /\ UNCHANGED <<avail, nck, cpc>> /\ Ev("update_status", FALSE, FALSE, 0)
    /\ UNCHANGED <<failNum, succNum, released, nfails, nprobes, consec, okrun, afterRel>>

OnSuccess(t) == /\ tpc[t] = "idle"
                /\ failNum' = 0 /\ consec' = 0
                /\ Ev("reset_fail", FALSE, FALSE, 0)
                /\ UNCHANGED <<avail, succNum, tpc, cpc, nck, released, nfails, nprobes, okrun, afterRel>>

\* ---- checker c
PollOpen(c) ==          \* select on closeChan: not closed -> go on to CheckConnect
    /\ cpc[c] = "poll" /\ ~released
    /\ cpc' = [cpc EXCEPT ![c] = "probing"] /\ Ev("poll", FALSE, FALSE, c)
    /\ UNCHANGED <<avail, failNum, succNum, tpc, nck, released, nfails, nprobes, consec, okrun, afterRel>>

Probe(c, ok) ==         \* CheckConnect returns
    /\ cpc[c] = "probing"
    /\ nprobes < MaxProbes /\ nprobes' = nprobes + 1
    /\ cpc' = [cpc EXCEPT ![c] = IF ok THEN "probed_ok" ELSE "probed_fail"]
    /\ okrun' = [okrun EXCEPT ![c] = IF ok THEN @ + 1 ELSE 0]
    /\ afterRel' = [afterRel EXCEPT ![c] = IF released THEN @ + 1 ELSE @]
    /\ Ev("probe", FALSE, FALSE, c)
    /\ UNCHANGED <<avail, failNum, succNum, tpc, nck, released, nfails, consec>>

SeeClosed(c) == /\ cpc[c] = "poll" /\ released
                /\ cpc' = [cpc EXCEPT ![c] = "done"] /\ Ev("check_exit", FALSE, FALSE, c)
                /\ UNCHANGED <<avail, failNum, succNum, tpc, nck, released, nfails, nprobes, consec, okrun, afterRel>>

ResetSucc(c) == /\ cpc[c] = "probed_fail" /\ succNum' = 0
                /\ cpc' = [cpc EXCEPT ![c] = "poll"] /\ Ev("reset_succ", FALSE, FALSE, c)
                /\ UNCHANGED <<avail, failNum, tpc, nck, released, nfails, nprobes, consec, okrun, afterRel>>

AddSuccCheck(c) ==      \* AddSuccNum ; CheckAvail (both under the lock; merged: no other writer of succNum)
    /\ cpc[c] = "probed_ok"
    /\ IF succNum + 1 >= SuccNum
         THEN succNum' = 0 /\ cpc' = [cpc EXCEPT ![c] = "checked_ok"]
         ELSE succNum' = succNum + 1 /\ cpc' = [cpc EXCEPT ![c] = "poll"]
    /\ Ev("check_avail", FALSE, FALSE, c)
    /\ UNCHANGED <<avail, failNum, tpc, nck, released, nfails, nprobes, consec, okrun, afterRel>>

Restore(c) ==           \* SetAvail(true): failNum = 0
    /\ cpc[c] = "checked_ok"
    /\ avail' = TRUE /\ failNum' = 0 /\ consec' = 0
    /\ cpc' = [cpc EXCEPT ![c] = "exiting"] /\ Ev("set_avail", FALSE, ~avail, c)
    /\ UNCHANGED <<succNum, tpc, nck, released, nfails, nprobes, okrun, afterRel>>

Exit(c) == /\ cpc[c] = "exiting" /\ cpc' = [cpc EXCEPT ![c] = "done"] /\ Ev("check_exit", FALSE, FALSE, c)
           /\ UNCHANGED <<avail, failNum, succNum, tpc, nck, released, nfails, nprobes, consec, okrun, afterRel>>

Release == /\ ~released /\ released' = TRUE /\ Ev("close", FALSE, FALSE, 0)
           /\ UNCHANGED <<avail, failNum, succNum, tpc, cpc, nck, nfails, nprobes, consec, okrun, afterRel>>

Next == \/ \E t \in Threads : AddFail(t) \/ UpdateStatus(t) \/ OnSuccess(t)
        \/ \E c \in Ck : PollOpen(c) \/ (\E ok \in BOOLEAN : Probe(c, ok)) \/ SeeClosed(c) \/ ResetSucc(c)
                         \/ AddSuccCheck(c) \/ Restore(c) \/ Exit(c)
        \/ Release
Spec == Init /\ [][Next]_vars

------------------------------------------------------------------------
\* Layer P
AtMostOneChecker == Cardinality({c \in Ck : Active(c)}) <= 1
\* leaves rotation only at the threshold ...
DownOnlyAtThreshold == lastEv.down => failNum >= FailNum
\* ... and at the threshold it does leave: after an UpdateStatus step that saw >= FailNum failures
DownAtThreshold == (lastEv.ev = "update_status" /\ failNum >= FailNum) => ~avail
\* back only after SuccNum consecutive successful probes of the restoring checker
UpOnlyAfterK == lastEv.up => okrun[lastEv.ck] >= SuccNum
\* a released backend stops being checked: at most the probe already in flight
NoProbeAfterRelease == \A c \in Ck : afterRel[c] <= 1
\* the checker budget of the model is never the limiting factor
CheckerBudget == nck <= MaxCk
TypeOK == failNum >= 0 /\ succNum >= 0 /\ succNum < SuccNum + 1
=======================================================================
