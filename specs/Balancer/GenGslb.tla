--------------------------- MODULE GenGslb ---------------------------
EXTENDS Gslb, Json
Emit == done =>
          PrintT(ToJson([sw |-> sw, shape |-> shape, retryMax |-> retryMax,
                         crossRetry |-> crossRetry, rt |-> rt, r |-> r, expect |-> out]))
======================================================================
