--------------------------- MODULE TraceSlb ---------------------------
(* Trace validation of real executions of bal_slb.BalanceRR against Layer P.        *)
(* trace.ndjson holds many recorded cases back to back; every event is one step,    *)
(* every Layer-P obligation is evaluated in every state reached, and the cases in   *)
(* which one fails are collected in `bad` (printed once at the end).  An event that *)
(* no Layer-P action explains (panic, hang, impossible reply) is recorded as bad    *)
(* and the rest of that case is skipped.                                            *)
EXTENDS SlbP, Json, TLC

Trace == ndJsonDeserialize("trace.ndjson")

VARIABLES l,       \* next event to consume
          dead,    \* current case already rejected
          bad      \* set of [cid, l, why]
tvars == <<pvars, l, dead, bad>>

Ev == Trace[l]
Mark(why) == bad' = bad \cup {[cid |-> Ev.cid, l |-> l, why |-> why]}

TInit == /\ l = 1 /\ dead = FALSE /\ bad = {}
         /\ w = [b \in B |-> 0] /\ avail = [b \in B |-> FALSE]
         /\ conns = [b \in B |-> 0] /\ hist = <<>> /\ fresh = FALSE /\ reply = NoReply

\* a new case starts: reset to its load point
TLoad == /\ Ev.ev = "load"
         /\ w' = Ev.w /\ avail' = Ev.av
         /\ conns' = [b \in B |-> 0] /\ hist' = <<>> /\ fresh' = TRUE /\ reply' = NoReply
         /\ dead' = FALSE /\ UNCHANGED bad

Skip == /\ Ev.ev # "load" /\ dead /\ UNCHANGED <<pvars, dead, bad>>

\* C01: a second object built from the same ordered weight list (other names and
\* addresses) is stepped side by side; its reply is logged as b2
\* b3: an object freshly built at the last load point from the balancer's ordered weight list
Obligations == IF "b2" \in DOMAIN Ev /\ Ev.b2 # Ev.b THEN "Deterministic"
               ELSE IF "b3" \in DOMAIN Ev /\ fresh' /\ Ev.algo = "smooth" /\ Ev.b3 # Ev.b THEN "FreshDeterministic"
               ELSE IF ~ReplyOK' THEN "ReplyOK"
               ELSE IF ~Window' THEN "Window"
               ELSE IF ~Periodic' THEN "Periodic" ELSE "ok"

TPick == /\ Ev.ev = "pick" /\ ~dead
         /\ IF Ev.b \in 0..N
              THEN /\ PApplyPick(Ev.algo, Ev.b)
                   /\ LET o == Obligations IN
                        IF o = "ok" THEN UNCHANGED <<dead, bad>>
                        ELSE Mark(o) /\ dead' = TRUE
              ELSE /\ Mark(IF Ev.b = -1 THEN "panic" ELSE IF Ev.b = -2 THEN "hang" ELSE "unknown-backend")
                   /\ dead' = TRUE /\ UNCHANGED pvars

\* Slow start (C04 with ramping weights): the effective weight of a restarted backend grows with
\* time, so the event carries the effective weights read just before (wlo/whi = componentwise
\* min/max of the two snapshots) and after the call.  The reply must be minimal for SOME weight
\* vector in that box: b's ratio with its largest weight is not above c's ratio with its smallest.
RangeOK(b) == /\ avail[b] /\ w[b] > 0 /\ Ev.whi[b] > 0     \* configured weight > 0: a drained backend stays out
              /\ (Ev.algo \in {"wlc_smooth", "wlc_simple"} =>
                    \A c \in B : (avail[c] /\ w[c] > 0 /\ Ev.wlo[c] > 0) => conns[b] * Ev.wlo[c] <= conns[c] * Ev.whi[b])
TPickW == /\ Ev.ev = "pickw" /\ ~dead
          /\ IF Ev.b = 0 - 1 THEN Mark("panic") /\ dead' = TRUE
             ELSE IF Ev.b = 0 - 2 THEN Mark("hang") /\ dead' = TRUE
             ELSE IF Ev.b = 0 THEN (IF \E c \in B : avail[c] /\ w[c] > 0 /\ Ev.wlo[c] > 0 THEN Mark("ReplyOK") /\ dead' = TRUE
                                    ELSE UNCHANGED <<dead, bad>>)
             ELSE IF Ev.b \in B /\ RangeOK(Ev.b) THEN UNCHANGED <<dead, bad>>
             ELSE Mark("ReplyOK") /\ dead' = TRUE
          /\ hist' = <<>> /\ fresh' = FALSE /\ reply' = NoReply /\ UNCHANGED <<w, avail, conns>>

\* C01 "slow start finished": from the instant the ramp-up period is over the shares must be the
\* configured ones again.  The smooth state is not restarted at that instant, so single windows are
\* not judged; over L picks each backend's count must stay within 2W of L*w/W.
TSsDone == /\ Ev.ev = "ssdone" /\ ~dead /\ hist' = <<>> /\ fresh' = FALSE /\ reply' = NoReply
           /\ UNCHANGED <<w, avail, conns, dead, bad>>
TPShare == /\ Ev.ev = "pshare" /\ ~dead
           /\ IF Ev.b \in Eligible THEN hist' = Append(hist, Ev.b) /\ UNCHANGED <<dead, bad>>
              ELSE Mark("ReplyOK") /\ dead' = TRUE /\ UNCHANGED hist
           /\ UNCHANGED <<w, avail, conns, fresh, reply>>
TShareCheck == /\ Ev.ev = "sharecheck" /\ ~dead
               /\ IF W > 0 /\ \E b \in Eligible :
                        LET d == Count(b, hist) * W - Len(hist) * w[b] IN d > 2 * W * W \/ (0 - d) > 2 * W * W
                    THEN Mark("ShareAfterSlowStart") /\ dead' = TRUE ELSE UNCHANGED <<dead, bad>>
               /\ UNCHANGED pvars

TFlip == /\ Ev.ev = "flip" /\ ~dead /\ PFlip(Ev.b) /\ UNCHANGED <<dead, bad>>
TConn == /\ Ev.ev = "conn" /\ ~dead /\ PConn(Ev.b, Ev.d) /\ UNCHANGED <<dead, bad>>
TUpdate == /\ Ev.ev = "update" /\ ~dead /\ PUpdate(Ev.w, Ev.av, Ev.cn) /\ UNCHANGED <<dead, bad>>

TNext == /\ l <= Len(Trace) /\ l' = l + 1
         /\ (TLoad \/ Skip \/ TPick \/ TPickW \/ TSsDone \/ TPShare \/ TShareCheck \/ TFlip \/ TConn \/ TUpdate)
TSpec == TInit /\ [][TNext]_tvars

\* printed when the whole trace has been consumed
Report == (l = Len(Trace) + 1) =>
             PrintT(ToJson([done |-> TRUE, consumed |-> l - 1, bad |-> bad]))
\* every line must be explained by exactly one step: the search is linear
Accepted == TLCGet("stats").diameter - 1 = Len(Trace)
=======================================================================
