-------------------------- MODULE GenHealth --------------------------
(* Script generator for C06: the environment inputs of a Health.tla behaviour (which     *)
(* thread reports a failure/success, whether the next probe succeeds, when the backend   *)
(* is released) are printed; the harness plays them against the real backend with real  *)
(* goroutines and records what actually happened.                                        *)
EXTENDS Health, Json
CONSTANT MaxOps
VARIABLES h, fin
Op(o) == Len(h) < MaxOps /\ h' = Append(h, o) /\ fin' = FALSE
Quiet == h' = h /\ fin' = FALSE
GInit == Init /\ h = <<>> /\ fin = FALSE
GNext ==
  \/ \E t \in Threads : AddFail(t) /\ Op([op |-> "fail", t |-> t])
  \/ \E t \in Threads : UpdateStatus(t) /\ Quiet
  \/ \E t \in Threads : OnSuccess(t) /\ Op([op |-> "succ", t |-> t])
  \/ \E c \in Ck : PollOpen(c) /\ Quiet
  \/ \E c \in Ck, ok \in BOOLEAN : Probe(c, ok) /\ Op([op |-> "probe", ok |-> ok])
  \/ \E c \in Ck : (SeeClosed(c) \/ ResetSucc(c) \/ AddSuccCheck(c) \/ Restore(c) \/ Exit(c)) /\ Quiet
  \/ Release /\ Op([op |-> "release"])
  \/ ~fin /\ fin' = TRUE /\ UNCHANGED <<vars, h>> /\ Len(h) >= MaxOps
Emit == fin => PrintT(ToJson([failNum |-> FailNum, succNum |-> SuccNum, ops |-> h]))
======================================================================
