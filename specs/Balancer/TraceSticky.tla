-------------------------- MODULE TraceSticky --------------------------
(* Validates residue tables recorded from bal_slb (sticky) / bal_gslb (hash sub-cluster *)
(* selection) against Layer P of Sticky.tla: Partition, OnlyEligible, Stable (a second   *)
(* key with the same residue, and the same key again, give the same target) and          *)
(* OrderIndep (every configuration order / hash strategy / fresh object gives the table  *)
(* of the first one).                                                                    *)
EXTENDS Sticky, Json

Tr == ndJsonDeserialize("trace.ndjson")
VARIABLES l, ref, bad
tvars == <<vars, l, ref, bad>>
Ev == Tr[l]
Mark(why) == bad' = bad \cup {[cid |-> Ev.cid, l |-> l, why |-> why]}

TInit == /\ l = 1 /\ ref = <<>> /\ bad = {}
         /\ w = [b \in B |-> 0] /\ av = [b \in B |-> FALSE]

TCfg == /\ Ev.ev = "cfg" /\ w' = Ev.w /\ av' = Ev.av /\ ref' = <<>> /\ UNCHANGED bad

\* the recorded table is 1-indexed in JSON: residue r is t[r + 1]
T0(t) == [r \in 0..(Len(t) - 1) |-> t[r + 1]]
Verdict(t, t2, T) ==
    IF W = 0 THEN (IF T = 0 - 1 \/ (T = 0 /\ t[1] = 0) THEN "ok" ELSE "TargetAlthoughNoneEligible")
    ELSE IF T <= 0 \/ Len(t) # T THEN "NoTable"
    ELSE IF \E i \in 1..T : t[i] < 0 \/ t2[i] = -1 THEN "panic"
    ELSE IF ~OnlyEligible(T0(t), T) THEN "OnlyEligible"
    ELSE IF t2 # t THEN "Stable"
    ELSE IF ~Partition(T0(t), T) THEN "Partition"
    ELSE IF ref # <<>> /\ ref # t THEN "OrderIndep"
    ELSE "ok"

TTab == /\ Ev.ev = "tab"
        /\ LET v == Verdict(Ev.tab, Ev.tab2, Ev.T) IN
             IF v = "ok" THEN UNCHANGED bad ELSE Mark(v)
        /\ ref' = IF ref = <<>> THEN Ev.tab ELSE ref
        /\ UNCHANGED vars

TNext == l <= Len(Tr) /\ l' = l + 1 /\ (TCfg \/ TTab)
Report == (l = Len(Tr) + 1) => PrintT(ToJson([done |-> TRUE, consumed |-> l - 1, bad |-> bad]))
Accepted == TLCGet("stats").diameter - 1 = Len(Tr)
=========================================================================
