-------------------------- MODULE GenReload --------------------------
EXTENDS Reload, Json
CONSTANT MaxOps
VARIABLES h, fin
gvars == <<vars, h, fin>>
KeySeq(S) == LET RECURSIVE F(_)
                 F(T) == IF T = {} THEN <<>> ELSE LET k == CHOOSE x \in T : TRUE IN <<k>> \o F(T \ {k})
             IN F(S)
\* cluster_table.data may also describe sub-clusters that gslb.data does not (yet) use: keys of clusters of the
\* configuration whose sub-cluster is not configured.  They have no effect until a gslb reload brings the sub-cluster in.
Extras(c0) == SUBSET {k \in Keys : (\E x \in c0 : x[1] = k[1]) /\ ~(<<k[1], k[2]>> \in SubsOf(c0))}
Op(o) == Len(h) <= MaxOps /\ h' = Append(h, o) /\ fin' = FALSE
GInit == Init /\ (\E e0 \in Extras(conf) : h = <<[op |-> "init", conf |-> KeySeq(conf), zero |-> KeySeq(zero), extra |-> KeySeq(e0)]>>) /\ fin = FALSE
GNext == \/ \E c1 \in Confs : \E z1 \in ZeroSets(c1) : \E e1 \in Extras(c1) : Reload(c1, z1) /\ Op([op |-> "reload", conf |-> KeySeq(c1), zero |-> KeySeq(z1), extra |-> KeySeq(e1)])
         \/ \E k \in Keys : Touch(k) /\ Op([op |-> "touch", k |-> k, avail |-> ost'[live[k]].avail,
                                             d |-> ost'[live[k]].conn - ost[live[k]].conn])
         \/ \E c \in Clusters : Select(c) /\ Op([op |-> "select", c |-> c])
         \/ Len(h) = MaxOps + 1 /\ ~fin /\ fin' = TRUE /\ UNCHANGED <<vars, h>>
Emit == fin => PrintT(ToJson([ops |-> h]))
======================================================================
