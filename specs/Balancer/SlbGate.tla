---------------------------- MODULE SlbGate ----------------------------
(* C05: interleavings INSIDE one least-connection pick.  leastConnsBalance scans the     *)
(* backend list twice (first pass: best + "single" flag; second pass: all backends tied  *)
(* with best) and reads each backend's availability — which is protected by the          *)
(* backend's own lock, not the balancer's — in both passes.  An availability flip can    *)
(* therefore land between the passes (the gate).  Layer M models the two passes and the  *)
(* flip at the gate; Layer P: the call returns (no crash), the returned backend was      *)
(* eligible at some instant of the call, an error only if at some instant none was.      *)
EXTENDS Integers, Sequences, FiniteSets, TLC

CONSTANTS N, MaxW, MaxConn
B == 1..N
VARIABLES w, conns, av0, flips, algo, out, done
vars == <<w, conns, av0, flips, algo, out, done>>

Av1 == [b \in B |-> IF b \in flips THEN ~av0[b] ELSE av0[b]]       \* availability after the gate
El(av) == {b \in B : av[b] /\ w[b] > 0}
Lt(a, b) == conns[a] * w[b] < conns[b] * w[a]                      \* a has strictly smaller conns/weight
Tie(a, b) == conns[a] * w[b] = conns[b] * w[a]

\* first pass (availability av0), in list order 1..N
RECURSIVE Pass1(_, _, _)
Pass1(i, best, single) ==
    IF i > N THEN [best |-> best, single |-> single]
    ELSE IF ~(i \in El(av0)) THEN Pass1(i + 1, best, single)
    ELSE IF best = 0 THEN Pass1(i + 1, i, TRUE)
    ELSE IF Lt(i, best) THEN Pass1(i + 1, i, TRUE)
    ELSE IF Tie(best, i) THEN Pass1(i + 1, best, FALSE)
    ELSE Pass1(i + 1, best, single)
\* second pass (availability Av1): backends tied with best
Cands(best) == {b \in El(Av1) : Tie(best, b)}

\* result of the call: a set of possible replies (0 = error, -1 = crash)
Result ==
    LET p == Pass1(1, 0, TRUE) IN
    IF p.best = 0 THEN {0}
    ELSE IF p.single THEN {p.best}
    ELSE LET cs == IF Cands(p.best) = {} THEN {p.best} ELSE Cands(p.best)   \* after the fix of C05
         IN cs                                                             \* random / smooth among cs

\* Layer P: eligible at some instant of the call = before or after the gate
Could == El(av0) \cup El(Av1)
NoneAtSomeInstant == El(av0) = {} \/ El(Av1) = {}
ReplyOK(r) == IF r = 0 THEN NoneAtSomeInstant ELSE r \in Could

Init == /\ w \in [B -> 0..MaxW] /\ conns \in [B -> 0..MaxConn]
        /\ av0 \in [B -> BOOLEAN] /\ flips \in SUBSET B
        /\ algo \in {"wlc_smooth", "wlc_simple"}
        /\ out = {} /\ done = FALSE
Eval == ~done /\ done' = TRUE /\ out' = Result /\ UNCHANGED <<w, conns, av0, flips, algo>>
Next == Eval

MSatisfiesP == done => \A r \in out : ReplyOK(r)
NoCrash == done => out # {} /\ ~((0 - 1) \in out)
=======================================================================
