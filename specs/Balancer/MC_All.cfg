\* C03/C04/C05: all algorithms mixed with flips, connection changes and reloads
CONSTANTS
  N = @N@
  WLo = @WLO@
  WHi = @WHI@
  Scale = @SCALE@
  AnyOrder = @ANYORDER@
  MaxConn = @MAXCONN@
  MaxPicks = @PICKS@
  MaxFlips = @FLIPS@
  MaxUpdates = @UPDATES@
  MaxConnOps = @CONNOPS@
  Algos = {"smooth", "simple", "sticky", "wlc_smooth", "wlc_simple"}
INIT Init
NEXT Next
INVARIANTS ReplyOK Window Periodic SimpleTerminates NextInRange PTypeOK
CHECK_DEADLOCK FALSE
