CONSTANTS
  N = @N@
  MaxW = 2
  MaxConn = @MAXCONN@
INIT Init
NEXT Next
INVARIANTS MSatisfiesP NoCrash
CHECK_DEADLOCK FALSE
