CONSTANTS
  K = @K@
  MaxRetry = @MAXRETRY@
  MaxCross = 1
  MaxRt = @MAXRT@
  MaxRes = @MAXRES@
INIT Init
NEXT Next
INVARIANTS Emit
CHECK_DEADLOCK FALSE
