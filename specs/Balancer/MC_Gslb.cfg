CONSTANTS
  K = @K@
  MaxRetry = @MAXRETRY@
  MaxCross = 1
  MaxRt = @MAXRT@
  MaxRes = @MAXRES@
INIT Init
NEXT Next
INVARIANTS MRefinesP NeverEmpty NoBlackholeTarget FirstChoicePositive ErrOnlyIfNoTarget
CHECK_DEADLOCK FALSE
