CONSTANTS
  N = @N@
  WLo = @WLO@
  WHi = @WHI@
  Scale = @SCALE@
  AnyOrder = @ANYORDER@
  MaxConn = 0
  MaxPicks = @PICKS@
  MaxFlips = 0
  MaxUpdates = @UPDATES@
  MaxConnOps = 0
  Algos = {"smooth"}
  MaxOps = @OPS@
  Focus = @FOCUS@
INIT GInit
NEXT GNext
INVARIANTS Emit
CHECK_DEADLOCK FALSE
