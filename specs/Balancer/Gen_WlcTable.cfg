CONSTANTS
  N = @N@
  Ws = @WS@
  MaxC = @MAXC@
  Picks = @PICKS@
  Algo = @ALGO@
INIT Init
NEXT Next
INVARIANTS Emit
CHECK_DEADLOCK FALSE
