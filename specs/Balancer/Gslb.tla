----------------------------- MODULE Gslb -----------------------------
(* Cluster-level balancing decision of bfe_balance/bal_gslb (BalanceGslb.Balance):  *)
(* first-choice sub-cluster by hash residue, GSLB_BLACKHOLE, in-sub-cluster retries, *)
(* cross-sub-cluster retry.  A decision procedure: Init enumerates configuration x   *)
(* request, Eval computes the outcome sets.  Layer P (C03): which replies are        *)
(* allowed; Layer M: the reply the code's walk produces for residue r.               *)
EXTENDS Integers, Sequences, FiniteSets, TLC

CONSTANTS K,          \* sub-cluster slots 1..K, sorted by name; slot 1 is GSLB_BLACKHOLE
          MaxRetry, MaxCross, MaxRt, MaxRes

Names == <<"GSLB_BLACKHOLE", "a", "b", "c">>
S == 1..K
BH == 1
NA == 9                                   \* weight value meaning "not configured"
SubWeights == {0 - 1, 0, 1, 2, NA}
Shapes == {"empty", "down", "nonpos", "one", "two"}   \* backend list shapes, see harness
EligCount(sh) == IF sh = "one" THEN 1 ELSE IF sh = "two" THEN 2 ELSE 0

VARIABLES sw,        \* [S -> SubWeights]
          shape,     \* [S -> Shapes]
          retryMax, crossRetry,
          rt,        \* req.RetryTime
          r,         \* hash residue of the request key (mod total weight)
          out,       \* computed expectation
          done
vars == <<sw, shape, retryMax, crossRetry, rt, r, out, done>>

Present == {s \in S : sw[s] # NA}
Pos == {s \in S : sw[s] # NA /\ sw[s] > 0}
RECURSIVE SumW(_)
SumW(T) == IF T = {} THEN 0 ELSE LET x == CHOOSE y \in T : TRUE IN sw[x] + SumW(T \ {x})
Total == SumW(Pos)
Loadable == Total > 0                      \* GslbClusterConf.Check / Init reject total <= 0

\* ---- Layer M: subClusterBalance — walk the positive-weight sub-clusters in name order
RECURSIVE WalkSub(_, _)
WalkSub(i, v) == IF i > K THEN K
                 ELSE IF ~(i \in Pos) THEN WalkSub(i + 1, v)
                 ELSE IF v - sw[i] < 0 THEN i ELSE WalkSub(i + 1, v - sw[i])
First == IF Cardinality(Pos) = 1 THEN CHOOSE s \in Pos : TRUE ELSE WalkSub(1, r % Total)

\* ---- outcomes, given the first choice f
Cands(f) == {s \in Present : s # f /\ sw[s] >= 0 /\ s # BH}
Ok(s) == [kind |-> "ok", sub |-> Names[s]]
Err(e) == [kind |-> "err", sub |-> e]
OutcomesGiven(f) ==
    IF rt > retryMax + crossRetry THEN {Err("RetryTooMany")}
    ELSE IF f = BH THEN {Err("Blackhole")}
    ELSE IF rt <= retryMax /\ EligCount(shape[f]) > 0 THEN {Ok(f)}
    ELSE IF crossRetry <= 0 THEN {Err("NoBackend")}
    ELSE IF Cands(f) = {} THEN {Err("NoSubClusterCross")}
    ELSE {Ok(s) : s \in {c \in Cands(f) : EligCount(shape[c]) > 0}}
         \cup (IF \E c \in Cands(f) : EligCount(shape[c]) = 0 THEN {Err("CrossRetryBalance")} ELSE {})

\* ---- Layer P: the first choice may be any positive-weight sub-cluster
AllowedP == UNION {OutcomesGiven(f) : f \in Pos}
AllowedM == OutcomesGiven(First)

Init == /\ sw \in [S -> SubWeights]
        /\ shape \in {f \in [S -> Shapes] : f[BH] = "empty"}
        /\ retryMax \in 0..MaxRetry /\ crossRetry \in 0..MaxCross
        /\ rt \in 0..MaxRt /\ r \in 0..MaxRes
        /\ (~Loadable => r = 0 /\ rt = 0)
        /\ out = [load |-> FALSE] /\ done = FALSE

Eval == /\ ~done /\ done' = TRUE
        /\ out' = IF ~Loadable THEN [load |-> FALSE]
                  ELSE [load |-> TRUE,
                        mustOk |-> \A o \in AllowedP : o.kind = "ok",
                        mustErr |-> \A o \in AllowedP : o.kind = "err",
                        okSubs |-> {o.sub : o \in {x \in AllowedP : x.kind = "ok"}},
                        mFirst |-> Names[First],
                        mOut |-> AllowedM]
        /\ UNCHANGED <<sw, shape, retryMax, crossRetry, rt, r>>
Next == Eval
Spec == Init /\ [][Next]_vars

------------------------------------------------------------------------
\* sanity of the specification itself (checked by TLC on every enumerated case)
MRefinesP == Loadable => AllowedM \subseteq AllowedP
NeverEmpty == Loadable => AllowedP # {}
\* C03 as theorems of the model: a backend never comes from the blackhole, and a first
\* choice (rt <= retryMax, no cross retry configured) never comes from weight <= 0
NoBlackholeTarget == Loadable => \A o \in AllowedP : o.kind = "ok" => o.sub # Names[BH]
FirstChoicePositive == (Loadable /\ crossRetry = 0) =>
                          \A o \in AllowedP : o.kind = "ok" => \E s \in Pos : Names[s] = o.sub
\* "an error exactly when no eligible target exists": if every positive-weight sub-cluster
\* has an eligible backend, none is the blackhole and retries are not exhausted, it succeeds
ErrOnlyIfNoTarget == (Loadable /\ rt <= retryMax /\ ~(BH \in Pos)
                      /\ \A s \in Pos : EligCount(shape[s]) > 0) =>
                          \A o \in AllowedP : o.kind = "ok"
=======================================================================
