\* C01: all weight vectors, all list orders, 3 periods of smooth picks, one reload
CONSTANTS
  N = @N@
  WLo = @WLO@
  WHi = @WHI@
  Scale = @SCALE@
  AnyOrder = @ANYORDER@
  MaxConn = 0
  MaxPicks = @PICKS@
  MaxFlips = 0
  MaxUpdates = @UPDATES@
  MaxConnOps = 0
  Algos = {"smooth"}
INIT Init
NEXT Next
INVARIANTS ReplyOK Window Periodic SumInv PTypeOK
CHECK_DEADLOCK FALSE
