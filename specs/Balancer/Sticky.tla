---------------------------- MODULE Sticky ----------------------------
(* C02: hash-based selection (session-sticky backend pick in bal_slb, hash-based      *)
(* sub-cluster pick in bal_gslb).  Layer P: the target is a function of the hash       *)
(* residue and of the SET of eligible (target, weight) pairs; the residues are split   *)
(* exactly in proportion to the weights.  Which residue goes where is not prescribed.  *)
(* Layer M: the code walks the eligible targets sorted by address / name, cumulating   *)
(* weights.  TLC checks M |= Partition for every configuration in the bounds.          *)
EXTENDS Integers, Sequences, FiniteSets, TLC

CONSTANTS N, MaxW
B == 1..N
VARIABLES w, av
vars == <<w, av>>

Eligible == {b \in B : av[b] /\ w[b] > 0}
RECURSIVE SumOver(_, _)
SumOver(f, S) == IF S = {} THEN 0
                 ELSE LET x == CHOOSE y \in S : TRUE IN f[x] + SumOver(f, S \ {x})
W == SumOver(w, Eligible)

\* Layer M: walk in id (= address / name) order
RECURSIVE Walk(_, _)
Walk(i, v) == IF i > N THEN 0
              ELSE IF ~(i \in Eligible) THEN Walk(i + 1, v)
              ELSE IF v - w[i] < 0 THEN i ELSE Walk(i + 1, v - w[i])
Tab == [r \in 0..(W - 1) |-> Walk(1, r)]

\* Layer P on a residue table t over 0..T-1 (T a multiple of W when weights are scaled)
CountIn(t, T, b) == Cardinality({r \in 0..(T - 1) : t[r] = b})
Partition(t, T) == \A b \in B : CountIn(t, T, b) * W = (IF b \in Eligible THEN w[b] ELSE 0) * T
OnlyEligible(t, T) == \A r \in 0..(T - 1) : t[r] \in Eligible

Init == w \in [B -> 0..MaxW] /\ av \in [B -> BOOLEAN]
Next == UNCHANGED vars
MPartition == W > 0 => Partition(Tab, W) /\ OnlyEligible(Tab, W)
=======================================================================
