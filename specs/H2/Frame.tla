--------------------------- MODULE Frame ---------------------------
(* C32  HTTP/2 frame layer (RFC 7540 sections 4.1-4.3, 5.4.1, 6.1-6.10) as a verdict      *)
(* function over frame SHAPES, and the reader's CONTINUATION state machine.               *)
(*                                                                                        *)
(* A shape is what the frame-level rules look at:                                         *)
(*   t    frame type 0..9, 10 = a type unknown to the implementation                      *)
(*   fl   set of flag bits out of {1,4,8,32} (END_STREAM/ACK, END_HEADERS, PADDED,        *)
(*        PRIORITY); bits without meaning for the type MUST be ignored                    *)
(*   sid  stream identifier class 0, 1, 3        r  reserved bit of the stream id         *)
(*   len  payload length                          pad  value of the Pad Length octet      *)
(*   sv   SETTINGS: class of the first parameter  wi   WINDOW_UPDATE: increment class     *)
(*                                                                                        *)
(* Layer P: Viol(sh, exp) = the set of <<class, code>> errors RFC 7540 attaches to the    *)
(* shape when the reader expects CONTINUATION for stream exp (0 = none).  The frame must  *)
(* be accepted iff the set is empty; otherwise ANY member is a legal answer, a stream     *)
(* error may be raised as a connection error (5.4.1), and an error without a code that    *)
(* ends the connection is a legal connection error.  Gray shapes have no verdict.         *)
(* Layer M: MVerdict = the first check bfe_http2/frame.go fails, in its order.            *)
(* TLC checks  MVerdict \in Allowed  for every shape and context.                         *)
EXTENDS Integers, Sequences, FiniteSets, TLC

MAXR == 16384                 \* SETTINGS_MAX_FRAME_SIZE the reader advertised (the minimum)

CP == <<"conn", "PROTOCOL">>
CF == <<"conn", "FRAME_SIZE">>
CFC == <<"conn", "FLOW_CONTROL">>
SP == <<"stream", "PROTOCOL">>
SF == <<"stream", "FRAME_SIZE">>
OKV == <<"ok", "">>

Padded(sh) == sh.t \in {0, 1, 5} /\ 8 \in sh.fl
HasPrio(sh) == sh.t = 1 /\ 32 \in sh.fl
\* octets in front of the data / header block fragment
Fixed(sh) == (IF Padded(sh) THEN 1 ELSE 0) + (IF HasPrio(sh) THEN 5 ELSE 0) + (IF sh.t = 5 THEN 4 ELSE 0)
Rem(sh) == sh.len - Fixed(sh)
PadV(sh) == IF Padded(sh) THEN sh.pad ELSE 0

\* SETTINGS parameter classes (first parameter of a well-formed payload)
SvViol(sv) == CASE sv = "iw_over" -> {CFC}          \* INITIAL_WINDOW_SIZE = 2^31
                [] sv = "push2" -> {CP}             \* ENABLE_PUSH = 2
                [] sv = "mfs_low" -> {CP}           \* MAX_FRAME_SIZE = 16383
                [] sv = "mfs_high" -> {CP}          \* MAX_FRAME_SIZE = 2^24
                [] OTHER -> {}                      \* iw_max, mfs_ok, unknown_id, none
WiZero(wi) == wi \in {"zero", "zero_r"}             \* increment 0, with or without the reserved bit

\* ---------------------------------------------------------------- Layer P
OrderViol(sh, exp) == IF exp # 0 THEN (IF sh.t = 9 /\ sh.sid = exp THEN {} ELSE {CP})
                      ELSE IF sh.t = 9 THEN {CP} ELSE {}

SizeViol(sh) == IF sh.len > MAXR
                  THEN (IF sh.t \in {0, 2, 3, 8} /\ sh.sid # 0 THEN {SF} ELSE {CF})
                  ELSE {}

If(c, s) == IF c THEN s ELSE {}

TypeViol(sh) ==
  CASE sh.t = 0 -> If(sh.sid = 0, {CP}) \cup If(Padded(sh) /\ sh.len = 0, {CF, CP})
                   \cup If(Padded(sh) /\ sh.len > 0 /\ sh.pad >= sh.len, {CP})
    [] sh.t = 1 -> If(sh.sid = 0, {CP}) \cup If(Rem(sh) < 0, {CF, CP})
                   \cup If(Rem(sh) >= 0 /\ PadV(sh) > Rem(sh), {SP})
    [] sh.t = 2 -> If(sh.sid = 0, {CP}) \cup If(sh.len # 5, {SF})
    [] sh.t = 3 -> If(sh.sid = 0, {CP}) \cup If(sh.len # 4, {CF})
    [] sh.t = 4 -> If(sh.sid # 0, {CP}) \cup If(1 \in sh.fl /\ sh.len # 0, {CF})
                   \cup If(sh.len % 6 # 0, {CF})
                   \cup If(sh.len % 6 = 0 /\ sh.len >= 6, SvViol(sh.sv))
    [] sh.t = 5 -> If(sh.sid = 0, {CP}) \cup If(Rem(sh) < 0, {CF, CP})
                   \cup If(Rem(sh) >= 0 /\ PadV(sh) > Rem(sh), {SP})
    [] sh.t = 6 -> If(sh.sid # 0, {CP}) \cup If(sh.len # 8, {CF})
    [] sh.t = 7 -> If(sh.sid # 0, {CP}) \cup If(sh.len < 8, {CF, CP})
    [] sh.t = 8 -> If(sh.len # 4, {CF}) \cup If(sh.len = 4 /\ WiZero(sh.wi), IF sh.sid = 0 THEN {CP} ELSE {SP})
    [] sh.t = 9 -> If(sh.sid = 0, {CP})
    [] OTHER -> {}

Viol(sh, exp) == OrderViol(sh, exp) \cup SizeViol(sh) \cup TypeViol(sh)

\* no verdict: HEADERS whose header block fragment is empty (legal by RFC 7540, refused as a
\* stream error by this code base and by golang.org/x/net of the same age), and everything in
\* a header block opened by PUSH_PROMISE (the reader does not track it)
Gray(sh, exp) == \/ exp = -1
                 \/ (sh.t = 1 /\ Rem(sh) >= 0 /\ PadV(sh) = Rem(sh))

Upgrade(v) == v \cup {<<"conn", e[2]>> : e \in {x \in v : x[1] = "stream"}}
Allowed(sh, exp) ==
  IF Viol(sh, exp) = {} THEN {OKV}
  ELSE LET v == Upgrade(Viol(sh, exp))
           vv == IF sh.sid = 0 THEN {e \in v : e[1] = "conn"} ELSE v IN
       vv \cup {<<"untyped", "">>} \cup If(\E e \in vv : e[2] = "FRAME_SIZE", {<<"toolarge", "FRAME_SIZE">>})

\* reader state after an accepted frame (-1 = gray)
NextExp(sh, exp) ==
  CASE sh.t = 1 -> IF 4 \in sh.fl THEN 0 ELSE sh.sid
    [] sh.t = 9 -> IF 4 \in sh.fl THEN 0 ELSE exp
    [] sh.t = 5 -> IF 4 \in sh.fl THEN exp ELSE -1
    [] OTHER -> exp

\* what an accepted frame must read back as: offset and length of the data / fragment / opaque part
DataOff(sh) == Fixed(sh)
DataLen(sh) == Rem(sh) - PadV(sh)

\* ---------------------------------------------------------------- Layer M (bfe_http2/frame.go)
UNT == <<"untyped", "">>
First(seq) == LET bad == {i \in 1..Len(seq) : seq[i][1]} IN
                IF bad = {} THEN OKV ELSE seq[CHOOSE i \in bad : \A j \in bad : i <= j][2]

MParse(sh) ==
  CASE sh.t = 0 -> First(<< <<sh.sid = 0, CP>>, <<Padded(sh) /\ sh.len = 0, UNT>>,
                            <<Padded(sh) /\ sh.pad > sh.len - 1, CP>> >>)
    [] sh.t = 1 -> First(<< <<sh.sid = 0, CP>>, <<Rem(sh) < 0, UNT>>, <<Rem(sh) - PadV(sh) <= 0, SP>> >>)
    [] sh.t = 2 -> First(<< <<sh.sid = 0, CP>>, <<sh.len # 5, CF>> >>)
    [] sh.t = 3 -> First(<< <<sh.len # 4, CF>>, <<sh.sid = 0, CP>> >>)
    [] sh.t = 4 -> First(<< <<1 \in sh.fl /\ sh.len > 0, CF>>, <<sh.sid # 0, CP>>, <<sh.len % 6 # 0, CF>>,
                            <<sh.len >= 6 /\ sh.sv = "iw_over", CFC>>,
                            <<sh.len >= 6 /\ sh.sv \in {"push2", "mfs_low", "mfs_high"}, CP>> >>)
    [] sh.t = 5 -> First(<< <<sh.sid = 0, CP>>, <<Rem(sh) < 0, UNT>>, <<PadV(sh) > Rem(sh), CP>> >>)
    [] sh.t = 6 -> First(<< <<sh.len # 8, CF>>, <<sh.sid # 0, CP>> >>)
    [] sh.t = 7 -> First(<< <<sh.sid # 0, CP>>, <<sh.len < 8, CF>> >>)
    [] sh.t = 8 -> First(<< <<sh.len # 4, CF>>, <<WiZero(sh.wi), IF sh.sid = 0 THEN CP ELSE SP>> >>)
    [] sh.t = 9 -> First(<< <<sh.sid = 0, CP>> >>)
    [] OTHER -> OKV

MOrder(sh, exp) == IF exp # 0 THEN (IF sh.t # 9 \/ sh.sid # exp THEN CP ELSE OKV)
                   ELSE IF sh.t = 9 THEN CP ELSE OKV

MVerdict(sh, exp) == IF sh.len > MAXR THEN <<"toolarge", "FRAME_SIZE">>
                     ELSE IF MParse(sh) # OKV THEN MParse(sh) ELSE MOrder(sh, exp)

\* ---------------------------------------------------------------- shapes
Flags(t) == CASE t = 0 -> SUBSET {1, 8, 4}
              [] t = 1 -> SUBSET {1, 4, 8, 32}
              [] t = 4 -> {{}, {1}, {8}}
              [] t = 5 -> SUBSET {4, 8, 1}
              [] t = 6 -> {{}, {1}, {8}}
              [] t = 9 -> {{}, {4}, {1}}
              [] OTHER -> {{}, {1}, {8, 32}}
Lens(t) == CASE t = 0 -> {0, 1, 2, 3, 9, MAXR, MAXR + 1}
             [] t = 1 -> {0, 1, 2, 4, 5, 6, 7, 8, 9, MAXR, MAXR + 1}
             [] t = 2 -> {0, 4, 5, 6, MAXR + 1}
             [] t = 3 -> {0, 3, 4, 5, MAXR + 1}
             [] t = 4 -> {0, 1, 5, 6, 7, 12, 16386}
             [] t = 5 -> {0, 1, 3, 4, 5, 6, 7, 9, MAXR + 1}
             [] t = 6 -> {0, 7, 8, 9, MAXR + 1}
             [] t = 7 -> {0, 7, 8, 9, 20, MAXR + 1}
             [] t = 8 -> {0, 3, 4, 5, MAXR + 1}
             [] t = 9 -> {0, 1, 9, MAXR, MAXR + 1}
             [] OTHER -> {0, 1, 9, MAXR, MAXR + 1}
Pads(t) == IF t \in {0, 1, 5} THEN {0, 1, 2, 3, 4, 7, 255} ELSE {0}
Svs(t) == IF t = 4 THEN {"none", "iw_max", "iw_over", "push2", "mfs_low", "mfs_ok", "mfs_high", "unknown_id"} ELSE {"none"}
Wis(t) == IF t = 8 THEN {"zero", "one", "max", "zero_r", "one_r"} ELSE {"none"}

ShapesOf(t) == {[t |-> t, fl |-> f, sid |-> s, r |-> r, len |-> l, pad |-> p, sv |-> sv, wi |-> wi] :
                  f \in Flags(t), s \in {0, 1, 3}, r \in BOOLEAN, l \in Lens(t), p \in Pads(t),
                  sv \in Svs(t), wi \in Wis(t)}
\* pad only matters with the PADDED flag, the reserved bit only once per (t, sid)
Canon(sh) == /\ (~Padded(sh) => sh.pad = 0)
             /\ (sh.r => (sh.fl = {} /\ sh.pad = 0 /\ sh.len \in {4, 5, 8, 9, 6} /\ sh.sv = "none" /\ sh.wi \in {"none", "one"}))
             /\ (sh.t = 4 /\ sh.len < 6 => sh.sv = "none")
             /\ (sh.t = 8 /\ sh.len # 4 => sh.wi = "one")

\* contexts: frames (all accepted) read before the frame under test
Hdr(fl, sid) == [t |-> 1, fl |-> fl, sid |-> sid, r |-> FALSE, len |-> 3, pad |-> 0, sv |-> "none", wi |-> "none"]
Cont(fl, sid) == [t |-> 9, fl |-> fl, sid |-> sid, r |-> FALSE, len |-> 2, pad |-> 0, sv |-> "none", wi |-> "none"]
PP(fl, sid) == [t |-> 5, fl |-> fl, sid |-> sid, r |-> FALSE, len |-> 6, pad |-> 0, sv |-> "none", wi |-> "none"]
Contexts == [none |-> <<>>,
             hdr1 |-> <<Hdr({}, 1)>>,
             hdr1es |-> <<Hdr({1}, 1)>>,
             hdr1c |-> <<Hdr({}, 1), Cont({}, 1)>>,
             hdr1e |-> <<Hdr({}, 1), Cont({4}, 1)>>,
             hdrE |-> <<Hdr({4}, 3)>>,
             pp1 |-> <<PP({}, 1)>>,
             ppE |-> <<PP({4}, 1)>>]
CtxNames == DOMAIN Contexts

RECURSIVE ExpAfter(_, _)
ExpAfter(frames, exp) == IF frames = <<>> THEN exp
                         ELSE ExpAfter(Tail(frames), NextExp(Head(frames), exp))
\* every context frame is itself accepted in its place
RECURSIVE CtxAccepted(_, _)
CtxAccepted(frames, exp) == frames = <<>> \/
   (/\ exp # -1 => Viol(Head(frames), exp) = {}
    /\ CtxAccepted(Tail(frames), NextExp(Head(frames), exp)))

VARIABLES ctx, sh
vars == <<ctx, sh>>
\* two levels so that TLC's workers share the enumeration: a seed per (context, type), then
\* every shape of that type as a successor
CONSTANT UseCtx                   \* the contexts explored (a subset of CtxNames)
Seed(t) == [t |-> t, fl |-> {}, sid |-> -1, r |-> FALSE, len |-> 0, pad |-> 0, sv |-> "none", wi |-> "none"]
IsSeed == sh.sid = -1
Init == ctx \in UseCtx /\ sh \in {Seed(t) : t \in 0..10}
Next == IsSeed /\ sh' \in {s \in ShapesOf(sh.t) : Canon(s)} /\ UNCHANGED ctx

Exp == ExpAfter(Contexts[ctx], 0)

\* invariants
MInP == IsSeed \/ Gray(sh, Exp) \/ MVerdict(sh, Exp) \in Allowed(sh, Exp)
CtxOK == CtxAccepted(Contexts[ctx], 0)
\* a frame that is accepted never has negative data length
LayoutOK == (~IsSeed /\ Viol(sh, Exp) = {} /\ ~Gray(sh, Exp)) => (DataLen(sh) >= 0 /\ DataOff(sh) + DataLen(sh) + PadV(sh) = sh.len)
\* flag bits without meaning for the type do not change the verdict
Meaning(t) == CASE t = 0 -> {1, 8} [] t = 1 -> {1, 4, 8, 32} [] t = 4 -> {1} [] t = 5 -> {4, 8}
                [] t = 6 -> {1} [] t = 9 -> {4} [] OTHER -> {}
FlagsIgnored == IsSeed \/ Viol(sh, Exp) = Viol([sh EXCEPT !.fl = sh.fl \cap Meaning(sh.t)], Exp)
====================================================================
