CONSTANTS
  Tier = "@TIER@"
  HuffLen = @HUFFLEN@
INIT Init
NEXT Next
INVARIANTS BytesOK MInP PreOK
CHECK_DEADLOCK FALSE
