--------------------------- MODULE GenPriority ---------------------------
(* Behaviour generator for Priority.                                               *)
(*  mode mc : every transition (reachable state, operation, successor) is printed   *)
(*            once; the harness builds the pre-state out of real stream objects,    *)
(*            applies the real operation and compares.  Since every transition of   *)
(*            every reachable state is replayed, the code's reachable set is the    *)
(*            model's, on which TLC checks Acyclic.                                 *)
(*  mode sim: operation sequences from the initial state (history variable).        *)
EXTENDS Priority, Json

VARIABLES h, fin
gvars == <<vars, h, fin>>
CONSTANT MaxOps, Seq0     \* Seq0 = TRUE: histories (simulation); FALSE: single transitions

Snap(st, par) == [st |-> [s \in S |-> st[s]], par |-> [s \in S |-> par[s]]]

Rec(op) == IF Seq0
  THEN /\ Len(h) < MaxOps /\ h' = Append(h, [op |-> op, post |-> Snap(status', parent'), acyclic |-> AcyclicMap(parent')])
       /\ fin' = FALSE
  ELSE /\ h' = h /\ fin' = fin
       /\ PrintT(ToJson([pre |-> Snap(status, parent), op |-> op,
                         post |-> Snap(status', parent'), acyclic |-> AcyclicMap(parent')]))

GInit == Init /\ h = <<>> /\ fin = FALSE

GNext ==
  \/ \E hp \in BOOLEAN, dep \in 0..N, excl \in BOOLEAN :
        /\ (~hp => (dep = 0 /\ ~excl))
        /\ OpenStream(hp, dep, excl)
        /\ Rec([k |-> "open", s |-> NextId, hp |-> hp, dep |-> dep, excl |-> excl])
  \/ \E s \in S, dep \in 0..N, excl \in BOOLEAN :
        Prio(s, dep, excl) /\ Rec([k |-> "prio", s |-> s, hp |-> TRUE, dep |-> dep, excl |-> excl])
  \/ \E s \in S : Close(s) /\ Rec([k |-> "close", s |-> s, hp |-> FALSE, dep |-> 0, excl |-> FALSE])
  \/ Seq0 /\ Len(h) = MaxOps /\ ~fin /\ fin' = TRUE /\ UNCHANGED <<vars, h>>

Emit == (Seq0 /\ fin) => PrintT(ToJson([ops |-> h]))
==========================================================================
