------------------------------ MODULE TraceConn ------------------------------
(* Trace validation of real bfe_http2 server connections against Layer P (ConnP).         *)
(* trace.ndjson holds many recorded connections back to back (each starts with an "init"  *)
(* event); every event is one step of the Layer-P monitor; the first obligation that      *)
(* fails in a connection is collected in `bad` (with the event index) and the rest of    *)
(* that connection is skipped.  One TLC run reports every failing connection.            *)
EXTENDS ConnP, Json

Trace == ndJsonDeserialize("trace.ndjson")

VARIABLES l, p, skip, bad
tvars == <<l, p, skip, bad>>

Ev == Trace[l]
K00 == [cw0 |-> 0, sw0 |-> 0, ocw0 |-> 0, osw0 |-> 0, mfs0 |-> 0, maxs |-> 0]

TInit == l = 1 /\ p = PInit(K00) /\ skip = TRUE /\ bad = {}

Fold(q, e) ==
  CASE e.ev = "c" -> PClient(q, e)
    [] e.ev = "hc" -> PHcmd(q, e)
    [] e.ev = "s" -> PServer(q, e)
    [] e.ev = "h" -> PHandler(q, e)
    [] e.ev = "q" -> IF e.hang THEN V(q, "Hang", 0, "") ELSE PQuiesce(q, e)
    [] OTHER -> q

TNext ==
  /\ l <= Len(Trace) /\ l' = l + 1
  /\ IF Ev.ev = "init" THEN
       /\ p' = PInit([cw0 |-> Ev.n, sw0 |-> Ev.p, ocw0 |-> Ev.inc, osw0 |-> Ev.iws,
                      mfs0 |-> Ev.mfs, maxs |-> Ev.code])
       /\ skip' = FALSE /\ bad' = bad
     ELSE IF skip THEN UNCHANGED <<p, skip, bad>>
     ELSE LET q == Fold(p, Ev) IN
          /\ p' = q
          /\ skip' = (q.viol # {})
          /\ bad' = bad \cup {[cid |-> Ev.cid, l |-> l, step |-> Ev.step, why |-> v.why, s |-> v.s,
                               k |-> v.k, state |-> v.state, d |-> v.d] : v \in q.viol}

\* printed when the whole trace has been consumed
Report == (l = Len(Trace) + 1) =>
             PrintT(ToJson([done |-> TRUE, consumed |-> l - 1, bad |-> bad]))
\* every line is explained by exactly one step: the search is linear
Accepted == TLCGet("stats").diameter - 1 = Len(Trace)
=============================================================================
