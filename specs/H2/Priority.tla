--------------------------- MODULE Priority ---------------------------
(* C36  HTTP/2 priority tree (RFC 7540 5.3) as bfe_http2 keeps it:                 *)
(*   every stream object has a `parent` pointer (nil = stream 0, the root);         *)
(*   serverConn.streams maps the ids of the OPEN streams to their objects;          *)
(*   closeStream deletes the id from the map but the object (and the pointers of    *)
(*   other streams to it) stay;                                                     *)
(*   adjustStreamPriority(streams, id, {dep, exclusive, weight}) re-parents.        *)
(*                                                                                  *)
(* Layer P (the property): after every operation the parent relation over all       *)
(* stream objects is acyclic, i.e. every ancestor walk reaches the root, and every   *)
(* operation terminates (the walk the operation itself makes is over the pre-state, *)
(* so Acyclic as an invariant gives termination of every walk).                     *)
(* Layer M (the mechanism): the exact parent map the code computes.                 *)
EXTENDS Integers, Sequences, FiniteSets, TLC

CONSTANT N          \* stream objects 1..N (ids are opened in increasing order)

S == 1..N
VARIABLES status,   \* S -> "idle" | "open" | "closed"     (open = in the streams map)
          parent    \* S -> 0..N                           (0 = nil)
vars == <<status, parent>>

TypeOK == /\ status \in [S -> {"idle", "open", "closed"}]
          /\ parent \in [S -> 0..N]

Open(s) == status[s] = "open"

\* ---------------------------------------------------------------- Layer P
\* the ancestor walk `for p := x; p != nil; p = p.parent` with fuel: it terminates
\* iff it reaches 0 within N steps (a walk over N objects that is longer repeats one).
RECURSIVE Reaches0(_, _, _)
Reaches0(par, x, fuel) == IF x = 0 THEN TRUE
                          ELSE IF fuel = 0 THEN FALSE
                          ELSE Reaches0(par, par[x], fuel - 1)
AcyclicMap(par) == \A s \in S : Reaches0(par, s, N)
Acyclic == AcyclicMap(parent)

\* x is on the walk that starts at `from` (inclusive)
RECURSIVE OnWalk(_, _, _, _)
OnWalk(par, from, x, fuel) == IF from = 0 \/ fuel = 0 THEN FALSE
                              ELSE IF from = x THEN TRUE
                              ELSE OnWalk(par, par[from], x, fuel - 1)

\* ---------------------------------------------------------------- Layer M
\* adjustStreamPriority(streams, s, {dep, excl}) on state (st, par); returns the new map
Adjust(st, par, s, dep, excl) ==
  IF st[s] # "open" THEN par                       \* not in the map: ignored
  ELSE LET p == IF dep # 0 /\ st[dep] = "open" THEN dep ELSE 0 IN   \* streams[dep], nil if absent
    IF p = s THEN par                               \* self dependency: ignored
    ELSE
      LET par1 == IF OnWalk(par, p, s, N + 1)       \* s is an ancestor of its new parent
                    THEN [par EXCEPT ![p] = par[s]] ELSE par
          par2 == [par1 EXCEPT ![s] = p]
      IN IF excl /\ (p # 0 \/ dep = 0)
           THEN [t \in S |-> IF t # s /\ st[t] = "open" /\ par2[t] = p THEN s ELSE par2[t]]
           ELSE par2

NextId == IF \E s \in S : status[s] = "idle"
            THEN CHOOSE s \in S : status[s] = "idle" /\ \A t \in S : status[t] = "idle" => s <= t
            ELSE 0

Init == status = [s \in S |-> "idle"] /\ parent = [s \in S |-> 0]

\* processHeaders for a new stream: insert into the map, then (HEADERS with the PRIORITY flag) adjust
OpenStream(hasPrio, dep, excl) ==
  /\ NextId # 0
  /\ LET s == NextId
         st1 == [status EXCEPT ![s] = "open"] IN
       /\ status' = st1
       /\ parent' = IF hasPrio THEN Adjust(st1, parent, s, dep, excl) ELSE parent

\* processPriority: any stream id, any dependency (also idle / closed / itself)
Prio(s, dep, excl) ==
  /\ parent' = Adjust(status, parent, s, dep, excl)
  /\ UNCHANGED status

\* closeStream: delete from the map, pointers stay
Close(s) == /\ Open(s) /\ status' = [status EXCEPT ![s] = "closed"] /\ UNCHANGED parent

Next == \/ \E hp \in BOOLEAN, dep \in 0..N, excl \in BOOLEAN : OpenStream(hp, dep, excl)
        \/ \E s \in S, dep \in 0..N, excl \in BOOLEAN : Prio(s, dep, excl)
        \/ \E s \in S : Close(s)

Spec == Init /\ [][Next]_vars
=======================================================================
