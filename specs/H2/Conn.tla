-------------------------------- MODULE Conn --------------------------------
(***************************************************************************)
(* Layer M of the h2conn family: one bfe_http2 server connection as the    *)
(* code does it (server.go, flow.go, writesched.go, write.go), composed     *)
(* with the Layer-P monitor of ConnP.tla.  TLC checks  M |= P  (invariant  *)
(* NoViolation) exhaustively within the constants of the MC_*.cfg files.   *)
(*                                                                         *)
(* One action per serve-loop case / handler step:                          *)
(*   Client*      processFrame for one client frame (a stimulus)           *)
(*   HCmd*        a handler command is issued (a stimulus)                 *)
(*   HStart       runHandler goroutine reaches ServeHTTP                   *)
(*   HPush        writeFrameFromHandler -> serve: writeFrame (queue)       *)
(*   HReadDone    RequestBody.Read returns -> noteBodyRead                 *)
(*   WriteFrame   scheduleFrameWrite picks (GOAWAY, SETTINGS ACK, control  *)
(*                queue, stream queues, DATA split by min(stream window,   *)
(*                conn window, max frame size)), the frame reaches the     *)
(*                wire, wroteFrame runs (END_STREAM -> closeStream)        *)
(*   Quiesce      nothing is enabled any more: the quiescent point         *)
(* Stimuli are only issued at quiescent points (turn = "stim"), which is   *)
(* exactly how harness/cmd/h2conn drives the real server.                  *)
(*                                                                         *)
(* The model is the code AFTER the fix: commits of branch verif-h2conn      *)
(* (marked "fix:" below).                                                  *)
(***************************************************************************)
EXTENDS ConnP

CONSTANTS CW0, SW0, OCW0, OSW0, MFS0, MAXS,   \* connection parameters
          SidsUsed, ESs, CKinds, Reqs, Trailers, DataLens, Pads, WuIncs, IwsVals, MfsVals, RstCodes,
          CLs, HOps, ReadLens, WriteLens, WRN, N400C, N400T, MaxSteps, MaxData, MaxHdrs

K0 == [cw0 |-> CW0, sw0 |-> SW0, ocw0 |-> OCW0, osw0 |-> OSW0, mfs0 |-> MFS0, maxs |-> MAXS]

VARIABLES p,         \* Layer-P monitor (ConnP)
          st,        \* [Sid -> idle|open|hcr|closed]   sc.streams[..].state
          maxId,     \* sc.maxStreamID
          inC, inS,  \* sc.inflow.n, st.inflow.n
          buf,       \* body pipe content: sequence of runs [t, n]
          bst,       \* body pipe: none|open|eof|err
          bclosed,   \* the handler called Request.Body.Close
          clM, bodyM,\* declared content-length, body octets seen
          outC, outS,\* sc.flow.n, st.flow.n
          iwsM, mfsM,\* sc.initialWindowSize, writeSched.maxFrameSize
          ctl,       \* writeSched.zero (control frames)
          sq,        \* writeSched.sq[s]: [f, notify]
          needAck, ga, needGA, conn,
          hs, hk, hprog, hsent, hret, sent, mineM,
          tag, turn, nstep, ndata, nhdrs,
          last,      \* the stimulus being answered (E0 at quiescent points)
          holdM,     \* HEADERS without END_HEADERS waiting for its CONTINUATION
          want       \* generator only: the kind of stimulus to issue next ("" = any)

mvars == <<st, maxId, inC, inS, buf, bst, bclosed, clM, bodyM, outC, outS, iwsM, mfsM, ctl, sq, needAck,
           ga, needGA, conn, hs, hk, hprog, hsent, hret, sent, mineM, tag, turn, nstep, ndata, nhdrs,
           last, holdM, want>>
vars == <<p, mvars>>

Fr(k, s) == [E0 EXCEPT !.ev = "s", !.k = k, !.s = s]
Q(f, notify) == [f |-> f, notify |-> notify]
RECURSIVE RunsLen(_)
RunsLen(r) == IF r = <<>> THEN 0 ELSE Head(r).n + RunsLen(Tail(r))
RECURSIVE TakeRuns(_, _)
TakeRuns(r, n) == IF n = 0 \/ r = <<>> THEN <<>>
                  ELSE IF Head(r).n <= n THEN <<Head(r)>> \o TakeRuns(Tail(r), n - Head(r).n)
                  ELSE <<[t |-> Head(r).t, n |-> n]>>
RECURSIVE DropRuns(_, _)
DropRuns(r, n) == IF n = 0 \/ r = <<>> THEN r
                  ELSE IF Head(r).n <= n THEN DropRuns(Tail(r), n - Head(r).n)
                  ELSE <<[t |-> Head(r).t, n |-> Head(r).n - n]>> \o Tail(r)

InMap(s) == st[s] \in {"open", "hcr"}
NOpen == Cardinality({s \in Sid : InMap(s)})

Init ==
  /\ p = PInit(K0)
  /\ st = [s \in Sid |-> "idle"] /\ maxId = 0
  /\ inC = K0.cw0 /\ inS = [s \in Sid |-> 0]
  /\ buf = [s \in Sid |-> <<>>] /\ bst = [s \in Sid |-> "none"] /\ bclosed = [s \in Sid |-> FALSE]
  /\ clM = [s \in Sid |-> -1] /\ bodyM = [s \in Sid |-> 0]
  /\ outC = K0.ocw0 /\ outS = [s \in Sid |-> 0] /\ iwsM = K0.osw0 /\ mfsM = K0.mfs0
  /\ ctl = <<>> /\ sq = [s \in Sid |-> <<>>]
  /\ needAck = FALSE /\ ga = -1 /\ needGA = FALSE /\ conn = "up"
  /\ hs = [s \in Sid |-> "none"] /\ hk = [s \in Sid |-> 0] /\ hprog = [s \in Sid |-> <<>>]
  /\ hsent = [s \in Sid |-> FALSE] /\ hret = [s \in Sid |-> FALSE]
  /\ sent = [s \in Sid |-> 0] /\ mineM = [s \in Sid |-> TRUE]
  /\ tag = 0 /\ turn = "stim" /\ nstep = 0 /\ ndata = 0 /\ nhdrs = 0
  /\ last = E0 /\ holdM = E0 /\ want = ""

(***************************************************************************)
(* Effects shared by several actions, written as functions of a "delta"    *)
(* record d holding the next value of every variable an error path or      *)
(* closeStream touches.                                                    *)
(***************************************************************************)
Cur == [st |-> st, inC |-> inC, buf |-> buf, bst |-> bst, ctl |-> ctl, sq |-> sq, hs |-> hs,
        hprog |-> hprog, ga |-> ga, needGA |-> needGA, conn |-> conn]

Apply(d) ==
  /\ st' = d.st /\ inC' = d.inC /\ buf' = d.buf /\ bst' = d.bst /\ ctl' = d.ctl /\ sq' = d.sq
  /\ hs' = d.hs /\ hprog' = d.hprog /\ ga' = d.ga /\ needGA' = d.needGA /\ conn' = d.conn

\* a handler whose frame wait / next push is cut short by the stream closing
Abort(h, s) == IF h \in {"wait", "push"} THEN (IF hret[s] THEN "gone" ELSE "idle") ELSE h

\* closeStream (after fix: verif-h2conn): the unread body octets are returned to the
\* connection window and can no longer be read; the stream's queue is forgotten
CloseStream(d, s) ==
  LET n == RunsLen(d.buf[s]) IN
  [d EXCEPT !.st[s] = "closed",
            !.ctl = IF n > 0 THEN Append(@, [Fr("WU", 0) EXCEPT !.inc = n]) ELSE @,
            !.inC = @ + n,
            !.buf[s] = <<>>,
            !.bst[s] = IF @ = "none" THEN "none" ELSE "err",
            !.sq[s] = <<>>,
            !.hs[s] = Abort(@, s),
            !.hprog[s] = <<>>]

\* resetStream(StreamError{s, c})
StreamErr(d, s, c) ==
  LET d1 == [d EXCEPT !.ctl = Append(@, [Fr("RST", s) EXCEPT !.code = c])] IN
  IF s \in Sid /\ d.st[s] \in {"open", "hcr"} THEN CloseStream(d1, s) ELSE d1

\* goAway(c)
ConnErr(d, c) == IF d.ga # -1 THEN d ELSE [d EXCEPT !.ga = c, !.needGA = TRUE]

\* serve() returns: every stream is closed, nothing more is written
ConnClosed(d) ==
  [d EXCEPT !.conn = "closed", !.st = [s \in Sid |-> IF @[s] \in {"open", "hcr"} THEN "closed" ELSE @[s]],
            !.hs = [s \in Sid |-> Abort(@[s], s)], !.hprog = [s \in Sid |-> <<>>],
            !.bst = [s \in Sid |-> IF @[s] = "none" THEN "none" ELSE "err"],
            !.buf = [s \in Sid |-> <<>>], !.sq = [s \in Sid |-> <<>>], !.ctl = <<>>]

StimAny == turn = "stim" /\ conn = "up" /\ ga = -1 /\ nstep < MaxSteps /\ ~p.dead
Stimulus == StimAny /\ holdM.k = ""
After(e) == turn' = "run" /\ nstep' = nstep + 1 /\ last' = e /\ want' = ""
Want(k) == want = "" \/ want = k

(***************************************************************************)
(* Client frames                                                           *)
(***************************************************************************)
FramerLevel == {"upper", "pseudoafter", "badpseudo", "resppseudo", "duppath",
                "trailersupper"}          \* rejected by readMetaFrame (StreamError PROTOCOL)
ReqLevel == {"nomethod", "nopath", "emptypath", "noscheme"}   \* newWriterAndRequest

\* processFrame for a complete header block (HEADERS, or HEADERS + CONTINUATION)
HeadersEffect(s, r, es, cl) ==
  /\ IF r \in FramerLevel THEN
       /\ Apply(StreamErr(Cur, s, PROTOCOL))
       /\ UNCHANGED <<maxId, inS, clM, bodyM, bclosed, outC, outS, iwsM, mfsM, needAck, hk, hsent, hret,
                      sent, mineM, tag, ndata>>
     ELSE IF s % 2 = 0 THEN
       /\ Apply(ConnErr(Cur, PROTOCOL))
       /\ UNCHANGED <<maxId, inS, clM, bodyM, bclosed, outC, outS, iwsM, mfsM, needAck, hk, hsent, hret,
                      sent, mineM, tag, ndata>>
     ELSE IF InMap(s) THEN
       /\ UNCHANGED <<maxId, inS, clM, bodyM, bclosed, outC, outS, iwsM, mfsM, needAck, hk, hsent, hret,
                      sent, mineM, tag, ndata>>
       /\ IF st[s] = "hcr" THEN Apply(StreamErr(Cur, s, STREAMCLOSED))     \* fix: (C35)
          ELSE IF ~es \/ r \notin TrailerOK THEN Apply(StreamErr(Cur, s, PROTOCOL))
          ELSE Apply([Cur EXCEPT !.st[s] = "hcr", !.bst[s] = "eof"])        \* endStream
     ELSE IF s <= maxId THEN
       /\ Apply(ConnErr(Cur, PROTOCOL))
       /\ UNCHANGED <<maxId, inS, clM, bodyM, bclosed, outC, outS, iwsM, mfsM, needAck, hk, hsent, hret,
                      sent, mineM, tag, ndata>>
     ELSE \* a new stream
       /\ maxId' = s
       /\ UNCHANGED <<outC, iwsM, mfsM, needAck, hk, hsent, sent, tag, ndata, bodyM, bclosed>>
       /\ IF NOpen + 1 > K0.maxs THEN        \* maxStreamsError: serve() returns
            /\ Apply(ConnClosed(Cur)) /\ UNCHANGED <<inS, clM, outS, mineM, hret>>
          ELSE IF r \in ReqLevel \/ r \notin (ValidReq \cup ConnSpecific) THEN
            \* stream created, then newWriterAndRequest fails: resetStream + closeStream
            /\ Apply(StreamErr([Cur EXCEPT !.st[s] = IF es THEN "hcr" ELSE "open"], s, PROTOCOL))
            /\ UNCHANGED <<inS, clM, outS, mineM, hret>>
          ELSE
            \* connection-specific fields: the server's own 400 handler answers and returns
            /\ hret' = [hret EXCEPT ![s] = r \notin ValidReq]
            /\ inS' = [inS EXCEPT ![s] = K0.sw0] /\ outS' = [outS EXCEPT ![s] = iwsM]
            /\ clM' = [clM EXCEPT ![s] = IF es THEN -1 ELSE cl]
            /\ mineM' = [mineM EXCEPT ![s] = r \in ValidReq]
            /\ Apply([Cur EXCEPT !.st[s] = IF es THEN "hcr" ELSE "open",
                                 !.bst[s] = IF es THEN "none" ELSE "open",
                                 !.hs[s] = IF r \in ValidReq THEN "new" ELSE "push",
                                 !.hprog[s] = IF r \in ValidReq THEN <<>>
                                              ELSE <<Q([Fr("HEADERS", s) EXCEPT !.code = 400], TRUE),
                                                     Q([Fr("DATA", s) EXCEPT !.n = IF r = "te" THEN N400T ELSE N400C, !.es = TRUE], TRUE)>>])


ClientHeaders(s, r, es, cl) ==
  LET e == [E0 EXCEPT !.ev = "c", !.k = "HEADERS", !.s = s, !.req = r, !.es = es, !.cl = cl] IN
  /\ Stimulus /\ Want("HEADERS") /\ "HEADERS" \in CKinds /\ nhdrs < MaxHdrs
  /\ p' = PClient(p, e) /\ After(e) /\ nhdrs' = nhdrs + 1 /\ UNCHANGED holdM
  /\ HeadersEffect(s, r, es, cl)

\* HEADERS without END_HEADERS: the framer waits for CONTINUATION, nothing reaches serve()
ClientHeadersNEH(s, r, es) ==
  LET e == [E0 EXCEPT !.ev = "c", !.k = "HEADERS", !.s = s, !.req = r, !.es = es, !.op = "neh"] IN
  /\ Stimulus /\ Want("NEH") /\ "NEH" \in CKinds /\ nhdrs < MaxHdrs
  /\ p' = PClient(p, e) /\ After(e) /\ nhdrs' = nhdrs + 1 /\ holdM' = e
  /\ Apply(Cur)
  /\ UNCHANGED <<maxId, inS, clM, bodyM, bclosed, outC, outS, iwsM, mfsM, needAck, hk, hsent, hret, sent,
                 mineM, tag, ndata>>

\* the CONTINUATION completes the block
ClientCont ==
  LET e == [E0 EXCEPT !.ev = "c", !.k = "CONT", !.s = holdM.s] IN
  /\ StimAny /\ Want("CONT") /\ holdM.k # ""
  /\ p' = PClient(p, e) /\ After(e) /\ holdM' = E0 /\ UNCHANGED nhdrs
  /\ HeadersEffect(holdM.s, holdM.req, holdM.es, -1)

\* any other frame inside a header block: checkFrameOrder -> connection error
ClientBreak(k) ==
  LET e == [E0 EXCEPT !.ev = "c", !.k = k, !.s = 0, !.inc = IF k = "PING" THEN nstep + 1 ELSE 0] IN
  /\ StimAny /\ Want("BREAK") /\ holdM.k # ""
  /\ p' = PClient(p, e) /\ After(e) /\ holdM' = E0
  /\ Apply(ConnErr(Cur, PROTOCOL))
  /\ UNCHANGED <<maxId, inS, clM, bodyM, bclosed, outC, outS, iwsM, mfsM, needAck, hk, hsent, hret, sent,
                 mineM, tag, ndata, nhdrs>>

ClientData(s, L, pad, es) ==
  LET t == ((tag + 1) % 250) + 1      \* octet value filling this frame's payload
      d == L - pad
      e == [E0 EXCEPT !.ev = "c", !.k = "DATA", !.s = s, !.n = L, !.p = pad, !.es = es, !.first = t] IN
  /\ Stimulus /\ Want("DATA") /\ "DATA" \in CKinds /\ ndata < MaxData /\ pad <= L
  /\ p' = PClient(p, e)
  /\ After(e) /\ tag' = tag + 1 /\ ndata' = ndata + 1 /\ UNCHANGED holdM
  /\ UNCHANGED <<maxId, clM, bclosed, outC, outS, iwsM, mfsM, needAck, hk, hsent, hret, sent, mineM, nhdrs>>
  /\ IF st[s] # "open" THEN
       /\ UNCHANGED <<inS, bodyM>>
       /\ IF st[s] = "idle" /\ s > maxId THEN Apply(ConnErr(Cur, PROTOCOL))   \* fix: (C35)
          ELSE IF inC < L THEN Apply(StreamErr(Cur, s, FLOW))
          ELSE Apply(StreamErr([Cur EXCEPT !.ctl = IF L > 0 THEN Append(@, [Fr("WU", 0) EXCEPT !.inc = L]) ELSE @],
                               s, STREAMCLOSED))
     ELSE IF clM[s] >= 0 /\ bodyM[s] + d > clM[s] THEN
       \* fix: (C33) the stream is reset, then the frame is charged to and returned to the
       \* connection window
       /\ UNCHANGED <<inS, bodyM>>
       /\ IF inC < L THEN Apply(StreamErr(Cur, s, FLOW))
          ELSE LET d1 == StreamErr(Cur, s, PROTOCOL) IN
               Apply([d1 EXCEPT !.ctl = IF L > 0 THEN Append(@, [Fr("WU", 0) EXCEPT !.inc = L]) ELSE @])
     ELSE IF L > 0 /\ Min(inS[s], inC) < L THEN
       /\ UNCHANGED <<inS, bodyM>> /\ Apply(StreamErr(Cur, s, FLOW))
     ELSE IF d > 0 /\ bclosed[s] THEN
       \* st.body.Write fails.  fix: (C33) the frame's connection-level credit is returned
       /\ UNCHANGED <<inS, bodyM>>
       /\ Apply(StreamErr([Cur EXCEPT !.ctl = Append(@, [Fr("WU", 0) EXCEPT !.inc = L])], s, STREAMCLOSED))
     ELSE
       /\ inS' = [inS EXCEPT ![s] = @ - L + pad]
       /\ bodyM' = [bodyM EXCEPT ![s] = @ + d]
       /\ Apply([Cur EXCEPT !.inC = @ - L + pad,
                            !.buf[s] = IF d > 0 THEN Append(@, [t |-> t, n |-> d]) ELSE @,
                            !.ctl = IF pad > 0 THEN Append(@, [Fr("WU", 0) EXCEPT !.inc = pad]) ELSE @,
                            !.sq[s] = IF pad > 0 THEN Append(@, Q([Fr("WU", s) EXCEPT !.inc = pad], FALSE)) ELSE @,
                            !.st[s] = IF es THEN "hcr" ELSE "open",
                            !.bst[s] = IF es THEN "eof" ELSE @])

ClientRst(s, c) ==
  LET e == [E0 EXCEPT !.ev = "c", !.k = "RST", !.s = s, !.code = c] IN
  /\ Stimulus /\ Want("RST") /\ "RST" \in CKinds
  /\ p' = PClient(p, e) /\ After(e) /\ UNCHANGED holdM
  /\ UNCHANGED <<maxId, inS, clM, bodyM, bclosed, outC, outS, iwsM, mfsM, needAck, hk, hsent, hret, sent,
                 mineM, tag, ndata, nhdrs>>
  /\ IF st[s] = "idle" /\ s > maxId THEN Apply(ConnErr(Cur, PROTOCOL))
     ELSE IF InMap(s) THEN Apply(CloseStream(Cur, s))
     ELSE Apply(Cur)

ClientWu(s, inc) ==
  LET e == [E0 EXCEPT !.ev = "c", !.k = "WU", !.s = s, !.inc = inc] IN
  /\ Stimulus /\ Want("WU") /\ "WU" \in CKinds
  /\ p' = PClient(p, e) /\ After(e) /\ UNCHANGED holdM
  /\ UNCHANGED <<maxId, inS, clM, bodyM, bclosed, iwsM, mfsM, needAck, hk, hsent, hret, sent, mineM, tag,
                 ndata, nhdrs>>
  /\ IF inc = 0 THEN                           \* parseWindowUpdateFrame
       /\ UNCHANGED <<outC, outS>>
       /\ IF s = 0 THEN Apply(ConnErr(Cur, PROTOCOL)) ELSE Apply(StreamErr(Cur, s, PROTOCOL))
     ELSE IF s = 0 THEN
       IF Over(outC, inc) THEN UNCHANGED <<outC, outS>> /\ Apply(ConnErr(Cur, FLOW))
       ELSE outC' = outC + inc /\ UNCHANGED outS /\ Apply(Cur)
     ELSE IF st[s] = "idle" /\ s > maxId THEN   \* fix: (C35)
       UNCHANGED <<outC, outS>> /\ Apply(ConnErr(Cur, PROTOCOL))
     ELSE IF ~InMap(s) THEN UNCHANGED <<outC, outS>> /\ Apply(Cur)
     ELSE IF Over(outS[s], inc) THEN UNCHANGED <<outC, outS>> /\ Apply(StreamErr(Cur, s, FLOW))
     ELSE outS' = [outS EXCEPT ![s] = @ + inc] /\ UNCHANGED outC /\ Apply(Cur)

ClientSettings(iws, mfs) ==
  LET e == [E0 EXCEPT !.ev = "c", !.k = "SETTINGS", !.iws = iws, !.mfs = mfs]
      niws == IF iws >= 0 THEN iws ELSE iwsM IN
  /\ Stimulus /\ Want("SETTINGS") /\ "SETTINGS" \in CKinds
  /\ p' = PClient(p, e) /\ After(e) /\ UNCHANGED holdM
  /\ UNCHANGED <<maxId, inS, clM, bodyM, bclosed, outC, hk, hsent, hret, sent, mineM, tag, ndata, nhdrs>>
  /\ IF iws = -2 THEN UNCHANGED <<outS, iwsM, mfsM, needAck>> /\ Apply(ConnErr(Cur, FLOW))
     ELSE IF \E s \in Sid : InMap(s) /\ Over(outS[s], niws - iwsM) THEN
       \* the code has already moved sc.initialWindowSize and some streams; it ends the connection
       UNCHANGED <<outS, iwsM, mfsM, needAck>> /\ Apply(ConnErr(Cur, FLOW))
     ELSE IF mfs >= 0 /\ (mfs < MfsMin \/ mfs > MfsMax) THEN
       UNCHANGED <<outS, iwsM, mfsM, needAck>> /\ Apply(ConnErr(Cur, PROTOCOL))
     ELSE
       /\ outS' = [s \in Sid |-> IF InMap(s) THEN outS[s] + (niws - iwsM) ELSE outS[s]]
       /\ iwsM' = niws /\ mfsM' = IF mfs >= 0 THEN mfs ELSE mfsM
       /\ needAck' = TRUE /\ Apply(Cur)

ClientPing ==
  LET e == [E0 EXCEPT !.ev = "c", !.k = "PING", !.inc = nstep + 1] IN
  /\ Stimulus /\ Want("PING") /\ "PING" \in CKinds
  /\ p' = PClient(p, e) /\ After(e) /\ UNCHANGED holdM
  /\ UNCHANGED <<maxId, inS, clM, bodyM, bclosed, outC, outS, iwsM, mfsM, needAck, hk, hsent, hret, sent,
                 mineM, tag, ndata, nhdrs>>
  /\ Apply([Cur EXCEPT !.ctl = Append(@, [Fr("PINGACK", 0) EXCEPT !.inc = nstep + 1])])

\* frames without effect on this state (PRIORITY, PING ACK, unknown types)
ClientNoEffect(k, s) ==
  LET e == [E0 EXCEPT !.ev = "c", !.k = k, !.s = s] IN
  /\ Stimulus /\ Want("NOEFF") /\ k \in CKinds
  /\ p' = PClient(p, e) /\ After(e) /\ UNCHANGED holdM
  /\ UNCHANGED <<maxId, inS, clM, bodyM, bclosed, outC, outS, iwsM, mfsM, needAck, hk, hsent, hret, sent,
                 mineM, tag, ndata, nhdrs>>
  /\ Apply(Cur)

\* frames the framer turns into a connection error PROTOCOL_ERROR
ClientConnErr(k, s) ==
  LET e == [E0 EXCEPT !.ev = "c", !.k = k, !.s = s] IN
  /\ Stimulus /\ Want("CONNERR") /\ k \in CKinds
  /\ p' = PClient(p, e) /\ After(e) /\ UNCHANGED holdM
  /\ UNCHANGED <<maxId, inS, clM, bodyM, bclosed, outC, outS, iwsM, mfsM, needAck, hk, hsent, hret, sent,
                 mineM, tag, ndata, nhdrs>>
  /\ Apply(ConnErr(Cur, PROTOCOL))

(***************************************************************************)
(* Handler commands (stimuli) and handler steps                            *)
(***************************************************************************)
HCmd(s, op, n) ==
  LET e == [E0 EXCEPT !.ev = "hc", !.s = s, !.op = op, !.n = n] IN
  /\ Stimulus /\ Want("h-" \o op) /\ op \in HOps /\ hs[s] = "idle"
  /\ p' = PHcmd(p, e) /\ After(e) /\ UNCHANGED holdM
  /\ UNCHANGED <<st, maxId, inC, inS, buf, bst, clM, bodyM, outC, outS, iwsM, mfsM, ctl, sq, needAck,
                 ga, needGA, conn, sent, mineM, tag, ndata, nhdrs>>
  /\ bclosed' = IF op = "closebody" THEN [bclosed EXCEPT ![s] = TRUE] ELSE bclosed
  /\ CASE op = "read" -> /\ ~bclosed[s]
                         /\ hs' = [hs EXCEPT ![s] = "rd"] /\ hk' = [hk EXCEPT ![s] = n]
                         /\ UNCHANGED <<hprog, hsent, hret>>
       \* RequestBody.Close: pipe.CloseWithError(errClosedBody); later DATA cannot be written
       [] op = "closebody" -> /\ bst[s] = "open" /\ ~bclosed[s] /\ InMap(s)
                              /\ UNCHANGED <<hs, hk, hprog, hsent, hret>>
       [] op = "write" -> /\ InMap(s)        \* no new response writes on a closed stream
                          /\ hs' = [hs EXCEPT ![s] = "push"]
                          /\ hprog' = [hprog EXCEPT ![s] =
                                (IF hsent[s] THEN <<>> ELSE <<Q([Fr("HEADERS", s) EXCEPT !.code = 200], TRUE)>>)
                                \o <<Q([Fr("DATA", s) EXCEPT !.n = n], TRUE)>>]
                          /\ hsent' = [hsent EXCEPT ![s] = TRUE] /\ UNCHANGED <<hk, hret>>
       [] op = "hdr" -> /\ InMap(s) /\ ~hsent[s]
                        /\ hs' = [hs EXCEPT ![s] = "push"]
                        /\ hprog' = [hprog EXCEPT ![s] = <<Q([Fr("HEADERS", s) EXCEPT !.code = 200], TRUE)>>]
                        /\ hsent' = [hsent EXCEPT ![s] = TRUE] /\ UNCHANGED <<hk, hret>>
       [] op = "ret" -> /\ hs' = [hs EXCEPT ![s] = "push"]
                        /\ hprog' = [hprog EXCEPT ![s] =
                              IF hsent[s] THEN <<Q([Fr("DATA", s) EXCEPT !.es = TRUE], TRUE)>>
                              ELSE <<Q([Fr("HEADERS", s) EXCEPT !.code = 200, !.es = TRUE], TRUE)>>]
                        /\ hret' = [hret EXCEPT ![s] = TRUE] /\ hsent' = [hsent EXCEPT ![s] = TRUE]
                        /\ UNCHANGED hk

\* A handler Read and the client's RST_STREAM for the same stream race: the handler has taken n
\* octets out of the body pipe (RequestBody.Read) but its body-read note (noteBodyReadFromHandler)
\* reaches the serve loop at the same time as the RST_STREAM frame; the loop's select decides
\* which is handled first.  Either way every accepted octet goes back to the connection window:
\* noteBodyRead returns n (connection level; stream level only while the stream is open),
\* closeStream returns what is still buffered.
RaceReadRst(s, k, c, noteFirst) ==
  LET n == Min(k, RunsLen(buf[s]))
      ehc == [E0 EXCEPT !.ev = "hc", !.s = s, !.op = "read", !.n = k]
      erst == [E0 EXCEPT !.ev = "c", !.k = "RST", !.s = s, !.code = c]
      eh == [E0 EXCEPT !.ev = "h", !.s = s, !.op = "read", !.n = n, !.runs = TakeRuns(buf[s], n)]
      taken == [Cur EXCEPT !.buf[s] = DropRuns(@, n)]
      note(d) == [d EXCEPT !.inC = @ + n, !.ctl = Append(@, [Fr("WU", 0) EXCEPT !.inc = n]),
                           !.sq[s] = IF d.st[s] = "open" THEN Append(@, Q([Fr("WU", s) EXCEPT !.inc = n], FALSE)) ELSE @] IN
  /\ Stimulus /\ Want("RACE") /\ "RACE" \in CKinds
  /\ hs[s] = "idle" /\ InMap(s) /\ ~bclosed[s] /\ n > 0
  /\ p' = PHandler(PClient(PHcmd(p, ehc), erst), eh)
  /\ After([E0 EXCEPT !.ev = "race", !.k = "RACE", !.s = s, !.n = k, !.code = c]) /\ UNCHANGED holdM
  /\ inS' = IF noteFirst /\ st[s] = "open" THEN [inS EXCEPT ![s] = @ + n] ELSE inS
  /\ Apply(IF noteFirst THEN CloseStream(note(taken), s) ELSE note(CloseStream(taken, s)))
  /\ UNCHANGED <<maxId, clM, bodyM, bclosed, outC, outS, iwsM, mfsM, needAck, hk, hsent, hret, sent,
                 mineM, tag, ndata, nhdrs>>

\* The client has stopped reading; the handler writes WRN octets without flushing and returns:
\* HEADERS goes into the write buffer, the final DATA frame (END_STREAM) blocks in the writer
\* goroutine.  The client's RST_STREAM for the stream is processed while that frame is in flight
\* (closeStream); then the client reads again, the write completes and wroteFrame finds the
\* stream already closed.  On the wire: HEADERS, DATA(END_STREAM) arrive after the RST_STREAM.
WRaceRetRst(s, c) ==
  LET ehc == [E0 EXCEPT !.ev = "hc", !.s = s, !.op = "wret", !.n = WRN]
      erst == [E0 EXCEPT !.ev = "c", !.k = "RST", !.s = s, !.code = c, !.op = "inflight"]
      fh == [Fr("HEADERS", s) EXCEPT !.code = 200]
      fd == [Fr("DATA", s) EXCEPT !.n = WRN, !.es = TRUE, !.first = Pat(sent[s])]
      p1 == PClient(PHcmd(p, ehc), erst)
      p2 == IF hsent[s] THEN p1 ELSE PServer(p1, fh) IN
  /\ Stimulus /\ Want("WRACE") /\ "WRACE" \in CKinds
  /\ hs[s] = "idle" /\ InMap(s) /\ WRN <= Min(Min(outS[s], outC), mfsM) /\ sq[s] = <<>>
  /\ p' = PServer(p2, fd)
  /\ After([E0 EXCEPT !.ev = "wrace", !.k = "WRACE", !.s = s, !.n = WRN, !.code = c]) /\ UNCHANGED holdM
  /\ outS' = [outS EXCEPT ![s] = @ - WRN] /\ outC' = outC - WRN
  /\ sent' = [sent EXCEPT ![s] = @ + WRN]
  /\ hsent' = [hsent EXCEPT ![s] = TRUE] /\ hret' = [hret EXCEPT ![s] = TRUE]
  /\ Apply([CloseStream(Cur, s) EXCEPT !.hs[s] = "gone"])
  /\ UNCHANGED <<maxId, inS, clM, bodyM, bclosed, iwsM, mfsM, needAck, hk, mineM, tag, ndata, nhdrs>>

Running == turn = "run" /\ conn = "up"

HStart(s) ==
  /\ Running /\ hs[s] = "new"
  /\ hs' = [hs EXCEPT ![s] = "idle"]
  /\ p' = PHandler(p, [E0 EXCEPT !.ev = "h", !.s = s, !.op = "start"])
  /\ UNCHANGED <<st, maxId, inC, inS, buf, bst, clM, bodyM, bclosed, outC, outS, iwsM, mfsM, ctl, sq, needAck,
                 ga, needGA, conn, hk, hprog, hsent, hret, sent, mineM, tag, turn, nstep, ndata, nhdrs, last, holdM, want>>

\* writeFrameFromHandler: the message reaches serve() and is queued (or, on a closed stream,
\* skipped by startFrameWrite: only zero-cost frames get here, see HCmd)
HPush(s) ==
  /\ Running /\ hs[s] = "push" /\ hprog[s] # <<>>
  /\ IF InMap(s)
       THEN /\ sq' = [sq EXCEPT ![s] = Append(@, Head(hprog[s]))]
            /\ hs' = [hs EXCEPT ![s] = "wait"]
            /\ hprog' = [hprog EXCEPT ![s] = Tail(@)]
       ELSE /\ sq' = sq /\ hprog' = [hprog EXCEPT ![s] = <<>>]
            /\ hs' = [hs EXCEPT ![s] = IF hret[s] THEN "gone" ELSE "idle"]
  /\ UNCHANGED <<p, st, maxId, inC, inS, buf, bst, clM, bodyM, bclosed, outC, outS, iwsM, mfsM, ctl, needAck,
                 ga, needGA, conn, hk, hsent, hret, sent, mineM, tag, turn, nstep, ndata, nhdrs, last, holdM, want>>

\* RequestBody.Read returns; noteBodyRead on the serve loop
HReadDone(s) ==
  /\ Running /\ hs[s] = "rd"
  /\ bst[s] \in {"none", "eof", "err"} \/ buf[s] # <<>>
  /\ hs' = [hs EXCEPT ![s] = "idle"]
  /\ LET n == IF bst[s] = "err" THEN 0 ELSE Min(hk[s], RunsLen(buf[s]))
         e == [E0 EXCEPT !.ev = "h", !.s = s, !.op = "read", !.n = n, !.runs = TakeRuns(buf[s], n)] IN
     /\ p' = PHandler(p, e)
     /\ buf' = [buf EXCEPT ![s] = DropRuns(@, n)]
     /\ inC' = inC + n
     /\ ctl' = IF n > 0 THEN Append(ctl, [Fr("WU", 0) EXCEPT !.inc = n]) ELSE ctl
     /\ IF n > 0 /\ st[s] = "open"
          THEN /\ inS' = [inS EXCEPT ![s] = @ + n]
               /\ sq' = [sq EXCEPT ![s] = Append(@, Q([Fr("WU", s) EXCEPT !.inc = n], FALSE))]
          ELSE UNCHANGED <<inS, sq>>
  /\ UNCHANGED <<st, maxId, bst, clM, bodyM, bclosed, outC, outS, iwsM, mfsM, needAck, ga, needGA, conn, hk,
                 hprog, hsent, hret, sent, mineM, tag, turn, nstep, ndata, nhdrs, last, holdM, want>>

(***************************************************************************)
(* scheduleFrameWrite + writeFrames + wroteFrame                           *)
(***************************************************************************)
Avail(s) == Min(outS[s], outC)
NoCost(s) == sq[s] # <<>> /\ ~(Head(sq[s]).f.k = "DATA" /\ Head(sq[s]).f.n > 0)
CanData(s) == sq[s] # <<>> /\ Head(sq[s]).f.k = "DATA" /\ Head(sq[s]).f.n > 0 /\ Avail(s) > 0

\* handler waiting for this queue entry continues
Woken(h, s, prog) == IF h = "wait" THEN (IF prog # <<>> THEN "push" ELSE IF hret[s] THEN "gone" ELSE "idle") ELSE h

\* wroteFrame for a complete stream frame q of stream s
AfterStreamFrame(d, s, q) ==
  LET d1 == IF q.notify THEN [d EXCEPT !.hs[s] = Woken(@, s, d.hprog[s])] ELSE d IN
  IF q.f.es THEN
    IF d.st[s] = "open"
      THEN CloseStream([d1 EXCEPT !.ctl = Append(@, [Fr("RST", s) EXCEPT !.code = NOERR])], s)
      ELSE CloseStream(d1, s)
  ELSE d1

\* writeGoAway.writeFrame: after an error GOAWAY the writer flushes and closes the connection
WriteGoAway ==
  /\ needGA
  /\ p' = PServer(p, [Fr("GOAWAY", maxId) EXCEPT !.code = ga])
  /\ Apply([(IF ga # NOERR THEN ConnClosed(Cur) ELSE Cur) EXCEPT !.needGA = FALSE])
  /\ UNCHANGED <<inS, needAck, outC, outS, sent>>

WriteAck ==
  /\ ~needGA /\ needAck
  /\ p' = PServer(p, Fr("SETACK", 0))
  /\ needAck' = FALSE /\ Apply(Cur)
  /\ UNCHANGED <<inS, outC, outS, sent>>

WriteCtl ==
  /\ ~needGA /\ ~needAck /\ (ga = -1 \/ ga = NOERR) /\ ctl # <<>>
  /\ p' = PServer(p, Head(ctl))
  /\ Apply([Cur EXCEPT !.ctl = Tail(@)])
  /\ UNCHANGED <<inS, needAck, outC, outS, sent>>

WriteNoCost(s) ==
  /\ ~needGA /\ ~needAck /\ (ga = -1 \/ ga = NOERR) /\ ctl = <<>> /\ NoCost(s)
  /\ LET q == Head(sq[s]) IN
     /\ p' = PServer(p, IF q.f.k = "DATA" THEN [q.f EXCEPT !.first = Pat(sent[s])] ELSE q.f)
     /\ Apply(AfterStreamFrame([Cur EXCEPT !.sq[s] = Tail(@)], s, q))
  /\ UNCHANGED <<inS, needAck, outC, outS, sent>>

WriteData(s) ==
  /\ ~needGA /\ ~needAck /\ (ga = -1 \/ ga = NOERR) /\ ctl = <<>>
  /\ \A t \in Sid : ~NoCost(t)
  /\ CanData(s)
  /\ LET q == Head(sq[s])
         n == Min(q.f.n, Min(Avail(s), mfsM))
         whole == n = q.f.n
         f == [q.f EXCEPT !.n = n, !.es = IF whole THEN q.f.es ELSE FALSE, !.first = Pat(sent[s])] IN
     /\ p' = PServer(p, f)
     /\ outS' = [outS EXCEPT ![s] = @ - n] /\ outC' = outC - n
     /\ sent' = [sent EXCEPT ![s] = @ + n]
     /\ IF whole THEN Apply(AfterStreamFrame([Cur EXCEPT !.sq[s] = Tail(@)], s, q))
        ELSE Apply([Cur EXCEPT !.sq[s] = <<Q([q.f EXCEPT !.n = @ - n], q.notify)>> \o Tail(@)])
  /\ UNCHANGED <<inS, needAck>>

WriteFrame ==
  /\ Running
  /\ WriteGoAway \/ WriteAck \/ WriteCtl \/ (\E s \in Sid : WriteNoCost(s)) \/ (\E s \in Sid : WriteData(s))
  /\ UNCHANGED <<maxId, clM, bodyM, bclosed, iwsM, mfsM, hk, hsent, hret, mineM, tag, turn, nstep, ndata, nhdrs,
                 last, holdM, want>>

CanWrite == needGA \/ needAck \/ ((ga = -1 \/ ga = NOERR) /\ (ctl # <<>> \/ \E s \in Sid : NoCost(s) \/ CanData(s)))
Busy == conn = "up" /\ (CanWrite \/ \E s \in Sid : hs[s] = "new" \/ (hs[s] = "push" /\ hprog[s] # <<>>)
                                          \/ (hs[s] = "rd" /\ (bst[s] \in {"none", "eof", "err"} \/ buf[s] # <<>>)))

Quiesce ==
  /\ turn = "run" /\ ~Busy
  /\ p' = PQuiesce(p, [E0 EXCEPT !.ev = "q", !.closed = conn = "closed"])
  /\ turn' = "stim" /\ last' = E0
  /\ UNCHANGED <<st, maxId, inC, inS, buf, bst, clM, bodyM, bclosed, outC, outS, iwsM, mfsM, ctl, sq, needAck,
                 ga, needGA, conn, hs, hk, hprog, hsent, hret, sent, mineM, tag, nstep, ndata, nhdrs,
                 holdM, want>>

\* boundary-directed DATA lengths ("BOUND" in CKinds): exactly what the windows of an open stream
\* still allow, one octet more than that, and one octet more than the connection window
Boundary(s) == IF "BOUND" \in CKinds /\ st[s] = "open"
               THEN {x \in {Min(inS[s], inC), Min(inS[s], inC) + 1, inC + 1} : x > 0} ELSE {}

StimNext ==
  \/ \E s \in SidsUsed, r \in Reqs, es \in ESs, cl \in CLs :
        /\ (cl >= 0 => r = "post" /\ ~es)
        /\ ClientHeaders(s, r, es, cl)
  \/ \E s \in SidsUsed, r \in Trailers, es \in ESs : InMap(s) /\ ClientHeaders(s, r, es, -1)
  \/ \E s \in SidsUsed : \E L \in DataLens \cup Boundary(s), pad \in Pads, es \in ESs : ClientData(s, L, pad, es)
  \/ \E s \in SidsUsed, c \in RstCodes : ClientRst(s, c)
  \/ \E s \in SidsUsed, k \in ReadLens, c \in RstCodes, nf \in BOOLEAN : RaceReadRst(s, k, c, nf)
  \/ \E s \in SidsUsed, c \in RstCodes : WRaceRetRst(s, c)
  \/ \E s \in SidsUsed \cup {0}, inc \in WuIncs : ClientWu(s, inc)
  \/ \E iws \in IwsVals, mfs \in MfsVals : (iws # -1 \/ mfs # -1) /\ ClientSettings(iws, mfs)
  \/ ClientPing
  \/ \E s \in SidsUsed, r \in Reqs, es \in ESs : ClientHeadersNEH(s, r, es)
  \/ ClientCont \/ ClientBreak("PING") \/ ClientBreak("SETTINGS")
  \/ \E s \in SidsUsed : ClientNoEffect("PRIORITY", s)
  \/ ClientNoEffect("PINGACK", 0) \/ ClientNoEffect("UNKNOWN", 0)
  \/ ClientConnErr("CONT", CHOOSE s \in SidsUsed : TRUE) \/ ClientConnErr("PUSH", CHOOSE s \in SidsUsed : TRUE)
  \/ \E s \in SidsUsed : \/ \E n \in ReadLens : HCmd(s, "read", n)
                         \/ \E n \in WriteLens : HCmd(s, "write", n)
                         \/ HCmd(s, "hdr", 0) \/ HCmd(s, "ret", 0) \/ HCmd(s, "closebody", 0)

Next == StimNext \/ (\E s \in Sid : HStart(s) \/ HPush(s) \/ HReadDone(s)) \/ WriteFrame \/ Quiesce

Spec == Init /\ [][Next]_vars

(***************************************************************************)
(* Properties                                                              *)
(***************************************************************************)
NoViolation == p.viol = {}            \* M |= P

\* internal-invariant panics of the code (flow.take "took too much", negative update,
\* "sent too many window updates") are unreachable
NoInternalPanic ==
  /\ inC >= 0 /\ inC <= K0.cw0
  /\ \A s \in Sid : InMap(s) => (inS[s] >= 0 /\ inS[s] <= K0.sw0)
  /\ outC >= 0

\* Layer-M bookkeeping agrees with what the client can compute from the wire
Agree == turn = "stim" /\ conn = "up" /\ ga = -1 /\ ~p.dead =>
           /\ p.ocw = outC /\ (p.compliant => p.cw = inC)
           /\ \A s \in Sid : InMap(s) => (p.osw[s] = outS[s] /\ (st[s] = "open" /\ p.compliant => p.sw[s] = inS[s]))
           /\ \A s \in Sid : (st[s] = "open") = (p.ph[s] = "open")
           /\ \A s \in Sid : (st[s] = "hcr") = (p.ph[s] = "hcr")
=============================================================================
