--------------------------- MODULE TraceHpack ---------------------------
(* Trace validation of recorded executions of the real hpack.Encoder / hpack.Decoder pair  *)
(* against Layer P of C30.  trace.ndjson holds many recorded runs back to back, one event  *)
(* per operation.  A "field" event carries the input field, the representations found on   *)
(* the wire (independent parser), what the real decoder and the witness decoder emitted,   *)
(* and both real tables.  The RFC decoder of HpackP is stepped over the wire; every        *)
(* obligation is evaluated on every event; failures are collected in `bad`.                *)
EXTENDS HpackP, Json, TLC, FiniteSets

Trace == ndJsonDeserialize("trace.ndjson")

INF == 100000000
Min(a, b) == IF a < b THEN a ELSE b

VARIABLES l,        \* next event
          d,        \* RFC decoder state driven by the observed wire
          low,      \* smallest setting announced since the last field
          dead, bad
tvars == <<l, d, low, dead, bad>>

Ev == Trace[l]
Mark(why) == bad' = bad \cup {[cid |-> Ev.cid, l |-> l, why |-> why]}

D0 == [tab |-> <<>>, max |-> 4096, allowed |-> 4096]
TInit == l = 1 /\ d = D0 /\ low = INF /\ dead = FALSE /\ bad = {}

IsPrefix(a, b) == Len(a) <= Len(b) /\ SubSeq(b, 1, Len(a)) = a
Plain(t) == [i \in 1..Len(t) |-> [n |-> t[i].n, v |-> t[i].v]]
Upd(reps) == {k \in 1..Len(reps) : reps[k].k = "upd"}

\* the obligations of one field event; r = RFC decoding of the observed representations
Obligation(r) ==
  IF Ev.err # "" THEN "decoder-error"                                     \* own decoder / encoder failed
  ELSE IF r.err THEN "wire-decode-error"                                  \* RFC decoder rejects the wire
  ELSE IF r.out # <<Ev.f>> THEN "wire-roundtrip"                          \* the wire does not mean the input
  ELSE IF Ev.out # <<Ev.f>> THEN "roundtrip"                              \* real decoder output
  ELSE IF ~Ev.xskip /\ (Ev.xerr # "" \/ Ev.xout # <<Ev.f>>) THEN "witness" \* golang.org/x/net decoder
  ELSE IF Upd(Ev.reps) # {} /\ ~Ev.first THEN "update-placement"          \* 4.2
  ELSE IF low < d.max /\ ~(Len(Ev.reps) > 0 /\ Ev.reps[1].k = "upd" /\ Ev.reps[1].i <= low)
         THEN "min-not-signalled"                                         \* 4.2
  ELSE IF Plain(Ev.dtab) # r.d.tab \/ Ev.dmax # r.d.max THEN "decoder-table"   \* 4.3, 4.4 eviction order
  ELSE IF ~(TabSize(Ev.dtab) = Ev.dsize /\ Ev.dsize <= Ev.dmax /\ Ev.dmax <= Ev.dallowed) THEN "decoder-bounds"
  ELSE IF ~(TabSize(Ev.etab) = Ev.esize /\ Ev.esize <= Ev.emax /\ Ev.emax <= Ev.elimit) THEN "encoder-bounds"
  ELSE IF ~(IsPrefix(Plain(Ev.etab), Plain(Ev.dtab)) /\ Ev.emax = Ev.dmax) THEN "tables-diverged"
  ELSE "ok"

TStart == Ev.ev = "start" /\ d' = D0 /\ low' = INF /\ dead' = FALSE /\ UNCHANGED bad
Skip == Ev.ev # "start" /\ dead /\ UNCHANGED <<d, low, dead, bad>>

TField == /\ Ev.ev = "field" /\ ~dead
          /\ LET r == DecodeSeq(d, Ev.reps, <<>>)
                 o == Obligation(r) IN
               /\ d' = r.d /\ low' = INF
               /\ IF o = "ok" THEN UNCHANGED <<dead, bad>> ELSE Mark(o) /\ dead' = TRUE

TSetMax == /\ Ev.ev = "setmax" /\ ~dead
           /\ d' = [d EXCEPT !.allowed = Ev.arg] /\ low' = Min(low, Ev.arg)
           /\ UNCHANGED <<dead, bad>>
TSetLimit == Ev.ev = "setlimit" /\ ~dead /\ UNCHANGED <<d, low, dead, bad>>
TEnd == /\ Ev.ev = "end" /\ ~dead /\ UNCHANGED <<d, low>>
        /\ IF Ev.err = "" /\ Ev.xerr = "" THEN UNCHANGED <<dead, bad>> ELSE Mark("close-error") /\ dead' = TRUE

TNext == /\ l <= Len(Trace) /\ l' = l + 1
         /\ (TStart \/ Skip \/ TField \/ TSetMax \/ TSetLimit \/ TEnd)

Report == (l = Len(Trace) + 1) => PrintT(ToJson([done |-> TRUE, consumed |-> l - 1, bad |-> bad]))
Accepted == TLCGet("stats").diameter - 1 = Len(Trace)
=========================================================================
