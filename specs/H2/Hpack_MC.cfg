CONSTANTS
  Names = @NAMES@
  Values = @VALUES@
  MaxVals = @MAXVALS@
  LimitVals = @LIMITS@
  LongLens = @LONG@
  MaxSteps = @STEPS@
INIT Init
NEXT Next
INVARIANTS NoDecodeError RoundTrip InSync EncBounds DecBounds UpdatesAtStart MinSignalled
CHECK_DEADLOCK FALSE
