CONSTANTS
  Limit = 3
  Escape = 2
  EscapeChoices = {0, 1, 2}
  Bursts = {1, 2, 4}
  Kinds = {"PING", "WU0", "DATAC", "SETTINGS"}
  MaxSteps = @STEPS@
  Histories = {0, 2}
  GoAways = {FALSE, TRUE}
INIT Init
NEXT Next
INVARIANTS Bounded ClosedOver MayOnly Delivered
CHECK_DEADLOCK FALSE
