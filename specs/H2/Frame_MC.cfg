CONSTANTS
  UseCtx = @CTX@
INIT Init
NEXT Next
INVARIANTS MInP CtxOK LayoutOK FlagsIgnored
CHECK_DEADLOCK FALSE
