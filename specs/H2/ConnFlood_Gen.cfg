\* real limit (maxQueuedControlFrames = 10000); Escape is only used in the printed expectation
CONSTANTS
  Limit = 10000
  Escape = @ESCAPE@
  EscapeChoices = {0}
  Bursts = @BURSTS@
  Kinds = @KINDS@
  MaxSteps = @STEPS@
  Histories = @HISTS@
  GoAways = {FALSE, TRUE}
INIT Init
NEXT Next
INVARIANTS Emit
CHECK_DEADLOCK FALSE
