CONSTANTS
  Names = @NAMES@
  Values = @VALUES@
  MaxVals = @MAXVALS@
  LimitVals = @LIMITS@
  MaxSteps = @STEPS@
INIT GInit
NEXT GNext
INVARIANTS Emit
CHECK_DEADLOCK FALSE
