CONSTANTS
  Names = @NAMES@
  Values = @VALUES@
  MaxVals = @MAXVALS@
  LimitVals = @LIMITS@
  LongLens = @LONG@
  MaxSteps = @STEPS@
INIT GInit
NEXT GNext
INVARIANTS Emit
CHECK_DEADLOCK FALSE
