CONSTANTS
  Methods = @METHODS@
  Statuses = @STATUSES@
  MaxItems = @MAXITEMS@
  WritePlans = @PLANS@
  TrailerModes = @TRAILERS@
  CLModes = @CLS@
INIT Init
NEXT Next
INVARIANT Emit
CHECK_DEADLOCK FALSE
