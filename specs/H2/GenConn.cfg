\* generator for the h2conn family: real octet counts, seeded simulation
CONSTANTS
  MaxSidC = 7
  MaxWin = 2147483647
  MfsMin = 16384
  MfsMax = 16777215
  CW0 = 65535
  SW0 = @SW0@
  OCW0 = @OCW0@
  OSW0 = @OSW0@
  MFS0 = 16384
  MAXS = @MAXS@
  SidsUsed = @SIDS@
  ESs = @ESS@
  CKinds = @KINDS@
  Reqs = @REQS@
  Trailers = @TRAILERS@
  DataLens = @DATALENS@
  Pads = @PADS@
  WuIncs = @WUINCS@
  IwsVals <- @IWS@
  MfsVals <- @MFS@
  RstCodes = {8}
  CLs <- @CLS@
  HOps = @HOPS@
  ReadLens = @READLENS@
  WriteLens = @WRITELENS@
  WRN = 4090
  N400C = 51
  N400T = 53
  MaxSteps = @STEPS@
  MinSteps = @MINSTEPS@
  Heavy = @HEAVY@
  FirstHeaders = @FIRSTH@
  MaxData = @MAXDATA@
  MaxHdrs = @MAXHDRS@
INIT GInit
NEXT GNext
INVARIANTS Emit
CHECK_DEADLOCK FALSE
