--------------------------- MODULE HpackDecode ---------------------------
(* C31  HPACK decoding (RFC 7541 sections 5, 6) down to octets.                                *)
(*                                                                                             *)
(* A header block is described STRUCTURALLY: a sequence of items (representation kind, how its *)
(* integer is coded, how its strings are coded), optionally cut short.  From the structure the *)
(* spec computes                                                                               *)
(*   - the octets (Ser*: integer prefix coding incl. non-minimal and over-long continuations,   *)
(*     raw / Huffman string literals with every padding class, EOS, truncation), and           *)
(*   - Layer P, the verdict RFC 7541 dictates (PVerdict): the header fields, or an error, or   *)
(*     (where the RFC leaves it open) either.                                                  *)
(* Layer M is an octet-level incremental decoder (MRun) shaped like hpack.Decoder: Write keeps  *)
(* the unparsed tail and re-parses it with the next chunk, Close fails on a non-empty tail.    *)
(* TLC checks that MRun agrees with PVerdict for EVERY split point of every block.             *)
(* Strings are over the characters of HuffTable; the dynamic table starts from a preamble.     *)
EXTENDS HpackP, HuffTable, FiniteSets, TLC

NSym == Len(HuffSyms)
EOS == NSym
Rep(b, k) == [i \in 1..k |-> b]
Range(s) == {s[i] : i \in 1..Len(s)}

\* ---------------------------------------------------------------- serialisation (5.1, 5.2, 6)
RECURSIVE StrOf(_)
StrOf(syms) == IF syms = <<>> THEN "" ELSE HuffSyms[Head(syms)].ch \o StrOf(Tail(syms))
RECURSIVE CodeBits(_)
CodeBits(syms) == IF syms = <<>> THEN <<>> ELSE HuffSyms[Head(syms)].code \o CodeBits(Tail(syms))
PadLen(syms) == (8 - (Len(CodeBits(syms)) % 8)) % 8
PadBits(r, pad) == CASE pad = "ok" -> Rep(1, r)                 \* most significant bits of EOS
                     [] pad = "ones8" -> Rep(1, r + 8)          \* more than 7 bits of padding
                     [] pad = "zeros" -> Rep(0, r)              \* not a prefix of EOS
                     [] pad = "mixed" -> Rep(1, r - 1) \o <<0>> \* not a prefix of EOS
\* zero-containing paddings are kept below 5 bits: no Huffman code is that short, so they cannot
\* be (part of) a symbol and the sub-table reasoning is exact
PadApplies(syms, pad) == \/ pad \in {"ok", "ones8"}
                         \/ (pad = "zeros" /\ PadLen(syms) \in 1..4)
                         \/ (pad = "mixed" /\ PadLen(syms) \in 2..4)
RECURSIVE Pack(_)
Pack(bits) == IF bits = <<>> THEN <<>>
              ELSE <<bits[1] * 128 + bits[2] * 64 + bits[3] * 32 + bits[4] * 16 + bits[5] * 8 + bits[6] * 4 + bits[7] * 2 + bits[8]>>
                   \o Pack(SubSeq(bits, 9, Len(bits)))
StrOctets(se) == IF se.h THEN Pack(CodeBits(se.syms) \o PadBits(PadLen(se.syms), se.pad))
                 ELSE [i \in 1..Len(se.syms) |-> HuffSyms[se.syms[i]].oct]
\* over = 1: the length octet announces one octet more than the block holds
SerStr(se, over) == <<(IF se.h THEN 128 ELSE 0) + Len(StrOctets(se)) + over>> \o StrOctets(se)
StrErr(se) == se.h /\ (EOS \in Range(se.syms) \/ se.pad # "ok")
StrWhy(se) == IF EOS \in Range(se.syms) THEN "huffman-eos" ELSE "huffman-padding-" \o se.pad

RECURSIVE Groups(_)
Groups(x) == IF x < 128 THEN <<x>> ELSE <<128 + (x % 128)>> \o Groups(x \div 128)
\* ext extra continuation octets that add nothing to the value (non-minimal coding)
Extend(g, ext) == IF ext = 0 THEN g
                  ELSE [g EXCEPT ![Len(g)] = @ + 128] \o Rep(128, ext - 1) \o <<0>>
SerInt(N, hi, ie) == LET m == 2^N - 1 IN
  IF ie.v < m THEN <<hi + ie.v>> ELSE <<hi + m>> \o Extend(Groups(ie.v - m), ie.ext)
ContOctets(N, ie) == IF ie.v < 2^N - 1 THEN 0 ELSE Len(Groups(ie.v - (2^N - 1))) + ie.ext
\* 5.1: "integer encodings that exceed implementation limits - in value or octet length - MUST be
\* treated as decoding errors".  Ten or more continuation octets cannot be held in 64 bits: error.
\* Up to three must work (values below 2^21 + prefix); in between the limit is the implementation's.
IntClass(N, ie) == LET c == ContOctets(N, ie) IN
  IF c >= 10 THEN "err" ELSE IF c >= 4 THEN "either" ELSE "ok"

IsLit(it) == it.k \in {"inc", "lit", "nev"}
PrefixN(k) == CASE k = "idx" -> 7 [] k = "inc" -> 6 [] k = "upd" -> 5 [] OTHER -> 4
HiBits(k) == CASE k = "idx" -> 128 [] k = "inc" -> 64 [] k = "upd" -> 32 [] k = "nev" -> 16 [] OTHER -> 0
SerItem(it, over) ==
  SerInt(PrefixN(it.k), HiBits(it.k), it.int)
  \o (IF IsLit(it) THEN (IF it.int.v = 0 THEN SerStr(it.name, 0) ELSE <<>>) \o SerStr(it.value, over) ELSE <<>>)

RepOf(it) == [k |-> it.k, i |-> it.int.v,
              n |-> IF IsLit(it) /\ it.int.v = 0 THEN StrOf(it.name.syms) ELSE "",
              v |-> IF IsLit(it) THEN StrOf(it.value.syms) ELSE ""]

\* ---------------------------------------------------------------- Layer P: the verdict
\* result [kind |-> "ok" | "err" | "either", fields, why, d]
ItemWhy(it, d) ==
  IF IntClass(PrefixN(it.k), it.int) = "err" THEN "integer-too-long"
  ELSE IF IsLit(it) /\ it.int.v = 0 /\ StrErr(it.name) THEN StrWhy(it.name)
  ELSE IF IsLit(it) /\ StrErr(it.value) THEN StrWhy(it.value)
  ELSE IF it.k = "idx" /\ it.int.v = 0 THEN "index-0"
  ELSE IF it.k # "upd" /\ it.int.v # 0 /\ ~ValidIndex(d.tab, it.int.v) THEN "index-beyond-table"
  ELSE IF it.k = "upd" /\ it.int.v > d.allowed THEN "size-update-above-allowed"
  ELSE ""

\* Emission (Decoder.SetEmitEnabled): mode "on"; "off" = disabled for the whole block; "off1" = the
\* consumer disables it from inside the emit callback after the first field (what the HTTP/2 layer
\* does when a header list grows too large).  Fields are only handed out while emission is on; the
\* dynamic table must evolve exactly as if it were on ("keeping in-sync with decoder state").
\* Documented leniency (hpack.go readString): with emission off, Huffman errors in strings of
\* literals that are NOT indexed may go unreported - either outcome is accepted there.
StrErrItem(it) == IsLit(it) /\ ((it.int.v = 0 /\ StrErr(it.name)) \/ StrErr(it.value))
RECURSIVE Eval(_, _, _, _, _, _, _)
Eval(items, d, seen, gray, acc, emit, mode) ==
  IF items = <<>> THEN [kind |-> IF gray THEN "either" ELSE "ok", fields |-> acc, why |-> "", d |-> d]
  ELSE LET it == Head(items)
           w == ItemWhy(it, d) IN
    IF w # "" /\ ~emit /\ it.k \in {"lit", "nev"} /\ StrErrItem(it)
              /\ IntClass(PrefixN(it.k), it.int) # "err" /\ (it.int.v = 0 \/ ValidIndex(d.tab, it.int.v))
      THEN Eval(Tail(items), d, TRUE, TRUE, acc, emit, mode)          \* the leniency: error or silently skipped
    ELSE IF w # "" THEN [kind |-> "err", fields |-> acc, why |-> w, d |-> d]
    ELSE LET r == DecodeRep(d, RepOf(it)) IN
      \* ItemWhy covers every error DecodeRep knows
      Eval(Tail(items), r.d, seen \/ it.k # "upd",
           \* 4.2 / 6.3: a size update after a field of the same block - the RFC obliges the encoder,
           \* not the decoder; rejecting and applying are both in use
           gray \/ (it.k = "upd" /\ seen) \/ IntClass(PrefixN(it.k), it.int) = "either",
           IF emit THEN acc \o r.out ELSE acc,
           IF mode = "off1" /\ emit /\ r.out # <<>> THEN FALSE ELSE emit, mode)

\* the dynamic table before the block under test: two entries (index 62 = b: a, 63 = a: ab)
S(h, syms, pad) == [h |-> h, syms |-> syms, pad |-> pad]
I(v, e) == [v |-> v, ext |-> e]
NoStr == S(FALSE, <<>>, "ok")
Preamble == << [k |-> "inc", int |-> I(0, 0), name |-> S(FALSE, <<1>>, "ok"), value |-> S(FALSE, <<1, 2>>, "ok")],
               [k |-> "inc", int |-> I(0, 0), name |-> S(TRUE, <<2>>, "ok"), value |-> S(FALSE, <<1>>, "ok")] >>
D00 == [tab |-> <<>>, max |-> 4096, allowed |-> 4096]
D0 == Eval(Preamble, D00, FALSE, FALSE, <<>>, TRUE, "on").d
RECURSIVE SerAll(_, _)
SerAll(items, over) == IF items = <<>> THEN <<>>
                       ELSE SerItem(Head(items), IF Len(items) = 1 THEN over ELSE 0) \o SerAll(Tail(items), over)
PreBytes == SerAll(Preamble, 0)

\* a block: items, over (the last string announces one octet too many), cut (octets removed at the end)
Bytes(b) == LET full == SerAll(b.items, b.over) IN SubSeq(full, 1, Len(full) - b.cut)
RECURSIVE CumLen(_, _)
CumLen(items, k) == IF k = 0 THEN 0 ELSE CumLen(items, k - 1) + Len(SerItem(items[k], 0))
PVerdict(b) ==
  LET n == Len(b.items)
      avail == CumLen(b.items, n) - b.cut
      \* octets that must be present for items 1..k to be complete
      need(k) == CumLen(b.items, k) + (IF k = n THEN b.over ELSE 0)
      done == {k \in 0..n : need(k) <= avail}
      m == CHOOSE k \in done : \A j \in done : j <= k
      e == Eval(SubSeq(b.items, 1, m), D0, FALSE, FALSE, <<>>, b.em # "off", b.em) IN
    IF e.kind = "err" THEN e
    ELSE IF CumLen(b.items, m) = avail THEN e                       \* the cut falls on an item boundary
    ELSE [e EXCEPT !.kind = "err", !.why = "truncated"]             \* an incomplete item remains: Close fails

\* ---------------------------------------------------------------- Layer M: octet-level decoder
RECURSIVE Bits(_)
Bits(octs) == IF octs = <<>> THEN <<>>
              ELSE [i \in 1..8 |-> (Head(octs) \div (2^(8 - i))) % 2] \o Bits(Tail(octs))
IsPre(p, s) == Len(p) <= Len(s) /\ SubSeq(s, 1, Len(p)) = p

MoreR == [st |-> "more"]
ErrR == [st |-> "err"]

RECURSIVE MCont(_, _, _)
MCont(buf, acc, k) ==        \* k continuation octets consumed so far
  IF buf = <<>> THEN MoreR
  ELSE LET b == buf[1]
           acc2 == IF b % 128 = 0 THEN acc ELSE acc + (b % 128) * (128^k) IN
    IF b < 128 THEN [st |-> "ok", v |-> acc2, rest |-> Tail(buf)]
    ELSE IF k + 1 >= 9 THEN ErrR          \* the code: m >= 63 after a ninth octet with the continuation bit
    ELSE MCont(Tail(buf), acc2, k + 1)
MReadInt(N, buf) ==
  IF buf = <<>> THEN MoreR
  ELSE LET m == 2^N - 1
           p == buf[1] % (2^N) IN
    IF p < m THEN [st |-> "ok", v |-> p, rest |-> Tail(buf)] ELSE MCont(Tail(buf), m, 0)

RECURSIVE MHuff(_, _)
MHuff(bits, acc) ==
  LET M == {i \in 1..NSym : IsPre(HuffSyms[i].code, bits)} IN
  IF M # {} THEN LET i == CHOOSE j \in M : TRUE IN
       IF i = EOS THEN ErrR
       ELSE MHuff(SubSeq(bits, Len(HuffSyms[i].code) + 1, Len(bits)), acc \o HuffSyms[i].ch)
  ELSE IF Len(bits) > 7 \/ (\E j \in 1..Len(bits) : bits[j] = 0) THEN ErrR
  ELSE [st |-> "ok", s |-> acc]
ChOfOct(o) == HuffSyms[CHOOSE i \in 1..NSym : HuffSyms[i].oct = o].ch
RECURSIVE RawStr(_)
RawStr(octs) == IF octs = <<>> THEN "" ELSE ChOfOct(Head(octs)) \o RawStr(Tail(octs))

\* want = FALSE: the string is skipped, not decoded (wantStr in the code)
MReadStr(buf, want) ==
  IF buf = <<>> THEN MoreR
  ELSE LET li == MReadInt(7, buf) IN
    IF li.st # "ok" THEN li
    ELSE IF Len(li.rest) < li.v THEN MoreR
    ELSE LET octs == SubSeq(li.rest, 1, li.v)
             rest == SubSeq(li.rest, li.v + 1, Len(li.rest)) IN
      IF ~want THEN [st |-> "ok", s |-> "", rest |-> rest]
      ELSE IF buf[1] < 128 THEN [st |-> "ok", s |-> RawStr(octs), rest |-> rest]
      ELSE LET hd == MHuff(Bits(octs), "") IN
        IF hd.st = "err" THEN ErrR ELSE [st |-> "ok", s |-> hd.s, rest |-> rest]

KindOf(b) == IF b >= 128 THEN "idx" ELSE IF b >= 64 THEN "inc" ELSE IF b >= 32 THEN "upd"
             ELSE IF b >= 16 THEN "nev" ELSE "lit"

\* one representation off the front of buf: [st, d, out, rest]
MParseItem(buf, d, emit) ==
  LET k == KindOf(buf[1])
      ri == MReadInt(PrefixN(k), buf) IN
  IF ri.st # "ok" THEN ri
  ELSE IF k \in {"idx", "upd"} THEN
    LET r == DecodeRep(d, [k |-> k, i |-> ri.v, n |-> "", v |-> ""]) IN
      IF r.err THEN ErrR ELSE [st |-> "ok", d |-> r.d, out |-> r.out, rest |-> ri.rest]
  ELSE IF ri.v # 0 /\ ~ValidIndex(d.tab, ri.v) THEN ErrR
  ELSE LET want == emit \/ k = "inc"
           rn == IF ri.v = 0 THEN MReadStr(ri.rest, want) ELSE [st |-> "ok", s |-> "", rest |-> ri.rest] IN
    IF rn.st # "ok" THEN rn
    ELSE LET rv == MReadStr(rn.rest, want) IN
      IF rv.st # "ok" THEN rv
      ELSE LET r == DecodeRep(d, [k |-> k, i |-> ri.v, n |-> rn.s, v |-> rv.s]) IN
        IF r.err THEN ErrR ELSE [st |-> "ok", d |-> r.d, out |-> r.out, rest |-> rv.rest]

\* decoder object: [d, saved, out, err]
RECURSIVE MLoop(_, _)
MLoop(o, buf) ==
  IF buf = <<>> THEN [o EXCEPT !.saved = <<>>]
  ELSE LET r == MParseItem(buf, o.d, o.emit) IN
    IF r.st = "more" THEN [o EXCEPT !.saved = buf]
    ELSE IF r.st = "err" THEN [o EXCEPT !.err = TRUE, !.saved = <<>>]
    ELSE MLoop([o EXCEPT !.d = r.d, !.out = IF o.emit THEN o.out \o r.out ELSE o.out,
                          !.emit = IF o.mode = "off1" /\ o.emit /\ r.out # <<>> THEN FALSE ELSE o.emit], r.rest)
MWrite(o, chunk) == IF chunk = <<>> \/ o.err THEN o ELSE MLoop(o, o.saved \o chunk)
MClose(o) == IF o.saved # <<>> THEN [o EXCEPT !.err = TRUE] ELSE o
MObj(d, mode) == [d |-> d, saved |-> <<>>, out |-> <<>>, err |-> FALSE, emit |-> mode # "off", mode |-> mode]
MRun(bytes, k, mode) == MClose(MWrite(MWrite(MObj(D0, mode),
                                        SubSeq(bytes, 1, k)), SubSeq(bytes, k + 1, Len(bytes))))

\* the table after an accepted block is part of the verdict (judged through index references)
Agree(pv, o) == CASE pv.kind = "ok" -> ~o.err /\ o.out = pv.fields /\ o.d.tab = pv.d.tab
                  [] pv.kind = "err" -> o.err
                  [] OTHER -> o.err \/ (o.out = pv.fields /\ o.d.tab = pv.d.tab)

\* ---------------------------------------------------------------- the blocks explored
CONSTANTS Tier,        \* "quick" | "thorough"
          HuffLen      \* Huffman exploration: strings of up to HuffLen symbols

Q == Tier = "quick"
Lit(k, ie, name, value) == [k |-> k, int |-> ie, name |-> name, value |-> value]
Idx(ie) == [k |-> "idx", int |-> ie, name |-> NoStr, value |-> NoStr]
Updt(ie) == [k |-> "upd", int |-> ie, name |-> NoStr, value |-> NoStr]

NameStrs == {S(FALSE, <<1>>, "ok"), S(TRUE, <<2>>, "ok"), S(TRUE, <<2>>, "ones8")}
ValStrsFull == {S(FALSE, <<>>, "ok"), S(FALSE, <<1, 2>>, "ok"), S(TRUE, <<1, 3>>, "ok"),
                S(TRUE, <<1>>, "zeros"), S(TRUE, <<1, EOS>>, "ok"), S(TRUE, <<>>, "ok")}
ValStrsFew == {S(FALSE, <<1, 2>>, "ok"), S(TRUE, <<1, 3>>, "ok"), S(TRUE, <<1>>, "zeros")}

IdxItems == {Idx(ie) : ie \in {I(0, 0), I(2, 0), I(61, 0), I(62, 0), I(63, 0), I(64, 0), I(200, 0), I(200, 9)}}
UpdItems == {Updt(ie) : ie \in {I(0, 0), I(30, 0), I(40, 0), I(40, 1), I(40, 8), I(40, 9), I(4096, 0), I(4097, 0)}}
\* name given by index: static 2, static 16 (saturates a 4-bit prefix: every integer class), dynamic
\* 62 and 63 (63 saturates the 6-bit prefix), 70 = beyond the table
NameIdx(k) == IF k = "inc" THEN {I(2, 0), I(62, 0), I(63, 0), I(63, 1), I(63, 9), I(70, 0)}
              ELSE {I(2, 0), I(16, 0), I(16, 1), I(16, 8), I(16, 9), I(62, 0), I(70, 0)}
LitItems ==
  LET kinds == {"inc", "lit", "nev"}
      vals(k) == IF Q /\ k # "inc" THEN {S(FALSE, <<1, 2>>, "ok")} ELSE IF Q THEN ValStrsFew ELSE ValStrsFull IN
  UNION {{Lit(k, ie, NoStr, v) : ie \in NameIdx(k), v \in vals(k)} : k \in kinds}
  \cup UNION {{Lit(k, I(0, 0), nm, v) : nm \in NameStrs, v \in vals(k)} : k \in kinds}
Menu == IdxItems \cup UpdItems \cup LitItems
\* second item of a pair (quick tier): everything that reads or changes the table, few literals
Menu2 == IF Q THEN IdxItems \cup UpdItems \cup {Lit("inc", I(0, 0), S(FALSE, <<1>>, "ok"), S(TRUE, <<1, 3>>, "ok")),
                                               Lit("lit", I(63, 0), NoStr, S(FALSE, <<1, 2>>, "ok")),
                                               Lit("nev", I(0, 0), S(TRUE, <<2>>, "ok"), S(TRUE, <<1>>, "zeros"))}
         ELSE Menu

\* Huffman exploration: one literal whose value runs over all symbol strings and paddings
RECURSIVE SymSeqs(_)
SymSeqs(n) == IF n = 0 THEN {<<>>} ELSE SymSeqs(n - 1) \cup {Append(s, x) : s \in {t \in SymSeqs(n - 1) : Len(t) = n - 1}, x \in 1..NSym}
HuffItems == {Lit("lit", I(2, 0), NoStr, S(TRUE, s, p)) :
                s \in SymSeqs(HuffLen), p \in {"ok", "ones8", "zeros", "mixed"}}
HuffOK(it) == PadApplies(it.value.syms, it.value.pad)

Block(items, over, cut) == [items |-> items, over |-> over, cut |-> cut, em |-> "on"]
Em(b, m) == [b EXCEPT !.em = m]
HasStr(it) == IsLit(it)

VARIABLES blk, phase
vars == <<blk, phase>>
\* two levels (TLC's workers share the successors): a seed per first item, then everything built on it
Init == /\ phase = 0
        /\ blk \in {Block(<<it>>, 0, 0) : it \in Menu} \cup {Block(<<it>>, 0, 0) : it \in {h \in HuffItems : HuffOK(h)}}
           \cup {Block(<<>>, 0, 0)}
Derived(b) ==
  IF b.items = <<>> \/ b.items[1] \notin Menu THEN {}
  ELSE LET it == b.items[1] IN
       {Block(<<it>>, 0, c) : c \in {x \in 1..(IF Q THEN 2 ELSE 3) : x <= Len(SerItem(it, 0))}}
       \cup (IF HasStr(it) THEN {Block(<<it>>, 1, 0)} ELSE {})
       \cup {Block(<<it, it2>>, 0, 0) : it2 \in Menu2}
       \* emission disabled / disabled by the consumer after the first field
       \cup {Em(Block(<<it>>, 0, 0), m) : m \in {"off", "off1"}}
       \cup {Em(Block(<<it, it2>>, 0, 0), m) : it2 \in {x \in Menu2 : HasStr(it) \/ HasStr(x)}, m \in {"off", "off1"}}
       \cup (IF Q THEN {} ELSE {Block(<<it, it2>>, 0, 1) : it2 \in Menu}
                               \cup {Block(<<it, it2>>, 1, 0) : it2 \in {x \in Menu : HasStr(x)}})
Next == phase = 0 /\ phase' = 1 /\ blk' \in Derived(blk)

\* ---------------------------------------------------------------- invariants
BytesOK == \A i \in 1..Len(Bytes(blk)) : Bytes(blk)[i] \in 0..255
MInP == LET bs == Bytes(blk)
            pv == PVerdict(blk) IN
          \A k \in 0..Len(bs) : Agree(pv, MRun(bs, k, blk.em))
\* the preamble is itself a valid block leaving two entries
PreOK == Len(D0.tab) = 2 /\ Agree([kind |-> "ok", d |-> D0, fields |-> Eval(Preamble, D00, FALSE, FALSE, <<>>, TRUE, "on").fields],
                                   MClose(MWrite(MObj(D00, "on"), PreBytes)))
==========================================================================
