--------------------------- MODULE HpackP ---------------------------
(* RFC 7541 at the level of REPRESENTATIONS (sections 2.3, 3.2, 4, 6): the index address     *)
(* space, dynamic-table insertion / eviction, and what a decoder does with one representation.*)
(* This is Layer P for C30 (what a conforming peer makes of the encoder's output) and the     *)
(* reference semantics for C31.                                                               *)
(*                                                                                            *)
(* A dynamic table is a sequence of [n, v] records, NEWEST FIRST (tab[1] has index 62).       *)
(* A representation is a record                                                               *)
(*   [k |-> "idx", i]                      6.1 indexed                                        *)
(*   [k |-> "inc" | "lit" | "nev", i, n, v] 6.2.1/6.2.2/6.2.3 literal; i = 0: new name n,     *)
(*                                         i > 0: name taken from index i (n ignored)         *)
(*   [k |-> "upd", i]                      6.3 dynamic table size update to i                 *)
EXTENDS Integers, Sequences, HpackStatic

NStatic == Len(StaticTable)          \* 61

EntrySize(e) == Len(e.n) + Len(e.v) + 32                     \* 4.1
RECURSIVE TabSize(_)
TabSize(tab) == IF tab = <<>> THEN 0 ELSE EntrySize(Head(tab)) + TabSize(Tail(tab))

\* 4.3 / 4.4: drop oldest entries (the end of the sequence) until the size fits
RECURSIVE EvictTo(_, _)
EvictTo(tab, max) == IF TabSize(tab) <= max THEN tab
                     ELSE EvictTo(SubSeq(tab, 1, Len(tab) - 1), max)
\* 4.4: evict first, then insert; an entry larger than the maximum empties the table
AddEntry(tab, max, e) == IF EntrySize(e) > max THEN <<>>
                         ELSE <<e>> \o EvictTo(tab, max - EntrySize(e))

\* 2.3.3 index address space
ValidIndex(tab, i) == i >= 1 /\ i <= NStatic + Len(tab)
At(tab, i) == IF i <= NStatic THEN StaticTable[i] ELSE tab[i - NStatic]

\* decoder state d = [tab, max, allowed]; result [d, out, err]; out = <<>> or <<[n, v, s]>>
Fld(n, v, s) == [n |-> n, v |-> v, s |-> s]
DecodeRep(d, rep) ==
  CASE rep.k = "idx" ->
         IF ~ValidIndex(d.tab, rep.i) THEN [d |-> d, out |-> <<>>, err |-> TRUE]
         ELSE [d |-> d, out |-> <<Fld(At(d.tab, rep.i).n, At(d.tab, rep.i).v, FALSE)>>, err |-> FALSE]
    [] rep.k = "upd" ->
         IF rep.i > d.allowed THEN [d |-> d, out |-> <<>>, err |-> TRUE]
         ELSE [d |-> [d EXCEPT !.max = rep.i, !.tab = EvictTo(d.tab, rep.i)], out |-> <<>>, err |-> FALSE]
    [] OTHER ->
         IF rep.i # 0 /\ ~ValidIndex(d.tab, rep.i) THEN [d |-> d, out |-> <<>>, err |-> TRUE]
         ELSE LET name == IF rep.i = 0 THEN rep.n ELSE At(d.tab, rep.i).n
                  nd == IF rep.k = "inc"
                          THEN [d EXCEPT !.tab = AddEntry(d.tab, d.max, [n |-> name, v |-> rep.v])]
                          ELSE d
              IN [d |-> nd, out |-> <<Fld(name, rep.v, rep.k = "nev")>>, err |-> FALSE]

\* a whole sequence of representations; stops at the first error
RECURSIVE DecodeSeq(_, _, _)
DecodeSeq(d, reps, acc) ==
  IF reps = <<>> THEN [d |-> d, out |-> acc, err |-> FALSE]
  ELSE LET r == DecodeRep(d, Head(reps)) IN
         IF r.err THEN [d |-> r.d, out |-> acc, err |-> TRUE]
         ELSE DecodeSeq(r.d, Tail(reps), acc \o r.out)

TableOK(d) == TabSize(d.tab) <= d.max /\ d.max <= d.allowed
====================================================================
