\* C33: inbound flow control. 2 streams, connection window 4, stream window 3, DATA 1..3 with
\* padding, handler reads / returns, client RST_STREAM, one declared content-length
CONSTANTS
  MaxSidC = @MAXSID@
  MaxWin = 8
  MfsMin = 1
  MfsMax = 3
  CW0 = 4
  SW0 = 3
  OCW0 = 4
  OSW0 = 2
  MFS0 = 2
  MAXS = 2
  SidsUsed = @SIDS@
  ESs = {TRUE, FALSE}
  CKinds = {"HEADERS", "DATA", "RST", "RACE"}
  Reqs = {"post"}
  Trailers = {"trailers"}
  DataLens = {1, 2, 3}
  Pads = {0, 1}
  WuIncs = {1}
  IwsVals <- Absent
  MfsVals <- Absent
  RstCodes = {8}
  CLs <- @CLS@
  HOps = {"read", "ret", "closebody"}
  ReadLens = {1, 3}
  WriteLens = {1}
  WRN = 1
  N400C = 1
  N400T = 2
  MaxSteps = @STEPS@
  MaxData = 3
  MaxHdrs = 2
INIT Init
NEXT Next
INVARIANTS NoViolation NoInternalPanic Agree
CHECK_DEADLOCK FALSE
