CONSTANTS
  N = @N@
  MaxOps = @OPS@
  Seq0 = @SEQ@
INIT GInit
NEXT GNext
INVARIANTS TypeOK Acyclic Emit
CHECK_DEADLOCK FALSE
