--------------------------- MODULE Hpack ---------------------------
(* C30  HPACK encoder (bfe_http2/hpack/encode.go) composed with an RFC 7541 decoder.          *)
(*                                                                                            *)
(* Layer M: the encoder as the code does it - dynamic table, maxSize, maxSizeLimit, minSize,  *)
(*   tableSizeUpdate; WriteField = pending size updates, searchTable (static first, exact     *)
(*   match unless Sensitive, else first name match; dynamic table newest first), shouldIndex, *)
(*   representation choice.  SetMaxDynamicTableSize / SetMaxDynamicTableSizeLimit.            *)
(* Layer P: what goes over the wire, read by the RFC decoder of HpackP: decoded fields equal  *)
(*   the input (name, value, never-indexed flag), no decoding error, both tables equal after  *)
(*   every field, size <= max <= limit, size changes are signalled at the start of the next   *)
(*   block, smallest value first (RFC 7541 4.2).                                              *)
(* A header block is a run of Encode steps closed by EndBlock; table size changes arrive      *)
(* between blocks (SETTINGS is never interleaved with a header block, RFC 7540 4.3).          *)
EXTENDS HpackP, FiniteSets, TLC

CONSTANTS Names, Values,       \* strings
          LongLens,            \* extra values: strings of these lengths (integer-coding boundaries, 5.1)
          MaxVals, LimitVals,  \* arguments of SetMaxDynamicTableSize / ...Limit
          MaxSteps             \* bound on the history length

INF == 1000000                 \* uint32Max in the code: "no minimum recorded"
Min(a, b) == IF a < b THEN a ELSE b

VARIABLES etab, emax, elimit, emin, eupd,     \* encoder (Layer M)
          d,                                   \* RFC decoder [tab, max, allowed]
          inblk,                               \* a block is open (at least one field encoded)
          rtok, updok, derr,                   \* obligations evaluated at the last Encode (see below)
          low,                                 \* smallest SetMax argument since the last field (INF none)
          sigok,                               \* 4.2 obligation evaluated at the last Encode
          stale,                               \* the encoder shrank its table through SetLimit
          steps
vars == <<etab, emax, elimit, emin, eupd, d, inblk, rtok, updok, derr, low, sigok, stale, steps>>

\* a string of n symbols whose Huffman code is not shorter than the symbol (the raw form is used)
RECURSIVE Rpt(_)
Rpt(n) == IF n = 0 THEN "" ELSE IF n % 2 = 0 THEN Rpt(n \div 2) \o Rpt(n \div 2) ELSE "Z" \o Rpt(n - 1)
AllValues == Values \cup {Rpt(n) : n \in LongLens}
Fields == {Fld(n, v, s) : n \in Names, v \in AllValues, s \in BOOLEAN}

\* ---------------------------------------------------------------- encoder (Layer M)
\* searchTable: returns <<index, nameValueMatch>>
MinOf(S) == CHOOSE x \in S : \A y \in S : x <= y
\* static part of the search, tabulated once (constant-level definitions are cached by TLC)
SNameTab == [n \in Names |-> LET S == {i \in 1..NStatic : StaticTable[i].n = n} IN
                               IF S = {} THEN 0 ELSE MinOf(S)]
SFullTab == [n \in Names |-> [v \in AllValues |->
               LET S == {i \in 1..NStatic : StaticTable[i].n = n /\ StaticTable[i].v = v} IN
               IF S = {} THEN 0 ELSE MinOf(S)]]
DynNameIdx(f) == {j \in 1..Len(etab) : etab[j].n = f.n}
DynFullIdx(f) == {j \in DynNameIdx(f) : etab[j].v = f.v}

Search(f) ==
  IF ~f.s /\ SFullTab[f.n][f.v] # 0 THEN <<SFullTab[f.n][f.v], TRUE>>
  ELSE LET i0 == SNameTab[f.n] IN
       IF ~f.s /\ DynFullIdx(f) # {} THEN <<NStatic + MinOf(DynFullIdx(f)), TRUE>>
       ELSE IF i0 = 0 /\ DynNameIdx(f) # {} THEN <<NStatic + MinOf(DynNameIdx(f)), FALSE>>
       ELSE <<i0, FALSE>>

ShouldIndex(f) == ~f.s /\ EntrySize(f) <= emax

Pending == IF eupd THEN (IF emin < emax THEN <<[k |-> "upd", i |-> emin]>> ELSE <<>>)
                        \o <<[k |-> "upd", i |-> emax]>>
           ELSE <<>>

FieldRep(f) == LET sr == Search(f) IN
  IF sr[2] THEN [k |-> "idx", i |-> sr[1], n |-> "", v |-> ""]
  ELSE [k |-> IF f.s THEN "nev" ELSE IF ShouldIndex(f) THEN "inc" ELSE "lit",
        i |-> sr[1], n |-> IF sr[1] = 0 THEN f.n ELSE "", v |-> f.v]

Init == /\ etab = <<>> /\ emax = 4096 /\ elimit = 4096 /\ emin = INF /\ eupd = FALSE
        /\ d = [tab |-> <<>>, max |-> 4096, allowed |-> 4096]
        /\ inblk = FALSE /\ rtok = TRUE /\ updok = TRUE /\ derr = FALSE
        /\ low = INF /\ sigok = TRUE /\ stale = FALSE /\ steps = 0

Encode(f) ==
  /\ steps < MaxSteps /\ ~derr
  /\ LET reps == Pending \o <<FieldRep(f)>>
         r == DecodeSeq(d, reps, <<>>) IN
       \* the decoder emitted exactly the input field (name, value, never-indexed flag)
       /\ rtok' = (r.out = <<f>>)
       \* size updates only in front of the first field of a block
       /\ updok' = (Pending # <<>> => ~inblk)
       /\ etab' = IF ~Search(f)[2] /\ ShouldIndex(f)
                    THEN AddEntry(etab, emax, [n |-> f.n, v |-> f.v]) ELSE etab
       /\ eupd' = FALSE /\ emin' = IF eupd THEN INF ELSE emin
       /\ d' = r.d /\ derr' = r.err
       /\ inblk' = TRUE /\ low' = INF /\ steps' = steps + 1
       \* RFC 7541 4.2: the peer lowered its setting below the size its decoder was using
       /\ sigok' = ((low < d.max) => (Pending # <<>> /\ Pending[1].i <= low))
       /\ UNCHANGED <<emax, elimit, stale>>

EndBlock == /\ inblk /\ inblk' = FALSE
            /\ UNCHANGED <<etab, emax, elimit, emin, eupd, d, rtok, updok, derr, low, sigok, stale, steps>>

\* the peer's SETTINGS_HEADER_TABLE_SIZE = v arrives: the encoder is told, the peer's decoder
\* allows updates up to v from now on
SetMax(v) ==
  /\ ~inblk /\ steps < MaxSteps /\ ~derr
  /\ LET vv == Min(v, elimit) IN
       /\ emin' = Min(emin, vv) /\ eupd' = TRUE /\ emax' = vv /\ etab' = EvictTo(etab, vv)
  /\ d' = [d EXCEPT !.allowed = v]
  /\ low' = Min(low, v) /\ steps' = steps + 1
  /\ UNCHANGED <<elimit, inblk, rtok, updok, derr, sigok, stale>>

SetLimit(l) ==
  /\ ~inblk /\ steps < MaxSteps /\ ~derr
  /\ elimit' = l
  /\ IF emax > l THEN eupd' = TRUE /\ emax' = l /\ etab' = EvictTo(etab, l)
                      /\ stale' = (stale \/ EvictTo(etab, l) # etab)
                 ELSE UNCHANGED <<eupd, emax, etab, stale>>
  /\ steps' = steps + 1
  /\ UNCHANGED <<emin, d, inblk, rtok, updok, derr, low, sigok>>

Next == \/ \E f \in Fields : Encode(f)
        \/ EndBlock
        \/ \E v \in MaxVals : SetMax(v)
        \/ \E l \in LimitVals : SetLimit(l)

Spec == Init /\ [][Next]_vars

\* ---------------------------------------------------------------- Layer P invariants
NoDecodeError == ~derr
RoundTrip == rtok
\* after a field both ends hold the same table under the same maximum
\* (SetMaxDynamicTableSizeLimit lowered and raised again between two blocks is never signalled:
\*  the decoder then keeps a stale tail the encoder no longer has; indices still agree)
IsPrefix(a, b) == Len(a) <= Len(b) /\ SubSeq(b, 1, Len(a)) = a
InSync == (~eupd) => (emax = d.max /\ IsPrefix(etab, d.tab) /\ (~stale => etab = d.tab))
EncBounds == TabSize(etab) <= emax /\ emax <= elimit
DecBounds == (~eupd) => TableOK(d)
\* size updates only in front of the first field of a block
UpdatesAtStart == updok
\* 4.2: a reduction below the size the decoder knew is signalled (smallest value first)
MinSignalled == sigok
\* ---------------------------------------------------------------- Layer M sanity
MinNever == emin = INF \/ eupd
====================================================================
