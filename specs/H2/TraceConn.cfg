CONSTANTS
  MaxSidC = 9
  MaxWin = 2147483647
  MfsMin = 16384
  MfsMax = 16777215
INIT TInit
NEXT TNext
INVARIANT Report
POSTCONDITION Accepted
CHECK_DEADLOCK FALSE
