--------------------------- MODULE GenFrame ---------------------------
(* Case generator for Frame: one JSON object per (context, shape) with the Layer-P   *)
(* verdict set, the Layer-M verdict and the layout of an accepted frame.             *)
EXTENDS Frame, Json

\* the frame read after the one under test: shows the reader's CONTINUATION state
Ping == [t |-> 6, fl |-> {}, sid |-> 0, r |-> FALSE, len |-> 8, pad |-> 0, sv |-> "none", wi |-> "none"]

Emit == IsSeed \/ PrintT(ToJson([cname |-> ctx, ctx |-> Contexts[ctx], sh |-> sh, exp |-> Exp,
                       gray |-> Gray(sh, Exp),
                       allowed |-> Allowed(sh, Exp),
                       m |-> MVerdict(sh, Exp),
                       off |-> DataOff(sh), dlen |-> DataLen(sh), padv |-> PadV(sh),
                       nexp |-> NextExp(sh, Exp),
                       probe |-> IF NextExp(sh, Exp) = -1 THEN {} ELSE Allowed(Ping, NextExp(sh, Exp))]))
=======================================================================
