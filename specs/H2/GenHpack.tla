--------------------------- MODULE GenHpack ---------------------------
(* Behaviour generator for Hpack: every behaviour of full length is printed as one JSON  *)
(* case: the operations with their arguments, and after each operation what Layer P       *)
(* dictates (decoded field, decoder table bounds) and what Layer M predicts (the          *)
(* representations on the wire, both tables).                                             *)
EXTENDS Hpack, Json

VARIABLES h, fin
gvars == <<vars, h, fin>>

Snap == [etab |-> etab', emax |-> emax', elimit |-> elimit', dtab |-> d'.tab, dmax |-> d'.max,
         dallowed |-> d'.allowed]
Rec(o) == h' = Append(h, o @@ Snap) /\ fin' = FALSE

GInit == Init /\ h = <<>> /\ fin = FALSE

GNext ==
  \/ \E f \in Fields : Encode(f) /\ Rec([op |-> "field", f |-> f, reps |-> Pending \o <<FieldRep(f)>>, arg |-> 0,
                                               sig |-> IF low < d.max THEN low ELSE -1])
  \/ EndBlock /\ Rec([op |-> "end", f |-> Fld("", "", FALSE), reps |-> <<>>, arg |-> 0, sig |-> -1])
  \/ \E v \in MaxVals : SetMax(v) /\ Rec([op |-> "setmax", f |-> Fld("", "", FALSE), reps |-> <<>>, arg |-> v, sig |-> -1])
  \/ \E l \in LimitVals : SetLimit(l) /\ Rec([op |-> "setlimit", f |-> Fld("", "", FALSE), reps |-> <<>>, arg |-> l, sig |-> -1])
  \/ steps = MaxSteps /\ ~fin /\ fin' = TRUE /\ UNCHANGED <<vars, h>>

\* an "end" does not count as a step: close the last block before printing
Emit == fin => PrintT(ToJson([ops |-> h]))
=======================================================================
