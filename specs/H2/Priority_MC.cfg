CONSTANTS
  N = @N@
INIT Init
NEXT Next
INVARIANTS TypeOK Acyclic
CHECK_DEADLOCK FALSE
