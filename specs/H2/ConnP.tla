------------------------------- MODULE ConnP -------------------------------
(***************************************************************************)
(* Layer P of the h2conn family (C33, C34, C35): what an HTTP/2 client may *)
(* rely on when it talks to the server, stated ONLY over things that are   *)
(* observable on the wire (frames the client sent, frames it received, the *)
(* connection ending) and at the handler API (a handler was started, the   *)
(* octets a handler's Read returned).  Nothing here mentions inflow,       *)
(* queues or the scheduler of bfe_http2.                                   *)
(*                                                                         *)
(* It is a monitor: one record `p` folded over the events of one           *)
(* connection.  Events are produced either by the mechanism model          *)
(* (Conn.tla, checked exhaustively by TLC: M |= P) or by the real server   *)
(* (TraceConn.tla).  Stimuli (client frames, handler commands) are issued  *)
(* only at quiescent points, so the client's view of every window is exact *)
(* when it sends.  A "q" event marks the next quiescent point; obligations *)
(* that talk about the answer to a stimulus are evaluated there.           *)
(*                                                                         *)
(* Violations are collected in p.viol as records [why, ..]:                *)
(*  C33  Excess      excess DATA not answered by FLOW_CONTROL_ERROR        *)
(*       HandlerData a handler read octets that are not the next accepted  *)
(*                   payload octets of its stream                          *)
(*       Replenished at a quiescent point a window the client holds is not *)
(*                   initial - (accepted octets not yet read by handlers   *)
(*                   of live streams), padding returned at once            *)
(*  C34  DataFits / DataOrder / SendAfterEnd / DataBeforeHeaders           *)
(*  C35  Outcome     answer to a frame outside the set RFC 7540 allows     *)
(*       MustStart / BadStart / Ack / Panic                                *)
(***************************************************************************)
EXTENDS Integers, Sequences, FiniteSets, TLC

CONSTANTS MaxSidC,   \* stream identifiers 1..MaxSidC are tracked
          MaxWin,    \* 2^31-1 (small in the exhaustive model)
          MfsMin, MfsMax   \* legal SETTINGS_MAX_FRAME_SIZE range: 16384 .. 2^24-1

Sid == 1..MaxSidC

\* RFC 7540 section 7 error codes
NOERR == 0  PROTOCOL == 1  INTERNAL == 2  FLOW == 3  STREAMCLOSED == 5
FRAMESIZE == 6  REFUSED == 7  CANCEL == 8  ENHANCE == 11

Tok(t, s, c) == [t |-> t, s |-> s, c |-> c]
OK == Tok("ok", 0, 0)
CLOSE == Tok("close", 0, 0)          \* connection ended without GOAWAY
GA(c) == Tok("ga", 0, c)             \* connection error: GOAWAY(c)
RS(s, c) == Tok("rst", s, c)         \* stream error: RST_STREAM(s, c)
\* RFC 7540 5.4.1: an endpoint MAY treat a stream error as a connection error
SErr(s, c) == {RS(s, c), GA(c)}

\* request classes (harness/cmd/h2conn reqFields)
Malformed == {"nomethod", "nopath", "emptypath", "noscheme", "duppath", "badpseudo",
              "resppseudo", "upper", "pseudoafter"}
ConnSpecific == {"connhdr", "te"}
ValidReq == {"get", "post", "head", "tetrailers"}
TrailerOK == {"trailers"}

\* one event; every field always present (same shape as the harness' ndjson)
E0 == [ev |-> "", k |-> "", s |-> 0, n |-> 0, p |-> 0, es |-> FALSE, inc |-> 0, code |-> 0,
       iws |-> -1, mfs |-> -1, req |-> "", cl |-> -1, op |-> "", res |-> "", first |-> 0,
       ord |-> TRUE, runs |-> <<>>, closed |-> FALSE, panics |-> 0, hang |-> FALSE]

Pat(i) == i % 251                     \* response body octet at offset i (harness pattern)

Min(a, b) == IF a < b THEN a ELSE b
Max(a, b) == IF a > b THEN a ELSE b
RECURSIVE SumF(_, _)
SumF(f, S) == IF S = {} THEN 0 ELSE LET x == CHOOSE y \in S : TRUE IN f[x] + SumF(f, S \ {x})

NoStim == [k |-> "none", s |-> 0, allowed |-> {OK}, gray |-> TRUE, start |-> 0,
           ack |-> "", ping |-> 0, state |-> ""]

\* k: [cw0, sw0, ocw0, osw0, mfs0, maxs]
PInit(k) ==
  [k |-> k, ph |-> [s \in Sid |-> "idle"], why |-> [s \in Sid |-> ""], maxSid |-> 0, maxAcc |-> 0,
   cw |-> k.cw0, sw |-> [s \in Sid |-> 0], pend |-> [s \in Sid |-> <<>>],
   held |-> [s \in Sid |-> 0], cl |-> [s \in Sid |-> -1], body |-> [s \in Sid |-> 0],
   ocw |-> k.ocw0, osw |-> [s \in Sid |-> 0], iws |-> k.osw0, mfs |-> k.mfs0, psets |-> <<>>,
   rcvd |-> [s \in Sid |-> 0], sHdr |-> [s \in Sid |-> FALSE], hst |-> [s \in Sid |-> FALSE],
   mine |-> [s \in Sid |-> TRUE],
   hclosed |-> [s \in Sid |-> FALSE],   \* the handler closed the request body (Request.Body.Close)
   grace |-> 0,            \* stream whose RST_STREAM was sent while server frames for it were in flight
   compliant |-> TRUE,     \* the client has never sent DATA beyond a window it held
   stim |-> NoStim, got |-> {}, acks |-> 0, pongs |-> {}, hold |-> E0,
   dead |-> FALSE, viol |-> {}]

\* client-side view of the state of stream s (RFC 7540 5.1, 5.1.1: lower idle ids are closed)
Ph(p, s) == IF s \notin Sid THEN "bad"
            ELSE IF p.ph[s] = "idle" /\ s < p.maxSid THEN "closed" ELSE p.ph[s]
\* an unused identifier below a stream whose first HEADERS was malformed: whether that HEADERS
\* "used" its identifier is not spelled out (gray, like re-use of the rejected identifier itself)
Why(p, s) == IF p.ph[s] = "idle" THEN (IF s > p.maxAcc THEN "rej" ELSE "implicit") ELSE p.why[s]
Live(p) == {s \in Sid : p.ph[s] \in {"open", "hcr", "hcl"}}

V(p, why, s, d) == [p EXCEPT !.viol = @ \cup {[why |-> why, s |-> s, k |-> p.stim.k,
                                               state |-> p.stim.state, d |-> ToString(d)]}]
\* a + b > MaxWin, written so that TLC's 32-bit integers cannot overflow
Over(a, b) == a > 0 /\ b > 0 /\ b > MaxWin - a

CloseP(p, s, w) == [p EXCEPT !.ph[s] = "closed", !.why[s] = w, !.held[s] = 0]

(***************************************************************************)
(* Client frames.  Each sets p.stim: the set of answers RFC 7540 allows    *)
(* for this frame in this client-side stream state, and moves the          *)
(* client-side view on as the expected answer implies.                     *)
(***************************************************************************)
Stim(e, st, allowed) == [k |-> e.k, s |-> e.s, allowed |-> allowed, gray |-> FALSE, start |-> 0,
                         ack |-> "", ping |-> 0, state |-> st]
\* a gray stimulus (the documents leave the answer open, or the client-side view can no longer
\* be trusted afterwards) ends the judged part of the connection: only Panic is checked later
Begin(p, stim) == [p EXCEPT !.stim = stim, !.got = {}, !.acks = 0, !.dead = stim.gray]

\* header blocks that are malformed in themselves (8.1.2): stream error PROTOCOL_ERROR is
\* an allowed answer in whatever state the stream is
BadBlock == Malformed \cup {"trailerspseudo", "trailersupper"}

PHeaders(p, e) ==
  LET s == e.s  st == Ph(p, s)  r == e.req
      mal == IF r \in BadBlock THEN SErr(s, PROTOCOL) ELSE {}
      \* 5.1.2: stream error PROTOCOL_ERROR or REFUSED_STREAM; ending the connection is BFE's
      \* documented choice (5.4.1: an endpoint can end a connection at any time)
      over == IF Cardinality(Live(p)) >= p.k.maxs
              THEN {RS(s, PROTOCOL), RS(s, REFUSED), CLOSE, GA(PROTOCOL), GA(REFUSED), GA(ENHANCE)}
              ELSE {} IN
  IF s \notin Sid \/ s % 2 = 0 THEN Begin(p, Stim(e, "even", {GA(PROTOCOL)} \cup mal))
  ELSE IF st = "idle" THEN           \* s > maxSid: a new stream
    LET q == [p EXCEPT !.maxSid = s] IN
    IF r \notin (ValidReq \cup ConnSpecific) THEN
      \* 8.1.2.6: malformed request = stream error PROTOCOL_ERROR
      Begin(CloseP(q, s, "rej"), Stim(e, "idle-malformed", SErr(s, PROTOCOL) \cup over))
    ELSE IF over # {} THEN
      Begin(CloseP(q, s, "rej"), Stim(e, "idle-over-limit", over))
    ELSE
      LET o == [q EXCEPT !.maxAcc = s, !.ph[s] = IF e.es THEN "hcr" ELSE "open", !.sw[s] = p.k.sw0,
                         !.osw[s] = p.iws, !.cl[s] = IF e.es THEN -1 ELSE e.cl,
                         !.mine[s] = r \in ValidReq] IN
      IF r \in ConnSpecific THEN
        \* 8.1.2.2 + 8.1.2.6: malformed; the server MAY send an HTTP response before closing
        \* or resetting the stream, but the request must not reach the application handler
        Begin(o, Stim(e, "idle-connspecific", {OK} \cup SErr(s, PROTOCOL)))
      ELSE Begin(o, [Stim(e, "idle", {OK}) EXCEPT !.start = s])
  ELSE IF st = "open" THEN            \* trailers
    IF e.es /\ r \in TrailerOK THEN Begin([p EXCEPT !.ph[s] = "hcr"], Stim(e, "open", {OK}))
    ELSE Begin(CloseP(p, s, "srst"), Stim(e, "open-badtrailers", SErr(s, PROTOCOL)))
  ELSE IF st = "hcr" THEN             \* 5.1 half-closed (remote): STREAM_CLOSED
    Begin(CloseP(p, s, "srst"), Stim(e, "hcr", SErr(s, STREAMCLOSED) \cup mal))
  ELSE IF st = "hcl" THEN
    Begin(p, [Stim(e, "hcl", {OK}) EXCEPT !.gray = TRUE])
  ELSE                                \* closed
    IF Why(p, s) = "rej" THEN Begin(p, [Stim(e, "closed-rej", {OK}) EXCEPT !.gray = TRUE])
    ELSE Begin(p, Stim(e, "closed", {GA(PROTOCOL), GA(STREAMCLOSED), RS(s, STREAMCLOSED)} \cup mal
                                     \cup (IF Why(p, s) = "srst" THEN {OK} ELSE {})))

PData(p, e) ==
  LET s == e.s  st == Ph(p, s)  L == e.n  d == e.n - e.p
      q == [p EXCEPT !.cw = @ - L,
                     !.compliant = @ /\ L <= p.cw /\ (st = "open" => L <= p.sw[s])]
      over == IF L > p.cw THEN SErr(s, FLOW) ELSE {} IN
  IF s \notin Sid THEN Begin(p, Stim(e, "zero", {GA(PROTOCOL)}))
  ELSE IF st = "idle" THEN Begin(q, Stim(e, "idle", {GA(PROTOCOL)}))
  ELSE IF st = "open" THEN
    IF L > Min(p.sw[s], p.cw) THEN     \* 6.9.1: stream or connection error FLOW_CONTROL_ERROR
      Begin(CloseP(q, s, "srst"),
            Stim(e, "open-excess", SErr(s, FLOW) \cup (IF p.cl[s] >= 0 /\ p.body[s] + d > p.cl[s]
                                                        THEN SErr(s, PROTOCOL) ELSE {})))
    ELSE IF p.cl[s] >= 0 /\ p.body[s] + d > p.cl[s] THEN   \* 8.1.2.6
      Begin(CloseP(q, s, "srst"), Stim(e, "open-overcl", SErr(s, PROTOCOL)))
    ELSE
      \* once the application has closed the body the server may refuse further DATA by
      \* resetting the stream (5.4.2; STREAM_CLOSED is what this server uses)
      Begin([q EXCEPT !.sw[s] = @ - L, !.held[s] = @ + d, !.body[s] = @ + d,
                      !.pend[s] = IF d > 0 THEN Append(@, [t |-> e.first, n |-> d]) ELSE @,
                      !.ph[s] = IF e.es THEN "hcr" ELSE "open"],
            IF p.hclosed[s] THEN Stim(e, "open-bodyclosed", {OK, RS(s, STREAMCLOSED), RS(s, CANCEL), RS(s, NOERR)})
            ELSE Stim(e, "open", {OK}))
  ELSE IF st = "hcr" THEN
    Begin(CloseP(q, s, "srst"), Stim(e, "hcr", SErr(s, STREAMCLOSED) \cup over))
  ELSE IF st = "hcl" THEN Begin(q, [Stim(e, "hcl", {OK}) EXCEPT !.gray = TRUE])
  ELSE IF Why(p, s) = "rej" THEN Begin(q, [Stim(e, "closed-rej", {OK}) EXCEPT !.gray = TRUE])
  ELSE \* closed: 5.1 STREAM_CLOSED; frames after the server's own RST_STREAM may be ignored
    Begin(q, Stim(e, "closed", SErr(s, STREAMCLOSED) \cup over
                                \cup (IF Why(p, s) = "srst" THEN {OK} ELSE {})))

PRst(p, e) ==
  LET s == e.s  st == Ph(p, s) IN
  IF s \notin Sid THEN Begin(p, Stim(e, "zero", {GA(PROTOCOL)}))
  ELSE IF st = "idle" THEN Begin(p, Stim(e, "idle", {GA(PROTOCOL)}))
  ELSE IF st = "closed" THEN
    IF Why(p, s) = "rej" THEN Begin(p, [Stim(e, "closed-rej", {OK}) EXCEPT !.gray = TRUE])
    ELSE Begin(p, Stim(e, "closed", {OK}))
  \* op = "inflight": the RST_STREAM is not sent at a quiescent point (the client had stopped
  \* reading): frames of this stream the server wrote before it saw the RST_STREAM still arrive
  ELSE Begin([CloseP(p, s, "crst") EXCEPT !.grace = IF e.op = "inflight" THEN s ELSE 0], Stim(e, st, {OK}))

PWu(p, e) ==
  LET s == e.s  st == Ph(p, s) IN
  IF s = 0 THEN
    IF e.inc = 0 THEN Begin(p, Stim(e, "conn-zero", {GA(PROTOCOL)}))
    ELSE IF Over(p.ocw, e.inc) THEN Begin(p, Stim(e, "conn-overflow", {GA(FLOW)}))
    ELSE Begin([p EXCEPT !.ocw = @ + e.inc], Stim(e, "conn", {OK}))
  ELSE IF s \notin Sid THEN Begin(p, [Stim(e, "bad", {OK}) EXCEPT !.gray = TRUE])
  ELSE IF st = "idle" THEN
    IF e.inc = 0 THEN Begin(p, Stim(e, "idle-zero", SErr(s, PROTOCOL)))
    ELSE Begin(p, Stim(e, "idle", {GA(PROTOCOL)}))
  ELSE IF st \in {"open", "hcr"} THEN
    IF e.inc = 0 THEN Begin(CloseP(p, s, "srst"), Stim(e, "live-zero", SErr(s, PROTOCOL)))
    ELSE IF Over(p.osw[s], e.inc) THEN
      Begin(CloseP(p, s, "srst"), Stim(e, "live-overflow", SErr(s, FLOW)))
    ELSE Begin([p EXCEPT !.osw[s] = @ + e.inc], Stim(e, "live", {OK}))
  ELSE IF st = "closed" /\ Why(p, s) = "rej" THEN
    Begin(p, [Stim(e, "closed-rej", {OK}) EXCEPT !.gray = TRUE])
  ELSE \* closed / hcl: 6.9 "MUST NOT treat this as an error"
    Begin(p, Stim(e, "closed", {OK} \cup (IF e.inc = 0 THEN SErr(s, PROTOCOL) ELSE {})))

PSettings(p, e) ==
  \* iws = -2 stands for a value above 2^31-1 (not representable in TLC)
  LET niws == IF e.iws >= 0 THEN e.iws ELSE p.iws
      nmfs == IF e.mfs >= 0 THEN e.mfs ELSE p.mfs
      \* 6.5.2 / 6.9.2
      errs == (IF e.iws = -2 THEN {GA(FLOW)} ELSE {})
              \cup (IF e.mfs >= 0 /\ (e.mfs < MfsMin \/ e.mfs > MfsMax) THEN {GA(PROTOCOL)} ELSE {})
              \cup (IF \E s \in Live(p) : Over(p.osw[s], niws - p.iws) THEN {GA(FLOW)} ELSE {}) IN
  IF errs # {} THEN Begin(p, Stim(e, "invalid", errs))
  ELSE Begin([p EXCEPT !.psets = Append(@, [iws |-> niws, mfs |-> nmfs])],
             [Stim(e, "ok", {OK}) EXCEPT !.ack = "settings"])

PClientFrame(p, e) ==
  CASE e.k = "HEADERS" -> PHeaders(p, e)
    [] e.k = "DATA" -> PData(p, e)
    [] e.k = "RST" -> PRst(p, e)
    [] e.k = "WU" -> PWu(p, e)
    [] e.k = "SETTINGS" -> PSettings(p, e)
    [] e.k = "SETACK" -> Begin(p, [Stim(e, "unsolicited", {OK}) EXCEPT !.gray = TRUE])
    [] e.k = "PING" -> IF e.s # 0 THEN Begin(p, Stim(e, "nonzero", {GA(PROTOCOL)}))
                       ELSE Begin(p, [Stim(e, "ok", {OK}) EXCEPT !.ack = "ping", !.ping = e.inc])
    [] e.k = "PINGACK" -> Begin(p, Stim(e, "ok", {OK}))
    [] e.k = "PRIORITY" -> IF e.s = 0 THEN Begin(p, Stim(e, "zero", {GA(PROTOCOL)}))
                           ELSE Begin(p, Stim(e, "any", {OK}))
    [] e.k = "CONT" -> Begin(p, Stim(e, "stray", {GA(PROTOCOL)}))
    [] e.k = "PUSH" -> Begin(p, Stim(e, "any", {GA(PROTOCOL)}))
    [] e.k = "UNKNOWN" -> Begin(p, Stim(e, "any", {OK}))
    [] e.k = "LOST" -> p
    [] OTHER -> Begin(p, [Stim(e, "other", {OK}) EXCEPT !.gray = TRUE])

\* 6.2/6.10: a header block is contiguous; anything but CONTINUATION on the same stream
\* after HEADERS without END_HEADERS is a connection error PROTOCOL_ERROR
PClient(p, e) ==
  IF p.dead THEN p
  ELSE IF p.hold.k # "" THEN
    IF e.k = "CONT" /\ e.s = p.hold.s
      THEN PClientFrame([p EXCEPT !.hold = E0], [p.hold EXCEPT !.op = ""])
      ELSE Begin([p EXCEPT !.hold = E0], Stim(e, "in-header-block", {GA(PROTOCOL)}))
  ELSE IF e.k = "HEADERS" /\ e.op = "neh" THEN
    Begin([p EXCEPT !.hold = e], Stim(e, "no-end-headers", {OK}))
  ELSE PClientFrame(p, e)

\* a handler command (read k / write n / headers / return / close body)
PHcmd(p, e) ==
  IF p.dead THEN p
  ELSE Begin(IF e.op = "closebody" /\ e.s \in Sid THEN [p EXCEPT !.hclosed[e.s] = TRUE] ELSE p, [k |-> "h-" \o e.op, s |-> e.s, allowed |-> {OK}, gray |-> FALSE, start |-> 0,
                 ack |-> "", ping |-> 0, state |-> Ph(p, e.s)])

(***************************************************************************)
(* Frames received from the server.                                        *)
(***************************************************************************)
\* windows the client has granted, not yet acknowledged SETTINGS taken at their maximum
EffIws(p) == LET S == {p.psets[i].iws : i \in 1..Len(p.psets)} \cup {p.iws} IN
             CHOOSE m \in S : \A x \in S : x <= m
EffMfs(p) == LET S == {p.psets[i].mfs : i \in 1..Len(p.psets)} \cup {p.mfs} IN
             CHOOSE m \in S : \A x \in S : x <= m

ServerEnd(p, s) ==      \* the server sent END_STREAM on s
  IF p.ph[s] = "hcr" THEN CloseP(p, s, "end") ELSE [p EXCEPT !.ph[s] = "hcl"]

PSData(p, e) ==
  LET s == e.s IN
  IF s \in Sid /\ p.grace = s /\ p.ph[s] = "closed" THEN
    [p EXCEPT !.osw[s] = @ - e.n, !.ocw = @ - e.n, !.rcvd[s] = @ + (e.n - e.p)]
  ELSE IF s \notin Sid \/ p.ph[s] \notin {"open", "hcr"} THEN V(p, "SendAfterEnd", s, e.k)
  ELSE
    LET p1 == IF ~p.sHdr[s] THEN V(p, "DataBeforeHeaders", s, "") ELSE p
        w == p.osw[s] + (EffIws(p) - p.iws)
        \* 6.9.1: an empty DATA frame may be sent without window
        p2 == IF e.n > 0 /\ (e.n > w \/ e.n > p.ocw \/ e.n > EffMfs(p))
              THEN V(p1, "DataFits", s, <<e.n, w, p.ocw, EffMfs(p)>>) ELSE p1
        d == e.n - e.p
        p3 == IF p.mine[s] /\ (~e.ord \/ (d > 0 /\ e.first # Pat(p.rcvd[s])))
              THEN V(p2, "DataOrder", s, p.rcvd[s]) ELSE p2
        p4 == [p3 EXCEPT !.osw[s] = @ - e.n, !.ocw = @ - e.n, !.rcvd[s] = @ + d] IN
    IF e.es THEN ServerEnd(p4, s) ELSE p4

PSHeaders(p, e) ==
  LET s == e.s IN
  IF s \in Sid /\ p.grace = s /\ p.ph[s] = "closed" THEN p
  ELSE IF s \notin Sid \/ p.ph[s] \notin {"open", "hcr"} THEN V(p, "SendAfterEnd", s, e.k)
  ELSE
    LET p1 == IF e.code >= 100 /\ e.code < 200 THEN p ELSE [p EXCEPT !.sHdr[s] = TRUE] IN
    IF e.es THEN ServerEnd(p1, s) ELSE p1

PSRst(p, e) ==
  LET s == e.s IN
  \* RST_STREAM for a stream the client has not opened does not use up the identifier
  IF s \notin Sid \/ p.ph[s] = "idle" THEN [p EXCEPT !.got = @ \cup {RS(s, e.code)}]
  \* 8.1: after a complete response the server may ask the client to stop sending the
  \* request with RST_STREAM(NO_ERROR)
  ELSE IF p.ph[s] = "hcl" /\ e.code = NOERR THEN CloseP(p, s, "srst")
  ELSE [CloseP(p, s, IF p.why[s] = "rej" THEN "rej" ELSE "srst") EXCEPT !.got = @ \cup {RS(s, e.code)}]

PSWu(p, e) ==
  IF e.s = 0 THEN [p EXCEPT !.cw = @ + e.inc]
  ELSE IF e.s \in Sid THEN [p EXCEPT !.sw[e.s] = @ + e.inc] ELSE p

PSAck(p) ==
  IF p.psets = <<>> THEN [p EXCEPT !.acks = @ + 1]
  ELSE LET h == Head(p.psets) IN
       [p EXCEPT !.osw = [s \in Sid |-> IF s \in Live(p) THEN p.osw[s] + (h.iws - p.iws)
                                         ELSE p.osw[s]],
                 !.iws = h.iws, !.mfs = h.mfs, !.psets = Tail(@), !.acks = @ + 1]

PServer(p, e) ==
  IF p.dead THEN p
  ELSE CASE e.k = "DATA" -> PSData(p, e)
         [] e.k = "HEADERS" -> PSHeaders(p, e)
         [] e.k = "RST" -> PSRst(p, e)
         [] e.k = "WU" -> PSWu(p, e)
         [] e.k = "SETACK" -> PSAck(p)
         [] e.k = "PINGACK" -> [p EXCEPT !.pongs = @ \cup {e.inc}]
         [] e.k = "GOAWAY" -> [p EXCEPT !.got = @ \cup {GA(e.code)}]
         [] OTHER -> p

(***************************************************************************)
(* Handler-side observations.                                              *)
(***************************************************************************)
RECURSIVE Fits(_, _)
\* the runs a Read returned are the next octets of pend
Fits(pend, runs) ==
  IF runs = <<>> THEN TRUE
  ELSE IF pend = <<>> THEN FALSE
  ELSE LET h == Head(pend)  r == Head(runs) IN
       /\ h.t = r.t /\ r.n <= h.n
       /\ IF r.n = h.n THEN Fits(Tail(pend), Tail(runs)) ELSE Len(runs) = 1
RECURSIVE Consume(_, _)
Consume(pend, runs) ==
  IF runs = <<>> THEN pend
  ELSE LET h == Head(pend)  r == Head(runs) IN
       IF r.n = h.n THEN Consume(Tail(pend), Tail(runs))
       ELSE <<[t |-> h.t, n |-> h.n - r.n]>> \o Tail(pend)

PHandler(p, e) ==
  LET s == e.s IN
  IF p.dead \/ s \notin Sid THEN p
  ELSE IF e.op = "start" THEN
    \* 5.1.2: never more concurrently active streams (running handlers) than advertised
    IF Cardinality({t \in Sid : p.hst[t] /\ p.ph[t] \in {"open", "hcr", "hcl"}} \cup {s}) > p.k.maxs
      THEN V(p, "OverLimit", s, Cardinality(Live(p)))
    ELSE IF p.stim.start = s /\ ~p.hst[s] THEN [p EXCEPT !.hst[s] = TRUE]
    ELSE V(p, "BadStart", s, "")
  ELSE IF e.op = "read" /\ e.n > 0 THEN
    IF ~Fits(p.pend[s], e.runs) THEN V(p, "HandlerData", s, e.n)
    ELSE [p EXCEPT !.pend[s] = Consume(p.pend[s], e.runs),
                   !.held[s] = IF p.ph[s] \in {"open", "hcr", "hcl"} THEN @ - e.n ELSE @]
  ELSE p

(***************************************************************************)
(* Quiescent point: the answer to the last stimulus is complete.           *)
(***************************************************************************)
PQuiesce(p, e) ==
  IF p.dead THEN (IF e.panics > 0 THEN V(p, "Panic", 0, "") ELSE p)
  ELSE
    LET st == p.stim
        gas == {t \in p.got : t.t = "ga"}
        errs == p.got \cup (IF e.closed /\ gas = {} THEN {CLOSE} ELSE {})
        p0 == IF e.panics > 0 THEN V(p, "Panic", 0, "") ELSE p
        p1 == IF st.gray \/ ((errs = {} => OK \in st.allowed) /\ errs \subseteq st.allowed)
              THEN p0 ELSE V(p0, "Outcome", st.s, errs)
        ended == e.closed \/ \E t \in gas : t.c # NOERR
        p2 == IF ~ended /\ errs = {} /\ st.start # 0 /\ ~p.hst[st.start]
              THEN V(p1, "MustStart", st.start, "") ELSE p1
        p3 == IF ~ended /\ errs = {} /\ ((st.ack = "settings" /\ p.acks # 1) \/
                                        (st.ack = "ping" /\ st.ping \notin p.pongs))
              THEN V(p2, "Ack", 0, st.ack) ELSE p2
        expCw == p.k.cw0 - SumF(p.held, Sid)
        \* 6.9: after excess DATA the two ends' views of the connection window may differ
        p4 == IF ~ended /\ p.compliant /\ p.cw # expCw
              THEN V(p3, "Replenished", 0, <<"conn", p.cw, expCw>>) ELSE p3
        badS == {s \in Sid : p.ph[s] = "open" /\ p.sw[s] # p.k.sw0 - p.held[s]}
        p5 == IF ~ended /\ p.compliant /\ badS # {}
              THEN V(p4, "Replenished", CHOOSE s \in badS : TRUE, <<"stream">>) ELSE p4 IN
    \* after excess DATA the client's view of the connection window is no longer exact (6.9):
    \* the answer to that frame is judged, the rest of the connection is not
    [p5 EXCEPT !.dead = ended \/ ~p.compliant, !.stim = NoStim, !.got = {}, !.grace = 0]
=============================================================================
