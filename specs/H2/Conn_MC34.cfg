\* C34: outbound DATA. 2 streams, connection window 4, stream window 2, max frame size 2,
\* handler writes 1..3, WINDOW_UPDATE, SETTINGS changing INITIAL_WINDOW_SIZE / MAX_FRAME_SIZE
CONSTANTS
  MaxSidC = @MAXSID@
  MaxWin = 8
  MfsMin = 1
  MfsMax = 3
  CW0 = 4
  SW0 = 3
  OCW0 = 4
  OSW0 = 2
  MFS0 = 2
  MAXS = 2
  SidsUsed = @SIDS@
  ESs = {TRUE, FALSE}
  CKinds = {"HEADERS", "WU", "SETTINGS", "RST"}
  Reqs = {"get"}
  Trailers = {}
  DataLens = {1}
  Pads = {0}
  WuIncs = {1, 2}
  IwsVals <- IwsFlow
  MfsVals <- MfsSmall
  RstCodes = {8}
  CLs <- ClNone
  HOps = {"write", "ret"}
  ReadLens = {1}
  WriteLens = {1, 3}
  WRN = 1
  N400C = 1
  N400T = 2
  MaxSteps = @STEPS@
  MaxData = 1
  MaxHdrs = 2
INIT Init
NEXT Next
INVARIANTS NoViolation NoInternalPanic Agree
CHECK_DEADLOCK FALSE
