------------------------------ MODULE ConnResp ------------------------------
(***************************************************************************)
(* C38: what an HTTP/2 response must look like on the wire, as a function  *)
(* of what the handler did (RFC 7540 8.1, 8.1.2, 8.1.2.2; RFC 7230 3.3 for *)
(* HEAD / 204 / 304).  Layer P only: status, header fields, body octets,   *)
(* trailers and END_STREAM placement as the client decodes them.           *)
(*                                                                         *)
(* A behaviour = one handler script; Init enumerates the scripts within    *)
(* the constants, the single action computes the expected response and an  *)
(* invariant prints [script |-> .., expect |-> ..].  cmd/h2conn resp runs  *)
(* the script in a handler of the real server and reports the decoded      *)
(* response; families/h2conn.py compares it with `expect`.                 *)
(***************************************************************************)
EXTENDS Integers, Sequences, FiniteSets, TLC, Json

CONSTANTS Methods,      \* request methods
          Statuses,     \* 0 = the handler never calls WriteHeader (implicit 200)
          MaxItems,     \* header items per script (all subsets up to this size, and the full set)
          WritePlans,   \* indices into Plans
          TrailerModes, \* "none" | "declared" (Trailer: X-T1 before WriteHeader) | "prefix" (Trailer:X-T2 key)
          CLModes       \* "none" | "exact" (handler sets Content-Length = octets it writes)

\* header items a handler may set with Header().Add before WriteHeader: the name as given,
\* the name the client must see (lower case), the value, and whether RFC 7540 8.1.2.2 lists
\* the field as connection-specific (must not appear in an HTTP/2 message)
Items == <<
  [name |-> "X-Custom",          lname |-> "x-custom",          val |-> "a",           conn |-> FALSE],
  [name |-> "x-lower",           lname |-> "x-lower",           val |-> "b",           conn |-> FALSE],
  [name |-> "Connection",        lname |-> "connection",        val |-> "close",       conn |-> TRUE],
  [name |-> "Keep-Alive",        lname |-> "keep-alive",        val |-> "timeout=5",   conn |-> TRUE],
  [name |-> "Proxy-Connection",  lname |-> "proxy-connection",  val |-> "keep-alive",  conn |-> TRUE],
  [name |-> "Transfer-Encoding", lname |-> "transfer-encoding", val |-> "chunked",     conn |-> TRUE],
  [name |-> "Upgrade",           lname |-> "upgrade",           val |-> "h2c",         conn |-> TRUE],
  [name |-> "Content-Type",      lname |-> "content-type",      val |-> "text/x-verif", conn |-> FALSE],
  [name |-> "X-Multi",           lname |-> "x-multi",           val |-> "1",           conn |-> FALSE],
  [name |-> "X-Multi",           lname |-> "x-multi",           val |-> "2",           conn |-> FALSE],
  [name |-> "SET-COOKIE",        lname |-> "set-cookie",        val |-> "k=v",         conn |-> FALSE] >>

\* body write plans: sequences of [n |-> octets, flush |-> BOOLEAN]
W(n, f) == [n |-> n, flush |-> f]
Plans == <<
  << >>,
  << W(3, FALSE) >>,
  << W(3, TRUE) >>,
  << W(3, TRUE), W(4, FALSE) >>,
  << W(5000, FALSE) >>,
  << W(5000, TRUE), W(3, TRUE), W(70000, FALSE) >>,
  << W(0, TRUE), W(3, FALSE) >>,
  << W(0, FALSE) >> >>

VARIABLES script, expect, done
vars == <<script, expect, done>>

ItemSets == {S \in SUBSET (1..Len(Items)) : Cardinality(S) <= MaxItems} \cup {1..Len(Items)}

Scripts ==
  { [method |-> m, status |-> st, items |-> it, plan |-> pl, trailers |-> tr, cl |-> cl] :
      m \in Methods, st \in Statuses, it \in ItemSets, pl \in WritePlans, tr \in TrailerModes, cl \in CLModes }

RECURSIVE SumPlan(_)
SumPlan(pl) == IF pl = <<>> THEN 0 ELSE Head(pl).n + SumPlan(Tail(pl))

Status(s) == IF s.status = 0 THEN 200 ELSE s.status
\* RFC 7230 3.3.3: no body for HEAD, 1xx, 204, 304
BodyAllowed(s) == s.method # "HEAD" /\ Status(s) \notin {204, 304}

SeqOfSet(S) == LET RECURSIVE F(_) 
                   F(T) == IF T = {} THEN <<>> ELSE LET x == CHOOSE y \in T : \A z \in T : y <= z
                                                     IN <<x>> \o F(T \ {x})
               IN F(S)

Expected(s) ==
  LET its == SeqOfSet(s.items) IN
  [ status   |-> Status(s),
    \* every field the handler set, lower-cased, except connection-specific ones
    fields   |-> [i \in 1..Len(its) |-> [name |-> Items[its[i]].lname, val |-> Items[its[i]].val,
                                         present |-> ~Items[its[i]].conn]],
    \* names that must not be seen at all
    banned   |-> {"connection", "keep-alive", "proxy-connection", "transfer-encoding", "upgrade"},
    \* fields the server may add on its own
    \* (a declared trailer whose value the handler set before the header block went out -
    \* no WriteHeader, no Write, no Flush before - is a header field of the handler as well)
    auto     |-> {"content-type", "content-length", "date", "trailer"}
                 \cup (IF s.trailers = "declared" /\ s.status = 0 /\ Plans[s.plan] = <<>>
                       THEN {"x-t1"} ELSE {}),
    body     |-> IF BodyAllowed(s) THEN SumPlan(Plans[s.plan]) ELSE 0,
    trailers |-> IF ~BodyAllowed(s) \/ s.trailers = "none" THEN <<>>
                 ELSE IF s.trailers = "declared" THEN <<[name |-> "x-t1", val |-> "v1"]>>
                 ELSE <<[name |-> "x-t2", val |-> "v2"]>>,
    endstream |-> "exactly-once-on-last-frame" ]

Init == script \in Scripts /\ expect = <<>> /\ done = FALSE
\* exact Content-Length only makes sense when the handler writes a body it is allowed to send
\* Declared trailers are judged whatever the body is (also empty, also without any flush).
\* The undeclared "Trailer:" prefix form is outside the property (declared trailers) and only
\* exercised after a non-empty body; trailers of body-less responses are not judged.
Sensible(s) == /\ (s.cl = "exact" => BodyAllowed(s) /\ s.trailers = "none")
               /\ (s.trailers # "none" => BodyAllowed(s))
               /\ (s.trailers = "prefix" => SumPlan(Plans[s.plan]) > 0)
Next == ~done /\ done' = TRUE /\ expect' = Expected(script) /\ UNCHANGED script
Spec == Init /\ [][Next]_vars

Emit == done /\ Sensible(script) =>
          PrintT(ToJson([script |-> [method |-> script.method, status |-> script.status,
                                     hdrs |-> [i \in 1..Len(SeqOfSet(script.items)) |->
                                                 [name |-> Items[SeqOfSet(script.items)[i]].name,
                                                  val |-> Items[SeqOfSet(script.items)[i]].val]],
                                     plan |-> Plans[script.plan], trailers |-> script.trailers,
                                     cl |-> script.cl],
                         expect |-> expect]))
=============================================================================
