--------------------------- MODULE GenHpackDecode ---------------------------
(* Case generator for HpackDecode: one JSON object per block with its octets, the preamble's *)
(* octets, and the Layer-P verdict.                                                          *)
EXTENDS HpackDecode, Json

RECURSIVE Kinds(_)
Kinds(items) == IF items = <<>> THEN "" ELSE Head(items).k \o (IF Len(items) > 1 THEN "+" ELSE "") \o Kinds(Tail(items))
Emit == LET pv == PVerdict(blk) IN
  PrintT(ToJson([pre |-> PreBytes, bytes |-> Bytes(blk), kind |-> pv.kind, fields |-> pv.fields, why |-> pv.why,
                 desc |-> Kinds(blk.items), over |-> blk.over, cut |-> blk.cut,
                 em |-> blk.em, tab |-> pv.d.tab]))
=============================================================================
