------------------------------- MODULE ConnMC -------------------------------
(* Constant sets for the exhaustive runs of Conn.tla (a cfg file cannot hold negative    *)
(* numbers: -1 = setting absent / content-length undeclared, -2 = value above 2^31-1).   *)
EXTENDS Conn
Absent == {-1}
IwsSmall == {-1, -2, 8}
IwsFlow == {-1, 0, 1, 3}
MfsSmall == {-1, 1}
MfsNone == {-1}
ClNone == {-1}
ClOne == {-1, 1}
ClZero == {-1, 0}
ClZeroOne == {-1, 0, 1}
=============================================================================
