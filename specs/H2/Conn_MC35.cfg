\* C35: all client frame kinds x stream states, handler completion interleaved
CONSTANTS
  MaxSidC = @MAXSID@
  MaxWin = 8
  MfsMin = 16384
  MfsMax = 16777215
  CW0 = 4
  SW0 = 3
  OCW0 = 4
  OSW0 = 2
  MFS0 = 16384
  MAXS = @MAXS@
  SidsUsed = @SIDS@
  ESs = {TRUE, FALSE}
  CKinds = @KINDS@
  Reqs = @REQS@
  Trailers = {"trailers", "trailerspseudo"}
  DataLens = {0, 1}
  Pads = {0}
  WuIncs = {0, 1, 8}
  IwsVals <- IwsSmall
  MfsVals <- MfsSmall
  RstCodes = {8}
  CLs <- ClZero
  HOps = {"read", "write", "ret"}
  ReadLens = {1}
  WriteLens = {1}
  WRN = 1
  N400C = 1
  N400T = 2
  MaxSteps = @STEPS@
  MaxData = @MAXDATA@
  MaxHdrs = @MAXHDRS@
INIT Init
NEXT Next
INVARIANTS NoViolation NoInternalPanic Agree
CHECK_DEADLOCK FALSE
