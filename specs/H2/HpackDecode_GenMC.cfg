CONSTANTS
  Tier = "@TIER@"
  HuffLen = @HUFFLEN@
INIT Init
NEXT Next
INVARIANTS BytesOK MInP PreOK Emit
CHECK_DEADLOCK FALSE
