------------------------------- MODULE GenConn -------------------------------
(* Behaviour generator for the h2conn family: Conn plus a history of the stimuli of one    *)
(* behaviour, each with the Layer-M summary at the quiescent point that follows it.  One  *)
(* JSON object per behaviour: [steps |-> <<[e |-> stimulus, m |-> summary], ..>>].          *)
(* cmd/h2conn run replays the stimuli on the real server; verdicts come from TraceConn     *)
(* (Layer P over the recorded events), the summaries are Layer-M diagnostics only.         *)
EXTENDS Conn, Json

CONSTANTS MinSteps,
          Heavy,        \* stimulus kinds that are three times as likely as the others
          FirstHeaders  \* TRUE: every behaviour starts by opening a stream
VARIABLES h, fin, salt
gvars == <<vars, h, fin, salt>>

\* sets with negative members cannot be written in a cfg file
Absent == {-1}
IwsAll == {-1, -2, 0, 16384, 32768, 65535, 2147483647}
IwsFlow == {-1, 0, 16384, 32768, 49152}
MfsAll == {-1, 1, 16384, 32768, 16777216}
MfsFlow == {-1, 16384, 32768}
ClNone == {-1}
ClSome == {-1, 0, 13107}
ClZero == {-1, 0}

Summary ==
  [conn |-> conn, ga |-> ga, inC |-> inC, outC |-> outC, maxId |-> maxId,
   st |-> st, inS |-> inS, outS |-> outS, buf |-> [s \in Sid |-> RunsLen(buf[s])],
   q |-> [s \in Sid |-> Len(sq[s])], hs |-> hs, sent |-> sent]

GInit == Init /\ h = <<>> /\ fin = FALSE /\ salt = 0

\* Two-stage choice of the next stimulus (kind first, then its arguments): -simulate picks
\* uniformly among successor STATES, so this makes every kind equally likely and keeps the
\* number of successors TLC has to build per step small.
Idle == {s \in Sid : hs[s] = "idle"}
Early == nstep + 1 < MinSteps         \* stimuli that end the connection are filtered out below
Used == \E s \in SidsUsed : s <= maxId
Kinds ==
  IF holdM.k # "" THEN {"CONT"} \cup (IF Early THEN {} ELSE {"BREAK"})
  ELSE IF FirstHeaders /\ nstep = 0 THEN {"HEADERS"}
  ELSE LET all == (CKinds \cap {"HEADERS", "NEH", "SETTINGS", "PING"})
                  \cup (IF Used \/ ~Early THEN CKinds \cap {"DATA", "RST"} ELSE {})
                  \cup (IF Used \/ ~Early \/ 0 \in SidsUsed THEN CKinds \cap {"WU"} ELSE {})
                  \cup (IF CKinds \cap {"PRIORITY", "PINGACK", "UNKNOWN"} # {} THEN {"NOEFF"} ELSE {})
                  \cup (IF CKinds \cap {"CONT", "PUSH"} # {} /\ ~Early THEN {"CONNERR"} ELSE {})
                  \cup (IF \E s \in Idle : InMap(s) /\ ~bclosed[s] /\ buf[s] # <<>> /\ "RACE" \in CKinds
                        THEN {"RACE"} ELSE {})
                  \cup (IF \E s \in Idle : InMap(s) /\ sq[s] = <<>> /\ WRN <= Min(Min(outS[s], outC), mfsM)
                                          /\ "WRACE" \in CKinds THEN {"WRACE"} ELSE {})
                  \cup (IF Idle # {} /\ "ret" \in HOps THEN {"h-ret"} ELSE {})
                  \cup (IF \E s \in Idle : ~bclosed[s] /\ "read" \in HOps THEN {"h-read"} ELSE {})
                  \cup (IF \E s \in Idle : InMap(s) /\ bst[s] = "open" /\ ~bclosed[s] /\ "closebody" \in HOps
                        THEN {"h-closebody"} ELSE {})
                  \cup (IF \E s \in Idle : InMap(s) /\ "write" \in HOps THEN {"h-write"} ELSE {})
                  \cup (IF \E s \in Idle : InMap(s) /\ ~hsent[s] /\ "hdr" \in HOps THEN {"h-hdr"} ELSE {})
           no == (IF nhdrs >= MaxHdrs THEN {"HEADERS", "NEH"} ELSE {})
                 \cup (IF ndata >= MaxData THEN {"DATA"} ELSE {}) IN
       all \ no
Choose == /\ ~fin /\ StimAny /\ want = ""
          /\ want' \in Kinds
          /\ salt' \in 1..(IF want' \in Heavy THEN 3 ELSE 1)
          /\ UNCHANGED <<p, st, maxId, inC, inS, buf, bst, bclosed, clM, bodyM, outC, outS, iwsM, mfsM, ctl, sq,
                         needAck, ga, needGA, conn, hs, hk, hprog, hsent, hret, sent, mineM, tag, turn,
                         nstep, ndata, nhdrs, last, holdM, h, fin>>

GNext ==
  \/ Choose
  \/ /\ ~fin /\ Next /\ (turn = "stim" => want # "")
     \* a stimulus that ends the connection (or its judged part) only once MinSteps is reached
     /\ turn = "stim" => (nstep + 1 >= MinSteps \/ (ga' = -1 /\ conn' = "up" /\ ~p'.dead))
     /\ h' = IF turn = "stim" THEN Append(h, [e |-> last', m |-> <<>>])
             ELSE IF turn' = "stim" THEN [h EXCEPT ![Len(h)].m = Summary']
             ELSE h
     /\ fin' = FALSE /\ UNCHANGED salt
  \/ /\ ~fin /\ turn = "stim" /\ Len(h) >= MinSteps
     /\ (nstep = MaxSteps \/ conn # "up" \/ ga # -1 \/ p.dead)
     /\ fin' = TRUE /\ UNCHANGED <<vars, h, salt>>

\* printed once per behaviour, from the dedicated final step
Emit == fin => PrintT(ToJson([steps |-> h]))
=============================================================================
