------------------------------- MODULE GenConn -------------------------------
(* Behaviour generator for the h2conn family: Conn plus a history of the stimuli of one    *)
(* behaviour, each with the Layer-M summary at the quiescent point that follows it.  One  *)
(* JSON object per behaviour: [steps |-> <<[e |-> stimulus, m |-> summary], ..>>].          *)
(* cmd/h2conn run replays the stimuli on the real server; verdicts come from TraceConn     *)
(* (Layer P over the recorded events), the summaries are Layer-M diagnostics only.         *)
EXTENDS Conn, Json

CONSTANT MinSteps
VARIABLES h, fin
gvars == <<vars, h, fin>>

\* sets with negative members cannot be written in a cfg file
Absent == {-1}
IwsAll == {-1, -2, 0, 16384, 32768, 65535, 2147483647}
IwsFlow == {-1, 0, 16384, 32768, 49152}
MfsAll == {-1, 1, 16384, 32768, 16777216}
MfsFlow == {-1, 16384, 32768}
ClNone == {-1}
ClSome == {-1, 13107}

Summary ==
  [conn |-> conn, ga |-> ga, inC |-> inC, outC |-> outC, maxId |-> maxId,
   st |-> st, inS |-> inS, outS |-> outS, buf |-> [s \in Sid |-> RunsLen(buf[s])],
   q |-> [s \in Sid |-> Len(sq[s])], hs |-> hs, sent |-> sent]

GInit == Init /\ h = <<>> /\ fin = FALSE

GNext ==
  \/ /\ ~fin /\ Next
     \* a stimulus that ends the connection (or its judged part) only once MinSteps is reached
     /\ turn = "stim" => (nstep + 1 >= MinSteps \/ (ga' = -1 /\ conn' = "up" /\ ~p'.dead))
     /\ h' = IF turn = "stim" THEN Append(h, [e |-> last', m |-> <<>>])
             ELSE IF turn' = "stim" THEN [h EXCEPT ![Len(h)].m = Summary']
             ELSE h
     /\ fin' = FALSE
  \/ /\ ~fin /\ turn = "stim" /\ Len(h) >= MinSteps
     /\ (nstep = MaxSteps \/ conn # "up" \/ ga # -1 \/ p.dead)
     /\ fin' = TRUE /\ UNCHANGED <<vars, h>>

\* printed once per behaviour, from the dedicated final step
Emit == fin => PrintT(ToJson([steps |-> h]))
=============================================================================
