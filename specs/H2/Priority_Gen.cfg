CONSTANTS
  N = @N@
  MaxOps = @OPS@
  Seq0 = @SEQ@
INIT GInit
NEXT GNext
INVARIANTS Emit
CHECK_DEADLOCK FALSE
