CONSTANTS
  UseCtx = @CTX@
INIT Init
NEXT Next
INVARIANTS MInP CtxOK LayoutOK FlagsIgnored Emit
CHECK_DEADLOCK FALSE
