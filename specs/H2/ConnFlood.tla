------------------------------ MODULE ConnFlood ------------------------------
(***************************************************************************)
(* C37: control-frame floods are bounded.                                  *)
(*                                                                         *)
(* The client stops reading and keeps sending frames that make the server  *)
(* queue control frames (PING -> PING ACK; WINDOW_UPDATE with increment 0  *)
(* on a stream -> RST_STREAM; DATA on a closed stream -> WINDOW_UPDATE +   *)
(* RST_STREAM; SETTINGS -> one pending ACK flag, not queued).              *)
(*                                                                         *)
(* Layer M: serverConn.queuedControlFrames: +1 per control frame handed to *)
(* writeFrame, -1 when the scheduler takes it; with the reader stalled the *)
(* writer can move at most Escape frames out of the queue (what fits into  *)
(* the transport and the 4 KiB write buffer) before it blocks; the check   *)
(* at the end of every serve-loop iteration ends the connection as soon as *)
(* the counter exceeds Limit.                                              *)
(* Layer P:  Bounded    - whenever the connection is up, the number of     *)
(*                        control frames pending is at most Limit          *)
(*           ClosedOver - once more than Limit + Escape control frames     *)
(*                        were elicited without the client reading, the    *)
(*                        connection has been closed                       *)
(*           Delivered  - after the client resumes reading it receives at  *)
(*                        most Limit + Escape of them                      *)
(* A behaviour = a sequence of bursts; the generator prints it with the    *)
(* expectation after every burst (mustClose / mayClose / bound).           *)
(***************************************************************************)
EXTENDS Integers, Sequences, FiniteSets, TLC, Json

CONSTANTS Limit, Escape, Bursts, Kinds, MaxSteps,
          GoAways,        \* {FALSE}, or {FALSE, TRUE}: the server has sent a graceful GOAWAY(NO_ERROR) and
                          \* the connection is still alive (GracefulShutdownTimeout) when the flood starts
          Histories,      \* numbers of PINGs exchanged (sent, answered, answer read) before the client stops reading
          EscapeChoices   \* how many frames escape in one burst: 0..Escape in the exhaustive run, {0} in the generator

Yield(k) == CASE k = "PING" -> 1 [] k = "WU0" -> 1 [] k = "DATAC" -> 2 [] k = "SETTINGS" -> 0 [] OTHER -> 0

VARIABLES queued,    \* sc.queuedControlFrames
          escaped,   \* frames the writer moved out of the queue before blocking
          elicited,  \* control frames elicited since the client stopped reading
          up,        \* connection not yet closed by the server
          goaway,    \* the connection is going away gracefully (the bounds hold all the same)
          hist,      \* ordinary exchanges completed before the flood (-1: not chosen yet)
          h          \* history: bursts with the expectation after each
vars == <<queued, escaped, elicited, up, goaway, hist, h>>

Init == queued = 0 /\ escaped = 0 /\ elicited = 0 /\ up = TRUE /\ goaway = FALSE /\ hist = -1 /\ h = <<>>

\* The connection has a past: n PINGs, each queued (+1), taken by the scheduler (-1), written,
\* flushed and read by the client.  Nothing of it is pending when the flood starts, so the
\* Layer-P bounds below count only what the client elicits after it stopped reading.
Exchange(n) ==
  /\ hist = -1 /\ hist' = n /\ goaway' \in GoAways
  /\ queued' = queued + n - n
  /\ UNCHANGED <<escaped, elicited, up, h>>

Min(a, b) == IF a < b THEN a ELSE b

\* One burst of n frames of kind k.  The serve loop handles one frame per iteration and
\* checks the limit after each; between iterations the writer may take frames while there
\* is room (at most Escape in total).  e frames escape during this burst.
Burst(k, n, e) ==
  /\ up /\ hist >= 0 /\ Len(h) < MaxSteps
  /\ UNCHANGED <<hist, goaway>>
  /\ e \in 0..Min(Escape - escaped, n * Yield(k))
  /\ LET y == Yield(k)
         tot == queued + n * y - e           \* if the connection survives the whole burst
         \* the connection ends at the first iteration that leaves more than Limit queued;
         \* with the most favourable draining that happens iff tot > Limit
         dies == tot > Limit IN
     /\ elicited' = elicited + n * y
     /\ escaped' = escaped + e
     /\ up' = ~dies
     /\ queued' = IF dies THEN Limit + 1 ELSE tot
     /\ h' = Append(h, [k |-> k, n |-> n,
                        \* Layer P expectation after this burst
                        mustClose |-> elicited + n * y > Limit + Escape,
                        mayClose |-> elicited + n * y > Limit,
                        bound |-> Limit])

Next == \/ \E n \in Histories : Exchange(n)
        \/ \E k \in Kinds, n \in Bursts, e \in EscapeChoices : Burst(k, n, e)
Spec == Init /\ [][Next]_vars

\* Layer P over Layer M
Bounded == up => queued <= Limit
ClosedOver == elicited > Limit + Escape => ~up
MayOnly == ~up => elicited > Limit
Delivered == up => escaped + queued <= Limit + Escape

\* generator: print every maximal behaviour once
Emit == (Len(h) = MaxSteps \/ ~up) /\ Len(h) > 0 => PrintT(ToJson([hist |-> hist, goaway |-> goaway, bursts |-> h]))
=============================================================================
