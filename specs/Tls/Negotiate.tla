------------------------------ MODULE Negotiate ------------------------------
(* C41 - TLS negotiation picks mutually supported parameters and resists downgrade.   *)
(*                                                                                    *)
(* A pure decision procedure: (client hello, server configuration) -> outcome.        *)
(*   Layer P  Allowed(cl, sv): what the property (and RFC 5246 / 4492 / 7301 / 7507 / *)
(*            7540 s.9.2) permits: refusal must / may / must-not, THE version, a SET  *)
(*            of suites, a SET of ALPN answers.  Verdicts are taken against this.     *)
(*   Layer M  Mech(cl, sv): what bfe_tls/handshake_server.go:readClientHello does,    *)
(*            step by step (one LET per code block).  Diagnostic only (MODEL-DRIFT).  *)
(* NegotiateMC checks exhaustively that Mech is total and always lies inside Allowed. *)
(*                                                                                    *)
(* Alphabets.  Versions 10/11/12 = TLS 1.0/1.1/1.2 (3 = SSL 3.0, only as a lower      *)
(* bound; 0 = configuration field left at its zero value).  Suites:                   *)
(*   EG ECDHE-RSA-AES128-GCM-SHA256   EC ECDHE-RSA-AES128-CBC-SHA                     *)
(*   RC RSA-AES128-CBC-SHA            R3 RSA-3DES-EDE-CBC-SHA                         *)
(*   XG ECDHE-ECDSA-AES128-GCM-SHA256 CH ECDHE-RSA-CHACHA20-POLY1305 (enabled only    *)
(*      for connections whose rule says chacha)                                       *)
(* cl = [kind, min, max, suites (sequence, as sent), scsv, ecc, alpn (sequence), sni] *)
(*   ecc: "ok"      supported_curves with a curve the server has + uncompressed points *)
(*        "none"    neither ECC extension (RFC 4492 s.4: server may pick any curve)    *)
(*        "foreign" supported_curves without any curve the server has                  *)
(* sv = [min, max, suites (sequence; <<>> = nil = package default), prefer, np,       *)
(*       rule [on, sni, grade, np, clientauth, chacha], cert]                          *)
(*   rule = bfe_tls.Rule returned by Config.ServerRule for connections with that SNI  *)
(*   (grade, NextProtos, ClientAuth, Chacha20); clientauth matters to Ticket.tla only *)
EXTENDS Integers, Sequences, FiniteSets, TLC

SSL3 == 3
Versions == {10, 11, 12}
AllSuites == {"EG", "EC", "RC", "R3", "XG", "CH"}
Protos == {"h2", "http/1.1", "spdy/3.1"}
Grades == {"A+", "A", "B", "C"}

IsECDHE(s) == s \in {"EG", "EC", "XG", "CH"}
TLS12Only(s) == s \in {"EG", "XG", "CH"}
AuthOf(s) == IF s = "XG" THEN "ecdsa" ELSE "rsa"
H2Suite(s) == s \in {"EG", "XG", "CH"}          \* not on the RFC 7540 Appendix A black list

Range(f) == {f[i] : i \in DOMAIN f}
MaxOf(S) == CHOOSE x \in S : \A y \in S : y <= x
MinOf(S) == CHOOSE x \in S : \A y \in S : x <= y
Lesser(a, b) == IF a < b THEN a ELSE b
\* first element of seq that lies in S ("" if none)
FirstIn(seq, S) == LET idx == {i \in DOMAIN seq : seq[i] \in S}
                   IN IF idx = {} THEN "" ELSE seq[MinOf(idx)]

\* ------------------------------------------------------------------ server view
SMinCfg(sv) == IF sv.min = 0 THEN SSL3 ELSE sv.min      \* Config.minVersion()
SMax(sv) == IF sv.max = 0 THEN 12 ELSE sv.max           \* Config.maxVersion(): zero = TLS 1.2
RuleOn(cl, sv) == sv.rule.on /\ sv.rule.sni = cl.sni
Grade(cl, sv) == IF RuleOn(cl, sv) THEN sv.rule.grade ELSE "C"
GradeMin(g) == CASE g = "A+" -> 12 [] g = "A" -> 10 [] OTHER -> SSL3
\* versions the server enables for this connection (configured range /\ rule grade)
Enabled(cl, sv) == {v \in Versions : SMinCfg(sv) <= v /\ v <= SMax(sv) /\ GradeMin(Grade(cl, sv)) <= v}
ClientVers(cl) == {v \in Versions : cl.min <= v /\ v <= cl.max}
PkgSuiteOrder == <<"CH", "EG", "XG", "EC", "RC", "R3">>       \* order of bfe_tls.cipherSuites (Layer M)
ServerSuites(sv) == IF sv.suites = <<>> THEN PkgSuiteOrder ELSE sv.suites
ServerProtos(cl, sv) == IF RuleOn(cl, sv) THEN sv.rule.np ELSE sv.np

\* ------------------------------------------------------------------ Layer P
MutualVers(cl, sv) == Enabled(cl, sv) \cap ClientVers(cl)

Usable(s, cl, sv, v) == /\ s \in Range(cl.suites)
                        /\ s \in Range(ServerSuites(sv))
                        /\ AuthOf(s) = sv.cert
                        /\ (TLS12Only(s) => v = 12)
                        /\ (s = "CH" => (RuleOn(cl, sv) /\ sv.rule.chacha))     \* Rule.Chacha20
\* suites that can certainly be used / that may be used (ECDHE towards a client without ECC extensions)
Certain(cl, sv, v) == {s \in AllSuites : Usable(s, cl, sv, v) /\ (IsECDHE(s) => cl.ecc = "ok")}
Possible(cl, sv, v) == {s \in AllSuites : Usable(s, cl, sv, v) /\ (IsECDHE(s) => cl.ecc \in {"ok", "none"})}

MutualProtos(cl, sv) == Range(cl.alpn) \cap Range(ServerProtos(cl, sv))
\* "" = no ALPN extension in ServerHello.  h2 only over TLS 1.2 (RFC 7540 s.9.2: MUST).
AlpnAllowed(cl, sv, v) == {""} \cup {p \in MutualProtos(cl, sv) : p = "h2" => v = 12}

\* RFC 7507 s.3: fallback hello below the server's highest supported version
Fallback(cl, sv) == cl.scsv /\ cl.max < SMax(sv)

Refusal(why) == [refuse |-> "must", why |-> why, vers |-> 0, suites |-> {}, alpn |-> {}]

Allowed(cl, sv) ==
  IF MutualVers(cl, sv) = {} THEN Refusal("version")
  ELSE LET v == MaxOf(MutualVers(cl, sv)) IN
       IF Fallback(cl, sv) THEN Refusal("fallback")
       ELSE IF Possible(cl, sv, v) = {} THEN Refusal("suite")
       ELSE [refuse |-> IF Certain(cl, sv, v) = {} THEN "may"                              \* RFC 4492 s.4 leaves it open
                        ELSE IF cl.alpn # <<>> /\ MutualProtos(cl, sv) = {} THEN "may"     \* RFC 7301 s.3.2 no_application_protocol
                        ELSE "no",
             why |-> "",
             vers |-> v,
             suites |-> Possible(cl, sv, v),
             alpn |-> AlpnAllowed(cl, sv, v)]

\* ------------------------------------------------------------------ Layer M (bfe_tls as repaired)
Refuse(alert, by) == [done |-> FALSE, alert |-> alert, by |-> by, vers |-> 0, suite |-> "", alpn |-> ""]

Mech(cl, sv) ==
  IF cl.max < SMinCfg(sv) THEN Refuse("protocol_version", "server")            \* mutualVersion
  ELSE LET v == Lesser(cl.max, SMax(sv)) IN
  IF v < GradeMin(Grade(cl, sv)) THEN Refuse("protocol_version", "server")     \* checkVersionGrade
  ELSE LET a0 == IF cl.alpn = <<>> THEN "" ELSE FirstIn(ServerProtos(cl, sv), Range(cl.alpn))   \* mutualProtocol: server order
           pref == IF sv.prefer THEN ServerSuites(sv) ELSE cl.suites
           pass1 == FirstIn(pref, Certain(cl, sv, v))                           \* ellipticOk as announced
           pass2 == IF pass1 = "" /\ cl.ecc = "none"                            \* checkEllipticMayOk
                    THEN FirstIn(pref, {s \in Possible(cl, sv, v) : IsECDHE(s)}) ELSE ""
           s == IF pass1 # "" THEN pass1 ELSE pass2
       IN
  IF s = "" THEN Refuse("handshake_failure", "server")
  ELSE IF Fallback(cl, sv) THEN Refuse("inappropriate_fallback", "server")     \* against maxVersion() (fix F-C41-1)
  ELSE LET a == IF a0 = "h2" /\ (~H2Suite(s) \/ v < 12)                         \* validateHttp2Accepted (fix F-C41-2)
                THEN (IF "http/1.1" \in MutualProtos(cl, sv) THEN "http/1.1" ELSE "")
                ELSE a0
       IN
  IF v < cl.min THEN Refuse("protocol_version", "client")                       \* the client declines ServerHello
  ELSE [done |-> TRUE, alert |-> "", by |-> "", vers |-> v, suite |-> s, alpn |-> a]

\* ------------------------------------------------------------------ obligations checked by NegotiateMC
MechInsideP(cl, sv) ==
  LET p == Allowed(cl, sv)  m == Mech(cl, sv) IN
  /\ m.done => /\ p.refuse # "must"
               /\ m.vers = p.vers
               /\ m.suite \in p.suites
               /\ m.alpn \in p.alpn
  /\ ~m.done => p.refuse # "no"

\* nothing outside both offers is ever permitted; the version is the highest mutual one
PSane(cl, sv) ==
  LET p == Allowed(cl, sv) IN
  p.refuse # "must" =>
    /\ p.vers \in Enabled(cl, sv) /\ p.vers \in ClientVers(cl)
    /\ \A v \in MutualVers(cl, sv) : v <= p.vers
    /\ p.suites # {}
    /\ p.suites \subseteq (Range(cl.suites) \cap Range(ServerSuites(sv)))
    /\ \A s \in p.suites : AuthOf(s) = sv.cert /\ (TLS12Only(s) => p.vers = 12)
    /\ ("CH" \in p.suites => RuleOn(cl, sv) /\ sv.rule.chacha)
    /\ (p.alpn \ {""}) \subseteq (Range(cl.alpn) \cap Range(ServerProtos(cl, sv)))
    /\ ("h2" \in p.alpn => p.vers = 12)
    /\ (cl.alpn = <<>> => p.alpn = {""})

Downgrade(cl, sv) ==
  (cl.scsv /\ cl.max < SMax(sv)) => (Allowed(cl, sv).refuse = "must" /\ ~Mech(cl, sv).done)

Total(cl, sv) ==
  LET m == Mech(cl, sv) IN
  /\ m.done \in BOOLEAN
  /\ m.done => m.vers \in Versions /\ m.suite \in AllSuites /\ m.alpn \in Protos \cup {""}
  /\ ~m.done => m.alert \in {"protocol_version", "handshake_failure", "inappropriate_fallback"}

\* ------------------------------------------------------------------ the documents' own examples
NoRule == [on |-> FALSE, sni |-> "", grade |-> "C", np |-> <<>>, clientauth |-> FALSE, chacha |-> FALSE]
DefSv == [min |-> 0, max |-> 0, suites |-> <<>>, prefer |-> TRUE, np |-> <<"h2", "http/1.1">>, rule |-> NoRule, cert |-> "rsa"]
DefCl == [kind |-> "raw", min |-> 10, max |-> 12, suites |-> <<"EG", "EC", "RC">>, scsv |-> FALSE, ecc |-> "ok",
          alpn |-> <<"h2", "http/1.1">>, sni |-> "a"]
\* RFC 7507 s.3: SCSV and client_version below the server's highest version -> fatal alert,
\* also when the server's maximum is left at its default (the property's last sentence)
ASSUME Allowed([DefCl EXCEPT !.max = 11, !.scsv = TRUE], DefSv).refuse = "must"
ASSUME Allowed([DefCl EXCEPT !.max = 11, !.scsv = TRUE], [DefSv EXCEPT !.max = 12]).refuse = "must"
\* RFC 7507 s.3: SCSV with client_version = server's highest: proceed as normal
ASSUME Allowed([DefCl EXCEPT !.scsv = TRUE], DefSv).refuse = "no"
ASSUME Allowed([DefCl EXCEPT !.max = 11, !.scsv = TRUE], [DefSv EXCEPT !.max = 11]).refuse = "no"
\* RFC 5246 E.1: server answers with the highest version both support
ASSUME Allowed(DefCl, [DefSv EXCEPT !.max = 11]).vers = 11
ASSUME Allowed([DefCl EXCEPT !.max = 10], DefSv).vers = 10
ASSUME Allowed([DefCl EXCEPT !.max = 10], [DefSv EXCEPT !.min = 11]).refuse = "must"
\* RFC 7540 s.9.2: h2 needs TLS 1.2
ASSUME "h2" \notin Allowed([DefCl EXCEPT !.max = 11], DefSv).alpn
ASSUME Allowed(DefCl, DefSv).alpn = {"", "h2", "http/1.1"}
\* RFC 7301 s.3.1: the answer comes from the client's list
ASSUME Allowed([DefCl EXCEPT !.alpn = <<"h2">>, !.max = 11], DefSv).alpn = {""}
=============================================================================
