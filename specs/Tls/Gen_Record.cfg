CONSTANTS
  N = @N@
  K = @K@
  Regions = {"type", "vmaj", "vmin", "lenhi", "lenlo", "lenover", "first", "mid", "macstart", "pad", "last"}
  InjKinds = {"garbage", "plainalert", "empty", "ccs", "hsfinished"}
  PadAuth = @PADAUTH@
  MaxPost = 3
INIT GInit
NEXT GNext
INVARIANTS Emit
CHECK_DEADLOCK FALSE
