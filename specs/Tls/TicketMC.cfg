\* C44: every connection step of every history (<= MaxSteps steps) satisfies StepOK
CONSTANTS
  Preset = "@PRESET@"
  Tier = "@TIER@"
  MaxSteps = @STEPS@
INIT Init
NEXT Next
INVARIANTS InvStepOK InvType InvKinds
CHECK_DEADLOCK FALSE
