\* C41: Mech (bfe_tls negotiation as repaired) is total and stays inside Layer P on every pair of the presets
CONSTANTS
  Presets = @PRESETS@
  Tier = "@TIER@"
INIT Init
NEXT Next
INVARIANTS InvTotal InvMechInsideP InvPSane InvDowngrade
CHECK_DEADLOCK FALSE
