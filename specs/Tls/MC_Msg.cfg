CONSTANTS
  MaxPresence = @MAXP@
INIT Init
NEXT Next
INVARIANTS ShapeOK VerdictOK
CHECK_DEADLOCK FALSE
