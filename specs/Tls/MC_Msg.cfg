CONSTANTS
  MaxPresence = @MAXP@
INIT Init
NEXT Next
INVARIANTS LayoutOK ShapeOK VerdictOK
CHECK_DEADLOCK FALSE
