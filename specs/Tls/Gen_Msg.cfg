CONSTANTS
  MaxPresence = @MAXP@
INIT GInit
NEXT GNext
INVARIANTS Emit ShapeOK VerdictAll
CHECK_DEADLOCK FALSE
