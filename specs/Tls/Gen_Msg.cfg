CONSTANTS
  MaxPresence = @MAXP@
INIT GInit
NEXT GNext
INVARIANTS Emit
CHECK_DEADLOCK FALSE
