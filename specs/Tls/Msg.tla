--------------------------- MODULE Msg ---------------------------
(* C45  TLS handshake messages round-trip and parse safely.                         *)
(*                                                                                  *)
(* Poor fit for TLA+ (DESIGN section 1): the oracle for "parses back to an equal    *)
(* message" is equality on the real code.  What this module contributes is          *)
(*  (1) the wire layout of every handshake message type of bfe_tls (and of the      *)
(*      session-ticket state), transcribed from RFC 5246 7.4, RFC 4366/6066, RFC    *)
(*      4492, RFC 5077, RFC 7301, draft-agl-tls-nextprotoneg, as a tree of nodes;   *)
(*  (2) the complete enumeration of shapes: type x presence vector of the optional  *)
(*      fields x (round trip | cut position class | length-field perturbation);     *)
(*  (3) the rule that says for which shapes a parser MUST answer "malformed".       *)
(* The harness concretises each shape with seeded field contents, finds the byte    *)
(* offsets by walking the marshalled bytes along the node list printed here, and    *)
(* runs the real marshal / unmarshal.                                               *)
EXTENDS Integers, Sequences, FiniteSets

\* ------------------------------------------------------------------ layouts
\* node kinds: fix  fixed-size field (sz bytes)
\*             vec  vector with an lb-byte length prefix (leaf or container)
\*             ext  extension: 2-byte type `tag`, 2-byte length, body (leaf or container)
\*             cnt  list with an lb-byte element COUNT (session state certificates)
\*             rest unprefixed remainder of the enclosing structure
\*             hdr  handshake header: 1 byte type, 3 bytes length of the body
\* par  id of the enclosing node ("" = message level);  opt  presence flag ("" = always,
\* "*" = present iff some child is present);  endok  the grammar allows the message to end
\* in front of this node (optional extension block, unprefixed remainder).
Nd(id, k, par, lb, sz, tag, opt, endok) ==
    [id |-> id, k |-> k, par |-> par, lb |-> lb, sz |-> sz, tag |-> tag, opt |-> opt, endok |-> endok]
H          == Nd("hdr", "hdr", "", 3, 1, 0, "", FALSE)
F(id, par, sz, opt) == Nd(id, "fix", par, 0, sz, 0, opt, FALSE)
V(id, par, lb, opt) == Nd(id, "vec", par, lb, 0, 0, opt, FALSE)
X(id, tag, opt)     == Nd(id, "ext", "exts", 2, 0, tag, opt, FALSE)
R(id, par)          == Nd(id, "rest", par, 0, 0, 0, "", TRUE)
Exts                == Nd("exts", "vec", "", 2, 0, 0, "*", TRUE)

Types == {"clientHello", "serverHello", "certificate", "serverKeyExchange", "certificateStatus",
          "serverHelloDone", "clientKeyExchange", "finished", "nextProto", "certificateRequest",
          "certificateVerify", "newSessionTicket", "sessionState"}

LClientHello ==
        << H, F("vers", "", 2, ""), F("random", "", 32, ""), V("sessionId", "", 1, ""),
           V("cipherSuites", "", 2, ""), V("compression", "", 1, ""), Exts,
           X("npn", 13172, "npn"),
           X("sni", 0, "sni"), V("sni.list", "sni", 2, ""), F("sni.type", "sni.list", 1, ""), V("sni.name", "sni.list", 2, ""),
           X("ocsp", 5, "ocsp"), F("ocsp.req", "ocsp", 5, ""),
           X("curves", 10, "curves"), V("curves.list", "curves", 2, ""),
           X("points", 11, "points"), V("points.list", "points", 1, ""),
           X("ticket", 35, "ticket"),
           X("sigalgs", 13, "sigalgs"), V("sigalgs.list", "sigalgs", 2, ""),
           X("reneg", 65281, "reneg"), V("reneg.info", "reneg", 1, ""),
           X("alpn", 16, "alpn"), V("alpn.list", "alpn", 2, ""), V("alpn.n1", "alpn.list", 1, ""), V("alpn.n2", "alpn.list", 1, "") >>

LServerHello ==
        << H, F("vers", "", 2, ""), F("random", "", 32, ""), V("sessionId", "", 1, ""),
           F("cipherSuite", "", 2, ""), F("compression", "", 1, ""), Exts,
           X("npn", 13172, "npn"), V("npn.p1", "npn", 1, ""), V("npn.p2", "npn", 1, ""),
           X("ocsp", 5, "ocsp"),
           X("ticket", 35, "ticket"),
           X("reneg", 65281, "reneg"), V("reneg.info", "reneg", 1, ""),
           X("alpn", 16, "alpn"), V("alpn.list", "alpn", 2, ""), V("alpn.name", "alpn.list", 1, "") >>

LCertificate ==
        << H, V("certs", "", 3, ""), V("cert1", "certs", 3, "c1"), V("cert2", "certs", 3, "c2") >>

LServerKeyExchange ==
        << H, R("key", "") >>

LCertificateStatus ==
        << H, F("statusType", "", 1, ""), V("response", "", 3, "ocsp") >>

LServerHelloDone ==
        << H >>

LClientKeyExchange ==
        << H, R("ciphertext", "") >>

LFinished ==
        << H, R("verifyData", "") >>

LNextProto ==
        << H, V("proto", "", 1, ""), V("padding", "", 1, "") >>

LCertificateRequest ==
        << H, V("types", "", 1, ""), V("sigalgs", "", 2, "sig"),
           V("cas", "", 2, ""), V("ca1", "cas", 2, "ca1"), V("ca2", "cas", 2, "ca2") >>

LCertificateVerify ==
        << H, F("sigalg", "", 2, "sig"), V("signature", "", 2, "") >>

LNewSessionTicket ==
        << H, F("lifetime", "", 4, ""), V("ticket", "", 2, "") >>

LSessionState ==
        << F("vers", "", 2, ""), F("cipherSuite", "", 2, ""), V("master", "", 2, ""),
           Nd("certs", "cnt", "", 2, 0, 0, "", FALSE), V("cert1", "certs", 4, "c1"), V("cert2", "certs", 4, "c2") >>

Layout(t) ==
  CASE t = "clientHello" -> LClientHello
    [] t = "serverHello" -> LServerHello
    [] t = "certificate" -> LCertificate
    [] t = "serverKeyExchange" -> LServerKeyExchange
    [] t = "certificateStatus" -> LCertificateStatus
    [] t = "serverHelloDone" -> LServerHelloDone
    [] t = "clientKeyExchange" -> LClientKeyExchange
    [] t = "finished" -> LFinished
    [] t = "nextProto" -> LNextProto
    [] t = "certificateRequest" -> LCertificateRequest
    [] t = "certificateVerify" -> LCertificateVerify
    [] t = "newSessionTicket" -> LNewSessionTicket
    [] t = "sessionState" -> LSessionState

Range(s) == {s[i] : i \in 1..Len(s)}
Flags(t) == {n.opt : n \in Range(Layout(t))} \ {"", "*"}

\* the presence vectors explored for type t: all of them, or (clientHello has 512) a band
CONSTANT MaxPresence       \* explore every presence vector with at most / at least this many flags off / on
PresenceSets(t) == {p \in SUBSET Flags(t) :
                      \/ Cardinality(p) <= MaxPresence
                      \/ Cardinality(Flags(t) \ p) <= MaxPresence}

\* ------------------------------------------------------------------ shape of one message
Node(t, id) == CHOOSE n \in Range(Layout(t)) : n.id = id
Children(t, id) == {n \in Range(Layout(t)) : n.par = id}
RECURSIVE Present(_, _, _)
Present(t, p, n) ==
    /\ n.par = "" \/ Present(t, p, Node(t, n.par))
    /\ IF n.opt = "" THEN TRUE
       ELSE IF n.opt = "*" THEN \E c \in Children(t, n.id) : c.opt \in p
       ELSE n.opt \in p
\* the nodes of the marshalled message, in wire order
Nodes(t, p) == SelectSeq(Layout(t), LAMBDA n : Present(t, p, n))

Index(s, id) == CHOOSE i \in 1..Len(s) : s[i].id = id
\* n is the last of its siblings and so are all its ancestors: its content ends where the message ends
RECURSIVE IsTail(_, _)
IsTail(s, n) ==
    /\ \A j \in 1..Len(s) : (s[j].par = n.par /\ s[j].k # "hdr") => j <= Index(s, n.id)
    /\ n.par = "" \/ IsTail(s, s[Index(s, n.par)])
HasChild(s, n) == \E j \in 1..Len(s) : s[j].par = n.id

\* ------------------------------------------------------------------ operations on a shape
Wheres == {"before", "intag", "inlen", "afterlen", "mid", "endm1"}
Deltas == {"plus1", "max", "minus1", "zero"}

\* cut classes that make sense for a node kind (whether the concrete message has room for
\* the cut -- an empty vector has no middle -- is decided by the harness, which skips)
CutOK(s, n, w) ==
    CASE n.k = "hdr"  -> w \in {"before", "inlen"}                 \* 0 bytes, 1..3 bytes
      [] n.k = "fix"  -> w \in {"before", "mid"}
      [] n.k = "rest" -> w \in {"before", "mid", "endm1"}
      [] n.k = "ext"  -> w \in {"before", "intag", "inlen", "afterlen"} \cup (IF HasChild(s, n) THEN {} ELSE {"mid", "endm1"})
      [] OTHER        -> w \in {"before", "inlen", "afterlen"} \cup (IF HasChild(s, n) THEN {} ELSE {"mid", "endm1"})
PertOK(n) == n.k \in {"vec", "ext", "cnt", "hdr"}

\* Size classes: the content of a prefixed (or unprefixed) node is made exactly this long, so that
\* every byte of every length field -- the node's own, its ancestors', the handshake header's --
\* is driven across its 8-bit carries: just below 256, 255, just above, and the same at 2^16.
SizeClasses == {"c250", "c255", "c256", "c65530", "c65535", "c65536"}
ClassMax(c) == CASE c = "c250" -> 254 [] c = "c255" -> 255 [] c = "c256" -> 261
                 [] c = "c65530" -> 65534 [] c = "c65535" -> 65535 [] c = "c65536" -> 65541
LenCap(n) == IF n.k \in {"vec", "ext", "cnt"} /\ n.lb = 1 THEN 255
             ELSE IF n.k \in {"vec", "ext", "cnt"} /\ n.lb = 2 THEN 65535
             ELSE 16777215
RECURSIVE AncestorsFit(_, _, _)
AncestorsFit(s, n, need) == n.par = "" \/ (LET a == s[Index(s, n.par)] IN need <= LenCap(a) /\ AncestorsFit(s, a, need))
Slack == 600       \* room for everything else in the message
SizeOK(s, n, c) == /\ n.k \in {"vec", "ext", "rest", "hdr"}
                   /\ ClassMax(c) <= LenCap(n)
                   /\ AncestorsFit(s, n, ClassMax(c) + Slack)

Ops(s) ==
      {[k |-> "rt", node |-> "", w |-> "", framed |-> TRUE]}
      \cup {[k |-> "cut", node |-> s[i].id, w |-> w, framed |-> fr] :
              i \in 1..Len(s), w \in Wheres, fr \in BOOLEAN}
      \cup {[k |-> "pert", node |-> s[i].id, w |-> d, framed |-> TRUE] : i \in 1..Len(s), d \in Deltas}
      \cup {[k |-> "size", node |-> s[i].id, w |-> c, framed |-> TRUE] : i \in 1..Len(s), c \in SizeClasses}

OpOK(s, op) ==
      \/ op.k = "rt"
      \/ op.k = "cut" /\ CutOK(s, s[Index(s, op.node)], op.w)
                      /\ (op.framed \/ s[1].k = "hdr")          \* without a header framed = raw
                      /\ ~(op.node = "hdr" /\ ~op.framed)        \* a header cut cannot be re-framed: counted once
      \/ op.k = "pert" /\ PertOK(s[Index(s, op.node)])
      \/ op.k = "size" /\ SizeOK(s, s[Index(s, op.node)], op.w)

\* ------------------------------------------------------------------ the verdict rule (Layer P)
\* accept : unmarshal must return true and the result must equal the original
\* reject : unmarshal must return false
\* any    : either answer; only "no panic, no access outside the message" is required
\*
\* Cuts.  The parser is handed exactly one framed message (readHandshake slices 4+n bytes),
\* so the decisive cuts are the FRAMED ones: the prefix with its handshake length patched.
\* Such a prefix is malformed unless the grammar allows the message to stop there: at
\* message level, in front of a node from which on everything is optional (the extension
\* block) or inside / in front of an unprefixed remainder.  Everywhere else a fixed field
\* is incomplete or some length / count prefix promises more than is left: reject.
\* Raw cuts (header left as is) never reach the parser in the product: any.
EndOKFrom(s, i) == \A j \in i..Len(s) : s[j].par = "" => s[j].endok
CutExpect(s, op) ==
    LET i == Index(s, op.node)  n == s[i] IN
      IF ~op.framed THEN "any"
      ELSE IF n.k = "hdr" THEN "reject"
      ELSE IF n.par = "" /\ op.w = "before" /\ EndOKFrom(s, i) THEN "any"
      ELSE IF n.par = "" /\ n.k = "rest" THEN "any"
      ELSE "reject"
\* Perturbed lengths.  A length or count that is raised although the vector already ends
\* where the message ends promises bytes that do not exist: reject.  Everything else
\* (lowered lengths leave trailing bytes, raised inner lengths swallow the neighbour) is
\* content dependent: any.  The handshake header's own length is not the parser's to check.
PertExpect(s, op) ==
    LET n == s[Index(s, op.node)] IN
      IF n.k # "hdr" /\ op.w \in {"plus1", "max"} /\ IsTail(s, n) THEN "reject" ELSE "any"

Expect(s, op) ==
      IF op.k \in {"rt", "size"} THEN "accept"      \* a well-formed message of any size round-trips
      ELSE IF op.k = "cut" THEN CutExpect(s, op) ELSE PertExpect(s, op)

\* ------------------------------------------------------------------ transition system
VARIABLES t, pres, nodes, op, done, verdict
vars == <<t, pres, nodes, op, done, verdict>>

Init == /\ t \in Types /\ pres \in PresenceSets(t)
        /\ nodes = Nodes(t, pres)
        /\ op \in {o \in Ops(nodes) : OpOK(nodes, o)}
        /\ done = FALSE /\ verdict = "none"
Parse == ~done /\ done' = TRUE /\ verdict' = Expect(nodes, op) /\ UNCHANGED <<t, pres, nodes, op>>
Next == Parse
Spec == Init /\ [][Next]_vars

\* ------------------------------------------------------------------ sanity of the transcription
\* ids unique, parents declared earlier, endok only at message level, every shape has exactly
\* one tail leaf, a header (if any) comes first
ASSUME LayoutOK == \A ty \in Types :
    LET s == Layout(ty) IN
      /\ \A i, j \in 1..Len(s) : s[i].id = s[j].id => i = j
      /\ \A i \in 1..Len(s) : s[i].par # "" => \E j \in 1..(i - 1) : s[j].id = s[i].par
      /\ \A i \in 1..Len(s) : s[i].endok => s[i].par = ""
      /\ \A i \in 2..Len(s) : s[i].k # "hdr"
ShapeOK == LET s == nodes IN
      /\ Cardinality({i \in 1..Len(s) : IsTail(s, s[i]) /\ ~HasChild(s, s[i]) /\ s[i].k # "hdr"}) <= 1
      /\ (Len(s) > 1 => \E i \in 1..Len(s) : IsTail(s, s[i]) /\ s[i].k # "hdr")
VerdictOK == done => /\ verdict \in {"accept", "reject", "any"}
                     /\ (op.k \in {"rt", "size"} <=> verdict = "accept")
                     /\ (op.k = "cut" /\ ~op.framed => verdict = "any")
=======================================================================
