--------------------------- MODULE Record ---------------------------
(* C42  TLS records are integrity-protected.                                        *)
(*                                                                                  *)
(* A sender has put N application-data records on the wire (record i carries chunk  *)
(* i of the application stream).  An active adversary rewrites the wire with at     *)
(* most K actions, then the (possibly shortened) wire is fed to the receiver and    *)
(* the transport is closed.                                                         *)
(*                                                                                  *)
(* Layer P (observable at Conn.Read): what the receiver hands to the application is *)
(* a prefix of what was sent, a record the adversary touched is never delivered,    *)
(* and the run ends in an error; if anything non-authentic reached the receiver     *)
(* the error is a real one (not a clean end of stream).                             *)
(* Layer M: the sequence-numbered MAC / AEAD mechanism of halfConn.decrypt under    *)
(* the standard assumption that a MAC over (seq, header, fragment) cannot be forged.*)
EXTENDS Integers, Sequences, FiniteSets

CONSTANTS N,          \* records sent (<= 4)
          K,          \* adversary actions (<= 2)
          Regions,    \* byte regions of a record a Flip can hit
          InjKinds,   \* kinds of forged records
          PadAuth,    \* every byte of a record is authenticated (FALSE: SSL 3.0 block ciphers)
          MaxPost     \* further Read calls the application makes after it got the error

\* SSL 3.0 block-cipher records end in padding whose content is arbitrary and not covered by the
\* MAC (the protocol weakness behind POODLE): an edit that only reaches the padding -- garbling the
\* last ciphertext block when it holds nothing but padding, or lengthening the record by one block --
\* is accepted by ANY conforming SSL 3.0 receiver whenever the new last byte happens to decrypt to
\* the right padding length (1 in 256).  The fragment handed to the application is then still the
\* sender's, authenticated by the MAC, so "only a prefix of what was sent" is unaffected; what the
\* protocol cannot promise for these suites is that such an edit is noticed.  TLS >= 1.0 fixes the
\* padding bytes, stream and AEAD suites have none: PadAuth = TRUE.
PadRegions == {"lenlo", "macstart", "pad", "last"}

\* regions whose flip the receiver notices before/without a MAC computation
HdrVersion == {"vmaj", "vmin"}
HdrLength  == {"lenhi", "lenlo"}
HdrOver    == {"lenover"}

\* a record on the wire
Rec(i) == [src |-> i, mod |-> "none", inj |-> "none", part |-> "full"]
Forged(k) == [src |-> 0, mod |-> "none", inj |-> k, part |-> "full"]
Original == [i \in 1..N |-> Rec(i)]

VARIABLES wire,       \* Seq of wire records after the adversary's edits
          nacts,      \* adversary actions used
          phase,      \* "adv" | "recv" | "done"
          pos,        \* receiver: next wire index                       (Layer M)
          seq,        \* receiver: records accepted = sequence number     (Layer M)
          skew,       \* receiver: record boundaries lost (a lengthened record was accepted) (Layer M)
          delivered,  \* Seq of wire records handed to the application    (observable)
          err,        \* "none" or the class of the error reported        (observable)
          atErr,      \* how much had been delivered when the error was reported (history)
          post        \* Read calls made after the error
vars == <<wire, nacts, phase, pos, seq, skew, delivered, err, atErr, post>>

Init == /\ wire = Original /\ nacts = 0 /\ phase = "adv"
        /\ pos = 1 /\ seq = 0 /\ skew = FALSE /\ delivered = <<>> /\ err = "none"
        /\ atErr = 0 /\ post = 0

\* ------------------------------------------------------------------ adversary
Whole(i) == wire[i].part = "full"
InsertAt(s, k, r) == SubSeq(s, 1, k) \o <<r>> \o SubSeq(s, k + 1, Len(s))   \* after position k
RemoveAt(s, k) == SubSeq(s, 1, k - 1) \o SubSeq(s, k + 1, Len(s))
\* an incomplete record can only be the end of the stream: truncation is the last edit
NoPartial == \A i \in 1..Len(wire) : Whole(i)
Act == phase = "adv" /\ nacts < K /\ nacts' = nacts + 1 /\ NoPartial
       /\ UNCHANGED <<phase, pos, seq, skew, delivered, err, atErr, post>>

Flip(i, g) == /\ Act /\ i \in 1..Len(wire) /\ wire[i].mod = "none" /\ wire[i].inj = "none"
              /\ wire' = [wire EXCEPT ![i].mod = g]
Drop(i) == Act /\ i \in 1..Len(wire) /\ wire' = RemoveAt(wire, i)
\* Dup(i, j): a copy of record i is inserted after position j >= i (j = i: duplicate, j > i: replay of an old record)
Dup(i, j) == Act /\ i \in 1..Len(wire) /\ j \in i..Len(wire) /\ Whole(i) /\ wire' = InsertAt(wire, j, wire[i])
Swap(i) == /\ Act /\ i \in 1..(Len(wire) - 1)
           /\ wire' = [wire EXCEPT ![i] = wire[i + 1], ![i + 1] = wire[i]]
\* Truncate(i, how): the stream ends before record i ("boundary"), inside its header or inside its body
\* (only a record of the sender: a shortened forged record is just another forged record)
Truncate(i, how) == /\ Act /\ i \in 1..Len(wire) /\ Whole(i) /\ wire[i].inj = "none"
                    /\ wire' = IF how = "boundary" THEN SubSeq(wire, 1, i - 1)
                               ELSE [SubSeq(wire, 1, i) EXCEPT ![i].part = how]
Inject(j, k) == Act /\ j \in 0..Len(wire) /\ wire' = InsertAt(wire, j, Forged(k))

Adversary == \/ \E i \in 1..(N + K), g \in Regions : Flip(i, g)
             \/ \E i \in 1..(N + K) : Drop(i) \/ Swap(i)
             \/ \E i \in 1..(N + K), j \in 1..(N + K) : Dup(i, j)
             \/ \E i \in 1..(N + K), how \in {"boundary", "header", "body"} : Truncate(i, how)
             \/ \E j \in 0..(N + K), k \in InjKinds : Inject(j, k)

Release == /\ phase = "adv" /\ phase' = "recv"
           /\ UNCHANGED <<wire, nacts, pos, seq, skew, delivered, err, atErr, post>>

\* ------------------------------------------------------------------ receiver, Layer M
\* halfConn.decrypt accepts a record iff it is complete, untouched, and it is the
\* (seq+1)-th record the sender produced under the current keys.
Authentic(r) == r.part = "full" /\ r.mod = "none" /\ r.inj = "none" /\ r.src = seq + 1 /\ ~skew
\* unauthenticated padding: the sender's next record, edited only where padding can be, MAY pass
MayPass(r) == /\ ~PadAuth /\ ~skew /\ r.part = "full" /\ r.inj = "none" /\ r.src = seq + 1
              /\ r.mod \in PadRegions

\* an incomplete header followed by the end of the stream is reported like a close between
\* records (readRecord keeps the transport's io.EOF there: documented leniency, see Layer P)
ErrOf(r) == IF r.part = "header" THEN "eof"
            ELSE IF r.mod \in HdrVersion THEN "version"      \* checked before the body is read
            ELSE IF r.mod \in HdrOver THEN "overflow"
            ELSE IF r.mod \in HdrLength THEN "lenerr"        \* bad MAC, or starved then unexpected EOF
            ELSE IF r.part = "body" THEN "ueof"
            ELSE "mac"

Accept(r) == /\ delivered' = Append(delivered, r) /\ seq' = seq + 1 /\ pos' = pos + 1
             /\ skew' = (skew \/ r.mod \in HdrLength)     \* a lengthened record swallowed its successor's head
             /\ UNCHANGED <<err, phase, atErr>>
Fail(e) == /\ err' = e /\ phase' = "done"                  \* first permanent error: nothing more is read
           /\ atErr' = Len(delivered)
           /\ UNCHANGED <<pos, seq, skew, delivered>>

Recv == /\ phase = "recv" /\ err = "none"
        /\ IF pos > Len(wire)
             THEN Fail(IF skew THEN "ueof" ELSE "eof")       \* transport closed (between records unless skewed)
             ELSE LET r == wire[pos] IN
                  IF Authentic(r) THEN Accept(r)
                  ELSE IF MayPass(r) THEN Accept(r) \/ Fail(ErrOf(r))
                  ELSE Fail(ErrOf(r))
        /\ UNCHANGED <<wire, nacts, post>>

\* The application calls Read again after it was given the error (a retrying reader, a bufio
\* refill): the error is permanent (halfConn.err is sticky), the call returns it and no data --
\* whatever the record layer still holds (the block of the record that failed) stays there.
ReadAgain == /\ phase = "done" /\ post < MaxPost /\ post' = post + 1
             /\ UNCHANGED <<wire, nacts, phase, pos, seq, skew, delivered, err, atErr>>

Next == Adversary \/ Release \/ Recv \/ ReadAgain
Spec == Init /\ [][Next]_vars

\* ------------------------------------------------------------------ Layer P
Intact(i) == i <= Len(wire) /\ wire[i] = Rec(i)
\* number of leading wire records that are exactly what the sender sent, in order
CleanPrefix == IF \A i \in 1..Len(wire) : Intact(i) THEN Len(wire)
               ELSE (CHOOSE k \in 0..Len(wire) : (\A i \in 1..k : Intact(i)) /\ ~Intact(k + 1))
\* something the sender did not send at that place reached the receiver.  Loss of the tail of
\* the stream -- whole records, or all but < 5 header bytes of one -- cannot be told from a peer
\* that closes without close_notify, which bfe_tls (like the crypto/tls it derives from)
\* deliberately accepts as a plain end of stream: named leniency, excluded from `Detected`.
Tampered == CleanPrefix < Len(wire) /\ wire[CleanPrefix + 1].part # "header"

\* the application receives only a prefix of what was sent, unmodified, in order, once.
\* (With unauthenticated padding the fragment of a record edited in PadRegions is still the sender's.)
SameFragment(r, i) == /\ r.src = i /\ r.inj = "none" /\ r.part = "full"
                      /\ (r.mod = "none" \/ (~PadAuth /\ r.mod \in PadRegions))
PrefixOK == \A i \in 1..Len(delivered) : SameFragment(delivered[i], i)
\* nothing at or behind the first non-authentic record is delivered (needs authenticated padding)
StopsAtTamper == (PadAuth /\ phase # "adv") => Len(delivered) <= CleanPrefix
\* the run ends with an error; tampering that reached the receiver is a real error
\* (with unauthenticated padding an edit confined to padding may pass unnoticed: see PadAuth)
Detected == phase = "done" => /\ err # "none"
                              /\ (PadAuth /\ Tampered) => err # "eof"
\* ... and nothing more, ever: after the error no later Read hands out anything and the error stays
NothingAfterError == phase = "done" => (Len(delivered) = atErr /\ err # "none")
\* Layer M only (diagnostic): everything in front of the first bad record is delivered
DeliversCleanPrefix == (PadAuth /\ phase = "done") => Len(delivered) = CleanPrefix

TypeOK == /\ nacts \in 0..K /\ seq \in 0..N /\ Len(wire) <= N + K
          /\ phase \in {"adv", "recv", "done"}
=======================================================================
