------------------------------- MODULE Ticket -------------------------------
(* C44 - session resumption cannot be forged or used to bypass policy.               *)
(*                                                                                   *)
(* A server lives through epochs e = [key, tickets, cache, max, suites, auth, rule,  *)
(* ca]:                                                                              *)
(*   key      number of the session-ticket key in use                                 *)
(*   tickets  RFC 5077 tickets enabled                                                *)
(*   cache    0 = session-id cache disabled, n = cache generation n (a new generation *)
(*            is an empty cache; going back to n finds its old entries again)         *)
(*   max      Config.MaxVersion (0 = default), suites = Config.CipherSuites (server   *)
(*            preference), auth in {"none","request","require"} = Config.ClientAuth,  *)
(*            the GLOBAL client-certificate policy                                    *)
(*   rule     Config.ServerRule: the per-connection bfe_tls.Rule for SNI rule.sni     *)
(*            ([on, sni, grade, np, clientauth, chacha], as in Negotiate.tla).  What   *)
(*            governs one connection is the EFFECTIVE policy: rule.clientauth raises   *)
(*            the client-certificate policy to "require" for that connection only,     *)
(*            rule.grade narrows its versions, rule.chacha enables suite CH for it.    *)
(*            A rule reload is an epoch change; a connection to the other SNI / VIP    *)
(*            (same ticket key, same cache) is a connection with c.sni # rule.sni.     *)
(*   ca       the client CA in force (1 = CA "A", 2 = CA "B"): Config.ClientCAs and   *)
(*            the rule's ClientCAs                                                    *)
(* c.cert is the CLASS of certificate the client presents when asked: "none", "A" /   *)
(* "B" (leaf issued by that CA: valid under the current CA or under a former one),    *)
(* "fake" (self-made, names the current CA as issuer, signed by an unrelated key).    *)
(* A declined offer must lead to an ORDINARY full handshake: every check a fresh      *)
(* handshake performs (certificate requested, present, chain verified against the     *)
(* CURRENT CA) is due again; a session whose stored certificate no longer verifies    *)
(* must not be resumed.                                                               *)
(* One client makes connections c = [kind, max, suites, cert, noticket, sni]; after a *)
(* handshake it keeps what the server handed out (saved):                             *)
(*   [kind "ticket"|"sid", key (issuing ticket key | cache generation), vers, suite,  *)
(*    cert (class of the client certificate the session carries, "none" if none),     *)
(*    from (step of issue)]                                                           *)
(* and may offer it later, unmodified or tampered with.                               *)
(*                                                                                   *)
(* Layer P  MayResume: the conditions under which the property allows the server to   *)
(*          honour the offer; otherwise the connection must be an ordinary full       *)
(*          handshake whose outcome is that of Negotiate.tla (plus the client-auth    *)
(*          requirement) - never a failure caused by the offered ticket / id.         *)
(*          Resumption is never obligatory (a server may always decline).             *)
(* Layer M  bfe_tls checkForResumption as repaired: resumes iff MayResume and not     *)
(*          (session has a client certificate and policy is "none").                  *)
EXTENDS Negotiate

NoSess == [kind |-> "none", key |-> 0, vers |-> 0, suite |-> "", cert |-> "none", from |-> 0]
CertClasses == {"none", "A", "B", "fake"}
CAName(n) == IF n = 2 THEN "B" ELSE "A"
\* verifies against the CA in force
Trusted(x, e) == x = CAName(e.ca)
HasCert(s) == s.cert # "none"

TicketTampers == {"flip-iv0", "flip-iv15", "flip-vers", "flip-suite", "flip-mslen", "flip-ms0", "flip-msN",
                  "flip-ncert", "flip-ctN", "flip-mac0", "flip-macN", "trunc-1", "trunc-mac", "trunc-47",
                  "extend-1", "garbage", "foreign"}
SidTampers == {"flip-id0", "flip-idN", "trunc-id", "cache-trunc", "cache-evict"}
TampersFor(k) == IF k = "ticket" THEN TicketTampers ELSE IF k = "sid" THEN SidTampers ELSE {}
KillsEntry(t) == t \in {"cache-trunc", "cache-evict"}
\* a tamper kind that does not apply to the kind of session held leaves the offer untouched
Eff(saved, t) == IF t \in TampersFor(saved.kind) THEN t ELSE "none"

\* the hello / configuration of this connection in terms of Negotiate.tla
NegCl(c) == [kind |-> c.kind, min |-> 10, max |-> c.max, suites |-> c.suites, scsv |-> FALSE, ecc |-> "ok",
             alpn |-> <<>>, sni |-> c.sni]
NegSv(e) == [min |-> 0, max |-> e.max, suites |-> e.suites, prefer |-> TRUE, np |-> <<>>, rule |-> e.rule, cert |-> "rsa"]
\* the rule that applies to this connection / the client-certificate policy in force on it
RuleFor(c, e) == e.rule.on /\ e.rule.sni = c.sni
EffAuth(c, e) == IF RuleFor(c, e) /\ e.rule.clientauth THEN "require" ELSE e.auth
\* suites the server enables for this connection (its list, CH only under a chacha rule)
EnabledSuites(c, e) == {x \in Range(e.suites) : x = "CH" => (RuleFor(c, e) /\ e.rule.chacha)}

\* ------------------------------------------------------------------ what the client puts in its hello
\* crypto/tls offers a ticket only if the session's version / suite are still among what it offers
Sent(c, saved, offer) == /\ offer = "saved" /\ saved.kind # "none"
                         /\ c.kind = "go" => (saved.kind = "ticket" /\ saved.vers <= c.max /\ saved.suite \in Range(c.suites))
OfferedKind(c, saved, offer) == IF Sent(c, saved, offer) THEN saved.kind ELSE "none"
\* session_ticket extension present in the hello
TicketExt(c, ok) == c.kind = "go" \/ ok = "ticket" \/ (ok # "sid" /\ ~c.noticket)

\* certificate the client actually sends when asked: bfe_tls's own client code (raw) only sends a
\* certificate whose issuer name is in the CertificateRequest, crypto/tls sends what it is given
Presented(c, e) == IF c.kind = "raw" /\ c.cert \notin {CAName(e.ca), "fake"} THEN "none" ELSE c.cert

\* ------------------------------------------------------------------ full handshake (Layer P and M)
\* (a = Allowed(NegCl(c), NegSv(e)) and m = Mech(NegCl(c), NegSv(e)) are passed in: evaluated once per step)
FullPa(a, c, e) ==
  IF a.refuse # "must" /\ EffAuth(c, e) = "require" /\ ~Trusted(Presented(c, e), e)
  THEN [refuse |-> "must", why |-> "clientcert", vers |-> 0, suites |-> {}, alpn |-> {}]
  ELSE a
FullMm(m, c, e) ==
  IF m.done /\ EffAuth(c, e) = "require" /\ ~Trusted(Presented(c, e), e) THEN Refuse("bad_certificate", "server") ELSE m
FullP(c, e) == FullPa(Allowed(NegCl(c), NegSv(e)), c, e)
FullM(c, e) == FullMm(Mech(NegCl(c), NegSv(e)), c, e)
\* the certificate a completed full handshake leaves with the session ("request" does not verify it)
CertGiven(c, e) == IF EffAuth(c, e) = "none" THEN "none" ELSE Presented(c, e)

\* ------------------------------------------------------------------ Layer P: when may an offer be honoured
WhyNotA(a, c, e, saved, offer, tamper) ==
  IF ~Sent(c, saved, offer) THEN "nothing-offered"
  ELSE IF Eff(saved, tamper) # "none" THEN "tampered"
  ELSE IF saved.kind = "ticket" /\ ~e.tickets THEN "tickets-disabled"
  ELSE IF saved.kind = "ticket" /\ saved.key # e.key THEN "old-key"
  ELSE IF saved.kind = "sid" /\ e.cache = 0 THEN "cache-disabled"
  ELSE IF saved.kind = "sid" /\ saved.key # e.cache THEN "other-cache"
  ELSE IF a.refuse = "must" \/ a.vers # saved.vers THEN "version"
  ELSE IF saved.suite \notin Range(c.suites) THEN "suite-not-offered"
  ELSE IF saved.suite \notin EnabledSuites(c, e) THEN "suite-not-enabled"
  ELSE IF EffAuth(c, e) = "require" /\ ~HasCert(saved) THEN "clientauth"
  ELSE IF EffAuth(c, e) = "require" /\ ~Trusted(saved.cert, e) THEN "client-cert-untrusted"
  ELSE ""
WhyNot(c, e, saved, offer, tamper) == WhyNotA(Allowed(NegCl(c), NegSv(e)), c, e, saved, offer, tamper)
MayResume(c, e, saved, offer, tamper) == WhyNot(c, e, saved, offer, tamper) = ""

\* ------------------------------------------------------------------ Layer M
\* checkForResumption additionally declines when the session has a client certificate and policy is "none"
MechDeclines(c, e, saved) == HasCert(saved) /\ EffAuth(c, e) = "none"
\* bfe (like crypto/tls) decides to resume and then re-verifies the stored chain: a session whose
\* certificate no longer verifies aborts the connection (bad_certificate).  Layer P allows both that and
\* an ordinary full handshake - never a completed resumption.
MechAborts(why) == why = "client-cert-untrusted"
MechResume(c, e, saved, offer, tamper) == MayResume(c, e, saved, offer, tamper) /\ ~MechDeclines(c, e, saved)

\* session the client holds after the connection (res = resumed, fm = full-handshake outcome)
SavedAfterR(res, fm, c, e, saved, offer, tamper, n) ==
  LET ok == OfferedKind(c, saved, offer)
      base == IF ok = "sid" /\ KillsEntry(Eff(saved, tamper)) THEN NoSess ELSE saved
  IN IF res \/ ~fm.done THEN base
     ELSE IF TicketExt(c, ok) /\ e.tickets
          THEN [kind |-> "ticket", key |-> e.key, vers |-> fm.vers, suite |-> fm.suite, cert |-> CertGiven(c, e), from |-> n]
     ELSE IF e.cache # 0 /\ c.kind = "raw"
          THEN [kind |-> "sid", key |-> e.cache, vers |-> fm.vers, suite |-> fm.suite, cert |-> CertGiven(c, e), from |-> n]
     ELSE base

\* what one connection step yields: expectation records (printed by TicketGen) and the next saved session
ConnOut(c, e, saved, offer, tamper, n) ==
  LET a == Allowed(NegCl(c), NegSv(e))
      fp == FullPa(a, c, e)
      why == WhyNotA(a, c, e, saved, offer, tamper)
      fm == IF MechAborts(why) THEN Refuse("bad_certificate", "server") ELSE FullMm(Mech(NegCl(c), NegSv(e)), c, e)
      res == why = "" /\ ~MechDeclines(c, e, saved)
  IN [expP |-> [resume |-> IF why = "" THEN "may" ELSE "no",
                whynot |-> why,
                mayabort |-> MechAborts(why),
                sess |-> saved,
                sent |-> Sent(c, saved, offer),
                full |-> fp,
                needcert |-> EffAuth(c, e) = "require"],
      expM |-> [resume |-> res,
                done |-> res \/ fm.done,
                vers |-> IF res THEN saved.vers ELSE fm.vers,
                suite |-> IF res THEN saved.suite ELSE fm.suite,
                peer |-> IF res THEN HasCert(saved) ELSE (fm.done /\ CertGiven(c, e) # "none"),
                alert |-> IF res THEN "" ELSE fm.alert,
                saved |-> SavedAfterR(res, fm, c, e, saved, offer, tamper, n)]]

\* ------------------------------------------------------------------ obligations (checked by TicketMC on every step)
StepOK(c, e, saved, offer, tamper) ==
  LET o == ConnOut(c, e, saved, offer, tamper, 0) IN
  \* never forged, never from another key / cache, never when disabled
  /\ o.expM.resume => /\ o.expP.resume = "may"
                      /\ Eff(saved, tamper) = "none"
                      /\ saved.kind = "ticket" => (e.tickets /\ saved.key = e.key)
                      /\ saved.kind = "sid" => (e.cache # 0 /\ saved.key = e.cache)
  \* keeps version and suite, which both sides still accept
                      /\ o.expM.vers = saved.vers /\ o.expM.suite = saved.suite
                      /\ saved.suite \in Range(c.suites) /\ saved.suite \in EnabledSuites(c, e)
                      /\ saved.vers \in MutualVers(NegCl(c), NegSv(e))
                      /\ \A v \in MutualVers(NegCl(c), NegSv(e)) : v <= saved.vers
  \* never skips a client-certificate requirement
                      /\ (EffAuth(c, e) = "require" => (Trusted(saved.cert, e) /\ o.expM.peer))
                      /\ (RuleFor(c, e) /\ e.rule.clientauth => Trusted(saved.cert, e))
  \* declined offers end in the ordinary full handshake
  /\ ~o.expM.resume => /\ (o.expM.done => o.expP.full.refuse # "must")
                       /\ (~o.expM.done => (o.expP.full.refuse # "no" \/ o.expP.mayabort))
                       /\ (o.expM.done /\ EffAuth(c, e) = "require" => Trusted(Presented(c, e), e))
                       /\ (o.expM.done => o.expM.vers = o.expP.full.vers /\ o.expM.suite \in o.expP.full.suites)
                       /\ (o.expM.done /\ EffAuth(c, e) = "require" => o.expM.peer)
=============================================================================
