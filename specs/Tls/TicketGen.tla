------------------------------ MODULE TicketGen ------------------------------
(* Behaviour generator for C44: TicketMC plus a history variable.  Every history of  *)
(* full length is printed once as a JSON case: the steps with their inputs, the      *)
(* Layer-P expectation (decisive) and the Layer-M expectation (diagnostic).          *)
(* Preset "file": the inputs of each history come from histories.ndjson (seeded      *)
(* sampling by the family driver); TLC computes the expectations along them.         *)
EXTENDS TicketMC, Json

VARIABLES h, fin, src
gvars == <<tvars, h, fin, src>>

FromFile == Preset = "file"
Hist == IF FromFile THEN ndJsonDeserialize("histories.ndjson") ELSE <<>>

StepRec(in) ==
  IF in.op = "epoch" THEN [op |-> "epoch", sv |-> in.sv]
  ELSE LET o == ConnOut(in.cl, e, saved, in.offer, in.tamper, n + 1) IN
       [op |-> "conn", cl |-> in.cl, offer |-> in.offer, tamper |-> in.tamper, expP |-> o.expP, expM |-> o.expM]

\* a file history starts with the initial epoch (its steps[1]); n counts the steps after it
GInit == /\ saved = NoSess /\ n = 0 /\ last = NoLast /\ fin = FALSE
         /\ IF FromFile THEN src \in 1..Len(Hist) /\ e = Hist[src].steps[1].sv
            ELSE src = 0 /\ e \in Init0
         /\ h = <<[op |-> "epoch", sv |-> e]>>

Avail == IF FromFile THEN (IF n + 1 < Len(Hist[src].steps) THEN {Hist[src].steps[n + 2]} ELSE {})
         ELSE (IF n < MaxSteps THEN Inputs ELSE {})

GStep == /\ ~fin
         /\ \E in \in Avail : Apply(in) /\ h' = Append(h, StepRec(in))
         /\ UNCHANGED <<fin, src>>
\* dedicated final step once the history cannot be extended
Fin == /\ ~fin /\ Avail = {} /\ fin' = TRUE /\ UNCHANGED <<tvars, h, src>>
GNext == GStep \/ Fin

Emit == fin => PrintT(ToJson([hid |-> IF FromFile THEN Hist[src].hid ELSE 0, steps |-> h]))
=============================================================================
