--------------------------- MODULE Padding ---------------------------
(* C43  CBC padding removal accepts exactly valid padding.                          *)
(*                                                                                  *)
(* A decrypted CBC payload is abstracted to (len, p, bad):                          *)
(*   len  length of the payload in bytes (0..MaxLen)                                *)
(*   p    value of its last byte (the padding-length byte); 0 when len = 0          *)
(*   bad  set of positions 1..len-1 (1-based from the start of the payload) whose   *)
(*        byte differs from p                                                       *)
(* The property only speaks about "the final p+1 bytes all equal p", so this is a   *)
(* complete description of a payload as far as the property is concerned; which     *)
(* concrete value a differing byte has is chosen by the harness (value class vc).   *)
EXTENDS Integers, FiniteSets

\* ------------------------------------------------------------------ Layer P
\* positions of the p padding bytes in front of the padding-length byte
Window(len, p) == (len - p)..(len - 1)

\* the statement, verbatim: p+1 <= length and the final p+1 bytes all equal p
Valid(len, p, bad) == /\ len >= 1
                      /\ p + 1 <= len
                      /\ Window(len, p) \cap bad = {}

\* (rm, good) is an acceptable answer of the TLS padding remover for the payload:
\* accepted exactly when valid, exactly p+1 bytes removed when valid; when the payload
\* is reported bad the statement leaves the number of removed bytes open (it must
\* merely stay inside the payload).
ResultOK(len, p, bad, rm, good) ==
    /\ good <=> Valid(len, p, bad)
    /\ Valid(len, p, bad) => rm = p + 1
    /\ rm \in 0..len

\* SSL 3.0 (draft-ietf-tls-ssl-version3, 5.2.3.2): the padding bytes are arbitrary, only
\* the padding-length byte is defined -- the weaker rule the SSLv3 variant is held to.
ValidSSL30(len, p) == len >= 1 /\ p + 1 <= len
ResultOKSSL30(len, p, rm, good) ==
    /\ good <=> ValidSSL30(len, p)
    /\ ValidSSL30(len, p) => rm = p + 1
    /\ rm \in 0..len

\* why an answer is wrong (canonical, used for signatures)
Why(len, p, bad, rm, good) ==
    IF good /\ ~Valid(len, p, bad) THEN "accept-invalid"
    ELSE IF ~good /\ Valid(len, p, bad) THEN "reject-valid"
    ELSE IF Valid(len, p, bad) /\ rm # p + 1 THEN "wrong-remove"
    ELSE IF rm \notin 0..len THEN "remove-range" ELSE "ok"
WhySSL30(len, p, rm, good) ==
    IF good /\ ~ValidSSL30(len, p) THEN "accept-invalid"
    ELSE IF ~good /\ ValidSSL30(len, p) THEN "reject-valid"
    ELSE IF ValidSSL30(len, p) /\ rm # p + 1 THEN "wrong-remove"
    ELSE IF rm \notin 0..len THEN "remove-range" ELSE "ok"

\* ------------------------------------------------------------------ Layer M
\* bfe_tls/conn.go:removePadding as it is after the fix: commits of branch verif-tlsrec:
\*   good    := MSB-mask(len-1-p)                       (p <= len-1)
\*   toCheck := min(256, len); for i in 0..toCheck-1: if i <= p then byte[len-i] must be p
\*   toRemove := int(good & p) + 1
Min(a, b) == IF a < b THEN a ELSE b
MToCheck(len) == Min(256, len)
MGood(len, p, bad) == /\ len >= 1
                      /\ p <= len - 1
                      /\ \A i \in 1..(MToCheck(len) - 1) : i <= p => (len - i) \notin bad
MRemove(len, p, bad) == IF len = 0 THEN 0 ELSE IF MGood(len, p, bad) THEN p + 1 ELSE 1

\* removePaddingSSL30
MGoodSSL30(len, p) == len >= 1 /\ p + 1 <= len
MRemoveSSL30(len, p) == IF MGoodSSL30(len, p) THEN p + 1 ELSE 0

\* ------------------------------------------------------------------ input space
CONSTANTS MaxSmall,     \* complete space: every len <= MaxSmall, every p, every bad set
          BigLens       \* structured space: these lengths (up to 300)

\* complete small space
SmallP(len) == IF len = 0 THEN {0} ELSE (0..(len + 1)) \cup {254, 255}
SmallSpace == UNION { { <<l, q, b>> : q \in SmallP(l), b \in SUBSET (1..(l - 1)) } : l \in 0..MaxSmall }

\* structured space: boundary values of p, one corrupted byte at the first / middle /
\* last padding byte, just outside the window, and at the very first payload byte
StructP(len) == {q \in {0, 1, len - 2, len - 1, len, 254, 255} : q >= 0 /\ q <= 255}
Clamp(len, S) == {x \in S : x >= 1 /\ x <= len - 1}
StructBad(len, p) ==
    LET lo == IF len - p >= 1 THEN len - p ELSE 1      \* first padding byte inside the payload
        hi == len - 1
    IN  {{}} \cup { Clamp(len, {x}) : x \in {lo, (lo + hi) \div 2, hi, lo - 1, 1} }
StructSpace == UNION { UNION { { <<l, q, b>> : b \in StructBad(l, q) } : q \in StructP(l) } : l \in BigLens }

Space == SmallSpace \cup StructSpace

\* ------------------------------------------------------------------ transition system
VARIABLES inp,     \* <<len, p, bad>>
          done,    \* the remover has run
          res      \* [rm, good, rm30, good30]
vars == <<inp, done, res>>

NoRes == [rm |-> 0, good |-> FALSE, rm30 |-> 0, good30 |-> FALSE]
Init == inp \in Space /\ done = FALSE /\ res = NoRes

\* the one action: the padding remover runs on the payload
Remove == /\ ~done /\ done' = TRUE
          /\ LET len == inp[1]  p == inp[2]  bad == inp[3] IN
               res' = [rm |-> MRemove(len, p, bad), good |-> MGood(len, p, bad),
                       rm30 |-> MRemoveSSL30(len, p), good30 |-> MGoodSSL30(len, p)]
          /\ UNCHANGED inp
Next == Remove
Spec == Init /\ [][Next]_vars

\* the mechanism satisfies the property on the whole space
MechOK == done =>
            /\ ResultOK(inp[1], inp[2], inp[3], res.rm, res.good)
            /\ ResultOKSSL30(inp[1], inp[2], res.rm30, res.good30)
TypeOK == inp[1] \in Nat /\ inp[2] \in 0..255
=======================================================================
