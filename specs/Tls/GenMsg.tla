--------------------------- MODULE GenMsg ---------------------------
(* Shape generator for C45: one line per (type, presence vector) with the node list in wire *)
(* order and every operation of Msg!Ops on that shape together with its verdict.            *)
EXTENDS Msg, Json, TLC

RtOp == [k |-> "rt", node |-> "", w |-> "", framed |-> TRUE]
GInit == /\ t \in Types /\ pres \in PresenceSets(t) /\ nodes = Nodes(t, pres) /\ op = RtOp
         /\ done = FALSE /\ verdict = "none"
GNext == Parse

Shape == [t |-> t, pres |-> pres, nodes |-> nodes,
          ops |-> { [k |-> o.k, node |-> o.node, w |-> o.w, framed |-> o.framed, expect |-> Expect(nodes, o)]
                    : o \in {x \in Ops(nodes) : OpOK(nodes, x)} }]
Emit == done => PrintT(ToJson(Shape))
\* the sanity invariants of Msg, for every operation of the shape at once
VerdictAll == \A o \in {x \in Ops(nodes) : OpOK(nodes, x)} :
                LET v == Expect(nodes, o) IN
                  /\ v \in {"accept", "reject", "any"}
                  /\ (o.k \in {"rt", "size"} <=> v = "accept")
                  /\ (o.k = "cut" /\ ~o.framed => v = "any")
=====================================================================
