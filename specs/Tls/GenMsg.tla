--------------------------- MODULE GenMsg ---------------------------
(* Shape generator for C45: one line per (type, presence vector) with the node list in wire *)
(* order and every operation of Msg!Ops on that shape together with its verdict.            *)
EXTENDS Msg, Json, TLC

RtOp == [k |-> "rt", node |-> "", w |-> "", framed |-> TRUE]
GInit == /\ t \in Types /\ pres \in PresenceSets(t) /\ op = RtOp
         /\ done = FALSE /\ verdict = "none"
GNext == Parse

Shape == [t |-> t, pres |-> pres, nodes |-> Nodes(t, pres),
          ops |-> { [k |-> o.k, node |-> o.node, w |-> o.w, framed |-> o.framed, expect |-> Expect(t, pres, o)]
                    : o \in {x \in Ops(t, pres) : OpOK(t, pres, x)} }]
Emit == done => PrintT(ToJson(Shape))
=====================================================================
