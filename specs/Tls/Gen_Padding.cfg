CONSTANTS
  MaxSmall = @SMALL@
  BigLens = {@BIG@}
  ValueClasses = {@VC@}
INIT GInit
NEXT GNext
INVARIANTS Emit
CHECK_DEADLOCK FALSE
