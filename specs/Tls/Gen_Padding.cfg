CONSTANTS
  MaxSmall = @SMALL@
  BigLens = {@BIG@}
  ValueClasses = {@VC@}
INIT GInit
NEXT GNext
INVARIANTS Emit MechOK
CHECK_DEADLOCK FALSE
