--------------------------- MODULE PaddingRec ---------------------------
(* C43 through the record layer.  Padding.tla judges the padding remover on its own;  *)
(* which remover a record meets is decided by halfConn.decrypt from the protocol      *)
(* version, so "accepted exactly when the final p+1 bytes all equal p" must also hold  *)
(* for a whole CBC record of every version: a record whose MAC is correct (forged by a *)
(* sender that holds the keys but pads as it likes) is delivered iff its padding is    *)
(* valid for that version -- TLS 1.0, 1.1, 1.2: Padding!Valid; SSL 3.0: only the length *)
(* byte is defined (Padding!ValidSSL30).                                               *)
EXTENDS Padding

CONSTANTS Versions,    \* subset of {"ssl30", "tls10", "tls11", "tls12"}
          RecP,        \* padding lengths p explored (0..255)
          Pre          \* bytes in front of the padding (fragment + MAC); any value >= 1

BadClasses == {"none", "first", "middle", "last", "all"}
\* decrypted payload = Pre bytes | p padding bytes | padding-length byte
RLen(q) == Pre + q + 1
RBad(q, bk) == LET lo == Pre + 1  hi == Pre + q IN
                 CASE bk = "none"   -> {}
                   [] bk = "first"  -> {lo}
                   [] bk = "middle" -> {(lo + hi) \div 2}
                   [] bk = "last"   -> {hi}
                   [] bk = "all"    -> lo..hi
RecSpace == {<<v, q, bk>> \in Versions \X RecP \X BadClasses : bk = "none" \/ q >= 1}

\* Layer P: the record (MAC correct) is delivered, fragment intact, iff the padding is valid
MustAccept(v, q, bk) == IF v = "ssl30" THEN ValidSSL30(RLen(q), q)
                        ELSE Valid(RLen(q), q, RBad(q, bk))

\* SSL 3.0 limits the padding to less than one block (8 or 16 bytes); a receiver may or may not
\* enforce that, so longer SSL 3.0 paddings are gray (run for panics only, no verdict)
RGray(v, q) == v = "ssl30" /\ q >= 8

\* Layer M: decrypt picks the remover by version -- removePaddingSSL30 for SSL 3.0 only --
\* and accepts iff the remover said good (the MAC then matches because exactly p+1 bytes went)
MAccepts(v, q, bk) == IF v = "ssl30" THEN MGoodSSL30(RLen(q), q)
                      ELSE MGood(RLen(q), q, RBad(q, bk))
MStrips(v, q, bk) == IF v = "ssl30" THEN MRemoveSSL30(RLen(q), q)
                     ELSE MRemove(RLen(q), q, RBad(q, bk))

VARIABLES rin, rdone, racc
rvars == <<rin, rdone, racc>>
RInit == rin \in RecSpace /\ rdone = FALSE /\ racc = FALSE
          /\ inp = <<0, 0, {}>> /\ done = FALSE /\ res = NoRes
Decrypt == /\ ~rdone /\ rdone' = TRUE /\ racc' = MAccepts(rin[1], rin[2], rin[3])
           /\ UNCHANGED <<rin, vars>>
RNext == Decrypt

RecMechOK == rdone => /\ racc <=> MustAccept(rin[1], rin[2], rin[3])
                      /\ racc => MStrips(rin[1], rin[2], rin[3]) = rin[2] + 1
=========================================================================
