------------------------------ MODULE TicketMC ------------------------------
(* State machine over Ticket.tla: server epochs and client connections, histories   *)
(* of at most MaxSteps steps after the initial epoch.  TLC checks StepOK (Layer M    *)
(* inside Layer P) on every connection step of every history of the preset's domain. *)
(*                                                                                   *)
(* Presets (CONSTANT Preset):                                                        *)
(*   "mc"      any epoch change / any connection at every step (exhaustive check)    *)
(*   "tamper"  conn (fresh) ; conn offering the saved session with every tamper kind *)
(*   "config"  conn (fresh) ; one configuration change ; conn offering the session   *)
(*   "policy"  conn (fresh, SNI a|b) ; change of the global client-auth policy, of    *)
(*             the per-SNI rule (reload), of the client CA, or none ; conn offering   *)
(*             the session on SNI a|b (other VIP/SNI sharing key and cache) with the  *)
(*             same certificate, the other CA's, or a forgery                         *)
(*   "rotate"  conn (fresh) ; reload of the ticket key file (same name / other name /  *)
(*             identical file) ; conn offering the ticket ; reload back ; offer again *)
(*   "file"    steps are read from histories.ndjson (seeded sampling, TicketGen)     *)
EXTENDS Ticket

CONSTANTS Preset, Tier, MaxSteps

VARIABLES e,       \* current server epoch
          saved,   \* session the client holds
          n,       \* steps taken
          last     \* what the last step was and yielded
tvars == <<e, saved, n, last>>

Thorough == Tier = "thorough"

\* ------------------------------------------------------------------ domains
\* ticket keys = key files (16-byte name + 32 bytes of key material): 1 and 2 carry the SAME name and
\* different material (a rotation that keeps the name), 3 has another name.  What identifies "the
\* current key" in Layer P is the material.  The binding performs every key change through the server's
\* reload entry point bfe_server.HttpsListener.UpdateSessionTicketKey.
Keys == {1, 2} \cup (IF Thorough THEN {3} ELSE {})
KeyName(k) == IF k = 3 THEN 2 ELSE 1
AllKeys == {1, 2, 3}
CacheGens == {0, 1, 2}
SvMaxes == {0, 11} \cup (IF Thorough THEN {10} ELSE {})
SvSuites == {<<"EG", "EC">>, <<"EC">>, <<"CH", "EG", "EC">>} \cup (IF Thorough THEN {<<"EG">>, <<"RC", "EC">>} ELSE {})
Auths == {"none", "request", "require"}
\* per-SNI rules (Config.ServerRule): none, or a rule for SNI "a" raising exactly one setting / all
TRule(g, ca, ch) == [on |-> TRUE, sni |-> "a", grade |-> g, np |-> <<>>, clientauth |-> ca, chacha |-> ch]
Rules == {NoRule, TRule("C", TRUE, FALSE), TRule("C", FALSE, TRUE), TRule("A+", FALSE, FALSE)} \cup
         (IF Thorough THEN {TRule("A+", TRUE, TRUE)} ELSE {})
CAs == {1, 2}
Epochs == [key : Keys, tickets : BOOLEAN, cache : CacheGens, max : SvMaxes, suites : SvSuites, auth : Auths, rule : Rules, ca : CAs]

ClMaxes == {11, 12}      \* (TLS 1.0 sessions: through the server's maximum, SvMaxes, in the thorough tier)
GoSuites == {<<"EG", "EC", "RC">>, <<"EC", "RC">>, <<"EG", "CH", "EC">>} \cup      \* (server preference decides)
            (IF Thorough THEN {<<"RC">>} ELSE {})
RawSuites == GoSuites \cup {<<"RC", "EC", "EG">>}
\* exhaustive check, quick: CA "B" certificates only matter through "trusted or not" - A / fake / none suffice
McCerts == IF Thorough THEN CertClasses ELSE {"none", "A", "fake"}
Snis == {"a", "b"}
Clients == [kind : {"go"}, max : ClMaxes, suites : GoSuites, cert : McCerts, noticket : {FALSE}, sni : Snis] \cup
           [kind : {"raw"}, max : ClMaxes, suites : RawSuites, cert : McCerts, noticket : BOOLEAN, sni : Snis]

Epoch0 == [key |-> 1, tickets |-> TRUE, cache |-> 1, max |-> 0, suites |-> <<"EG", "EC">>, auth |-> "none", rule |-> NoRule, ca |-> 1]
\* epochs that differ from x in exactly one dimension
OneChange(x) == {y \in Epochs : Cardinality({d \in {"key", "tickets", "cache", "max", "suites", "auth", "rule", "ca"} : x[d] # y[d]}) = 1}

StdGo == [kind |-> "go", max |-> 12, suites |-> <<"EG", "EC", "RC">>, cert |-> "A", noticket |-> FALSE, sni |-> "a"]
AuthRule == TRule("C", TRUE, FALSE)
\* the two ways of requiring a client certificate: globally, or by the rule of the connection's SNI
RequireGlobal == [Epoch0 EXCEPT !.auth = "require"]
RequireByRule == [Epoch0 EXCEPT !.rule = AuthRule]
PolicyDims(x) == {y \in Epochs : /\ \A d \in {"key", "tickets", "cache", "max", "suites"} : x[d] = y[d]
                                  /\ Cardinality({f \in {"auth", "rule", "ca"} : x[f] # y[f]}) <= 1}
StdRawT == [StdGo EXCEPT !.kind = "raw"]
StdRawS == [StdGo EXCEPT !.kind = "raw", !.noticket = TRUE]

\* initial epochs per preset
Init0 == CASE Preset = "mc" -> {Epoch0, RequireGlobal, RequireByRule}
           [] Preset = "tamper" -> {[x EXCEPT !.max = m] : x \in {Epoch0, RequireGlobal, RequireByRule}, m \in {0, 11}}
           [] Preset = "rotate" -> {[Epoch0 EXCEPT !.key = k] : k \in AllKeys}
           [] Preset = "policy" -> {[Epoch0 EXCEPT !.auth = a, !.rule = r, !.suites = <<"CH", "EG", "EC">>] :
                                       a \in (IF Thorough THEN Auths ELSE {"none", "require"}), r \in {NoRule, AuthRule, TRule("C", FALSE, TRUE), TRule("A+", FALSE, FALSE)}}
           [] Preset = "config" -> {[Epoch0 EXCEPT !.auth = a, !.max = m] : a \in Auths, m \in {0, 11}}
           [] OTHER -> {Epoch0}

ConnIn(c, offer, tamper) == [op |-> "conn", cl |-> c, offer |-> offer, tamper |-> tamper]
EpochIn(x) == [op |-> "epoch", sv |-> x]

\* all tamper kinds act alike in the model (Eff # "none"): the quick exhaustive check uses two
\* representatives per session kind, the thorough one four / three; the "tamper" generator preset all of them
McTampers(k) == TampersFor(k) \cap (IF Thorough
                                     THEN {"flip-ms0", "flip-mac0", "trunc-1", "foreign", "flip-id0", "cache-trunc", "cache-evict"}
                                     ELSE {"flip-ms0", "foreign", "flip-id0", "cache-evict"})
OfferChoices == {<<"none", "none">>} \cup
                   (IF saved.kind = "none" THEN {}
                    ELSE {<<"saved", t>> : t \in {"none"} \cup McTampers(saved.kind)})

\* inputs enabled at step n (kind of client fixed by the first connection: a session is only
\* usable by the client implementation that obtained it)
SameClient(c) == last.op = "init" \/ last.kind = "" \/ c.kind = last.kind
Inputs ==
  CASE Preset = "mc" ->
        {EpochIn(x) : x \in OneChange(e)} \cup
        {ConnIn(c, oc[1], oc[2]) : c \in {x \in Clients : SameClient(x)}, oc \in OfferChoices}
    [] Preset = "tamper" ->
        IF n = 0 THEN {ConnIn(c, "none", "none") : c \in {StdGo, StdRawT, StdRawS}}
        ELSE IF n = 1 THEN {ConnIn(c, "saved", t) : c \in {x \in {StdGo, StdRawT, StdRawS} : x = last.cl},
                                                   t \in {"none"} \cup TampersFor(saved.kind)}
        ELSE {}
    [] Preset = "config" ->
        IF n = 0 THEN {ConnIn([c EXCEPT !.max = m, !.cert = ct], "none", "none") :
                          c \in {StdGo, StdRawT, StdRawS}, m \in {11, 12}, ct \in {"none", "A"}}
        ELSE IF n = 1 THEN {EpochIn(x) : x \in OneChange(e) \cup {e}}
        ELSE IF n = 2 THEN {ConnIn(c, "saved", "none") :
                              c \in {x \in Clients : x.kind = last.kind /\ x.noticket = last.noticket}}
        ELSE {}
    [] Preset = "rotate" ->
        IF n = 0 THEN {ConnIn(c, "none", "none") : c \in {StdGo, StdRawT}}
        ELSE IF n \in {1, 3} THEN {EpochIn([e EXCEPT !.key = k]) : k \in AllKeys}
        ELSE IF n \in {2, 4} THEN {ConnIn(last.cl, "saved", "none")}
        ELSE {}
    [] Preset = "policy" ->
        IF n = 0 THEN {ConnIn([c EXCEPT !.cert = ct, !.sni = sn, !.suites = <<"EG", "CH", "EC">>], "none", "none") :
                          c \in {StdGo, StdRawT, StdRawS}, ct \in {"none", "A"}, sn \in Snis}
        ELSE IF n = 1 THEN {EpochIn(x) : x \in PolicyDims(e)}
        \* the offer comes with the same certificate, with the other CA's, or with a forgery
        ELSE IF n = 2 THEN {ConnIn([last.cl EXCEPT !.sni = sn, !.cert = ct], "saved", "none") :
                              sn \in Snis, ct \in {last.cl.cert, "B", "fake"}}
        ELSE {}
    [] OTHER -> {}

NoLast == [op |-> "init", kind |-> "", noticket |-> FALSE, cl |-> StdGo, ok |-> TRUE]

Init == /\ e \in Init0 /\ saved = NoSess /\ n = 0 /\ last = NoLast

Apply(in) ==
  IF in.op = "epoch"
  THEN /\ e' = in.sv /\ saved' = saved /\ n' = n + 1
       /\ last' = [last EXCEPT !.op = "epoch", !.ok = TRUE]
  ELSE LET o == ConnOut(in.cl, e, saved, in.offer, in.tamper, IF Preset = "mc" THEN 0 ELSE n + 1) IN
       /\ e' = e /\ saved' = o.expM.saved /\ n' = n + 1
       /\ last' = [op |-> "conn", kind |-> in.cl.kind, noticket |-> in.cl.noticket,
                   cl |-> IF Preset = "mc" THEN StdGo ELSE in.cl,
                   ok |-> StepOK(in.cl, e, saved, in.offer, in.tamper)]

Next == n < MaxSteps /\ \E in \in Inputs : Apply(in)

InvStepOK == last.ok
InvType == /\ e \in Epochs /\ n \in 0..MaxSteps
           /\ saved = NoSess \/ (saved.kind \in {"ticket", "sid"} /\ saved.vers \in Versions /\ saved.suite \in AllSuites)
\* a saved session-id session always belongs to a raw client, crypto/tls keeps tickets only
InvKinds == saved.kind = "sid" => last.kind = "raw"
=============================================================================
