CONSTANTS
  N = @N@
  K = @K@
  Regions = {"type", "vmaj", "vmin", "lenhi", "lenlo", "lenover", "first", "mid", "macstart", "pad", "last"}
  InjKinds = {"garbage", "plainalert", "empty", "ccs", "hsfinished"}
  PadAuth = @PADAUTH@
  MaxPost = 3
INIT Init
NEXT Next
INVARIANTS TypeOK PrefixOK StopsAtTamper Detected NothingAfterError DeliversCleanPrefix
CHECK_DEADLOCK FALSE
