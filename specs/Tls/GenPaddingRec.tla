--------------------------- MODULE GenPaddingRec ---------------------------
(* Case generator: every (version, p, corruption class) of PaddingRec with the Layer-P *)
(* verdict (is the forged record delivered?).                                          *)
EXTENDS PaddingRec, Json, TLC
RCase == [ver |-> rin[1], p |-> rin[2], bad |-> rin[3],
          expP |-> [accept |-> MustAccept(rin[1], rin[2], rin[3]), gray |-> RGray(rin[1], rin[2])],
          expM |-> [accept |-> racc]]
REmit == rdone => PrintT(ToJson(RCase))
============================================================================
