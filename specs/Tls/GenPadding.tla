--------------------------- MODULE GenPadding ---------------------------
(* Case generator for C43: every element of Padding!Space (x value class) is printed *)
(* with the Layer-P expectation (decisive) and the Layer-M answer (diagnostic).      *)
EXTENDS Padding, Json, TLC
CONSTANT ValueClasses     \* how the harness makes a byte differ from p
VARIABLE vc
gvars == <<vars, vc>>

GInit == Init /\ vc \in ValueClasses
GNext == Remove /\ UNCHANGED vc

Case == [len |-> inp[1], p |-> inp[2], bad |-> inp[3], vc |-> vc,
         expP |-> [valid |-> Valid(inp[1], inp[2], inp[3]),
                   valid30 |-> ValidSSL30(inp[1], inp[2])],
         expM |-> [rm |-> res.rm, good |-> res.good, rm30 |-> res.rm30, good30 |-> res.good30]]
Emit == done => PrintT(ToJson(Case))
=========================================================================
