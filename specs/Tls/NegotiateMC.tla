----------------------------- MODULE NegotiateMC -----------------------------
(* Exhaustive enumeration of (client hello, server configuration) pairs for       *)
(* Negotiate.tla.  The pair is built in stages (one dimension group per step) so   *)
(* that the same module serves exhaustive checking (every pair of the preset's     *)
(* domain is reached) and TLC -simulate (one uniformly chosen value per stage).    *)
(* At the last stage the Layer-P/Layer-M obligations of Negotiate are evaluated.   *)
(*                                                                                 *)
(* Presets (CONSTANT Presets, a set; each is a product of small per-dimension      *)
(* domains, scaled by CONSTANT Tier):                                              *)
(*   "ver"   all client ranges x SCSV x ECC x all server min/max incl. zero x grade *)
(*   "suite" all client suite sets / orders x server lists x preference x cert     *)
(*   "alpn"  all ALPN lists x all server lists x rule / no rule x h2 restrictions  *)
(*   "gver" / "gsuite" / "galpn": the same three shapes over smaller per-dimension *)
(*           domains (what the quick tier replays on the real code)                *)
(* The full cross product is far too large to enumerate; it is sampled (seeded) by  *)
(* the family driver and evaluated through NegotiateGen's "file" preset.            *)
EXTENDS Negotiate

CONSTANTS Presets, Tier

VARIABLES pre, stage, cl, sv
nvars == <<pre, stage, cl, sv>>

Thorough == Tier = "thorough"

\* ------------------------------------------------------------------ domain helpers
Perms(S) == {f \in [1..Cardinality(S) -> S] : \A i, j \in 1..Cardinality(S) : i # j => f[i] # f[j]}
OrderedSubsets(U, lo, hi) == UNION {Perms(S) : S \in {T \in SUBSET U : lo <= Cardinality(T) /\ Cardinality(T) <= hi}}
GoOrder == <<"XG", "EG", "EC", "RC", "R3">>      \* crypto/tls orders its suites itself
InGoOrder(S) == SelectSeq(GoOrder, LAMBDA x : x \in S)
GoSeqs(U) == {InGoOrder(S) : S \in (SUBSET U) \ {{}}}
RsaSuites == {"EG", "EC", "RC", "R3"}
BaseSuites == RsaSuites \cup {"XG"}          \* the enumerated domains; CH (rule-gated) comes in through "ver"/"gver" and the samples

VersPairs == {<<a, b>> \in Versions \X Versions : a <= b}
SvMinMax == {<<a, b>> \in {0, 10, 11, 12} \X {0, 10, 11, 12} :
               (IF a = 0 THEN SSL3 ELSE a) <= (IF b = 0 THEN 12 ELSE b)}     \* assumption: configured range non-empty

\* a standard client never sends SCSV together with... anything special: both kinds may; crypto/tls cannot.
Basic(kinds, pairs, scsvs, eccs) ==
  {[kind |-> k, min |-> pr[1], max |-> pr[2], scsv |-> s, ecc |-> e] :
      k \in kinds, pr \in pairs, s \in scsvs, e \in eccs}
ValidBasic(b) == b.kind = "go" => (~b.scsv /\ b.ecc # "none")

Rule(g, np) == [on |-> TRUE, sni |-> "a", grade |-> g, np |-> np, clientauth |-> FALSE, chacha |-> FALSE]
ChachaRule(g, np) == [Rule(g, np) EXCEPT !.chacha = TRUE]
AllAlpn == OrderedSubsets(Protos, 1, 3) \cup {<<>>}

\* one constant-level definition per preset (TLC evaluates each once)
DomVer ==
    [basic |-> Basic({"go", "raw"}, VersPairs, BOOLEAN, {"ok", "none", "foreign"}),
     cgo |-> {InGoOrder(RsaSuites), <<"RC">>},
     craw |-> {<<"EG", "EC", "RC", "R3">>, <<"R3", "EC">>, <<"EC", "CH">>},
     alpn |-> {<<>>, <<"h2", "http/1.1">>},
     sni |-> {"a", "b"},
     svmm |-> SvMinMax,
     cert |-> {"rsa"},
     ssuites |-> {<<>>, <<"RC", "EC", "EG">>},
     prefer |-> IF Thorough THEN BOOLEAN ELSE {TRUE},
     np |-> {<<"h2", "http/1.1">>},
     rules |-> {NoRule, Rule("A+", <<"http/1.1">>), Rule("A", <<"http/1.1">>), Rule("B", <<"h2", "http/1.1">>),
                ChachaRule("C", <<"h2", "http/1.1">>)}]
DomGVer == [DomVer EXCEPT !.cgo = {InGoOrder(RsaSuites)}, !.craw = {<<"EG", "EC", "RC", "R3">>, <<"EC", "CH">>},
                         !.alpn = {<<"h2", "http/1.1">>}, !.ssuites = {<<>>}, !.prefer = {TRUE}]
DomSuite ==
    [basic |-> Basic({"go", "raw"}, {<<10, 12>>, <<10, 11>>, <<10, 10>>}, {FALSE}, {"ok", "none", "foreign"}),
     cgo |-> GoSeqs(BaseSuites),
     craw |-> OrderedSubsets(RsaSuites, 1, IF Thorough THEN 3 ELSE 2) \cup
              {<<"R3", "RC", "EC", "EG">>, <<"RC", "EG", "R3", "EC">>, <<"XG", "RC", "EG">>, <<"EC", "XG">>},
     alpn |-> {<<>>, <<"h2">>},
     sni |-> {"a"},
     svmm |-> IF Thorough THEN {<<0, 0>>, <<0, 11>>, <<11, 12>>} ELSE {<<0, 0>>},
     cert |-> {"rsa", "ecdsa"},
     ssuites |-> {<<>>, <<"R3", "RC", "EC", "EG", "XG">>, <<"EC", "RC", "EG", "R3">>} \cup
                 OrderedSubsets(BaseSuites, 1, 2) \cup (IF Thorough THEN OrderedSubsets(RsaSuites, 3, 3) ELSE {}),
     prefer |-> BOOLEAN,
     np |-> {<<"h2", "http/1.1">>},
     rules |-> {NoRule}]
DomGSuite ==
    [DomSuite EXCEPT
       !.basic = Basic({"go", "raw"}, {<<10, 12>>, <<10, 11>>}, {FALSE}, {"ok", "none", "foreign"}),
       !.cgo = GoSeqs(RsaSuites) \cup {<<"XG">>, <<"XG", "EG">>, <<"XG", "EC", "RC">>, InGoOrder(BaseSuites)},
       !.craw = OrderedSubsets(RsaSuites, 1, 1) \cup
                {<<"RC", "EC">>, <<"EC", "RC">>, <<"R3", "EG">>, <<"EG", "R3">>, <<"RC", "EG">>,
                 <<"R3", "RC", "EC", "EG">>, <<"XG", "RC", "EG">>, <<"EC", "XG">>},
       !.alpn = {<<>>}, !.svmm = {<<0, 0>>},
       !.ssuites = {<<>>, <<"R3", "RC", "EC", "EG", "XG">>, <<"EC", "RC", "EG", "R3">>} \cup OrderedSubsets(BaseSuites, 1, 1) \cup
                   {<<"RC", "EG">>, <<"EG", "RC">>, <<"R3", "EC">>, <<"XG", "EG">>}]
DomAlpn ==
    [basic |-> Basic({"go", "raw"}, {<<10, 12>>, <<10, 11>>}, {FALSE}, {"ok"}),
     cgo |-> {InGoOrder(RsaSuites), <<"EC", "RC">>},
     craw |-> {<<"EG", "EC", "RC", "R3">>, <<"EC", "RC">>},
     alpn |-> AllAlpn,
     sni |-> {"a", "b"},
     svmm |-> IF Thorough THEN {<<0, 0>>, <<0, 11>>} ELSE {<<0, 0>>},
     cert |-> {"rsa"},
     ssuites |-> {<<>>, <<"EC", "EG">>},
     prefer |-> {TRUE},
     np |-> AllAlpn,
     rules |-> {NoRule} \cup {Rule("C", x) : x \in {<<>>, <<"h2">>, <<"http/1.1", "h2">>, <<"spdy/3.1", "http/1.1">>}}]
DomGAlpn == [DomAlpn EXCEPT !.sni = {"a"}, !.svmm = {<<0, 0>>}]
D == CASE pre = "ver" -> DomVer [] pre = "suite" -> DomSuite [] pre = "alpn" -> DomAlpn
       [] pre = "gver" -> DomGVer [] pre = "gsuite" -> DomGSuite [] OTHER -> DomGAlpn

Blank == [kind |-> "", min |-> 0, max |-> 0, suites |-> <<>>, scsv |-> FALSE, ecc |-> "", alpn |-> <<>>, sni |-> ""]
BlankSv == [min |-> 0, max |-> 0, suites |-> <<>>, prefer |-> FALSE, np |-> <<>>, rule |-> NoRule, cert |-> ""]

Init == /\ pre \in Presets /\ stage = 0 /\ cl = Blank /\ sv = BlankSv

S1 == /\ stage = 0
      /\ \E b \in {x \in D.basic : ValidBasic(x)} :
           cl' = [cl EXCEPT !.kind = b.kind, !.min = b.min, !.max = b.max, !.scsv = b.scsv, !.ecc = b.ecc]
      /\ stage' = 1 /\ UNCHANGED <<pre, sv>>
S2 == /\ stage = 1
      /\ \E s \in (IF cl.kind = "go" THEN D.cgo ELSE D.craw) : cl' = [cl EXCEPT !.suites = s]
      /\ stage' = 2 /\ UNCHANGED <<pre, sv>>
S3 == /\ stage = 2
      /\ \E a \in D.alpn, n \in D.sni : cl' = [cl EXCEPT !.alpn = a, !.sni = n]
      /\ stage' = 3 /\ UNCHANGED <<pre, sv>>
S4 == /\ stage = 3
      /\ \E mm \in D.svmm, c \in D.cert : sv' = [sv EXCEPT !.min = mm[1], !.max = mm[2], !.cert = c]
      /\ stage' = 4 /\ UNCHANGED <<pre, cl>>
S5 == /\ stage = 4
      /\ \E s \in D.ssuites, pf \in D.prefer : sv' = [sv EXCEPT !.suites = s, !.prefer = pf]
      /\ stage' = 5 /\ UNCHANGED <<pre, cl>>
S6 == /\ stage = 5
      \* with a rule for this SNI the global list is not consulted: one value suffices there
      /\ \E r \in D.rules :
           \E n \in (IF r.on /\ r.sni = cl.sni /\ Cardinality(D.np) > 1 THEN {<<"http/1.1">>} ELSE D.np) :
             sv' = [sv EXCEPT !.np = n, !.rule = r]
      /\ stage' = 6 /\ UNCHANGED <<pre, cl>>
Next == S1 \/ S2 \/ S3 \/ S4 \/ S5 \/ S6

Ready == stage = 6

InvTotal == Ready => Total(cl, sv)
InvMechInsideP == Ready => MechInsideP(cl, sv)
InvPSane == Ready => PSane(cl, sv)
InvDowngrade == Ready => Downgrade(cl, sv)
=============================================================================
