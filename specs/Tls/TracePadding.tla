--------------------------- MODULE TracePadding ---------------------------
(* Pure-function trace validation for C43: the harness calls the real removePadding /  *)
(* removePaddingSSL30 on every (length <= 300, p) pair and records what came back;     *)
(* each line of trace.ndjson is one length, each row of it one call:                   *)
(*   {"v":"tls"|"ssl30","len":L,"rows":[[p, b, fill, rm, g], ...]}                     *)
(*   b    the one corrupted position (0 = none); fill = 1: every byte in front of the  *)
(*        padding window differs from p (data-like), fill = 0: they all equal p        *)
(*   rm   bytes removed, g = 1 good (255) / 0 bad (0) / 2 the call panicked / 3 other   *)
(* Every row is judged with the Layer-P predicate of Padding.tla; failing rows are     *)
(* collected in `bad` and printed once the whole trace is consumed.                    *)
EXTENDS Padding, Json, TLC, Sequences

Trace == ndJsonDeserialize("trace.ndjson")
VARIABLES l, bad
tvars == <<vars, l, bad>>

Ev == Trace[l]
RowBad(len, r) == (IF r[2] = 0 THEN {} ELSE {r[2]})
                  \cup (IF r[3] = 1 THEN 1..(len - r[1] - 1) ELSE {})
RowWhy(ev, r) == IF r[5] = 2 THEN "panic"
                 ELSE IF r[5] = 3 THEN "good-not-0-or-255"
                 ELSE IF ev.v = "tls" THEN Why(ev.len, r[1], RowBad(ev.len, r), r[4], r[5] = 1)
                 ELSE WhySSL30(ev.len, r[1], r[4], r[5] = 1)

TInit == inp = <<0, 0, {}>> /\ done = FALSE /\ res = NoRes /\ l = 1 /\ bad = {}
TNext == /\ l <= Len(Trace) /\ l' = l + 1
         /\ bad' = bad \cup { [v |-> Ev.v, len |-> Ev.len, p |-> Ev.rows[i][1], b |-> Ev.rows[i][2],
                                fill |-> Ev.rows[i][3], rm |-> Ev.rows[i][4], g |-> Ev.rows[i][5],
                                why |-> RowWhy(Ev, Ev.rows[i])]
                               : i \in { j \in 1..Len(Ev.rows) : RowWhy(Ev, Ev.rows[j]) # "ok" } }
         /\ UNCHANGED vars

Report == (l = Len(Trace) + 1) =>
             PrintT(ToJson([done |-> TRUE, consumed |-> l - 1, bad |-> bad]))
Accepted == TLCGet("stats").diameter - 1 = Len(Trace)
===========================================================================
