--------------------------- MODULE GenRecord ---------------------------
(* Behaviour generator for C42: Record plus the list of adversary actions; every      *)
(* finished behaviour is printed as one case: the final wire, and what Layer P allows *)
(* (expP) / what the mechanism model does (expM) for it.                              *)
EXTENDS Record, Json, TLC
VARIABLE h
gvars == <<vars, h>>

GInit == Init /\ h = <<>>
Log(a) == h' = Append(h, a)

GAdversary ==
  \/ \E i \in 1..(N + K), g \in Regions : Flip(i, g) /\ Log([a |-> "flip", i |-> i, g |-> g])
  \/ \E i \in 1..(N + K) : Drop(i) /\ Log([a |-> "drop", i |-> i])
  \/ \E i \in 1..(N + K) : Swap(i) /\ Log([a |-> "swap", i |-> i])
  \/ \E i \in 1..(N + K), j \in 1..(N + K) : Dup(i, j) /\ Log([a |-> IF i = j THEN "dup" ELSE "replay", i |-> i, j |-> j])
  \/ \E i \in 1..(N + K), how \in {"boundary", "header", "body"} :
        Truncate(i, how) /\ Log([a |-> "truncate", i |-> i, how |-> how])
  \/ \E j \in 0..(N + K), k \in InjKinds : Inject(j, k) /\ Log([a |-> "inject", j |-> j, k |-> k])

GNext == \/ GAdversary
         \/ (Release \/ Recv \/ ReadAgain) /\ UNCHANGED h

Case == [n |-> N, wire |-> wire, acts |-> h, post |-> MaxPost,
         expP |-> [clean |-> CleanPrefix, realerr |-> Tampered, after |-> Len(delivered) - atErr],
         expM |-> [deliver |-> Len(delivered), err |-> err]]
Emit == (phase = "done" /\ post = MaxPost) => PrintT(ToJson(Case))
========================================================================
