CONSTANTS
  Preset = "@PRESET@"
  Tier = "@TIER@"
  MaxSteps = @STEPS@
INIT GInit
NEXT GNext
INVARIANTS Emit InvStepOK
CHECK_DEADLOCK FALSE
