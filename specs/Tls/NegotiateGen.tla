---------------------------- MODULE NegotiateGen ----------------------------
(* Behaviour generator for C41: every completed (client, server) pair of NegotiateMC *)
(* is printed once as a JSON case with the Layer-P expectation (decisive) and the    *)
(* Layer-M expectation (diagnostic).                                                 *)
(* Preset "file": the pairs come from inputs.ndjson (seeded sampling of the     *)
(* full cross product by the family driver); TLC checks that each lies in the        *)
(* alphabet (InvWellFormed) and computes the expectations.                           *)
EXTENDS NegotiateMC, Json

VARIABLE src

HasFile == "file" \in Presets
In == IF HasFile THEN ndJsonDeserialize("inputs.ndjson") ELSE <<>>

GInit == \/ Init /\ pre # "file" /\ src = 0
         \/ /\ HasFile /\ src \in 1..Len(In) /\ pre = "file" /\ stage = 6
            /\ cl = In[src].cl /\ sv = In[src].sv

\* dedicated final step: under -simulate every generated successor is evaluated for invariants,
\* so printing is tied to a step that has exactly one successor
Fin == /\ stage = 6 /\ stage' = 7 /\ UNCHANGED <<pre, cl, sv, src>>
GNext == (Next /\ UNCHANGED src) \/ Fin

SeqOver(s, U) == s \in Seq(U) /\ \A i, j \in DOMAIN s : i # j => s[i] # s[j]
InvWellFormed ==
  stage >= 6 =>
    /\ cl.kind \in {"go", "raw"} /\ cl.min \in Versions /\ cl.max \in Versions /\ cl.min <= cl.max
    /\ cl.scsv \in BOOLEAN /\ cl.ecc \in {"ok", "none", "foreign"} /\ cl.sni \in {"a", "b"}
    /\ SeqOver(cl.suites, AllSuites) /\ cl.suites # <<>> /\ SeqOver(cl.alpn, Protos)
    /\ (cl.kind = "go" => ~cl.scsv /\ cl.ecc # "none" /\ cl.suites = InGoOrder(Range(cl.suites)) /\ "CH" \notin Range(cl.suites))
    /\ <<sv.min, sv.max>> \in SvMinMax /\ sv.cert \in {"rsa", "ecdsa"} /\ sv.prefer \in BOOLEAN
    /\ SeqOver(sv.suites, AllSuites) /\ SeqOver(sv.np, Protos)
    /\ sv.rule.on \in BOOLEAN /\ sv.rule.grade \in Grades /\ SeqOver(sv.rule.np, Protos)
    /\ sv.rule.clientauth \in BOOLEAN /\ sv.rule.chacha \in BOOLEAN

Emit == stage = 7 => PrintT(ToJson([id |-> IF src > 0 THEN In[src].id ELSE 0, cl |-> cl, sv |-> sv, pre |-> pre,
                                    expP |-> Allowed(cl, sv), expM |-> Mech(cl, sv)]))
=============================================================================
