CONSTANTS
  Presets = @PRESETS@
  Tier = "@TIER@"
INIT GInit
NEXT GNext
INVARIANTS Emit InvWellFormed InvMechInsideP InvTotal
CHECK_DEADLOCK FALSE
