CONSTANTS
  MaxSmall = @SMALL@
  BigLens = {@BIG@}
INIT Init
NEXT Next
INVARIANTS MechOK TypeOK
CHECK_DEADLOCK FALSE
