CONSTANTS
  MaxSmall = 0
  BigLens = {}
  Versions = {"ssl30", "tls10", "tls11", "tls12"}
  RecP = {@RECP@}
  Pre = 40
INIT RInit
NEXT RNext
INVARIANTS REmit RecMechOK
CHECK_DEADLOCK FALSE
