---------------------------- MODULE GenPrison ----------------------------
(* Arrival-schedule generator for C53 (TLC -simulate): Prison plus a history of the   *)
(* arrivals [k, t] in ticks; one JSON object per behaviour, printed from the final    *)
(* step.  The harness plays the schedule in real time (tick = 40 ms, CheckPeriod =    *)
(* (P + 1/2) ticks so that arrivals on the tick grid stay half a tick away from every *)
(* decision boundary).                                                                *)
EXTENDS Prison, Json
VARIABLES h, fin
gvars == <<vars, h, fin>>

GInit == Init /\ h = <<>> /\ fin = FALSE
GNext == \/ ~fin /\ Tick /\ UNCHANGED <<h, fin>>
         \/ ~fin /\ \E k \in Keys : Arrive(k) /\ h' = Append(h, [k |-> k, t |-> now]) /\ UNCHANGED fin
         \/ ~fin /\ now = MaxT /\ fin' = TRUE /\ UNCHANGED <<vars, h>>
Emit == fin => PrintT(ToJson([th |-> Ths[1], p |-> P, j |-> J, nkeys |-> NKeys, arr |-> h]))
=============================================================================
