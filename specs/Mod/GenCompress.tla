---------------------------- MODULE GenCompress ----------------------------
(* Behaviour generator for C54: input + Layer-P decision set (allow) + mechanism (expM). *)
EXTENDS Compress, Json

Emit == out # None => PrintT(ToJson([in |-> in, allow |-> Allowed(in), expM |-> out]))
=============================================================================
