------------------------------ MODULE Actions ------------------------------
(* C49 - rewrite, header and redirect actions have their documented effect.          *)
(*                                                                                    *)
(* A pure decision procedure: the "behaviour" is (action, parameters, request) and    *)
(* the result the documentation dictates.  Init enumerates action x parameter class   *)
(* x request shape; TLC checks in every such state that the mechanism function        *)
(* (Layer M: the segment-wise edit the code performs after the accepted fixes)        *)
(* satisfies the documented postcondition (Layer P); GenActions prints each state as  *)
(* one replay case.                                                                   *)
(*                                                                                    *)
(* Documents transcribed: docs/en_us/modules/mod_rewrite/mod_rewrite.md,              *)
(* mod_header/mod_header.md, mod_redirect/mod_redirect.md.  The action names of the   *)
(* three "Actions" tables are passed in as constants at generation time and ASSUMEd   *)
(* equal to the sets modelled here (a changed document => exit 2, update the spec).   *)
(*                                                                                    *)
(* Abstract request:                                                                  *)
(*   host  sequence of labels        <<"a","example","com">>      "a.example.com"      *)
(*   path  sequence of segments      <<"a","b">> "/a/b", <<"a","">> "/a/", <<"">> "/" *)
(*   query ordered list of pairs [k, sp, eq, v, dv]: decoded key k, its raw spelling  *)
(*         sp (one of Spellings[k]), with or without '=', raw value v, decoded dv     *)
(*   hdr / rhdr  request / response header: name -> sequence of values                *)
(* Gray (judge = {}): shapes whose effect the documents do not define; they are       *)
(* replayed for panics and compared with Layer M for drift only.                      *)
EXTENDS Integers, Sequences, FiniteSets, TLC

CONSTANTS DocRewrite, DocHeader, DocRedirect,  \* action names read from the docs
          DocVars,                             \* variable names read from mod_header.md
          Keys,                                \* query keys (decoded form), subset of DOMAIN Spellings
          MaxPairs                             \* query length bound

RewriteCmds  == {"HOST_SET", "HOST_SET_FROM_PATH_PREFIX", "HOST_SUFFIX_REPLACE",
                 "PATH_SET", "PATH_PREFIX_ADD", "PATH_PREFIX_TRIM",
                 "QUERY_ADD", "QUERY_DEL", "QUERY_DEL_ALL_EXCEPT", "QUERY_RENAME"}
HeaderCmds   == {"REQ_HEADER_SET", "REQ_HEADER_ADD", "REQ_HEADER_DEL",
                 "RSP_HEADER_SET", "RSP_HEADER_ADD", "RSP_HEADER_DEL"}
RedirectCmds == {"URL_SET", "URL_FROM_QUERY", "URL_PREFIX_ADD", "SCHEME_SET"}

ASSUME DocRewrite = RewriteCmds
ASSUME DocHeader = HeaderCmds
ASSUME DocRedirect = RedirectCmds

(* ------------------------------ strings ------------------------------ *)
RECURSIVE Join(_, _)
Join(s, sep) == IF Len(s) = 0 THEN ""
                ELSE IF Len(s) = 1 THEN s[1]
                ELSE s[1] \o sep \o Join(Tail(s), sep)

PathStr(p) == "/" \o Join(p, "/")
HostStr(h) == Join(h, ".")
Drop(s, n) == SubSeq(s, n + 1, Len(s))
IsPrefix(a, b) == Len(a) <= Len(b) /\ SubSeq(b, 1, Len(a)) = a
IsSuffix(a, b) == Len(a) <= Len(b) /\ SubSeq(b, Len(b) - Len(a) + 1, Len(b)) = a

(* ------------------------------ query ------------------------------ *)
\* A key is its decoded form; Spellings[k] are the raw spellings of it that can stand in a
\* query string.  Keys "ab" / "ba" contain the keys "a" and "b" as prefix / suffix (an edit that
\* looks for a key by substring shows up on them); keys whose decoded form contains a space,
\* '+', '%', '&' or '=' have only escaped spellings ('+' is a spelling of the space).
Spellings == ("a" :> {"a", "%61"}) @@ ("b" :> {"b", "%62"}) @@ ("c" :> {"c", "%63"})
          @@ ("ab" :> {"ab", "%61b"}) @@ ("ba" :> {"ba", "b%61"}) @@ ("n" :> {"n"})
          @@ ("u n" :> {"u+n", "u%20n"}) @@ ("u+n" :> {"u%2Bn", "u%2bn"}) @@ ("u%n" :> {"u%25n"})
          @@ ("u&n" :> {"u%26n"}) @@ ("u=n" :> {"u%3Dn"})
          @@ ("url" :> {"url", "%75rl"}) @@ ("url2" :> {"url2", "url%32"})
          \* "keys" of segments the standard parser (url.ParseQuery) drops or errors on; see JunkPairs
          @@ ("z;x" :> {"z;x"}) @@ ("z%" :> {"z%"}) @@ ("z%zz" :> {"z%zz"}) @@ ("" :> {""}) @@ ("(empty)" :> {""})
PairStr(p) == p.sp \o (IF p.eq THEN "=" \o p.v ELSE "")
QStr(q) == Join([i \in DOMAIN q |-> PairStr(q[i])], "&")
Pair(k, sp, eq, v) == [k |-> k, sp |-> sp, eq |-> eq, v |-> v, dv |-> v]

Pairs == UNION {{Pair(k, sp, TRUE, v) : sp \in Spellings[k], v \in {"1", "a"}}    \* a value may look like a key
                  \cup {Pair(k, sp, FALSE, "") : sp \in Spellings[k]} : k \in Keys}
Queries == UNION {[1..n -> Pairs] : n \in 0..MaxPairs}

\* Raw segments the standard parser drops or errors on: ';' inside, malformed percent escapes in
\* the key or in the value, empty key ("=1"), lone "=", empty segment ("&&").  They are segments
\* of the query sent to the backend all the same (a lenient backend parser reads them), so the
\* actions are judged on them: "delete all except" leaves none of them, "delete a" leaves them
\* alone - and removes "a=%zz", whose key is a.
CONSTANT Junk
JunkPairs == {Pair("z;x", "z;x", TRUE, "1"), Pair("z%", "z%", TRUE, "1"), Pair("z%zz", "z%zz", TRUE, "on"),
              Pair("", "", TRUE, "1"), Pair("", "", TRUE, ""), Pair("(empty)", "", FALSE, ""),
              Pair("a", "a", TRUE, "%zz")}
PlainPairs == {Pair("a", "a", TRUE, "1"), Pair("a", "%61", TRUE, "1"), Pair("b", "b", TRUE, "1")}
JunkQueries == IF ~Junk THEN {}
               ELSE {q \in UNION {[1..n -> JunkPairs \cup PlainPairs] : n \in 1..3} : \E i \in DOMAIN q : q[i] \in JunkPairs}
HasJunkKey(q, k) == \E i \in DOMAIN q : q[i] \in JunkPairs /\ q[i].k = k

\* the decoded view a backend has of a query string: key -> ordered list of values
Vals(q, k) == LET f == SelectSeq(q, LAMBDA p : p.k = k) IN [i \in DOMAIN f |-> f[i].dv]
AllKeys == DOMAIN Spellings
PKeys == AllKeys \ {"(empty)"}                     \* an empty segment ("&&") carries no parameter
QMap(q) == [k \in PKeys |-> Vals(q, k)]
HasKey(q, k) == \E i \in DOMAIN q : q[i].k = k

\* ---- Layer P: documented postconditions over the decoded view
QueryDelPost(q, ks, r) ==
    /\ \A k \in ks : ~HasKey(r, k)                        \* no deleted key remains, in any spelling
    /\ \A k \in PKeys \ ks : Vals(r, k) = Vals(q, k)    \* the others are unchanged
QueryDelAllExceptPost(q, ks, r) ==
    /\ \A k \in PKeys \ ks : ~HasKey(r, k)   \* "all queries": unparseable segments too
    /\ \A k \in ks : Vals(r, k) = Vals(q, k)
QueryAddPost(q, k, v, r) ==
    /\ Vals(r, k) = Append(Vals(q, k), v)
    /\ \A x \in PKeys \ {k} : Vals(r, x) = Vals(q, x)
QueryRenamePost(q, o, n, r) ==                             \* n not present before (else gray)
    /\ ~HasKey(r, o)
    /\ Vals(r, n) = Vals(q, o)
    /\ \A x \in PKeys \ {o, n} : Vals(r, x) = Vals(q, x)

\* ---- Layer M: what the code does (segment-wise edit of the raw query string)
QueryDel(q, ks) == SelectSeq(q, LAMBDA p : p.k \notin ks)
QueryDelAllExcept(q, ks) == SelectSeq(q, LAMBDA p : p.k \in ks \cup {"(empty)"})
QueryAdd(q, k, v) == IF QStr(q) = "" THEN <<Pair(k, k, TRUE, v)>>       \* an empty raw query is replaced
                     ELSE Append(q, Pair(k, k, TRUE, v))
\* (the code renames only when the parsed query knows the key, i.e. some well-formed pair has it)
QueryRename(q, o, n) == IF ~\E i \in DOMAIN q : q[i].k = o /\ q[i].v # "%zz" THEN q ELSE [i \in DOMAIN q |->
                           IF q[i].k = o THEN [q[i] EXCEPT !.k = n, !.sp = n] ELSE q[i]]

\* spelling class of the pairs an action has to find (part of the failure signature)
FormClass(q, ks) ==
    LET hit == {i \in DOMAIN q : q[i].k \in ks}
        e == \E i \in hit : q[i].sp # q[i].k
        n == \E i \in hit : ~q[i].eq
    IN IF hit = {} THEN "absent"
       ELSE IF e /\ n THEN "enc+noeq" ELSE IF e THEN "enc" ELSE IF n THEN "noeq" ELSE "plain"

(* ------------------------------ path / host ------------------------------ *)
Hosts == {<<"a", "example", "com">>, <<"example", "com">>, <<"b", "example", "org">>}
Paths == {<<"">>, <<"a">>, <<"a", "">>, <<"a", "b">>, <<"a", "b", "c">>, <<"ab", "c">>,
          <<"x.example.net", "y">>}

\* PATH_PREFIX_ADD.  The document's example adds "/bfe/" (slashes on both sides) to paths
\* under "/rewrite": "/rewrite/x" becomes "/bfe/rewrite/x".
PathPrefixAdd(p, pre) == <<pre>> \o p          \* "/" pre "/" in front of the path
ASSUME PathStr(PathPrefixAdd(<<"rewrite", "x">>, "bfe")) = "/bfe/rewrite/x"

\* PATH_PREFIX_TRIM of the first k segments (prefix written with or without the final "/")
PathPrefixTrim(p, k) == IF k >= Len(p) THEN <<"">> ELSE Drop(p, k)
ASSUME PathStr(PathPrefixTrim(<<"service", "shortcut", "x">>, 2)) = "/x"
ASSUME PathStr(PathPrefixTrim(<<"a">>, 1)) = "/"

\* HOST_SUFFIX_REPLACE of the last k labels
HostSuffixReplace(h, k, new) == SubSeq(h, 1, Len(h) - k) \o new
ASSUME HostStr(HostSuffixReplace(<<"a", "example", "com">>, 2, <<"example", "org">>)) = "a.example.org"

(* ------------------------------ headers ------------------------------ *)
\* value of a documented variable for the request context the harness installs
CtxVal(v, host) ==
    CASE v = "bfe_client_ip" -> "1.2.3.4"
      [] v = "bfe_cip" -> "1.2.3.4"
      [] v = "bfe_client_port" -> "5678"
      [] v = "bfe_request_host" -> HostStr(host)
      [] v = "bfe_cluster" -> "cluster_x"
      [] v = "bfe_log_id" -> "LOGID1"
      [] v = "bfe_session_id" -> "SESS1"
      [] v = "bfe_vip" -> "9.9.9.9"
      [] OTHER -> "?"
JudgedVars == {"bfe_client_ip", "bfe_cip", "bfe_client_port", "bfe_request_host", "bfe_cluster",
               "bfe_log_id", "bfe_session_id", "bfe_vip"}
ASSUME JudgedVars \subseteq DocVars

HdrT == "X-Bfe-T"          \* the header the action names
HdrO == "X-Bfe-T-Other"    \* a bystander (its name contains the other name) that must not change
HdrInit == {<<>>, <<"u">>, <<"u", "v">>}
HSet(old, v) == <<v>>
HAdd(old, v) == Append(old, v)
HDel(old) == <<>>

(* ------------------------------ cases ------------------------------ *)
NoHdr == [t |-> <<>>, o |-> <<"o">>]
Req0 == [form |-> "origin", host |-> <<"a", "example", "com">>, path |-> <<"a", "b">>, q |-> <<>>,
         hdr |-> NoHdr, rhdr |-> NoHdr]

\* uniform record: what the harness needs (concrete strings) and what is expected
Case(fam, cmd, params, class, judge, r, eHost, ePath, eQ, eHdr, eRhdr, eUrl, eCode) ==
    [fam |-> fam, cmd |-> cmd, params |-> params, class |-> class, judge |-> judge,
     req |-> [form |-> r.form, host |-> HostStr(r.host), path |-> PathStr(r.path), rawq |-> QStr(r.q),
              hdr |-> r.hdr, rhdr |-> r.rhdr],
     exp |-> [host |-> eHost, path |-> ePath, q |-> QMap(eQ), rawq |-> QStr(eQ),
              hdr |-> eHdr, rhdr |-> eRhdr, url |-> eUrl, code |-> eCode],
     abs |-> [q0 |-> r.q, q1 |-> eQ]]                     \* abstract queries, for PostOK only

RW(cmd, params, class, judge, r, eHost, ePath, eQ) ==
    Case("rewrite", cmd, params, class, judge, r, eHost, ePath, eQ, r.hdr, r.rhdr, "", 0)
All == {"host", "path", "q"}

HostCases ==
    LET rs == {[Req0 EXCEPT !.form = f, !.host = h] : f \in {"origin", "absolute"}, h \in Hosts} IN
    {RW("HOST_SET", <<"n.example.net">>, r.form, All, r, "n.example.net", PathStr(r.path), r.q) : r \in rs}
    \cup
    \* label-aligned suffix, written with or without the leading dot; the whole host; no match
    {RW("HOST_SUFFIX_REPLACE", <<HostStr(SubSeq(r.host, Len(r.host) - k + 1, Len(r.host))), "example.net">>,
        r.form \o "/label", All, r,
        HostStr(HostSuffixReplace(r.host, k, <<"example", "net">>)), PathStr(r.path), r.q)
       : r \in {x \in rs : Len(x.host) = 3}, k \in 1..3}
    \cup
    {RW("HOST_SUFFIX_REPLACE", <<"." \o HostStr(SubSeq(r.host, Len(r.host) - k + 1, Len(r.host))), ".example.net">>,
        r.form \o "/dot-label", All, r,
        HostStr(HostSuffixReplace(r.host, k, <<"example", "net">>)), PathStr(r.path), r.q)
       : r \in {x \in rs : Len(x.host) = 3}, k \in 1..2}
    \cup
    {RW("HOST_SUFFIX_REPLACE", <<"example.info", "example.net">>, r.form \o "/nomatch", All, r,
        HostStr(r.host), PathStr(r.path), r.q) : r \in rs}
    \cup
    \* the text occurs in the host but not at its end: nothing to replace
    {RW("HOST_SUFFIX_REPLACE", <<HostStr(SubSeq(r.host, 1, 2)), "example.net">>, r.form \o "/not-at-end", All, r,
        HostStr(r.host), PathStr(r.path), r.q) : r \in {x \in rs : Len(x.host) = 3}}
    \cup
    \* a suffix that cuts a label in two: not defined by the document (gray); mechanism = string suffix
    {RW("HOST_SUFFIX_REPLACE", <<"ample.com", "ample.net">>, r.form \o "/partial-label", {}, r,
        HostStr(SubSeq(r.host, 1, Len(r.host) - 2)) \o (IF Len(r.host) > 2 THEN "." ELSE "") \o "example.net",
        PathStr(r.path), r.q)
       : r \in {x \in rs : IsSuffix(<<"example", "com">>, x.host)}}
    \cup
    \* HOST_SET_FROM_PATH_PREFIX: host := first path segment; what happens to the path is not in
    \* the document (mechanism: the segment is removed); paths with a single segment: gray
    {RW("HOST_SET_FROM_PATH_PREFIX", <<>>, "two-segments", {"host", "q"}, r,
        r.path[1], PathStr(Tail(r.path)), r.q)
       : r \in {[Req0 EXCEPT !.path = p] : p \in {x \in Paths : Len(x) >= 2}}}
    \cup
    {RW("HOST_SET_FROM_PATH_PREFIX", <<>>, "one-segment", {}, r, HostStr(r.host), PathStr(r.path), r.q)
       : r \in {[Req0 EXCEPT !.path = p] : p \in {x \in Paths : Len(x) = 1}}}

PathCases ==
    LET rs == {[Req0 EXCEPT !.path = p, !.q = <<Pair("a", "a", TRUE, "1")>>] : p \in Paths} IN
    {RW("PATH_SET", <<PathStr(np)>>, "set", All, r, HostStr(r.host), PathStr(np), r.q)
       : r \in rs, np \in {<<"n">>, <<"n", "m">>, <<"">>}}
    \cup
    {RW("PATH_PREFIX_ADD", <<"/bfe/">>, "slash-both", All, r, HostStr(r.host),
        PathStr(PathPrefixAdd(r.path, "bfe")), r.q) : r \in rs}
    \cup
    \* without the trailing or leading slash the document gives no rule (gray);
    \* mechanism: the path's own leading "/" is dropped, a leading "/" is ensured
    {RW("PATH_PREFIX_ADD", <<"/bfe">>, "no-trailing-slash", {}, r, HostStr(r.host),
        "/bfe" \o Join(r.path, "/"), r.q) : r \in rs}
    \cup
    {RW("PATH_PREFIX_ADD", <<"bfe/">>, "no-leading-slash", {}, r, HostStr(r.host),
        "/bfe/" \o Join(r.path, "/"), r.q) : r \in rs}
    \cup
    {RW("PATH_PREFIX_TRIM", <<PathStr(SubSeq(z.r.path, 1, z.k)) \o "/">>, "segments-slash", All, z.r, HostStr(z.r.host),
        PathStr(PathPrefixTrim(z.r.path, z.k)), z.r.q)
       : z \in {y \in [r : rs, k : 1..2] : y.r.path[1] # "" /\ y.k < Len(y.r.path)}}
    \cup
    {RW("PATH_PREFIX_TRIM", <<PathStr(SubSeq(z.r.path, 1, z.k))>>, "segments", All, z.r, HostStr(z.r.host),
        PathStr(PathPrefixTrim(z.r.path, z.k)), z.r.q)
       : z \in {y \in [r : rs, k : 1..3] : y.r.path[1] # "" /\ y.k <= Len(y.r.path)}}
    \cup
    {RW("PATH_PREFIX_TRIM", <<"/zz">>, "nomatch", All, r, HostStr(r.host), PathStr(r.path), r.q) : r \in rs}
    \cup
    \* the text occurs in the path but not at its start: nothing to trim
    {RW("PATH_PREFIX_TRIM", <<"/" \o r.path[2]>>, "not-at-start", All, r, HostStr(r.host), PathStr(r.path), r.q)
       : r \in {x \in rs : Len(x.path) >= 2 /\ x.path[2] # "" /\ x.path[2] # x.path[1]}}
    \cup
    \* prefix ending inside a segment ("/a" against "/ab/c"): gray; mechanism = string prefix
    {RW("PATH_PREFIX_TRIM", <<"/a">>, "partial-segment", {}, r, HostStr(r.host), "/b/c", r.q)
       : r \in {x \in rs : x.path = <<"ab", "c">>}}

\* one case per (kind, configured key, query); enumerated by Init without building the set of
\* all cases.  The configured key k (decoded form, as written in the rule file) ranges over
\* the keys with special characters too; new names (QUERY_ADD key, QUERY_RENAME target) stay
\* plain: how a new name that needs escaping is written is not described.
ParamKeys == Keys \ {"b", "c", "ab", "ba"}
QueryKinds == {"del1", "del2", "except", "add-a", "add-n", "ren-n", "ren-b"}
QueryCase(kind, k, q) ==
    LET r == [Req0 EXCEPT !.q = q]
        H == HostStr(Req0.host)
        P == PathStr(Req0.path) IN
    CASE kind = "del1" -> RW("QUERY_DEL", <<k>>, FormClass(q, {k}), All, r, H, P, QueryDel(q, {k}))
      [] kind = "del2" -> RW("QUERY_DEL", <<k, "b">>, FormClass(q, {k, "b"}), All, r, H, P, QueryDel(q, {k, "b"}))
      [] kind = "except" -> RW("QUERY_DEL_ALL_EXCEPT", <<k>>, FormClass(q, AllKeys \ {k}), All, r, H, P,
                               QueryDelAllExcept(q, {k}))
      [] kind = "add-a" -> RW("QUERY_ADD", <<"a", "9">>, "add", All, r, H, P, QueryAdd(q, "a", "9"))
      [] kind = "add-n" -> RW("QUERY_ADD", <<"n", "9">>, "add", All, r, H, P, QueryAdd(q, "n", "9"))
      \* renaming onto a key that is already present is not described: gray
      \* ... and so is renaming a key that stands in a segment with a malformed value
      [] kind = "ren-n" -> RW("QUERY_RENAME", <<k, "n">>, FormClass(q, {k}), IF HasJunkKey(q, k) THEN {} ELSE All,
                              r, H, P, QueryRename(q, k, "n"))
      [] kind = "ren-b" -> RW("QUERY_RENAME", <<k, "b">>, FormClass(q, {k}), IF HasKey(q, "b") \/ HasJunkKey(q, k) THEN {} ELSE All,
                              r, H, P, QueryRename(q, k, "b"))

\* ---- headers
HD(cmd, params, class, judge, r, eHdr, eRhdr) ==
    Case("header", cmd, params, class, judge, r, HostStr(r.host), PathStr(r.path), r.q, eHdr, eRhdr, "", 0)
HName == {"X-Bfe-T", "x-bfe-t"}
HVals == {[p |-> "w", v |-> "w", class |-> "literal", judge |-> TRUE]}
           \cup {[p |-> "%" \o x, v |-> CtxVal(x, Req0.host), class |-> "var:" \o x, judge |-> TRUE] : x \in JudgedVars}
           \* literal text around a variable is a code feature the document does not describe: gray
           \cup {[p |-> "pre-%bfe_cluster;post", v |-> "pre-cluster_x;post", class |-> "mixed", judge |-> FALSE]}

HeaderCases ==
    LET rs == {[Req0 EXCEPT !.hdr = [t |-> a, o |-> <<"o">>], !.rhdr = [t |-> b, o |-> <<"o">>]]
                 : a \in HdrInit, b \in HdrInit}
        J(x) == IF x.judge THEN {"hdr", "rhdr"} ELSE {} IN
    {HD("REQ_HEADER_SET", <<n, x.p>>, x.class, J(x), r, [r.hdr EXCEPT !.t = HSet(@, x.v)], r.rhdr)
       : r \in rs, n \in HName, x \in HVals}
    \cup {HD("REQ_HEADER_ADD", <<n, x.p>>, x.class, J(x), r, [r.hdr EXCEPT !.t = HAdd(@, x.v)], r.rhdr)
       : r \in rs, n \in HName, x \in HVals}
    \cup {HD("REQ_HEADER_DEL", <<n>>, "del", {"hdr", "rhdr"}, r, [r.hdr EXCEPT !.t = HDel(@)], r.rhdr)
       : r \in rs, n \in HName}
    \cup {HD("RSP_HEADER_SET", <<n, x.p>>, x.class, J(x), r, r.hdr, [r.rhdr EXCEPT !.t = HSet(@, x.v)])
       : r \in rs, n \in HName, x \in HVals}
    \cup {HD("RSP_HEADER_ADD", <<n, x.p>>, x.class, J(x), r, r.hdr, [r.rhdr EXCEPT !.t = HAdd(@, x.v)])
       : r \in rs, n \in HName, x \in HVals}
    \cup {HD("RSP_HEADER_DEL", <<n>>, "del", {"hdr", "rhdr"}, r, r.hdr, [r.rhdr EXCEPT !.t = HDel(@)])
       : r \in rs, n \in HName}

\* every documented variable is accepted by the loader (value judged only for JudgedVars)
VarAcceptCases ==
    {HD("REQ_HEADER_SET", <<"X-Bfe-T", "%" \o x>>, "accept:" \o x, {"accept"}, Req0, Req0.hdr, Req0.rhdr)
       : x \in DocVars \ JudgedVars}

\* cookie actions exist in the code but in none of the documents: gray, mechanism only
CookieCases ==
    {HD("REQ_COOKIE_SET", <<"ck", "cv">>, "undocumented", {}, Req0, Req0.hdr, Req0.rhdr),
     HD("REQ_COOKIE_DEL", <<"ck">>, "undocumented", {}, Req0, Req0.hdr, Req0.rhdr),
     HD("RSP_COOKIE_DEL", <<"ck", "example.com", "/">>, "undocumented", {}, Req0, Req0.hdr, Req0.rhdr),
     HD("RSP_COOKIE_SET", <<"ck", "cv", "example.com", "/", "Mon, 02 Jan 2006 15:04:05 MST", "3600", "true", "false">>,
        "undocumented", {}, Req0, Req0.hdr, Req0.rhdr)}

\* ---- redirect
RD(cmd, params, class, judge, r, url, code) ==
    Case("redirect", cmd, params, class, judge, r, HostStr(r.host), PathStr(r.path), r.q, r.hdr, r.rhdr, url, code)
Uri(r) == PathStr(r.path) \o (IF Len(r.q) = 0 THEN "" ELSE "?" \o QStr(r.q))
UrlPair(enc, v, dv) == [k |-> "url", sp |-> IF enc THEN "%75rl" ELSE "url", eq |-> TRUE, v |-> v, dv |-> dv]
RedirQueries == {<<>>, <<Pair("a", "a", TRUE, "1")>>, <<Pair("a", "a", TRUE, "1"), Pair("b", "%62", FALSE, "")>>,
                 <<Pair("url2", "url2", TRUE, "https://decoy.example.org/"), Pair("url2", "url%32", TRUE, "x")>>}   \* a name that contains "url"
Codes == {301, 302}

RedirectCases ==
    LET rs == {[Req0 EXCEPT !.path = p, !.q = q, !.host = h]
                 : p \in {<<"">>, <<"a", "b">>}, q \in RedirQueries, h \in {<<"a", "example", "com">>}} IN
    {RD("URL_SET", <<u>>, "set", {"url"}, r, u, c) : r \in rs, c \in Codes, u \in {"https://example.org", "https://example.org/x?y=1"}}
    \cup
    {RD("URL_PREFIX_ADD", <<p>>, "prefix", {"url"}, r, p \o Uri(r), c)
       : r \in rs, c \in Codes, p \in {"https://n.example.org", "http://n.example.org/pre"}}
    \cup
    {RD("SCHEME_SET", <<s>>, "scheme", {"url"}, r, s \o "://" \o HostStr(r.host) \o Uri(r), c)
       : r \in rs, c \in Codes, s \in {"http", "https"}}
    \cup
    \* URL_FROM_QUERY: the (decoded) value of the named query; key spelled either way
    {RD("URL_FROM_QUERY", <<"url">>, IF e THEN "enc-key" ELSE "plain-key", {"url"},
        [r EXCEPT !.q = Append(r.q, UrlPair(e, x.v, x.dv))], x.dv, c)
       : r \in rs, c \in Codes, e \in BOOLEAN,
         x \in {[v |-> "https://r.example.org/x", dv |-> "https://r.example.org/x"],
                [v |-> "https%3A%2F%2Fr.example.org%2Fx%3Fz%3D1", dv |-> "https://r.example.org/x?z=1"]}}
    \cup
    \* the named query is missing: nothing to redirect to, not described (gray)
    {RD("URL_FROM_QUERY", <<"url">>, "absent", {}, r, "", c) : r \in rs, c \in Codes}

ASSUME \* the documents' own examples
    /\ "URL_SET" \in DocRedirect /\ "PATH_PREFIX_ADD" \in DocRewrite
    /\ {"REQ_HEADER_SET", "RSP_HEADER_SET"} \subseteq DocHeader
    /\ {"bfe_log_id", "bfe_vip"} \subseteq DocVars

(* ------------------------------ the "system" ------------------------------ *)
VARIABLE cur
vars == <<cur>>

Init == \/ cur \in HostCases
        \/ cur \in PathCases
        \/ \E kind \in QueryKinds, k \in ParamKeys, q \in Queries :
              (kind \in {"add-a", "add-n"} => k = "a") /\ cur = QueryCase(kind, k, q)
        \/ \E kind \in QueryKinds, q \in JunkQueries :
              cur = [QueryCase(kind, "a", q) EXCEPT !.class = "junk:" \o @]
        \/ cur \in HeaderCases \cup VarAcceptCases \cup CookieCases
        \/ cur \in RedirectCases
Next == UNCHANGED cur

\* Layer M |= Layer P in every enumerated state: the query the mechanism produces satisfies
\* the documented postcondition; every other action leaves the query alone.  (Host, path,
\* header and redirect effects are direct transcriptions, pinned by the ASSUMEs above.)
QueryCmds == {"QUERY_DEL", "QUERY_DEL_ALL_EXCEPT", "QUERY_ADD", "QUERY_RENAME"}
PostOK ==
    LET ks == {cur.params[i] : i \in DOMAIN cur.params} IN
    /\ cur.cmd = "QUERY_DEL" => QueryDelPost(cur.abs.q0, ks, cur.abs.q1)
    /\ cur.cmd = "QUERY_DEL_ALL_EXCEPT" => QueryDelAllExceptPost(cur.abs.q0, ks, cur.abs.q1)
    /\ cur.cmd = "QUERY_ADD" => QueryAddPost(cur.abs.q0, cur.params[1], cur.params[2], cur.abs.q1)
    /\ (cur.cmd = "QUERY_RENAME" /\ cur.judge # {}) => QueryRenamePost(cur.abs.q0, cur.params[1], cur.params[2], cur.abs.q1)
    /\ (cur.cmd \notin QueryCmds /\ cur.cmd # "URL_FROM_QUERY") => cur.abs.q1 = cur.abs.q0
\* documented => judged: every documented command has at least one decisive case
Documented == cur.cmd \in RewriteCmds \cup HeaderCmds \cup RedirectCmds \/ cur.judge = {}
=============================================================================
