----------------------------- MODULE GenAccess -----------------------------
(* Behaviour generator for C51: one JSON case per input: the Layer-P verdict set (allow, *)
(* decisive) and the mechanism's verdict (expM, diagnostic).                            *)
EXTENDS Access, Json

ASSUME PrintT(ToJson([hdr |-> "access", blockranges |-> BlockRanges, keysets |-> KeySet]))

Emit == out # None => PrintT(ToJson([in |-> in, allow |-> Allowed(in), expM |-> out]))
=============================================================================
