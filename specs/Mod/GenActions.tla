---------------------------- MODULE GenActions ----------------------------
(* Case generator for C49: prints every enumerated (action, parameters, request) with  *)
(* the expected result as one JSON object (replayed by harness/cmd/mods1 actions).     *)
EXTENDS Actions, Json
Emit == PrintT(ToJson([fam |-> cur.fam, cmd |-> cur.cmd, params |-> cur.params, class |-> cur.class,
                       judge |-> cur.judge, req |-> cur.req, exp |-> cur.exp]))
=============================================================================
