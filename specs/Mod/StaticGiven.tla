---------------------------- MODULE StaticGiven ----------------------------
(* Replaced at run time by the driver (families/mods2.py) with a seeded set of long   *)
(* request paths; the empty set means "enumerate all paths up to MaxSeg".              *)
GivenPaths == {}
=============================================================================
