CONSTANTS
  NKeys = @NKEYS@
  Th = @TH@
  P = @P@
  J = @J@
  S = 0
  MaxT = @MAXT@
  MaxArr = @MAXARR@
INIT GInit
NEXT GNext
INVARIANTS Emit VerdictOK
CHECK_DEADLOCK FALSE
