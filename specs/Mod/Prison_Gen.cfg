CONSTANTS
  NKeys = @NKEYS@
  NRules = 1
  Th1 = @TH@
  Th2 = 0
  Act1 = "CLOSE"
  Act2 = "CLOSE"
  P = @P@
  J = @J@
  S = 0
  MaxT = @MAXT@
  MaxArr = @MAXARR@
INIT GInit
NEXT GNext
INVARIANTS Emit VerdictOK
CHECK_DEADLOCK FALSE
