----------------------------- MODULE GenCors -----------------------------
(* Case generator for C52: one JSON object per enumerated state of Cors.tla. *)
EXTENDS Cors, Json
Emit == PrintT(ToJson(CaseOut))
=============================================================================
