CONSTANTS
  MaxItems = @MAXITEMS@
  Codings = @CODINGS@
  Qs = @QS@
  Forms = @FORMS@
  WithAbsent = @ABSENT@
  Rules = @RULES@
  CEs = @CES@
  CLs = @CLS@
  Kinds = @KINDS@
  Bodies = @BODIES@
  Flushes = @FLUSHES@
  Qualities = @QUALITIES@
INIT Init
NEXT Next
INVARIANTS Permitted NeverRefused Emit
CHECK_DEADLOCK FALSE
