CONSTANTS
  NKeys = @NKEYS@
  Th = @TH@
  P = @P@
  J = @J@
  S = @S@
  MaxT = @MAXT@
  MaxArr = @MAXARR@
SPECIFICATION Spec
INVARIANTS VerdictOK
PROPERTIES OthersUntouched
CHECK_DEADLOCK FALSE
