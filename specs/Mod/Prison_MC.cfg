CONSTANTS
  NKeys = @NKEYS@
  NRules = @NRULES@
  Th1 = @TH@
  Th2 = @TH2@
  Act1 = "@ACT1@"
  Act2 = "@ACT2@"
  P = @P@
  J = @J@
  S = @S@
  MaxT = @MAXT@
  MaxArr = @MAXARR@
SPECIFICATION Spec
INVARIANTS VerdictOK SeenOK
PROPERTIES OthersUntouched
CHECK_DEADLOCK FALSE
