------------------------------ MODULE PrisonP ------------------------------
(* C53 - Layer P of the rate-limiting property, per request key, integer time.        *)
(*                                                                                    *)
(* Only the unambiguous obligations of the statement decide:                          *)
(*  (a) an arrival that has, together with itself, at most Threshold arrivals of its  *)
(*      key in the last CheckPeriod is never denied (while the key is not jailed);    *)
(*  (b) counted from a fresh key's first arrival, the (Threshold+1)-th arrival inside *)
(*      one CheckPeriod is denied and so is every arrival until                       *)
(*      first arrival + CheckPeriod + StayPeriod ("StayPeriod plus the rest of that   *)
(*      period");                                                                     *)
(*  (c) obligations are per key - other keys are unaffected;                          *)
(*  (d) the first arrival after the jail has expired is admitted (the key is fresh).  *)
(* Everything else (how windows are aligned after the first period, whether denied    *)
(* requests count) is left open: both verdicts are allowed and the key goes to        *)
(* "limbo" until it has been silent for CheckPeriod + StayPeriod.                     *)
(* A key is fresh when it was never seen, when its jail has expired, or when it has   *)
(* not been jailed and was silent for more than a CheckPeriod.                        *)
(* c = [th, p, j, s]: Threshold, CheckPeriod, StayPeriod, slack.  Every comparison    *)
(* with a decision boundary leaves s time units on either side undecided.             *)
EXTENDS Integers, Sequences

PFresh == [mode |-> "fresh", s |-> 0, n |-> 0, until |-> 0, last |-> 0, hist |-> <<>>]

Recent(c, hist, t) == SelectSeq(hist, LAMBDA x : x >= t - c.p - c.s)
CntWin(c, st, t) == Len(Recent(c, st.hist, t)) + 1      \* arrivals of the key in the last period, this one included

\* the mode that counts at time t: silence and expiry make a key fresh again
Eff(c, st, t) ==
    CASE st.mode = "epoch"  /\ t - st.last > c.p + c.s       -> "fresh"
      [] st.mode = "limbo"  /\ t - st.last > c.p + c.j + c.s -> "fresh"
      [] st.mode = "jailed" /\ t > st.until + c.s            -> "fresh"
      [] OTHER -> st.mode

InFirst(c, st, t) == t - st.s <= c.p - c.s               \* certainly inside the period that began at the fresh arrival
Trips(c, st, t) == InFirst(c, st, t) /\ st.n + 1 > c.th

\* verdicts (TRUE = denied) Layer P allows for an arrival of the key at time t
Allowed(c, st, t) ==
    LET m == Eff(c, st, t) IN
    CASE m = "fresh"  -> IF c.th = 0 THEN {TRUE} ELSE {FALSE}                     \* (d), (a); th = 0: (b)
      [] m = "epoch"  -> IF CntWin(c, st, t) <= c.th THEN {FALSE}                  \* (a)
                         ELSE IF Trips(c, st, t) THEN {TRUE}                       \* (b)
                         ELSE BOOLEAN
      [] m = "jailed" -> IF t < st.until - c.s THEN {TRUE} ELSE BOOLEAN            \* (b)
      [] OTHER        -> BOOLEAN

\* what Layer P knows about the key afterwards
PNext(c, st, t, deny) ==
    LET m == Eff(c, st, t)
        base == [st EXCEPT !.last = t, !.hist = Append(Recent(c, st.hist, t), t)] IN
    CASE m = "fresh"  -> IF deny THEN [base EXCEPT !.mode = "jailed", !.s = t, !.n = 1, !.until = t + c.p + c.j]
                         ELSE [base EXCEPT !.mode = "epoch", !.s = t, !.n = 1]
      [] m = "epoch"  -> IF deny THEN (IF Trips(c, st, t)
                                         THEN [base EXCEPT !.mode = "jailed", !.until = st.s + c.p + c.j]
                                         ELSE [base EXCEPT !.mode = "limbo"])
                         ELSE [base EXCEPT !.n = IF InFirst(c, st, t) THEN st.n + 1 ELSE st.n]
      [] m = "jailed" -> IF deny THEN base ELSE [base EXCEPT !.mode = "limbo"]
      [] OTHER        -> [base EXCEPT !.mode = "limbo"]

\* an arrival whose verdict is not known (not observable, or the rule may not have seen it)
PUnknown(c, st, t) == [st EXCEPT !.mode = "limbo", !.last = t, !.hist = Append(Recent(c, st.hist, t), t)]

(* ------------------------------ Layer M ------------------------------ *)
(* mod_prison: accessDict holds a counter (windowStart, count) per key, prisonDict the *)
(* time the key is free again.  recordAndCheck = shouldDeny; recordAccess; shouldDeny. *)
None == 0 - 1
MFresh == [ws |-> None, cnt |-> 0, jail |-> None]

MVerdict(c, m, t) ==
    IF m.jail # None /\ t < m.jail THEN TRUE
    ELSE LET ws == IF m.ws = None \/ m.ws + c.p < t THEN t ELSE m.ws          \* NewAccessCounter / reset
             cnt == IF m.ws = None \/ m.ws + c.p < t THEN 1 ELSE m.cnt + 1
         IN cnt > c.th
MNext(c, m, t) ==
    IF m.jail # None /\ t < m.jail THEN m
    ELSE LET ws == IF m.ws = None \/ m.ws + c.p < t THEN t ELSE m.ws
             cnt == IF m.ws = None \/ m.ws + c.p < t THEN 1 ELSE m.cnt + 1
         IN IF cnt > c.th THEN [ws |-> None, cnt |-> 0, jail |-> ws + c.p + c.j]   \* prisonDict.Add, accessDict.Del
            ELSE [ws |-> ws, cnt |-> cnt, jail |-> None]
=============================================================================
