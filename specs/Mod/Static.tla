------------------------------- MODULE Static -------------------------------
(* C50  Static file serving stays inside the document root (bfe_modules/mod_static).      *)
(*                                                                                        *)
(* A pure decision procedure: Init enumerates the inputs (configuration x method x        *)
(* Accept-Encoding x request path as a list of raw segments), Serve computes what the     *)
(* mechanism (Layer M, the code as it is) answers, and the invariants state Layer P.      *)
(*                                                                                        *)
(* The file system is a fixed tree below an anonymous top directory:                      *)
(*    top/root/...     the document root                                                  *)
(*    top/out/...      a sibling directory holding a secret (and a .gz bait)              *)
(*    top/rootx/...    a sibling whose name has the root's name as a prefix               *)
(* Nodes are sequences of names starting at top.  The tree is symlink-free.               *)
EXTENDS Integers, Sequences, FiniteSets, TLC, StaticGiven

CONSTANTS MaxSeg,      \* longest request path, in raw segments
          Alphabet,    \* raw segments the paths are built from (subset of DOMAIN Dec)
          Methods,     \* request methods
          Defaults,    \* default-file settings of the BROWSE rule: "" (none) or a key of DefPath
          Compress,    \* subset of BOOLEAN: Basic.EnableCompress
          AEs          \* Accept-Encoding values: "" or "gzip"

VARIABLES in, out
vars == <<in, out>>

Root == <<"root">>
DefPath == ("" :> <<>>) @@ ("index.html" :> <<"index.html">>) @@ ("sub/b.txt" :> <<"sub", "b.txt">>)

Files == { <<"root", "a.txt">>, <<"root", "a.txt.gz">>, <<"root", "index.html">>,
           <<"root", "index.html.gz">>, <<"root", "empty">>,
           <<"root", "sub", "b.txt">>, <<"root", "out", "c.txt">>,
           <<"out", "secret.txt">>, <<"out", "c.txt.gz">>, <<"out", "a.txt">>,
           <<"rootx", "s.txt">> }

Prefix(s, n) == SubSeq(s, 1, n)
Dirs == UNION { { Prefix(f, n) : n \in 0..(Len(f) - 1) } : f \in Files }   \* every proper prefix
UnderRoot(node) == Len(node) >= 2 /\ node[1] = "root"

(* ---- raw segments and their percent-decoding (RFC 3986 2.1): one raw segment decodes *)
(* ---- to one or more path components; "%2f" decodes to a separator.                   *)
NUL == "<nul>"            \* a component containing a NUL byte
LONG == "<long>"          \* a component longer than NAME_MAX
RAWNUL == "<rawnul>"      \* an unencoded NUL in the request line
Invalid == {NUL, "a.txt<nul>", LONG, RAWNUL}

Dec == [ s \in {"a.txt", "sub", "b.txt", "out", "c.txt", "secret.txt", "index.html", "empty",
                "zz", "root", "rootx", "s.txt", ".", "..", "", "...", "a.txt.gz"} |-> <<s>> ] @@
       ( "%2e%2e" :> <<"..">> ) @@ ( ".%2E" :> <<"..">> ) @@ ( "%2e" :> <<".">> ) @@
       ( "sub%2fb.txt" :> <<"sub", "b.txt">> ) @@ ( "..%2fout" :> <<"..", "out">> ) @@
       ( "..%2F.." :> <<"..", "..">> ) @@ ( "%2e%2e%2fout%2fsecret.txt" :> <<"..", "out", "secret.txt">> ) @@
       ( "..%5cout" :> <<"..\\out">> ) @@
       ( "%00" :> <<NUL>> ) @@ ( "a.txt%00" :> <<"a.txt<nul>">> ) @@
       ( "<long>" :> <<LONG>> ) @@ ( "<rawnul>" :> <<RAWNUL>> )

PlainNames == {"a.txt", "sub", "b.txt", "out", "c.txt", "secret.txt", "index.html", "empty",
               "zz", "root", "rootx", "s.txt", "...", "a.txt.gz"}

RECURSIVE Flat(_)
Flat(segs) == IF segs = <<>> THEN <<>> ELSE Dec[Head(segs)] \o Flat(Tail(segs))

\* GivenPaths (module StaticGiven, normally {}) lets the driver hand in seeded long paths
Paths == IF GivenPaths # {} THEN GivenPaths ELSE UNION { [1..n -> Alphabet] : n \in 0..MaxSeg }
Inputs == [ segs : Paths, method : Methods, def : Defaults, compress : Compress, ae : AEs ]

(* ---- lexical resolution of dot segments (RFC 3986 5.2.4), empty components dropped,  *)
(* ---- ".." at the top stays at the top.                                               *)
RECURSIVE Fold(_, _)
Fold(cs, acc) ==
  IF cs = <<>> THEN acc
  ELSE LET c == Head(cs) IN
       Fold(Tail(cs),
            IF c \in {"", "."} THEN acc
            ELSE IF c = ".." THEN (IF acc = <<>> THEN acc ELSE Prefix(acc, Len(acc) - 1))
            ELSE Append(acc, c))

HasInvalid(cs) == \E i \in 1..Len(cs) : cs[i] \in Invalid
IsPlain(segs) == \A i \in 1..Len(segs) : segs[i] \in PlainNames

(* ---- outcomes ---------------------------------------------------------------------- *)
File(node, ce) == [k |-> "file", f |-> node, ce |-> ce]     \* 200, exact bytes, Content-Length = size
S404 == [k |-> "s404", f |-> <<>>, ce |-> ""]               \* 404, nothing served
NoServe == [k |-> "noserve", f |-> <<>>, ce |-> ""]         \* any status >= 400, nothing served
Status(n) == [k |-> "status", f |-> <<>>, ce |-> "", code |-> n]   \* Layer M only

GzNode(node) == [node EXCEPT ![Len(node)] = @ \o ".gz"]
WantGz(i) == i.compress /\ i.ae = "gzip"

\* the ways file `node` may be delivered: as it is, or its precompressed sibling when enabled+accepted
Deliver(node, i) == {File(node, "")} \cup
                    (IF WantGz(i) /\ GzNode(node) \in Files THEN {File(GzNode(node), "gzip")} ELSE {})

(* ============================ Layer P: the property ================================= *)
(* Allowed(i) is the set of answers the statement permits for input i.                    *)
DefaultSet(i) == IF i.def = "" THEN {} ELSE Deliver(Root \o DefPath[i.def], i)

Allowed(i) ==
  LET cs == Flat(i.segs)
      t == Root \o Fold(cs, <<>>)
      exact == IF t \in Files THEN Deliver(t, i)
               ELSE IF t \in Dirs THEN DefaultSet(i) \cup {NoServe}          \* never a listing
               ELSE IF i.def = "" THEN {S404} ELSE DefaultSet(i) \cup {S404}
  IN IF i.method \notin {"GET", "HEAD"} THEN {NoServe}
     \* (a NUL / over-long component that survives the resolution names no file: "missing";
     \*  one that is cancelled by a later ".." does not matter)
     ELSE IF IsPlain(i.segs) THEN exact
     \* dot segments, empty segments, encoded dots/separators, trailing slash: the lexical
     \* resolution or a refusal (or the default file, which stands in for "missing")
     ELSE exact \cup {NoServe} \cup DefaultSet(i)

\* the universal safety clause, independent of everything else
Contained(o) == o.k = "file" => UnderRoot(o.f)

(* ============================ Layer M: the mechanism ================================ *)
(* static_file.go: newStaticFile(root, filename, encodingList) with filename = URL.Path     *)
(*   - probe os.Stat(filepath.Join(root, filename + ".gz"))  : Join cleans WITHOUT clamping  *)
(*   - http.Dir(root).Open(filename)                          : path.Clean("/"+name), clamped *)
(* then the same for the default file when the first attempt was "not exist" or a directory. *)
ABOVE == "<above-top>"     \* filepath.Join left the temp tree: nothing the spec knows lives there
RECURSIVE FoldAbs(_, _)
FoldAbs(cs, acc) ==      \* filepath.Join(root, name): ".." may leave the root
  IF cs = <<>> THEN acc
  ELSE LET c == Head(cs) IN
       FoldAbs(Tail(cs),
               IF c \in {"", "."} THEN acc
               ELSE IF c = ".." THEN (IF acc = <<>> \/ acc = <<ABOVE>> THEN <<ABOVE>> ELSE Prefix(acc, Len(acc) - 1))
               ELSE Append(acc, c))

GzName(cs) == IF cs = <<>> THEN <<".gz">> ELSE [cs EXCEPT ![Len(cs)] = @ \o ".gz"]
Exists(node) == node \in Files \/ node \in Dirs

\* a NUL or over-long component left after cleaning: http.Dir refuses a NUL outright
\* (filepath.Localize, 500); an over-long name gives ENAMETOOLONG (500) only when the walk reaches
\* it, i.e. when every prefix before it is a directory - otherwise ENOENT / ENOTDIR win (404).
HasNul(cl) == \E j \in 1..Len(cl) : cl[j] \in {NUL, "a.txt<nul>"}
FirstBad(cl) == CHOOSE j \in 1..Len(cl) : cl[j] \in Invalid /\ \A n \in 1..(j - 1) : cl[n] \notin Invalid
InvalidStatus(cl) ==
  LET j == FirstBad(cl) IN
  IF HasNul(cl) THEN 500
  ELSE IF \A n \in 1..(j - 1) : Root \o Prefix(cl, n) \in Dirs THEN 500 ELSE 404

Try(cs, i) ==
  LET probe == WantGz(i) /\ Exists(FoldAbs(GzName(cs), Root))
      name == IF probe THEN GzName(cs) ELSE cs
      cl == Fold(name, <<>>)
      node == Root \o cl
  IN IF HasInvalid(cl) THEN Status(InvalidStatus(cl))
     ELSE IF node \in Files THEN File(node, IF probe THEN "gzip" ELSE "")
     ELSE IF node \in Dirs THEN Status(500) ELSE Status(404)

MServe(i) ==
  LET cs == Flat(i.segs) IN
  IF \E j \in 1..Len(cs) : cs[j] = RAWNUL THEN Status(400)        \* rejected by the request parser
  ELSE IF i.method \notin {"GET", "HEAD"} THEN Status(405)
  ELSE LET r == Try(cs, i) IN
       IF r.k = "file" \/ i.def = "" \/ (r.k = "status" /\ r.code \notin {404, 500}) THEN r
       ELSE IF r.code = 500 /\ HasInvalid(Fold(cs, <<>>)) THEN r     \* only "not exist" / "is a directory" fall back
       ELSE Try(DefPath[i.def], i)

\* does a mechanism answer fall into an allowed class?
Matches(o, a) == \/ a.k = "file" /\ o.k = "file" /\ o.f = a.f /\ o.ce = a.ce
                 \/ a.k = "s404" /\ o.k = "status" /\ o.code = 404
                 \/ a.k = "noserve" /\ o.k = "status" /\ o.code >= 400

None == [k |-> "none"]
Init == in \in Inputs /\ out = None
Serve == out = None /\ out' = MServe(in) /\ UNCHANGED in
Next == Serve
Spec == Init /\ [][Next]_vars

InRoot == out # None => Contained(out)
Permitted == out # None => \E a \in Allowed(in) : Matches(out, a)
\* Layer P is never empty and never permits anything outside the root
SaneP == \A a \in Allowed(in) : Contained(a)
NonEmptyP == Allowed(in) # {}
=============================================================================
