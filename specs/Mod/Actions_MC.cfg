CONSTANTS
  DocRewrite = @DOC_REWRITE@
  DocHeader = @DOC_HEADER@
  DocRedirect = @DOC_REDIRECT@
  DocVars = @DOC_VARS@
  Keys = @KEYS@
  MaxPairs = @MAXPAIRS@
  Junk = @JUNK@
INIT Init
NEXT Next
INVARIANTS PostOK Documented Emit
CHECK_DEADLOCK FALSE
