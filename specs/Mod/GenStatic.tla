----------------------------- MODULE GenStatic -----------------------------
(* Behaviour generator for C50: one JSON case per input with the Layer-P answer set  *)
(* (allow, decisive) and the Layer-M answer (expM, diagnostic).                       *)
EXTENDS Static, Json

ASSUME PrintT(ToJson([hdr |-> "tree", files |-> Files, root |-> Root]))

Emit == out # None =>
          PrintT(ToJson([segs |-> in.segs, method |-> in.method, def |-> in.def,
                         compress |-> in.compress, ae |-> in.ae,
                         allow |-> Allowed(in), expM |-> out]))
=============================================================================
