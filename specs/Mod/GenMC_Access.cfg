CONSTANTS
  Schemes = @SCHEMES@
  JwtKeySets = @KEYSETS@
  JwtTimes = @TIMES@
  JwtHdrs = @HDRS@
  MaxRules = @MAXRULES@
INIT Init
NEXT Next
INVARIANTS Permitted NonEmptyP NoForgery Emit
CHECK_DEADLOCK FALSE
