------------------------------- MODULE Cors -------------------------------
(* C52 - CORS headers are granted only to allowed origins and vary on Origin.        *)
(*                                                                                    *)
(* Decision procedure: (rule, request, response headers before) -> response headers   *)
(* after the CORS filters.  Init enumerates origin class x rule form x credentials x  *)
(* request kind x pre-existing Vary; Layer M is the handler as the code does it       *)
(* (corsPreflightHandler at HandleFoundProduct, corsHandler at HandleReadResponse,    *)
(* matchOriginAllowed, addVaryHeader after the accepted fix); Layer P are the         *)
(* obligations of the property, evaluated by TLC on M's result in every state and by  *)
(* the family on the real module's response for every printed case.                   *)
EXTENDS Integers, Sequences, FiniteSets, TLC

A == "https://a.example.com"
B == "https://b.example.com"

\* origin classes of the request; "absent" = no Origin header
OriginOf == [allowed  |-> A,
             allowed2 |-> B,
             other    |-> "https://evil.example.net",
             suffix   |-> "https://a.example.com.evil.net",
             prefix   |-> "https://a.example.co",
             \* RFC 6454: an origin is the triple (scheme, host, port) - same host as A, other port / scheme
             \* (":80" is not the default port of https, so this is not a second spelling of A)
             port80   |-> "https://a.example.com:80",
             port8443 |-> "https://a.example.com:8443",
             scheme   |-> "http://a.example.com",
             null     |-> "null",
             garbage  |-> "garbage",
             absent   |-> ""]
OriginClasses == DOMAIN OriginOf

\* rule forms: value of AccessControlAllowOrigins
ListOf == [one |-> <<A>>, two |-> <<A, B>>, star |-> <<"*">>, echo |-> <<"%origin">>,
           null |-> <<"null">>, echoone |-> <<"%origin", A>>,
           nomatch |-> <<>>]                      \* pseudo form: no rule of the product matches the request
Forms == DOMAIN ListOf \ {"nomatch"}

\* A product has an ordered LIST of rules; the rule that governs a request is the first one
\* whose condition matches it ("the matching rule"); later rules are not consulted.
CondExpr == [all |-> "default_t()", api |-> "req_path_prefix_in(\"/api\", false)",
             none |-> "req_path_prefix_in(\"/zzz\", false)"]
Matches(cond, path) == cond = "all" \/ (cond = "api" /\ path = "/api/x")
Governing(rules, path) ==
    LET idx == {i \in DOMAIN rules : Matches(rules[i].cond, path)} IN
    IF idx = {} THEN 0 ELSE CHOOSE i \in idx : \A j \in idx : i <= j

Kinds == {"simple", "preflight", "options"}    \* GET; OPTIONS + Access-Control-Request-Method; bare OPTIONS

\* pre-existing Vary of the backend response: header lines, each a list of field names, and
\* the list separator used ("," or ", ").  Field-name alphabet: the names that matter ("*",
\* Origin in two spellings), names that merely CONTAIN "origin" (inside, as prefix, as suffix,
\* lower case), names that contain "*", and an unrelated name.  Obligations are judged on
\* the parsed list of field names, never on the header text.
Toks == {"*", "Accept-Encoding", "Origin", "oRiGiN",
         "X-Original-Host", "Origin-Agent-Cluster", "X-Forwarded-Origin", "x-forwarded-origin-country",
         "X-*", "*-Wild"}
Kind(t) == IF t = "*" THEN "star"
           ELSE IF t \in {"Origin", "oRiGiN", "origin"} THEN "origin"
           ELSE IF t \in {"X-Original-Host", "Origin-Agent-Cluster", "X-Forwarded-Origin", "x-forwarded-origin-country"} THEN "like"
           ELSE IF t \in {"X-*", "*-Wild"} THEN "starlike"
           ELSE "other"
V(lines) == [lines |-> lines, sep |-> ", "]
VaryOf == [none   |-> V(<<>>),
           star   |-> V(<< <<"*">> >>),
           ae     |-> V(<< <<"Accept-Encoding">> >>),
           origin |-> V(<< <<"Origin">> >>),
           lcorigin |-> V(<< <<"origin">> >>),
           aeorigin |-> V(<< <<"Accept-Encoding", "Origin">> >>),
           aecookie |-> V(<< <<"Accept-Encoding", "Cookie">> >>),
           twolines |-> V(<< <<"Accept-Encoding">>, <<"Cookie">> >>)]
VaryClasses == DOMAIN VaryOf

\* generated Vary values: every arrangement of at most MaxTok field names in at most MaxTok lines
CONSTANT MaxTok
T(n) == [1..n -> Toks]
Shapes2 == {<<a>> : a \in T(1) \cup T(2)} \cup {<<a, b>> : a \in T(1), b \in T(1)}
Shapes3 == {<<a>> : a \in T(3)} \cup {<<a, b>> : a \in T(1), b \in T(2)} \cup {<<a, b>> : a \in T(2), b \in T(1)}
             \cup {<<a, b, c>> : a \in T(1), b \in T(1), c \in T(1)}
GenLines == IF MaxTok >= 3 THEN Shapes2 \cup Shapes3 ELSE Shapes2
GenVary == {[lines |-> l, sep |-> ", "] : l \in GenLines}
             \cup {[lines |-> l, sep |-> ","] : l \in {x \in GenLines : \E i \in DOMAIN x : Len(x[i]) > 1}}

Range(s) == {s[i] : i \in DOMAIN s}
Tokens(lines) == UNION {Range(lines[i]) : i \in DOMAIN lines}
IsOriginTok(t) == Kind(t) = "origin"

(* ------------------------------ Layer P ------------------------------ *)
\* is the request's origin allowed by the rule?  ("%origin" and "*" admit every origin)
Allowed(form, oc) ==
    /\ oc # "absent"
    /\ \/ form \in {"star", "echo", "echoone"}
       \/ OriginOf[oc] \in Range(ListOf[form])
\* the value that may be granted
GrantValue(form, oc) == IF form = "star" THEN "*" ELSE OriginOf[oc]
\* does the granted value depend on the request's Origin?
DependsOnOrigin(form) == form # "star"

\* obligations on a response r = [acao, acac, other (set of other Access-Control-* names), vary (lines)]
GrantOK(form, oc, r) ==
    IF Allowed(form, oc) THEN r.acao = GrantValue(form, oc)
    ELSE r.acao = "" /\ r.acac = "" /\ r.other = {}          \* nothing is granted to other origins
NoStarWithCredentials(r) == ~(r.acao = "*" /\ r.acac = "true")
VaryOK(form, oc, before, r) ==
    /\ Tokens(before) \subseteq Tokens(r.vary)                 \* existing values are preserved
    /\ (Allowed(form, oc) /\ DependsOnOrigin(form)) =>
          \E t \in Tokens(r.vary) : IsOriginTok(t) \/ t = "*"  \* the response varies on Origin

(* ------------------------------ Layer M ------------------------------ *)
\* the rule loader refuses "*" together with credentials
Loads(form, cred) == ~(form = "star" /\ cred)

IsPreflight(kind, oc) == kind = "preflight" /\ oc # "absent"
\* the module answers a preflight itself only when a rule governs the request
Answers(form, kind, oc) == IsPreflight(kind, oc) /\ form # "nomatch"

AddVary(lines) == IF \E t \in Tokens(lines) : t = "*" \/ IsOriginTok(t) THEN lines
                  ELSE Append(lines, <<"Origin">>)

\* headers the module sets when the origin matches; full = methods / headers / expose / max-age configured
Handle(form, cred, full, kind, oc, before) ==
    LET pre == Answers(form, kind, oc)
        base == IF pre THEN <<>> ELSE before                   \* the preflight answer is built by the module
        hit == Allowed(form, oc) IN
    IF ~hit THEN [acao |-> "", acac |-> "", other |-> {}, vary |-> base, preflight |-> pre]
    ELSE [acao |-> GrantValue(form, oc),
          acac |-> IF cred THEN "true" ELSE "",
          other |-> IF ~full THEN {}
                    ELSE IF pre THEN {"Access-Control-Allow-Methods", "Access-Control-Allow-Headers", "Access-Control-Max-Age"}
                    ELSE {"Access-Control-Expose-Headers"},
          vary |-> AddVary(base), preflight |-> pre]

(* ------------------------------ cases ------------------------------ *)
RECURSIVE Join(_, _)
Join(s, sep) == IF Len(s) = 0 THEN "" ELSE IF Len(s) = 1 THEN s[1] ELSE s[1] \o sep \o Join(Tail(s), sep)
Lines(v) == [i \in DOMAIN v.lines |-> Join(v.lines[i], v.sep)]
\* class of a generated Vary value (part of the failure signature): kinds of its field names
GenClass(v) == "g" \o (IF v.sep = "," THEN "c" ELSE "s") \o ":" \o
               Join([i \in DOMAIN v.lines |-> Join([j \in DOMAIN v.lines[i] |-> Kind(v.lines[i][j])], "+")], "|")

VARIABLE cur
Params == [form : Forms, cred : BOOLEAN, full : BOOLEAN, kind : Kinds, oc : OriginClasses, vc : VaryClasses]
GenForms == IF MaxTok >= 3 THEN {"one", "echo", "star"} ELSE Forms
GenOrigins == IF MaxTok >= 3 THEN {"allowed", "other"} ELSE {"allowed", "other", "absent"}

\* rule lists whose conditions overlap (specific then catch-all, catch-all then specific, ...)
RuleSpecs == {r \in [cond : {"api", "all", "none"}, form : {"one", "star", "echo"}, cred : BOOLEAN, full : {FALSE}] :
                Loads(r.form, r.cred)}
RuleLists == [1..2 -> RuleSpecs] \cup (IF MaxTok >= 3 THEN [1..3 -> RuleSpecs] ELSE {})

\* cur.form / cred / full are those of the governing rule
Mk(rules, path, kind, oc, vc, v) ==
    LET g == Governing(rules, path) IN
    [rules |-> rules, path |-> path, kind |-> kind, oc |-> oc, vc |-> vc, vary |-> v,
     form |-> IF g = 0 THEN "nomatch" ELSE rules[g].form,
     cred |-> IF g = 0 THEN FALSE ELSE rules[g].cred,
     full |-> IF g = 0 THEN FALSE ELSE rules[g].full]
One(p) == <<[cond |-> "all", form |-> p.form, cred |-> p.cred, full |-> p.full]>>
Init == \/ \E p \in {x \in Params : (x.kind = "preflight" /\ x.oc # "absent") => x.vc = "none"} :
              cur = Mk(One(p), "/x", p.kind, p.oc, p.vc, VaryOf[p.vc])
        \/ \E v \in GenVary, f \in GenForms, o \in GenOrigins :
              cur = Mk(One([form |-> f, cred |-> FALSE, full |-> FALSE]), "/x", "simple", o, GenClass(v), v)
        \/ \E rs \in RuleLists, path \in {"/x", "/api/x"}, k \in {"simple", "preflight"}, o \in {"allowed", "other"} :
              cur = Mk(rs, path, k, o, "ae", VaryOf["ae"])
Next == UNCHANGED cur

LoadsAll == \A i \in DOMAIN cur.rules : Loads(cur.rules[i].form, cur.rules[i].cred)
Before == IF Answers(cur.form, cur.kind, cur.oc) THEN V(<<>>) ELSE cur.vary
Base == Before.lines
Result == Handle(cur.form, cur.cred, cur.full, cur.kind, cur.oc, cur.vary.lines)

\* M |= P
PGrant == LoadsAll => GrantOK(cur.form, cur.oc, Result)
PStar  == LoadsAll => NoStarWithCredentials(Result)
PVary  == LoadsAll => VaryOK(cur.form, cur.oc, Base, Result)

RuleLabel(r) == r.cond \o ":" \o r.form \o (IF r.cred THEN "+c" ELSE "")
FormLabel == IF Len(cur.rules) = 1 /\ cur.rules[1].cond = "all" THEN cur.form
             ELSE Join([i \in DOMAIN cur.rules |-> RuleLabel(cur.rules[i])], ">")

\* the case handed to the harness and the expectations handed to the family
CaseOut ==
    [form |-> FormLabel, oclass |-> cur.oc, vclass |-> cur.vc,
     kind |-> cur.kind \o (IF cur.path = "/x" THEN "" ELSE "@api"),
     rules |-> [i \in DOMAIN cur.rules |->
                  [cond |-> CondExpr[cur.rules[i].cond], origins |-> ListOf[cur.rules[i].form],
                   cred |-> cur.rules[i].cred, full |-> cur.rules[i].full]],
     req |-> [method |-> IF cur.kind = "simple" THEN "GET" ELSE "OPTIONS",
              path |-> cur.path,
              origin |-> OriginOf[cur.oc],
              acrm |-> IF cur.kind = "preflight" THEN "PUT" ELSE "",
              vary |-> Lines(cur.vary)],
     expP |-> [allowed |-> Allowed(cur.form, cur.oc),
               acao |-> IF Allowed(cur.form, cur.oc) THEN GrantValue(cur.form, cur.oc) ELSE "",
               needvary |-> Allowed(cur.form, cur.oc) /\ DependsOnOrigin(cur.form),
               keep |-> Tokens(Base)],
     expM |-> [loads |-> LoadsAll, acac |-> Result.acac, other |-> Result.other,
               vary |-> Lines([lines |-> Result.vary, sep |-> cur.vary.sep]), preflight |-> Result.preflight]]
=============================================================================
