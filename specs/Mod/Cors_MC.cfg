CONSTANTS
  MaxTok = @MAXTOK@
INIT Init
NEXT Next
INVARIANTS PGrant PStar PVary Emit
CHECK_DEADLOCK FALSE
