------------------------------- MODULE Prison -------------------------------
(* C53 - exhaustive check that the counter/jail mechanism of mod_prison (Layer M)    *)
(* satisfies the window obligations (Layer P, PrisonP.tla) for every arrival timing   *)
(* of every key within the bounds.  One action per call of prisonHandler:             *)
(* Arrive(k) at the current time; Tick advances the clock.                            *)
(* A product has an ordered LIST of rules that match the same request, each with its  *)
(* own threshold, dictionaries and action.  processRules walks the list: every rule   *)
(* records the request and decides for itself; a jailed key meets the rule's action:  *)
(* CLOSE / FINISH end the request (later rules do not see it), PASS / REQ_HEADER_SET   *)
(* let it go on to the next rule.  Layer P holds PER RULE: each rule's verdicts obey   *)
(* the window obligations over the arrivals that rule saw, whatever other rules do.   *)
EXTENDS PrisonP, FiniteSets, TLC

CONSTANTS NKeys, NRules, Th1, Th2, Act1, Act2, P, J, S, MaxT, MaxArr
\* thresholds and action kinds of the (one or two) rules, in list order
Ths == SubSeq(<<Th1, Th2>>, 1, NRules)
Acts == SubSeq(<<Act1, Act2>>, 1, NRules)
Rules == 1..NRules
Keys == 1..NKeys
C(r) == [th |-> Ths[r], p |-> P, j |-> J, s |-> S]
Terminal(r) == Acts[r] \in {"CLOSE", "FINISH"}
ASSUME Len(Acts) = NRules /\ \A r \in Rules : Acts[r] \in {"CLOSE", "FINISH", "PASS", "REQ_HEADER_SET"}

VARIABLES now, narr,
          pst,      \* Layer P: per rule and key, what the property knows
          mst,      \* Layer M: per rule and key, counter and jail
          last      \* last call: [k, t, deny (per rule; FALSE when not seen), seen (rules that saw it), ok]
vars == <<now, narr, pst, mst, last>>

Init == /\ now = 0 /\ narr = 0
        /\ pst = [r \in Rules |-> [k \in Keys |-> PFresh]]
        /\ mst = [r \in Rules |-> [k \in Keys |-> MFresh]]
        /\ last = [k |-> 0, t |-> 0, deny |-> [r \in Rules |-> FALSE], seen |-> {}, ok |-> TRUE]

Tick == /\ now < MaxT /\ now' = now + 1 /\ UNCHANGED <<narr, pst, mst, last>>

\* processRules: rule r sees the request unless an earlier rule ended it
RECURSIVE Walk(_, _, _, _, _, _, _, _)
Walk(r, ended, k, ps, ms, dn, sn, ok) ==
    IF r > NRules THEN [ps |-> ps, ms |-> ms, dn |-> dn, sn |-> sn, ok |-> ok]
    ELSE IF ended THEN Walk(r + 1, TRUE, k, [ps EXCEPT ![r][k] = PUnknown(C(r), @, now)], ms, dn, sn, ok)
    ELSE LET d == MVerdict(C(r), ms[r][k], now) IN
         Walk(r + 1, d /\ Terminal(r), k,
              [ps EXCEPT ![r][k] = PNext(C(r), @, now, d)],
              [ms EXCEPT ![r][k] = MNext(C(r), @, now)],
              [dn EXCEPT ![r] = d], sn \cup {r},
              ok /\ d \in Allowed(C(r), ps[r][k], now))

Arrive(k) ==
    /\ narr < MaxArr /\ narr' = narr + 1
    /\ LET w == Walk(1, FALSE, k, pst, mst, [r \in Rules |-> FALSE], {}, TRUE) IN
         /\ last' = [k |-> k, t |-> now, deny |-> w.dn, seen |-> w.sn, ok |-> w.ok]
         /\ pst' = w.ps
         /\ mst' = w.ms
    /\ UNCHANGED now

Next == Tick \/ \E k \in Keys : Arrive(k)
Spec == Init /\ [][Next]_vars

\* M |= P: every verdict of every rule is one Layer P allows for that rule
VerdictOK == last.ok
\* a rule is skipped only because an earlier CLOSE / FINISH rule denied the request
SeenOK == \A r \in Rules : r \notin last.seen /\ last.k # 0 => \E q \in 1..(r - 1) : Terminal(q) /\ last.deny[q]
\* (c) is structural: a call touches the state of its own key only
OthersUntouched == [][\A k \in Keys : (last'.k # k \/ UNCHANGED narr) =>
                        \A r \in Rules : pst'[r][k] = pst[r][k] /\ mst'[r][k] = mst[r][k]]_vars
=============================================================================
