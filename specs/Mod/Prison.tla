------------------------------- MODULE Prison -------------------------------
(* C53 - exhaustive check that the counter/jail mechanism of mod_prison (Layer M)    *)
(* satisfies the window obligations (Layer P, PrisonP.tla) for every arrival timing   *)
(* of every key within the bounds.  One action per call of prisonHandler:             *)
(* Arrive(k) at the current time; Tick advances the clock.                            *)
EXTENDS PrisonP, FiniteSets, TLC

CONSTANTS NKeys, Th, P, J, S, MaxT, MaxArr

Keys == 1..NKeys
C == [th |-> Th, p |-> P, j |-> J, s |-> S]

VARIABLES now, narr,
          pst,      \* Layer P: per key, what the property knows
          mst,      \* Layer M: per key, counter and jail
          last      \* last call: [k, t, deny, ok]
vars == <<now, narr, pst, mst, last>>

Init == /\ now = 0 /\ narr = 0
        /\ pst = [k \in Keys |-> PFresh]
        /\ mst = [k \in Keys |-> MFresh]
        /\ last = [k |-> 0, t |-> 0, deny |-> FALSE, ok |-> TRUE]

Tick == /\ now < MaxT /\ now' = now + 1 /\ UNCHANGED <<narr, pst, mst, last>>

Arrive(k) ==
    /\ narr < MaxArr /\ narr' = narr + 1
    /\ LET d == MVerdict(C, mst[k], now) IN
         /\ last' = [k |-> k, t |-> now, deny |-> d, ok |-> d \in Allowed(C, pst[k], now)]
         /\ pst' = [pst EXCEPT ![k] = PNext(C, @, now, d)]
         /\ mst' = [mst EXCEPT ![k] = MNext(C, @, now)]
    /\ UNCHANGED now

Next == Tick \/ \E k \in Keys : Arrive(k)
Spec == Init /\ [][Next]_vars

\* M |= P: every verdict of the mechanism is one Layer P allows
VerdictOK == last.ok
\* (c) is structural: a call touches the state of its own key only
OthersUntouched == [][\A k \in Keys : (last'.k # k \/ UNCHANGED narr) => (pst'[k] = pst[k] /\ mst'[k] = mst[k])]_vars
\* the model is not vacuous: jailing, expiry and limbo are all reached (checked by coverage of PNext)
=============================================================================
