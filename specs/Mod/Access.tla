------------------------------- MODULE Access -------------------------------
(* C51  Access-control modules admit exactly the valid requests.                           *)
(*   mod_auth_basic, mod_auth_jwt, mod_secure_link, mod_block (global ip table and product *)
(*   rules), mod_auth_request.                                                             *)
(*                                                                                         *)
(* A decision procedure per scheme: Init enumerates (rule coverage x configuration x       *)
(* credential class); Check computes the mechanism's verdict (Layer M, the code as it is   *)
(* after the accepted fix commits); Layer P (Allowed) is the set of verdicts the           *)
(* property's statement permits.  Credential classes are symbolic: the harness turns each  *)
(* into a real header / token / link with real keys; the attributes the verdict depends on *)
(* (who signed, with which algorithm, which time claims, ...) are spelled out here.        *)
EXTENDS Integers, Sequences, FiniteSets, TLC

CONSTANTS Schemes,      \* subset of {"basic","jwt","slink","blockip","blockrule","authreq"}
          JwtKeySets,   \* subset of DOMAIN KeySet
          JwtExps,      \* subset of {"absent", "future", "past"}
          JwtNbfs,      \* subset of {"absent", "past", "future"}
          JwtIats,      \* subset of {"absent", "past", "soon", "far"}   (soon = a few seconds ahead, far = an hour)
          JwtHdrs,      \* subset of HdrForms
          MaxRules      \* mod_block: rules per list

VARIABLES in, out
vars == <<in, out>>

Covers == {"rule", "nocond", "noprod"}   \* product rule whose condition matches / does not match / no rules

Admit == [v |-> "admit"]
Deny(code, chal, realm) == [v |-> "deny", code |-> code, chal |-> chal, realm |-> realm]
Close == [v |-> "close"]

(* =============================== basic authentication ================================= *)
(* user file (htpasswd formats the module documents: apr1, {SHA}; bcrypt via htpasswd -B):  *)
(*   u_apr1, u_sha, u_bcrypt : password "pw-<kind>";  u_colon : password "a:b:c" (apr1)     *)
(*   "#u_off:..." is commented out                                                          *)
BasicAttr ==
  [ c \in {"right-apr1", "right-sha", "right-bcrypt", "right-colon", "right-lower-scheme", "right-utf8"}
      |-> [sch |-> "basic", wf |-> TRUE, user |-> TRUE, pass |-> TRUE] ] @@
  [ c \in {"wrong-pass", "empty-pass", "pass-prefix", "pass-extended", "other-users-pass",
           "hash-as-pass", "pass-case"}
      |-> [sch |-> "basic", wf |-> TRUE, user |-> TRUE, pass |-> FALSE] ] @@
  [ c \in {"unknown-user", "user-case", "commented-user", "empty-user"}
      |-> [sch |-> "basic", wf |-> TRUE, user |-> FALSE, pass |-> FALSE] ] @@
  [ c \in {"no-colon", "bad-b64", "no-space", "empty-b64"}
      |-> [sch |-> "basic", wf |-> FALSE, user |-> FALSE, pass |-> FALSE] ] @@
  [ c \in {"bearer-scheme", "digest-scheme"}
      |-> [sch |-> "other", wf |-> TRUE, user |-> TRUE, pass |-> TRUE] ] @@
  [ c \in {"none", "empty-header"}
      |-> [sch |-> "absent", wf |-> FALSE, user |-> FALSE, pass |-> FALSE] ]
BasicCreds == DOMAIN BasicAttr
Realms == {"", "My Realm"}
RealmOf(r) == IF r = "" THEN "Restricted" ELSE r       \* documented default

BasicInputs == [scheme : {"basic"}, cover : Covers, realm : Realms, cred : BasicCreds]

BasicValid(i) == LET a == BasicAttr[i.cred] IN a.sch = "basic" /\ a.wf /\ a.user /\ a.pass
BasicAllowed(i) == IF i.cover # "rule" \/ BasicValid(i) THEN {Admit}
                   ELSE {Deny(401, "Basic", RealmOf(i.realm))}
\* mechanism: Request.BasicAuth (scheme prefix, base64, colon) -> user lookup -> CheckSecret
BasicM(i) ==
  LET a == BasicAttr[i.cred]
      parsed == a.sch = "basic" /\ a.wf
  IN IF i.cover # "rule" THEN Admit
     ELSE IF ~parsed THEN Deny(401, "Basic", RealmOf(i.realm))
     ELSE IF ~a.user THEN Deny(401, "Basic", RealmOf(i.realm))
     ELSE IF ~a.pass THEN Deny(401, "Basic", RealmOf(i.realm))
     ELSE Admit

(* ======================================= JWT ========================================== *)
Key(id, kty, alg) == [id |-> id, kty |-> kty, alg |-> alg]
KeySet == ( "oct2" :> <<Key("k1", "oct", ""), Key("k2", "oct", "")>> ) @@
          ( "oct-hs256" :> <<Key("k1", "oct", "HS256")>> ) @@
          ( "rsa" :> <<Key("r1", "rsa", "")>> ) @@
          ( "rsa-rs256" :> <<Key("r1", "rsa", "RS256")>> ) @@
          ( "ec-es256" :> <<Key("e1", "ec", "ES256")>> ) @@
          ( "mixed" :> <<Key("k1", "oct", "HS256"), Key("r1", "rsa", "RS256")>> )

Algs == {"HS256", "HS384", "HS512", "RS256", "RS384", "RS512", "PS256", "ES256", "none"}
Family(alg) == IF alg \in {"HS256", "HS384", "HS512"} THEN "oct"
               ELSE IF alg \in {"RS256", "RS384", "RS512", "PS256"} THEN "rsa"
               ELSE IF alg = "ES256" THEN "ec" ELSE "none"
\* who produced the signature: a configured key, an unknown key of the same kind, the RSA
\* public key used as an HMAC secret (algorithm confusion), or nobody (empty signature)
SignersOf(alg) == IF Family(alg) = "oct" THEN {"k1", "k2", "kx", "r1pub", "nosig"}
                  ELSE IF Family(alg) = "rsa" THEN {"r1", "rx", "nosig"}
                  ELSE IF Family(alg) = "ec" THEN {"e1", "ex", "nosig"}
                  ELSE {"nosig", "k1"}      \* alg=none: no signature, or a stray HS256 signature
\* the time claims are independent components of a token: every combination is enumerated
ExpOK(t) == t.exp \in {"absent", "future"}
NbfOK(t) == t.nbf \in {"absent", "past"}
IatPlain(t) == t.iat \in {"absent", "past"}
HdrForms == {"bearer", "absent", "lower", "two-spaces", "basic-scheme", "no-token", "extra-part", "two-segments"}
Tampers == {"none", "payload", "sig"}

Tokens == UNION { [alg : {a}, signer : SignersOf(a), exp : JwtExps, nbf : JwtNbfs, iat : JwtIats,
                   tamper : Tampers, hdr : JwtHdrs] : a \in Algs }
Timeless(t) == t.nbf = "absent" /\ t.iat = "absent"
\* Under a matching rule with the default realm and a well-formed Bearer header the token space is the
\* full PRODUCT signature (signer x tamper x alg) x exp x nbf x iat: defects are combined, not
\* taken one at a time.  Other header forms, uncovered requests and the realm echo need fewer tokens.
JwtInputs == { i \in [scheme : {"jwt"}, cover : Covers, keys : JwtKeySets, realm : Realms, tok : Tokens] :
                 /\ (i.tok.hdr # "bearer" => Timeless(i.tok) /\ i.tok.exp \in {"absent", "past"} /\ i.tok.tamper = "none")
                 /\ ((i.cover # "rule" \/ i.realm # "") =>
                       /\ Timeless(i.tok) /\ i.tok.exp \in {"absent", "past"} /\ i.tok.tamper = "none"
                       /\ i.tok.hdr \in {"bearer", "absent"}) }

Range(s) == {s[n] : n \in 1..Len(s)}
\* "signed with a configured key using that key's algorithm"
SignedBy(t, k) == /\ t.signer = k.id
                  /\ Family(t.alg) = k.kty
                  /\ (k.alg # "" => t.alg = k.alg)
\* admit iff EVERY component is acceptable: signature, exp, nbf (iat: see JwtGray)
JwtCore(i) == /\ i.tok.tamper = "none" /\ ExpOK(i.tok) /\ NbfOK(i.tok)
              /\ \E k \in Range(KeySet[i.keys]) : SignedBy(i.tok, k)
JwtGray(i) == i.tok.hdr \in {"lower", "two-spaces"} \/ ~IatPlain(i.tok)
JwtAllowed(i) ==
  LET deny == Deny(401, "Bearer", RealmOf(i.realm)) IN
  IF i.cover # "rule" THEN {Admit}
  ELSE IF i.tok.hdr \in {"absent", "basic-scheme", "no-token", "extra-part", "two-segments"} THEN {deny}
  ELSE IF ~JwtCore(i) THEN {deny}
  \* scheme case / optional whitespace (RFC 7235) and iat in the future (RFC 7519 does not
  \* make it invalid, jwt-go does): either verdict is acceptable
  ELSE IF JwtGray(i) THEN {Admit, deny}
  ELSE {Admit}

\* mechanism: getToken (exactly two space-separated parts, first == "Bearer"), then for every
\* configured key jwt.Parse(token, provideKey): method from the header (none refused), key type
\* must suit the method, [fix: a declared JWK alg must equal the token's alg], signature, claims.
JwtTryKey(t, k) == /\ t.alg # "none"
                   /\ Family(t.alg) = k.kty
                   /\ (k.alg # "" => t.alg = k.alg)
                   /\ t.signer = k.id /\ t.tamper = "none"
                   /\ ExpOK(t) /\ NbfOK(t) /\ IatPlain(t)
JwtM(i) ==
  LET deny == Deny(401, "Bearer", RealmOf(i.realm)) IN
  IF i.cover # "rule" THEN Admit
  ELSE IF i.tok.hdr # "bearer" THEN deny
  ELSE IF \E n \in 1..Len(KeySet[i.keys]) : JwtTryKey(i.tok, KeySet[i.keys][n]) THEN Admit
  ELSE deny

(* ==================================== secure link ===================================== *)
\* rule configurations (concretised by the harness):
\*   "doc"   ChecksumKey sign, ExpiresKey time, nodes query(time) uri remote_addr label  (the docs' example)
\*   "hdr"   ChecksumKey default (md5), no ExpiresKey, nodes label header(X-Token) host
\*   "exp"   ChecksumKey md5, ExpiresKey e, nodes label query(e) query(id)
SlinkRules == {"doc", "hdr", "exp"}
HasExpiry(r) == r \in {"doc", "exp"}
SlinkAttr ==
  ( "valid" :> [exp |-> "future", ck |-> "good"] ) @@
  ( "expired" :> [exp |-> "past", ck |-> "good"] ) @@            \* correctly signed, but overdue
  ( "wrong-secret" :> [exp |-> "future", ck |-> "bad"] ) @@
  ( "wrong-order" :> [exp |-> "future", ck |-> "bad"] ) @@       \* same node values, other order
  ( "node-omitted" :> [exp |-> "future", ck |-> "bad"] ) @@      \* checksum over a subset of the nodes
  ( "tampered-node" :> [exp |-> "future", ck |-> "bad"] ) @@     \* a signed value changed afterwards
  ( "tampered-exp" :> [exp |-> "future", ck |-> "bad"] ) @@      \* overdue link, expiry moved forward
  ( "padded" :> [exp |-> "future", ck |-> "bad"] ) @@            \* '=' padding kept
  ( "hex-md5" :> [exp |-> "future", ck |-> "bad"] ) @@
  ( "case-changed" :> [exp |-> "future", ck |-> "bad"] ) @@
  ( "no-cksum" :> [exp |-> "future", ck |-> "absent"] ) @@
  ( "empty-cksum" :> [exp |-> "future", ck |-> "absent"] ) @@
  ( "no-exp" :> [exp |-> "absent", ck |-> "good"] ) @@           \* signed over an empty expiry
  ( "nan-exp" :> [exp |-> "nan", ck |-> "good"] )                \* signed over a non-numeric expiry
SlinkClasses(r) == IF HasExpiry(r) THEN DOMAIN SlinkAttr
                   ELSE DOMAIN SlinkAttr \ {"expired", "tampered-exp", "no-exp", "nan-exp"}
SlinkInputs == UNION { [scheme : {"slink"}, cover : Covers, rule : {r}, cls : SlinkClasses(r)] : r \in SlinkRules }

SlinkValid(i) == LET a == SlinkAttr[i.cls] IN
                 a.ck = "good" /\ (HasExpiry(i.rule) => a.exp = "future")
SlinkAllowed(i) == IF i.cover # "rule" \/ SlinkValid(i) THEN {Admit} ELSE {Deny(403, "", "")}
\* mechanism (Checker.Check): expiry first (present, numeric, not overdue), then checksum present, equal
SlinkM(i) ==
  LET a == SlinkAttr[i.cls] d == Deny(403, "", "") IN
  IF i.cover # "rule" THEN Admit
  ELSE IF HasExpiry(i.rule) /\ a.exp = "absent" THEN d
  ELSE IF HasExpiry(i.rule) /\ a.exp = "nan" THEN d
  ELSE IF HasExpiry(i.rule) /\ a.exp = "past" THEN d
  ELSE IF a.ck = "absent" THEN d
  ELSE IF a.ck # "good" THEN d
  ELSE Admit

(* ================================ mod_block: global ip table =========================== *)
\* addresses are points 0..15 on an abstract line per family; the harness maps point k to
\* base+k (v4: 10.20.30.(100+k), v6: 2001:db8::(0x100+k)).  Blocklist file: single addresses
\* and ranges, as documented ("start end" / "addr").
BlockRanges == ( "v4" :> {<<3, 3>>, <<6, 9>>, <<9, 11>>} ) @@ ( "v6" :> {<<2, 2>>, <<5, 12>>} )
AddrForms == {"v4-4", "v4-16", "v6"}       \* v4 client as 4-byte and as 16-byte net.IP
FamOf(f) == IF f = "v6" THEN "v6" ELSE "v4"
BlockIpInputs == [scheme : {"blockip"}, form : AddrForms, pt : 0..15]
Blocked(i) == \E r \in BlockRanges[FamOf(i.form)] : r[1] <= i.pt /\ i.pt <= r[2]
BlockIpAllowed(i) == IF Blocked(i) THEN {Close} ELSE {Admit}
\* mechanism: ipdict search over the sorted, merged ranges
Merged(fam) == { p \in 0..15 : \E r \in BlockRanges[fam] : r[1] <= p /\ p <= r[2] }
BlockIpM(i) == IF i.pt \in Merged(FamOf(i.form)) THEN Close ELSE Admit

(* ================================ mod_block: product rules ============================= *)
\* a rule = [m |-> its condition matches the request's client address, cmd |-> ALLOW/CLOSE]
BRule == [m : BOOLEAN, cmd : {"ALLOW", "CLOSE"}]
RuleLists == UNION { [1..n -> BRule] : n \in 0..MaxRules }
BlockRuleInputs == [scheme : {"blockrule"}, g : RuleLists, p : RuleLists, hasp : BOOLEAN]
\* documented: global rules are consulted first; the first rule whose condition holds decides
FirstMatch(rs) == IF \E n \in 1..Len(rs) : rs[n].m
                  THEN rs[CHOOSE n \in 1..Len(rs) : rs[n].m /\ \A j \in 1..(n - 1) : ~rs[j].m].cmd
                  ELSE "none"
BlockRuleAllowed(i) ==
  LET all == i.g \o (IF i.hasp THEN i.p ELSE <<>>)
      d == FirstMatch(all)
  IN IF d = "CLOSE" THEN {Close} ELSE {Admit}
BlockRuleM(i) ==
  LET g == FirstMatch(i.g) IN
  IF g = "CLOSE" THEN Close
  ELSE IF g = "ALLOW" THEN Admit
  ELSE IF ~i.hasp THEN Admit
  ELSE IF FirstMatch(i.p) = "CLOSE" THEN Close ELSE Admit

(* ================================== mod_auth_request ================================== *)
\* the auth service's answer -> verdict (no English document exists; the code comments say:
\* 2xx allowed, 401/403 refused with that status, anything else "considered an error").
AuthAnswers == {"200", "204", "401", "401-nochal", "403", "302", "404", "500", "down"}
AuthCovers == {"rule", "disabled", "nocond", "noprod"}
AuthReqInputs == [scheme : {"authreq"}, cover : AuthCovers, ans : AuthAnswers]
AuthReqAllowed(i) ==
  IF i.cover # "rule" THEN {Admit}
  ELSE IF i.ans \in {"200", "204"} THEN {Admit}
  ELSE IF i.ans = "401" THEN {Deny(401, "Copied", "")}
  ELSE IF i.ans = "401-nochal" THEN {Deny(401, "", "")}
  ELSE IF i.ans = "403" THEN {Deny(403, "", "")}
  ELSE {Admit, Deny(0, "", "")}          \* gray: fail-open or fail-closed are both defensible
AuthReqM(i) ==
  IF i.cover # "rule" THEN Admit
  ELSE IF i.ans = "401" THEN Deny(401, "Copied", "")
  ELSE IF i.ans = "401-nochal" THEN Deny(401, "", "")
  ELSE IF i.ans = "403" THEN Deny(403, "", "")
  ELSE Admit                              \* 2xx, and every other answer / transport error: pass

(* ====================================================================================== *)
Inputs == (IF "basic" \in Schemes THEN BasicInputs ELSE {}) \cup
          (IF "jwt" \in Schemes THEN JwtInputs ELSE {}) \cup
          (IF "slink" \in Schemes THEN SlinkInputs ELSE {}) \cup
          (IF "blockip" \in Schemes THEN BlockIpInputs ELSE {}) \cup
          (IF "blockrule" \in Schemes THEN BlockRuleInputs ELSE {}) \cup
          (IF "authreq" \in Schemes THEN AuthReqInputs ELSE {})

Allowed(i) == CASE i.scheme = "basic" -> BasicAllowed(i)
                [] i.scheme = "jwt" -> JwtAllowed(i)
                [] i.scheme = "slink" -> SlinkAllowed(i)
                [] i.scheme = "blockip" -> BlockIpAllowed(i)
                [] i.scheme = "blockrule" -> BlockRuleAllowed(i)
                [] i.scheme = "authreq" -> AuthReqAllowed(i)
M(i) == CASE i.scheme = "basic" -> BasicM(i)
          [] i.scheme = "jwt" -> JwtM(i)
          [] i.scheme = "slink" -> SlinkM(i)
          [] i.scheme = "blockip" -> BlockIpM(i)
          [] i.scheme = "blockrule" -> BlockRuleM(i)
          [] i.scheme = "authreq" -> AuthReqM(i)

\* a gray denial (code 0) matches any denial
Fits(o, a) == \/ o = a
              \/ o.v = "deny" /\ a.v = "deny" /\ a.code = 0

None == [v |-> "none"]
Init == in \in Inputs /\ out = None
Check == out = None /\ out' = M(in) /\ UNCHANGED in
Next == Check
Spec == Init /\ [][Next]_vars

Permitted == out # None => \E a \in Allowed(in) : Fits(out, a)
NonEmptyP == Allowed(in) # {}
\* sanity of Layer P itself: alg=none, algorithm confusion and foreign keys are never admitted
NoForgery == in.scheme = "jwt" /\ in.cover = "rule" /\ Admit \in Allowed(in)
               => in.tok.alg # "none" /\ in.tok.signer \in {"k1", "k2", "r1", "e1"} /\ in.tok.tamper = "none"
=============================================================================
