------------------------------ MODULE Compress ------------------------------
(* C54  Compressed responses decompress to the original body (bfe_modules/mod_compress).   *)
(*                                                                                         *)
(* Decision procedure: (Accept-Encoding shape, matching rule, response shape) ->           *)
(* compress-or-not + header adjustments.  The body clause ("decompresses to exactly the    *)
(* backend body") has a real oracle in the harness (gunzip / brotli decode); the spec      *)
(* carries the body size class, write chunking and flush size as inputs so that TLC        *)
(* enumerates them together with the decision.                                             *)
EXTENDS Integers, Sequences, FiniteSets, TLC

CONSTANTS MaxItems,   \* Accept-Encoding: number of list members (0 = header with empty value)
          Codings,    \* subset of {"gzip","br","identity","*","deflate","x-gzip","GZIP"}
          Qs,         \* subset of {"", "0", "0.0", "0.5", "1"}     ("" = no weight)
          Forms,      \* subset of {"t","s","a"}: "gzip;q=0" / "gzip ;q=0" / "gzip; q=0"
          WithAbsent, \* BOOLEAN: also the request without Accept-Encoding
          Rules,      \* subset of {"noprod","nocond","gzip","brotli"}
          CEs,        \* response Content-Encoding: subset of {"", "identity", "gzip", "br", "deflate"}
          CLs,        \* subset of BOOLEAN: Content-Length present
          Kinds,      \* subset of {"GET200","HEAD200","204","304"}
          Bodies,     \* body size classes
          Flushes,    \* FlushSize of the rule
          Qualities   \* "lo" / "hi"

VARIABLES in, out
vars == <<in, out>>

Item == [c : Codings, q : Qs, f : Forms]
Norm(it) == it.q # "" \/ it.f = "t"                       \* the form only matters with a weight
Lists == UNION { [1..n -> {it \in Item : Norm(it)}] : n \in 0..MaxItems }
Lower(c) == IF c = "GZIP" THEN "gzip" ELSE c             \* content-codings are case-insensitive
NoDup(l) == \A a, b \in 1..Len(l) : a # b => Lower(l[a].c) # Lower(l[b].c)
AEsets == { [present |-> TRUE, list |-> l] : l \in {x \in Lists : NoDup(x)} } \cup
          (IF WithAbsent THEN { [present |-> FALSE, list |-> <<>>] } ELSE {})

Inputs == [ae : AEsets, rule : Rules, ce : CEs, cl : CLs, kind : Kinds, body : Bodies,
           flush : Flushes, quality : Qualities]

Positive(q) == q \in {"", "0.5", "1"}
EncOf(rule) == IF rule = "gzip" THEN "gzip" ELSE IF rule = "brotli" THEN "br" ELSE ""

(* ============================ Layer P: the property ================================== *)
(* RFC 7231 5.3.4: a coding is acceptable when listed with a non-zero weight, or covered by *)
(* "*" with a non-zero weight when not listed; without the header everything is acceptable. *)
Accepts(ae, enc) ==
  IF ~ae.present THEN TRUE
  ELSE IF \E n \in 1..Len(ae.list) : Lower(ae.list[n].c) = enc
       THEN \E n \in 1..Len(ae.list) : Lower(ae.list[n].c) = enc /\ Positive(ae.list[n].q)
       ELSE \E n \in 1..Len(ae.list) : ae.list[n].c = "*" /\ Positive(ae.list[n].q)

Plain == [enc |-> ""]            \* untouched: headers as the backend sent them, same bytes
Coded(e) == [enc |-> e]          \* Content-Encoding = e, no Content-Length, decode(body) = backend body

\* compressing is always optional; it is permitted only with the rule's coding, when the
\* request accepts it and the body is not already encoded
Allowed(i) == {Plain} \cup
              (IF EncOf(i.rule) # "" /\ Accepts(i.ae, EncOf(i.rule)) /\ i.ce \in {"", "identity"}
               THEN {Coded(EncOf(i.rule))} ELSE {})

(* ============================ Layer M: the mechanism ================================= *)
(* compressHandler: the coding is looked up in Accept-Encoding member by member            *)
(* (case-insensitive, parameters split at ';', weight q=0 refuses) - "*" is not honoured -  *)
(* then Content-Encoding empty/identity, first matching rule, filter + header edits.        *)
MListed(ae, enc) == ae.present /\ \E n \in 1..Len(ae.list) :
                       Lower(ae.list[n].c) = enc /\ Positive(ae.list[n].q)
MDecide(i) ==
  IF ~(MListed(i.ae, "gzip") \/ MListed(i.ae, "br")) THEN Plain
  ELSE IF i.ce \notin {"", "identity"} THEN Plain
  ELSE IF EncOf(i.rule) = "" THEN Plain
  ELSE IF ~MListed(i.ae, EncOf(i.rule)) THEN Plain
  ELSE Coded(EncOf(i.rule))

None == [enc |-> "?"]
Init == in \in Inputs /\ out = None
Filter == out = None /\ out' = MDecide(in) /\ UNCHANGED in
Next == Filter
Spec == Init /\ [][Next]_vars

Permitted == out # None => out \in Allowed(in)
\* Layer P sanity: a refused coding (q=0) is never permitted
NeverRefused == \A a \in Allowed(in) : a.enc # "" =>
                  ~(\E n \in 1..Len(in.ae.list) : Lower(in.ae.list[n].c) = a.enc /\ ~Positive(in.ae.list[n].q))
=============================================================================
