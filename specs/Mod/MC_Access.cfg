CONSTANTS
  Schemes = @SCHEMES@
  JwtKeySets = @KEYSETS@
  JwtExps = @EXPS@
  JwtNbfs = @NBFS@
  JwtIats = @IATS@
  JwtHdrs = @HDRS@
  MaxRules = @MAXRULES@
INIT Init
NEXT Next
INVARIANTS Permitted NonEmptyP NoForgery
CHECK_DEADLOCK FALSE
