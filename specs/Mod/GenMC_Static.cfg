CONSTANTS
  MaxSeg = @MAXSEG@
  Alphabet = @ALPHA@
  Methods = @METHODS@
  Defaults = @DEFAULTS@
  Compress = @COMPRESS@
  AEs = @AES@
INIT Init
NEXT Next
INVARIANTS InRoot Permitted SaneP NonEmptyP Emit
CHECK_DEADLOCK FALSE
