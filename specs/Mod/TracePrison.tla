---------------------------- MODULE TracePrison ----------------------------
(* Trace validation of real executions of mod_prison against Layer P (PrisonP.tla).  *)
(* trace.ndjson holds many recorded cases back to back:                               *)
(*   {"ev":"load","cid":c,"th":T,"p":P,"j":J}     periods in microseconds             *)
(*   {"ev":"arr","cid":c,"k":key,"lo":t0,"hi":t1,"deny":bool,"u":bool}                *)
(* One recorded case per RULE of a product: the verdicts of that rule over the        *)
(* arrivals of the schedule (u = not observable for that rule).                       *)
(* lo / hi are the wall-clock readings (microseconds since the start of the case)     *)
(* taken immediately before and after the call of the module's filter; every clock    *)
(* reading of the code lies between them.  An arrival is placed at lo; S (slack)      *)
(* covers hi - lo <= W on both ends of a comparison.  An arrival that took longer     *)
(* than W (descheduled inside the call) tells nothing: its key goes to limbo.         *)
(* Every Layer-P obligation is evaluated at every arrival; verdicts that Layer P      *)
(* forbids are collected in `bad`.  Arrivals within the slack of a decision boundary  *)
(* are matched either way (Allowed = BOOLEAN) and counted in `free`.                  *)
EXTENDS PrisonP, Json, TLC, FiniteSets

CONSTANTS S, W, MaxKeys
Trace == ndJsonDeserialize("trace.ndjson")
Keys == 1..MaxKeys

VARIABLES l, dead, bad, c, pst, mst, msync, free, decided, drift
tvars == <<l, dead, bad, c, pst, mst, msync, free, decided, drift>>

Ev == Trace[l]

TInit == /\ l = 1 /\ dead = FALSE /\ bad = {} /\ free = 0 /\ decided = 0 /\ drift = {}
         /\ c = [th |-> 1, p |-> 1, j |-> 1, s |-> S]
         /\ pst = [k \in Keys |-> PFresh] /\ mst = [k \in Keys |-> MFresh]
         /\ msync = [k \in Keys |-> TRUE]

TLoad == /\ Ev.ev = "load"
         /\ c' = [th |-> Ev.th, p |-> Ev.p, j |-> Ev.j, s |-> S]
         /\ pst' = [k \in Keys |-> PFresh] /\ mst' = [k \in Keys |-> MFresh]
         /\ msync' = [k \in Keys |-> TRUE] /\ dead' = FALSE
         /\ UNCHANGED <<bad, free, decided, drift>>

Skip == /\ Ev.ev = "arr" /\ dead /\ UNCHANGED <<dead, bad, c, pst, mst, msync, free, decided, drift>>

\* which obligation a forbidden verdict breaks (part of the failure signature)
Why(st, t, deny) ==
    LET m == Eff(c, st, t) IN
    IF m = "fresh" THEN (IF deny THEN (IF st.mode = "jailed" THEN "denied-after-expiry" ELSE "fresh-key-denied")
                         ELSE "admitted-over-threshold")
    ELSE IF m = "epoch" THEN (IF deny THEN "denied-below-threshold" ELSE "admitted-over-threshold")
    ELSE "admitted-in-jail"

\* mechanism bookkeeping (diagnostic): compared only while no boundary was closer than S
NearM(m, t) == \/ (m.ws # None /\ t - (m.ws + c.p) <= S /\ (m.ws + c.p) - t <= S)
               \/ (m.jail # None /\ t - m.jail <= S /\ m.jail - t <= S)

\* u: the verdict of this rule for this arrival is not observable (PASS action, ambiguous or
\* pre-empted by an earlier CLOSE / FINISH rule)
TWide == /\ Ev.ev = "arr" /\ ~dead /\ (Ev.hi - Ev.lo > W \/ Ev.u)
         /\ pst' = [pst EXCEPT ![Ev.k] = PUnknown(c, @, Ev.hi)]
         /\ msync' = [msync EXCEPT ![Ev.k] = FALSE]
         /\ free' = free + 1
         /\ UNCHANGED <<dead, bad, c, mst, decided, drift>>

TArr == /\ Ev.ev = "arr" /\ ~dead /\ Ev.hi - Ev.lo <= W /\ ~Ev.u
        /\ LET k == Ev.k
               t == Ev.lo
               al == Allowed(c, pst[k], t) IN
           /\ IF Ev.deny \in al
                THEN /\ UNCHANGED <<bad, dead>>
                     /\ pst' = [pst EXCEPT ![k] = PNext(c, @, t, Ev.deny)]
                ELSE /\ bad' = bad \cup {[cid |-> Ev.cid, l |-> l, why |-> Why(pst[k], t, Ev.deny)]}
                     /\ dead' = TRUE /\ UNCHANGED pst
           /\ IF al = BOOLEAN THEN free' = free + 1 /\ UNCHANGED decided
                              ELSE decided' = decided + 1 /\ UNCHANGED free
           /\ IF msync[k] /\ ~NearM(mst[k], t)
                THEN IF MVerdict(c, mst[k], t) = Ev.deny
                       THEN mst' = [mst EXCEPT ![k] = MNext(c, @, t)] /\ UNCHANGED <<msync, drift>>
                       ELSE /\ drift' = drift \cup {[cid |-> Ev.cid, l |-> l]}
                            /\ msync' = [msync EXCEPT ![k] = FALSE] /\ UNCHANGED mst
                ELSE msync' = [msync EXCEPT ![k] = FALSE] /\ UNCHANGED <<mst, drift>>
        /\ UNCHANGED c

TNext == /\ l <= Len(Trace) /\ l' = l + 1
         /\ (TLoad \/ Skip \/ TWide \/ TArr)
TSpec == TInit /\ [][TNext]_tvars

Report == (l = Len(Trace) + 1) =>
             PrintT(ToJson([done |-> TRUE, consumed |-> l - 1, bad |-> bad, free |-> free,
                            decided |-> decided, drift |-> drift]))
Accepted == TLCGet("stats").diameter - 1 = Len(Trace)
=============================================================================
