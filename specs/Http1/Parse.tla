--------------------------- MODULE Parse ---------------------------
(* HTTP/1 request framing (RFC 7230 3.2, 3.3.3) as a decision over an abstract       *)
(* message: request-line variant x list of header-line variants, followed on the     *)
(* connection by a tail (bytes after the header block) and a second message.         *)
(*                                                                                   *)
(* Layer P (P): class of the message                                                 *)
(*   "reject"  every RFC 7230 parser must refuse it (whitespace before the colon,    *)
(*             non-token field-name byte, differing or invalid Content-Length,       *)
(*             Transfer-Encoding whose final coding is not chunked)                  *)
(*   "accept"  clean message: must be accepted and framed as 3.3.3 says              *)
(*   "ifacc"   a conforming parser may refuse it; if accepted it must be framed as   *)
(*             3.3.3 says (TE + CL, repeated identical CL, bare LF line end, bare CR *)
(*             in a value, obs-fold on an ordinary field, extra codings before a     *)
(*             final chunked)                                                        *)
(*   "gray"    conforming parsers differ on acceptance *and* meaning: no verdict     *)
(*   and the framing [kind, n] with kind in none | cl | chunked.                     *)
(* Layer M (M): ReadRequest -> ReadMIMEHeaderAndKeys -> fixTransferEncoding ->       *)
(*   fixLength of bfe as coded (after the fix: commits; intended behaviour for the   *)
(*   open identity finding).                                                         *)
(* Conform: M's answer is allowed by P.                                              *)
EXTENDS Integers, Sequences, FiniteSets, TLC

CONSTANTS A, B,     \* the two Content-Length values = byte lengths of tails "a" and "b"
          CHLEN     \* byte length of tail "ch": a chunked body whose payload has A bytes

\* ------------------------------------------------------------------ alphabet
\* request lines "<METHOD> <target> HTTP/1.x": the method is varied because for a *request* it never
\* implies "no body" (RFC 7230 3.3.3: only a Transfer-Encoding or Content-Length field announces a
\* request body, whatever the method; the HEAD / CONNECT special cases of 3.3.3 (1),(2) are about responses)
MethodRL == {"head11", "put11", "delete11", "options11", "connect11", "patch11", "trace11", "head10"}
RLs == {"post11", "get11", "post10", "lead", "rllf", "bad"} \cup MethodRL
GrayRL == {"lead", "rllf", "bad"}
Http10(rl) == rl \in {"post10", "head10"}
\* post11 "POST /p HTTP/1.1" | get11 "GET /p HTTP/1.1" | post10 "POST /p HTTP/1.0" | head11 "HEAD /p HTTP/1.1" ...
\* connect11 "CONNECT h:443 HTTP/1.1"
\* lead: empty line before the request line | rllf: request line ended by bare LF | bad: "POST /p" (no version)
\* every message has "Host: h" as its first header line

HVs == {"F",        \* X-A: b
        "WSC",      \* X-A : b                       whitespace before the colon
        "WSCL",     \* Content-Length : A
        "WSTE",     \* Transfer-Encoding : chunked
        "BADN",     \* X(A: b                        non-token byte in the field name
        "CLa", "CLb",   \* Content-Length: A / B
        "CLplus",   \* Content-Length: +A
        "CLbad",    \* Content-Length: Ax | -A | A A | 0x..   not 1*DIGIT
        "CLlist",   \* Content-Length: A, A
        "CLempty",  \* Content-Length:
        "TEc", "TEg", "TEgc", "TEcg", "TEi", "TEci", "TEic", "TEcc", "TEx",
        "OBS",      \* line starting with SP/HTAB: continuation of the previous line
        "EMPTYN",   \* : v                           empty field name
        "NOCOLON",  \* garbage                       no colon at all
        "FLF",      \* X-A: b<LF>                    bare LF line end
        "CLaLF",    \* Content-Length: A<LF>
        "FCR"}      \* X-A: b<CR>Content-Length: B   bare CR inside a value

Tails == {"none", "a", "b", "ch"}
TailLen(t) == CASE t = "none" -> 0 [] t = "a" -> A [] t = "b" -> B [] t = "ch" -> CHLEN

Codings(h) == CASE h = "TEc" -> <<"chunked">> [] h = "TEg" -> <<"gzip">> [] h = "TEgc" -> <<"gzip", "chunked">>
                [] h = "TEcg" -> <<"chunked", "gzip">> [] h = "TEi" -> <<"identity">>
                [] h = "TEci" -> <<"chunked", "identity">> [] h = "TEic" -> <<"identity", "chunked">>
                [] h = "TEcc" -> <<"chunked", "chunked">> [] h = "TEx" -> <<"x">> [] OTHER -> <<>>
IsTE(h) == Codings(h) # <<>>
IsCL(h) == h \in {"CLa", "CLb", "CLplus", "CLbad", "CLlist", "CLempty", "CLaLF"}

RECURSIVE TEs(_)
TEs(hs) == IF hs = <<>> THEN <<>> ELSE Codings(Head(hs)) \o TEs(Tail(hs))

Fr(kind, n) == [kind |-> kind, n |-> n]
NoFr == Fr("-", 0)

\* ------------------------------------------------------------------ Layer P
SyntaxWhy(h) == IF h \in {"WSC", "WSCL", "WSTE"} THEN "ws-before-colon" ELSE IF h = "BADN" THEN "bad-name" ELSE ""
FirstSyntax(hs) == LET I == {i \in 1..Len(hs) : SyntaxWhy(hs[i]) # ""} IN
                   IF I = {} THEN "" ELSE SyntaxWhy(hs[CHOOSE i \in I : \A j \in I : i <= j])

\* an obs-fold whose meaning is uncertain: first line, or continuation of anything but an ordinary field
ObsChainOK(hs) == \A i \in 1..Len(hs) : hs[i] = "OBS" =>
                     \E j \in 1..(i - 1) : hs[j] = "F" /\ \A k \in (j + 1)..(i - 1) : hs[k] = "OBS"
GrayLine(h) == h \in {"EMPTYN", "NOCOLON", "CLplus", "CLlist", "CLempty"}
Downgrade(h) == h \in {"FLF", "CLaLF", "FCR", "OBS"}

CLVals(hs) == {IF hs[i] = "CLb" THEN B ELSE A : i \in {j \in 1..Len(hs) : hs[j] \in {"CLa", "CLb", "CLaLF"}}}
CLCount(hs) == Cardinality({j \in 1..Len(hs) : hs[j] \in {"CLa", "CLb", "CLaLF"}})
HasBadCL(hs) == \E i \in 1..Len(hs) : hs[i] = "CLbad"
AnyCL(hs) == \E i \in 1..Len(hs) : IsCL(hs[i])

Verdict(class, why, fr) == [class |-> class, why |-> why, kind |-> fr.kind, n |-> fr.n]

P(rl, hs) ==
  LET syn == FirstSyntax(hs)
      tes == TEs(hs)
      down == \E i \in 1..Len(hs) : Downgrade(hs[i])
      soft(fr, why) == Verdict(IF down THEN "ifacc" ELSE "accept", why, fr)
  IN
  IF syn # "" THEN Verdict("reject", syn, NoFr)
  ELSE IF rl \in GrayRL THEN Verdict("gray", "request-line", NoFr)
  ELSE IF ~ObsChainOK(hs) THEN Verdict("gray", "obs-fold", NoFr)
  ELSE IF \E i \in 1..Len(hs) : GrayLine(hs[i]) THEN Verdict("gray", "lenient-line", NoFr)
  ELSE IF tes # <<>> THEN
         IF Http10(rl) THEN Verdict("gray", "te-on-http10", NoFr)
         ELSE IF \A i \in 1..Len(tes) : tes[i] = "chunked" THEN
                IF Len(tes) > 1 THEN Verdict("gray", "te-chunked-twice", NoFr)
                ELSE IF AnyCL(hs) THEN Verdict("ifacc", "te-and-cl", Fr("chunked", 0))
                ELSE soft(Fr("chunked", 0), "te-chunked")
         ELSE IF \A i \in 1..Len(tes) : tes[i] = "identity" THEN Verdict("gray", "te-identity-alone", NoFr)
         ELSE IF tes[Len(tes)] # "chunked" THEN Verdict("reject", "te-not-chunked-final", NoFr)
         ELSE Verdict("ifacc", "te-extra-codings", Fr("chunked", 0))
  ELSE IF HasBadCL(hs) THEN Verdict("reject", "cl-invalid", NoFr)
  ELSE IF Cardinality(CLVals(hs)) > 1 THEN Verdict("reject", "cl-conflict", NoFr)
  ELSE IF CLCount(hs) > 1 THEN Verdict("ifacc", "cl-repeated", Fr("cl", CHOOSE v \in CLVals(hs) : TRUE))
  ELSE IF CLCount(hs) = 1 THEN soft(Fr("cl", CHOOSE v \in CLVals(hs) : TRUE), "cl")
  ELSE soft(Fr("none", 0), "no-body")

\* what reading the body and then looking for the next request must give, for a framing and a tail
Outcome(kind, n, tail) ==
  CASE kind = "none" -> [blen |-> 0, next |-> 0, berr |-> FALSE, aligned |-> tail = "none"]
    [] kind = "cl" -> [blen |-> n, next |-> n, berr |-> FALSE, aligned |-> TailLen(tail) = n]
    [] kind = "chunked" -> IF tail = "ch" THEN [blen |-> A, next |-> CHLEN, berr |-> FALSE, aligned |-> TRUE]
                           ELSE [blen |-> 0, next |-> 0, berr |-> TRUE, aligned |-> FALSE]
    [] OTHER -> [blen |-> 0, next |-> 0, berr |-> FALSE, aligned |-> FALSE]

\* ------------------------------------------------------------------ Layer M (bfe as coded)
\* logical lines: an OBS line is folded into the line before it (dirty = value got " x" appended)
Dirty(hs, i) == i < Len(hs) /\ hs[i + 1] = "OBS"
Logical(hs) == {i \in 1..Len(hs) : hs[i] # "OBS"}

MRej == [v |-> "reject", kind |-> "-", n |-> 0]
MAcc(kind, n) == [v |-> "accept", kind |-> kind, n |-> n]

\* textual Content-Length values as fixLength sees them (trimmed): <<text, number or -1 if unparsable>>
CLText(hs, i) ==
  IF Dirty(hs, i) THEN <<"dirty", -1>>
  ELSE CASE hs[i] \in {"CLa", "CLaLF"} -> <<"A", A>>
         [] hs[i] = "CLb" -> <<"B", B>>
         [] hs[i] = "CLplus" -> <<"+A", A>>        \* strconv.ParseInt takes a sign
         [] hs[i] = "CLbad" -> <<"bad", -1>>
         [] hs[i] = "CLlist" -> <<"A, A", -1>>
         [] hs[i] = "CLempty" -> <<"", -2>>        \* empty: as if absent

M(rl, hs) ==
  LET L == Logical(hs)
      tel == {i \in L : IsTE(hs[i])}
      tes == TEs(hs)
      cll == {i \in L : IsCL(hs[i])}
      texts == {CLText(hs, i) : i \in cll}
  IN
  IF rl \in {"lead", "bad"} THEN MRej
  ELSE IF \E i \in L : hs[i] = "NOCOLON" THEN MRej
  ELSE IF \E i \in L : SyntaxWhy(hs[i]) # "" THEN MRej                    \* invalid header name
  ELSE IF \E i \in tel : Dirty(hs, i) THEN MRej                           \* "chunked x": unsupported
  ELSE IF tes # <<>> /\ ~(\A i \in 1..Len(tes) : tes[i] = "identity") THEN
         IF \E i \in 1..Len(tes) : tes[i] # "chunked" THEN MRej           \* unsupported / identity in a list
         ELSE IF Len(tes) > 1 THEN MRej                                   \* too many transfer encodings
         ELSE MAcc("chunked", 0)
  ELSE IF Cardinality(texts) > 1 THEN MRej                                \* differing Content-Length
  ELSE IF texts = {} THEN MAcc("none", 0)
  ELSE LET t == CHOOSE x \in texts : TRUE IN
         IF t[2] = -1 THEN MRej ELSE IF t[2] = -2 THEN MAcc("none", 0) ELSE MAcc("cl", t[2])

Allowed(p, m) ==
  CASE p.class = "reject" -> m.v = "reject"
    [] p.class = "accept" -> m.v = "accept" /\ m.kind = p.kind /\ m.n = p.n
    [] p.class = "ifacc" -> m.v = "reject" \/ (m.kind = p.kind /\ m.n = p.n)
    [] OTHER -> TRUE
=====================================================================
