CONSTANTS
  Cap = 100000
  MaxChunks = @K@
  Pairs = @PAIRS@
INIT SInit
NEXT SNext
INVARIANTS Conform Emit
CHECK_DEADLOCK FALSE
