CONSTANTS
  W = @W@
INIT Init
NEXT Next
INVARIANTS Emit
CHECK_DEADLOCK FALSE
