--------------------------- MODULE StructChunked ---------------------------
(* Structured long cases for Chunked.tla: a body = list of chunk variants (size,     *)
(* size-line form, chunk-ext form, line ending, data, data ending) + last-chunk      *)
(* variant + trailer variant.  Each structure is expanded to a run-length item list  *)
(* and folded through the same two automata as the exhaustive enumeration.           *)
EXTENDS Chunked, Json
CONSTANTS MaxChunks,     \* chunks per body
          Pairs          \* TRUE: every pair of variants; FALSE: at most one non-baseline chunk
VARIABLE cs
svars == <<cs>>

RECURSIVE HD(_)
HD(n) == IF n < 16 THEN <<n>> ELSE Append(HD(n \div 16), n % 16)
Digits(n, u) == LET d == HD(n) IN [i \in 1..Len(d) |-> It("H", d[i], IF d[i] < 10 THEN 0 ELSE u, 1)]
Zeros(k) == IF k > 0 THEN <<It("H", 0, 0, k)>> ELSE <<>>

Sizes == {1, 2, 9, 10, 15, 16, 17, 171, 255, 256, 4096, 70000}
SFs == {"plain", "upper", "lz1", "pad16", "pad17", "ovf17", "ovf20", "empty", "sign", "0x", "lws"}
Exts == {"none", "name", "nameval", "two", "bws", "emptyname", "quoted", "long"}
Eols == {"crlf", "lf", "wscrlf", "crcrlf", "cr"}
DKs == {"oth", "lf", "zero"}
DEs == {"crlf", "lf", "none", "cr", "crx", "short", "long"}
Lasts == {"0", "000", "z16", "z17", "0ext", "0lf", "0ws", "missing", "0cr", "ovf0"}

SizeItems(n, sf) ==
  CASE sf = "plain" -> Digits(n, 1)
    [] sf = "upper" -> Digits(n, 2)
    [] sf = "lz1"   -> Zeros(1) \o Digits(n, 1)
    [] sf = "pad16" -> Zeros(16 - Len(HD(n))) \o Digits(n, 1)
    [] sf = "pad17" -> Zeros(17 - Len(HD(n))) \o Digits(n, 2)
    [] sf = "ovf17" -> <<It("H", 1, 0, 1)>> \o Zeros(16 - Len(HD(n))) \o Digits(n, 1)     \* 16^16 + n
    [] sf = "ovf20" -> <<It("H", 15, 1, 1)>> \o Zeros(19 - Len(HD(n))) \o Digits(n, 1)
    [] sf = "empty" -> <<>>
    [] sf = "sign"  -> <<It("TOK", 0, 43, 1)>> \o Digits(n, 1)                              \* "+3"
    [] sf = "0x"    -> <<It("H", 0, 0, 1), It("TOK", 0, 120, 1)>> \o Digits(n, 1)           \* "0x3"
    [] sf = "lws"   -> <<It("WS", 0, 0, 1)>> \o Digits(n, 1)

ExtItems(e) ==
  CASE e = "none" -> <<>>
    [] e = "name" -> <<It("SEMI", 0, 0, 1), It("TOK", 0, 0, 3)>>
    [] e = "nameval" -> <<It("SEMI", 0, 0, 1), It("TOK", 0, 0, 2), It("EQ", 0, 0, 1), It("TOK", 0, 0, 2)>>
    [] e = "two" -> <<It("SEMI", 0, 0, 1), It("TOK", 0, 0, 1), It("EQ", 0, 0, 1), It("H", 7, 0, 1),
                      It("SEMI", 0, 0, 1), It("TOK", 0, 0, 2)>>
    [] e = "bws" -> <<It("WS", 0, 0, 1), It("SEMI", 0, 0, 1), It("TOK", 0, 0, 2)>>
    [] e = "emptyname" -> <<It("SEMI", 0, 0, 1)>>
    [] e = "quoted" -> <<It("SEMI", 0, 0, 1), It("TOK", 0, 0, 1), It("EQ", 0, 0, 1), It("OTH", 0, 34, 1),
                         It("TOK", 0, 0, 2), It("OTH", 0, 34, 1)>>
    [] e = "long" -> <<It("SEMI", 0, 0, 1), It("TOK", 0, 0, 300)>>

EolItems(e) ==
  CASE e = "crlf" -> <<It("CR", 0, 0, 1), It("LF", 0, 0, 1)>>
    [] e = "lf" -> <<It("LF", 0, 0, 1)>>
    [] e = "wscrlf" -> <<It("WS", 0, 0, 1), It("CR", 0, 0, 1), It("LF", 0, 0, 1)>>
    [] e = "crcrlf" -> <<It("CR", 0, 0, 2), It("LF", 0, 0, 1)>>
    [] e = "cr" -> <<It("CR", 0, 0, 1)>>

DataItems(n, dk, de) ==
  LET k == IF de = "short" THEN n - 1 ELSE IF de = "long" THEN n + 1 ELSE n
      run == IF k = 0 THEN <<>>
             ELSE IF dk = "oth" THEN <<It("OTH", 0, 0, k)>>
             ELSE IF dk = "lf" THEN <<It("LF", 0, 0, k)>>
             ELSE <<It("H", 0, 0, k)>>
      end == CASE de \in {"crlf", "short", "long"} -> <<It("CR", 0, 0, 1), It("LF", 0, 0, 1)>>
               [] de = "lf" -> <<It("LF", 0, 0, 1)>>
               [] de = "none" -> <<>>
               [] de = "cr" -> <<It("CR", 0, 0, 1)>>
               [] de = "crx" -> <<It("CR", 0, 0, 1), It("TOK", 0, 0, 1)>>
  IN run \o end

ChunkItems(c) == SizeItems(c.n, c.sf) \o ExtItems(c.ext) \o EolItems(c.eol) \o DataItems(c.n, c.dk, c.de)

CRLF == <<It("CR", 0, 0, 1), It("LF", 0, 0, 1)>>
LastItems(l) ==
  CASE l = "0" -> Zeros(1) \o CRLF
    [] l = "000" -> Zeros(3) \o CRLF
    [] l = "z16" -> Zeros(16) \o CRLF
    [] l = "z17" -> Zeros(17) \o CRLF
    [] l = "0ext" -> Zeros(1) \o ExtItems("name") \o CRLF
    [] l = "0lf" -> Zeros(1) \o <<It("LF", 0, 0, 1)>>
    [] l = "0ws" -> Zeros(1) \o <<It("WS", 0, 0, 1)>> \o CRLF
    [] l = "missing" -> <<>>
    [] l = "0cr" -> Zeros(1) \o <<It("CR", 0, 0, 1)>>
    [] l = "ovf0" -> <<It("H", 1, 0, 1)>> \o Zeros(16) \o CRLF        \* 16^16: wraps to 0

Base == [n |-> 3, sf |-> "plain", ext |-> "none", eol |-> "crlf", dk |-> "oth", de |-> "crlf"]
CVs == {[Base EXCEPT !.n = x] : x \in Sizes} \cup {[Base EXCEPT !.n = x, !.sf = "upper"] : x \in Sizes}
       \cup {[Base EXCEPT !.sf = x] : x \in SFs} \cup {[Base EXCEPT !.sf = x, !.n = 10] : x \in {"lz1", "pad16", "ovf17"}}
       \cup {[Base EXCEPT !.ext = x] : x \in Exts} \cup {[Base EXCEPT !.eol = x] : x \in Eols}
       \cup {[Base EXCEPT !.ext = "name", !.eol = x] : x \in {"lf", "wscrlf"}}
       \cup {[Base EXCEPT !.dk = x] : x \in DKs} \cup {[Base EXCEPT !.de = x] : x \in DEs}
       \cup {[Base EXCEPT !.de = x, !.dk = "lf"] : x \in {"short", "long", "lf"}}

ChunkSeqs == UNION {[1..k -> CVs] : k \in 0..MaxChunks}
OkSeq(q) == Pairs \/ Len(q) <= 1 \/ \E i \in 1..Len(q) : \A j \in 1..Len(q) : j = i \/ q[j] = Base

Cases == {[chunks |-> q, last |-> l, tr |-> "none"] : q \in {x \in ChunkSeqs : OkSeq(x)}, l \in Lasts}
         \cup {[chunks |-> q, last |-> "0", tr |-> t] :
                 q \in {x \in ChunkSeqs : Len(x) <= 1}, t \in TrailerVariants}

RECURSIVE Cat(_)
Cat(q) == IF q = <<>> THEN <<>> ELSE ChunkItems(Head(q)) \o Cat(Tail(q))
Items(c) == Cat(c.chunks) \o LastItems(c.last)

SInit == cs \in Cases
SNext == FALSE /\ UNCHANGED cs      \* one state per structure: everything is evaluated on the initial states

Conform == Allowed(PV(PFold(PInit, Items(cs))), MV(MFold(MInit, Items(cs))))
Emit == PrintT(ToJson([items |-> Items(cs), p |-> PV(PFold(PInit, Items(cs))),
                       m |-> MV(MFold(MInit, Items(cs))), tr |-> cs.tr, trv |-> TrailerV(cs.tr),
                       shape |-> cs]))
=========================================================================
