CONSTANTS
  A = 30
  B = 35
  CHLEN = 41
  MaxLines = @LINES@
  GrayRLLines = @GLINES@
  MethodHVs = @MHVS@
  TailSet = {"none"}
  M2Set = {1}
INIT GInit
NEXT GNext
INVARIANTS Conform
CHECK_DEADLOCK FALSE
