--------------------------- MODULE EnumChunked ---------------------------
(* Exhaustive enumeration of class strings for Chunked.tla: every string of length   *)
(* <= N that is a live prefix completable within N, extended by any one symbol, and, *)
(* once the grammar is left, by up to T more symbols of DeadAlpha.  Both automata    *)
(* are stepped side by side; Conform is checked in every state (MC run) and every    *)
(* state is printed as one case (Gen run).  Filler (bytes that stay inside the        *)
(* whitespace / chunk-ext phases) is bounded by F per string, size digits by ND per line. *)
EXTENDS Chunked, Json
CONSTANTS N, T, F, ND
VARIABLES s, n, p, m, age, fill
evars == <<s, n, p, m, age, fill>>

\* one character per class: 0 1 2 a A hex digits (values 0 1 2 10 10), ; _ (SP/HTAB) r (CR) n (LF)
\* x (other token byte) y (other non-token byte)
Alpha == { [ch |-> "0", c |-> "H", v |-> 0], [ch |-> "1", c |-> "H", v |-> 1], [ch |-> "2", c |-> "H", v |-> 2],
           [ch |-> "a", c |-> "H", v |-> 10], [ch |-> "A", c |-> "H", v |-> 10],
           [ch |-> ";", c |-> "SEMI", v |-> 0], [ch |-> "_", c |-> "WS", v |-> 0],
           [ch |-> "r", c |-> "CR", v |-> 0], [ch |-> "n", c |-> "LF", v |-> 0],
           [ch |-> "x", c |-> "TOK", v |-> 0], [ch |-> "y", c |-> "OTH", v |-> 0] }
DeadAlpha == {a \in Alpha : a.ch \in {"1", "r", "n"}}

FillPh == {"SZW", "EXT0", "EXT1", "EXT2", "EXTV", "XCR", "SZCR"}
EInit == s = "" /\ n = 0 /\ p = PInit /\ m = MInit /\ age = 0 /\ fill = 0

Ext(a) == /\ s' = s \o a.ch /\ n' = n + 1
          /\ p' = PStep1(p, a.c, a.v) /\ m' = MStep1(m, a.c, a.v)
          /\ age' = IF p.ph = "DEAD" THEN age + 1 ELSE 0
          /\ fill' = IF p.ph \in FillPh /\ p'.ph \in FillPh THEN fill + 1 ELSE fill
          /\ fill' <= F /\ p'.nd <= ND

ENext == /\ n < N
         /\ \/ PLive(p) /\ n + PMinRest(p) <= N /\ \E a \in Alpha : Ext(a)
            \/ p.ph = "DEAD" /\ age < T /\ \E a \in DeadAlpha : Ext(a)

Conform == Allowed(PV(p), MV(m))
Emit == PrintT(ToJson([s |-> s, p |-> PV(p), m |-> MV(m)]))
=========================================================================
