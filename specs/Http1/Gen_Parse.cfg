CONSTANTS
  A = 30
  B = 35
  CHLEN = 41
  MaxLines = @LINES@
  GrayRLLines = @GLINES@
  MethodHVs = @MHVS@
  TailSet = @TAILS@
  M2Set = @M2S@
INIT GInit
NEXT GNext
INVARIANTS Conform Emit
CHECK_DEADLOCK FALSE
