--------------------------- MODULE GenEnc ---------------------------
(* Write patterns for the chunked encoder: every sequence of at most W writes with   *)
(* sizes from WS (0 = empty write, which must not produce a chunk: a zero-size chunk  *)
(* would end the body).                                                              *)
EXTENDS Integers, Sequences, TLC, Json
CONSTANT W
VARIABLE ws
WSizes == {0, 1, 2, 15, 16, 17, 255, 4096}
Init == ws \in UNION {[1..k -> WSizes] : k \in 0..W}
Next == FALSE /\ UNCHANGED ws
Emit == PrintT(ToJson([writes |-> ws]))
=====================================================================
