--------------------------- MODULE GenParse ---------------------------
(* Enumeration of pipelined message pairs for Parse.tla.  A behaviour grows the      *)
(* header list of the first message one line variant at a time (exhaustive in MC     *)
(* mode up to MaxLines, random in -simulate mode); every state is one case: first    *)
(* message, tail, second message, with Layer P's class / framing / expected body     *)
(* length / next-request offset, and Layer M's answer.  Conform is checked in every  *)
(* state.                                                                            *)
EXTENDS Parse, Json
CONSTANTS MaxLines,      \* header lines of the first message (besides Host)
          GrayRLLines,   \* ... when the request line itself is a gray variant
          MethodHVs,     \* header-line variants used after a MethodRL request line
          TailSet, M2Set
VARIABLES rl, hs, tail, m2
gvars == <<rl, hs, tail, m2>>

\* second messages (their tail is the body their own framing asks for)
Msg2(k) == CASE k = 1 -> [rl |-> "get11", hs |-> <<>>]
             [] k = 2 -> [rl |-> "post11", hs |-> <<"F", "CLa">>]
             [] k = 3 -> [rl |-> "post11", hs |-> <<"WSCL">>]
             [] k = 4 -> [rl |-> "post11", hs |-> <<"TEc">>]
             [] k = 5 -> [rl |-> "post11", hs |-> <<"CLa", "CLb">>]
             [] k = 6 -> [rl |-> "head11", hs |-> <<"CLa">>]
             [] k = 7 -> [rl |-> "delete11", hs |-> <<"TEc">>]
Tail2(p) == IF p.kind = "cl" THEN (IF p.n = A THEN "a" ELSE "b") ELSE IF p.kind = "chunked" THEN "ch" ELSE "none"

GInit == rl \in RLs /\ hs = <<>> /\ tail \in TailSet /\ m2 \in M2Set
GNext == /\ Len(hs) < (IF rl \in GrayRL THEN GrayRLLines ELSE MaxLines)
         /\ \E h \in (IF rl \in MethodRL THEN MethodHVs ELSE HVs) : hs' = Append(hs, h)
         /\ UNCHANGED <<rl, tail, m2>>

Conform == Allowed(P(rl, hs), M(rl, hs)) /\ Allowed(P(Msg2(m2).rl, Msg2(m2).hs), M(Msg2(m2).rl, Msg2(m2).hs))

Case == LET p == P(rl, hs)
            q == P(Msg2(m2).rl, Msg2(m2).hs)
        IN [rl |-> rl, hs |-> hs, tail |-> tail,
            p |-> p, o |-> Outcome(p.kind, p.n, tail), m |-> M(rl, hs),
            rl2 |-> Msg2(m2).rl, hs2 |-> Msg2(m2).hs, tail2 |-> Tail2(q),
            p2 |-> q, o2 |-> Outcome(q.kind, q.n, Tail2(q)), m2 |-> M(Msg2(m2).rl, Msg2(m2).hs)]
Emit == PrintT(ToJson(Case))
=====================================================================
