CONSTANTS
  Cap = 100000
INIT TInit
NEXT TNext
INVARIANTS Emit
CHECK_DEADLOCK FALSE
