--------------------------- MODULE Chunked ---------------------------
(* RFC 7230 section 4.1 chunked transfer coding as a decision automaton over an      *)
(* abstract byte-class alphabet.                                                     *)
(*                                                                                   *)
(* Layer P (PInit/PStep/PV): the grammar.  Verdict of a byte string = accept with    *)
(*   the decoded payload (list of <<start,len>> byte ranges of the input) and the    *)
(*   position after the last-chunk line (where a chunked-body reader stops; the      *)
(*   trailer section is TrailerV below), or reject (the string left the grammar:     *)
(*   `why`), or incomplete (input ended inside the grammar), each possibly marked    *)
(*   *gray*: the string uses a leniency on which conforming decoders differ          *)
(*   (whitespace / extra CR after the chunk size, bare LF ending the size line,      *)
(*   >16 digits that are all leading zeros, malformed chunk-ext content).  Gray =    *)
(*   a decoder may reject at that point, or go on as the automaton does.             *)
(* Layer M (MInit/MStep/MV): bfe_http/chunked.go as coded (line buffered: ReadSlice  *)
(*   to LF, trim trailing SP/HTAB/CR/LF, drop chunk-ext, parseHexUint with empty /   *)
(*   >16 digit checks, strict CRLF after chunk data).                                *)
(* Conform: whatever M answers is allowed by P (checked by TLC on every enumerated   *)
(*   string).  The same relation is applied by the harness to what the real          *)
(*   chunkedReader answered.                                                         *)
EXTENDS Integers, Sequences, TLC

CONSTANT Cap          \* chunk sizes above Cap are tracked as "big" (never completable)

Big == Cap + 1
Sat(x) == IF x > Cap THEN Big ELSE x
Min(a, b) == IF a < b THEN a ELSE b

\* ------------------------------------------------------------------ alphabet
\* item = [c, v, u, k]: class, hex value (class H), rendering hint, run length
Classes == {"H", "SEMI", "EQ", "WS", "CR", "LF", "TOK", "OTH"}
It(c, v, u, k) == [c |-> c, v |-> v, u |-> u, k |-> k]

\* ------------------------------------------------------------------ Layer P
PInit == [ph |-> "SZ", nd |-> 0, sig |-> 0, val |-> 0, rem |-> 0, gray |-> "", ext |-> FALSE,
          why |-> "", pos |-> 0, segs |-> <<>>, cons |-> 0]

PKill(p, why) == [p EXCEPT !.ph = "DEAD", !.why = why]
PGray(p, g) == IF p.gray = "" THEN [p EXCEPT !.gray = g] ELSE p
PAdv(p) == [p EXCEPT !.pos = p.pos + 1]

\* the size line is complete (its LF has been consumed)
PLineDone(p) ==
  LET q == IF p.nd > 16 THEN PGray(p, "size-gt16-digits") ELSE p IN
    IF q.val = 0 THEN [q EXCEPT !.ph = "DONE", !.cons = q.pos]
    ELSE [q EXCEPT !.ph = "DATA", !.rem = q.val, !.nd = 0, !.sig = 0, !.val = 0]

PDigit(p, v) ==
  LET sg == IF p.sig = 0 /\ v = 0 THEN 0 ELSE Min(p.sig + 1, 18)
      q  == [p EXCEPT !.nd = Min(p.nd + 1, 18), !.sig = sg, !.val = Sat(p.val * 16 + v)]
  IN IF sg > 16 THEN PKill(q, "size-overflow") ELSE q

\* one byte of class c (hex value v) in a live phase; pos already advanced
PSym(p, c, v) ==
  CASE p.ph = "SZ" ->
         IF c = "H" THEN PDigit(p, v)
         ELSE IF p.nd = 0 THEN PKill(p, IF c \in {"CR", "LF"} THEN "empty-size" ELSE "bad-size-byte")
         ELSE IF c = "WS" THEN [PGray(p, "ws-after-size") EXCEPT !.ph = "SZW"]
         ELSE IF c = "SEMI" THEN [p EXCEPT !.ph = "EXT0", !.ext = TRUE]
         ELSE IF c = "CR" THEN [p EXCEPT !.ph = "SZCR"]
         ELSE IF c = "LF" THEN PLineDone(PGray(p, "bare-lf"))
         ELSE PKill(p, "bad-size-byte")
    [] p.ph = "SZW" ->
         IF c = "WS" THEN p
         ELSE IF c = "SEMI" THEN [p EXCEPT !.ph = "EXT0", !.ext = TRUE]
         ELSE IF c = "CR" THEN [p EXCEPT !.ph = "SZCR"]
         ELSE IF c = "LF" THEN PLineDone(PGray(p, "bare-lf"))
         ELSE PKill(p, "bad-size-byte")
    [] p.ph = "SZCR" ->
         IF c = "LF" THEN PLineDone(p)
         ELSE IF c = "CR" THEN PGray(p, "ws-after-size")
         ELSE IF c = "WS" THEN [PGray(p, "ws-after-size") EXCEPT !.ph = "SZW"]
         ELSE PKill(p, "bare-cr")
    [] p.ph = "EXT0" ->      \* after ";" (or "="): a name (value) must follow
         IF c \in {"H", "TOK"} THEN [p EXCEPT !.ph = "EXT1"]
         ELSE IF c = "WS" THEN PGray(p, "ext-bws")
         ELSE IF c = "CR" THEN [PGray(p, "ext-empty") EXCEPT !.ph = "XCR"]
         ELSE IF c = "LF" THEN PLineDone(PGray(p, "bare-lf"))
         ELSE IF c = "SEMI" THEN PGray(p, "ext-empty")
         ELSE [PGray(p, "ext-nontoken") EXCEPT !.ph = "EXT1"]
    [] p.ph \in {"EXT1", "EXT2"} ->   \* EXT1 inside a name, EXT2 inside a value
         IF c \in {"H", "TOK"} THEN p
         ELSE IF c = "SEMI" THEN [p EXCEPT !.ph = "EXT0"]
         ELSE IF c = "EQ" /\ p.ph = "EXT1" THEN [p EXCEPT !.ph = "EXTV"]
         ELSE IF c = "WS" THEN PGray(p, "ext-bws")
         ELSE IF c = "CR" THEN [p EXCEPT !.ph = "XCR"]
         ELSE IF c = "LF" THEN PLineDone(PGray(p, "bare-lf"))
         ELSE PGray(p, "ext-nontoken")
    [] p.ph = "EXTV" ->      \* after name "=": a token value must follow
         IF c \in {"H", "TOK"} THEN [p EXCEPT !.ph = "EXT2"]
         ELSE IF c = "CR" THEN [PGray(p, "ext-empty") EXCEPT !.ph = "XCR"]
         ELSE IF c = "LF" THEN PLineDone(PGray(p, "bare-lf"))
         ELSE IF c = "SEMI" THEN [PGray(p, "ext-empty") EXCEPT !.ph = "EXT0"]
         ELSE [PGray(p, "ext-nontoken") EXCEPT !.ph = "EXT2"]
    [] p.ph = "XCR" ->       \* CR inside a chunk-ext
         IF c = "LF" THEN PLineDone(p)
         ELSE IF c = "CR" THEN PGray(p, "ext-bare-cr")
         ELSE [PGray(p, "ext-bare-cr") EXCEPT !.ph = "EXT2"]
    [] p.ph = "DATA" ->
         LET q == [p EXCEPT !.rem = p.rem - 1,
                            !.segs = IF p.segs # <<>> /\ p.segs[Len(p.segs)][1] + p.segs[Len(p.segs)][2] = p.pos - 1
                                       THEN [p.segs EXCEPT ![Len(p.segs)] = <<@[1], @[2] + 1>>]
                                       ELSE Append(p.segs, <<p.pos - 1, 1>>)]
         IN IF q.rem = 0 THEN [q EXCEPT !.ph = "DCR"] ELSE q
    [] p.ph = "DCR" -> IF c = "CR" THEN [p EXCEPT !.ph = "DLF"] ELSE PKill(p, "no-crlf-after-data")
    [] p.ph = "DLF" -> IF c = "LF" THEN [p EXCEPT !.ph = "SZ"] ELSE PKill(p, "no-crlf-after-data")
    [] OTHER -> p

PLive(p) == p.ph \notin {"DONE", "DEAD"}
PStep1(p, c, v) == IF PLive(p) THEN PSym(PAdv(p), c, v) ELSE p

\* a run of k bytes of one class (chunk data is consumed run-wise)
RECURSIVE PRun(_, _, _, _)
PRun(p, c, v, k) ==
  IF k = 0 \/ ~PLive(p) THEN p
  ELSE IF p.ph = "DATA" /\ p.rem > 1 /\ k > 1 THEN
         LET t == Min(k, p.rem) - 1      \* leave the last byte to PSym (phase change)
             last == IF p.segs = <<>> THEN <<0, 0>> ELSE p.segs[Len(p.segs)]
             q == [p EXCEPT !.rem = p.rem - t, !.pos = p.pos + t,
                            !.segs = IF p.segs # <<>> /\ last[1] + last[2] = p.pos
                                       THEN [p.segs EXCEPT ![Len(p.segs)] = <<@[1], @[2] + t>>]
                                       ELSE Append(p.segs, <<p.pos, t>>)]
         IN PRun(q, c, v, k - t)
  ELSE IF p.ph \in {"EXT1", "EXT2"} /\ c \in {"H", "TOK"} THEN    \* long chunk-ext name / value: only pos moves
         PRun([p EXCEPT !.pos = p.pos + k], c, v, 0)
  ELSE PRun(PStep1(p, c, v), c, v, k - 1)

RECURSIVE PFold(_, _)
\* (TLC passes operator arguments lazily: the test on q.pos forces every step before the next one,
\*  otherwise the whole item list becomes one chain of thunks evaluated at the very end)
PFold(p, items) == IF items = <<>> THEN p
                   ELSE LET q == PRun(p, Head(items).c, Head(items).v, Head(items).k)
                        IN IF q.pos >= 0 THEN PFold(q, Tail(items)) ELSE q

\* verdict of the input seen so far, taken as the whole input
PV(p) == [v    |-> IF p.ph = "DONE" THEN "accept" ELSE IF p.ph = "DEAD" THEN "reject" ELSE "incomplete",
          gray |-> p.gray, why |-> p.why, ext |-> p.ext, segs |-> p.segs, cons |-> p.cons,
          indata |-> p.ph \in {"DATA", "DCR"}]

\* fewest further bytes that complete the body (pruning of the enumeration)
PMinRest(p) ==
  LET afterLine == IF p.val = 0 THEN 0 ELSE IF p.val = Big THEN 1000000 ELSE p.val + 5 IN
  CASE p.ph = "SZ" /\ p.nd = 0 -> 3
    [] p.ph \in {"SZ", "SZW", "EXT1", "EXT2"} -> 2 + afterLine
    [] p.ph \in {"EXT0", "EXTV"} -> 2 + afterLine
    [] p.ph \in {"SZCR", "XCR"} -> 1 + afterLine
    [] p.ph = "DATA" -> p.rem + 5
    [] p.ph = "DCR" -> 5
    [] p.ph = "DLF" -> 4
    [] OTHER -> 0

\* ------------------------------------------------------------------ Layer M (bfe_http/chunked.go)
\* line state: core = bytes before trailing whitespace; tw = trailing SP/HTAB/CR seen after the
\* core; bad = a byte parseHexUint refuses (or whitespace that turned out interior)
MInit == [ph |-> "LINE", nd |-> 0, val |-> 0, bad |-> FALSE, tw |-> FALSE, semi |-> FALSE,
          rem |-> 0, pos |-> 0, segs |-> <<>>, cons |-> 0]

MLineEnd(m) ==
  IF m.bad \/ m.nd = 0 \/ m.nd > 16 THEN [m EXCEPT !.ph = "ERR"]
  ELSE IF m.val = 0 THEN [m EXCEPT !.ph = "DONE", !.cons = m.pos]
  ELSE [m EXCEPT !.ph = "DATA", !.rem = m.val, !.nd = 0, !.val = 0, !.bad = FALSE, !.tw = FALSE, !.semi = FALSE]

MSym(m, c, v) ==
  CASE m.ph = "LINE" ->
         IF c = "LF" THEN MLineEnd(m)
         ELSE IF m.semi THEN m                                  \* chunk-ext: ignored up to LF
         ELSE IF c \in {"WS", "CR"} THEN [m EXCEPT !.tw = TRUE]
         ELSE IF c = "SEMI" THEN [m EXCEPT !.semi = TRUE, !.bad = m.bad \/ m.tw]
         ELSE IF c = "H" THEN [m EXCEPT !.nd = Min(m.nd + 1, 18), !.val = Sat(m.val * 16 + v),
                                         !.bad = m.bad \/ m.tw]
         ELSE [m EXCEPT !.bad = TRUE]
    [] m.ph = "DATA" ->
         LET q == [m EXCEPT !.rem = m.rem - 1,
                            !.segs = IF m.segs # <<>> /\ m.segs[Len(m.segs)][1] + m.segs[Len(m.segs)][2] = m.pos - 1
                                       THEN [m.segs EXCEPT ![Len(m.segs)] = <<@[1], @[2] + 1>>]
                                       ELSE Append(m.segs, <<m.pos - 1, 1>>)]
         IN IF q.rem = 0 THEN [q EXCEPT !.ph = "CR1"] ELSE q
    [] m.ph = "CR1" -> IF c = "CR" THEN [m EXCEPT !.ph = "CR2"] ELSE [m EXCEPT !.ph = "ERR"]
    [] m.ph = "CR2" -> IF c = "LF" THEN [m EXCEPT !.ph = "LINE"] ELSE [m EXCEPT !.ph = "ERR"]
    [] OTHER -> m

MLive(m) == m.ph \notin {"DONE", "ERR"}
MStep1(m, c, v) == IF MLive(m) THEN MSym([m EXCEPT !.pos = m.pos + 1], c, v) ELSE m

RECURSIVE MRun(_, _, _, _)
MRun(m, c, v, k) ==
  IF k = 0 \/ ~MLive(m) THEN m
  ELSE IF m.ph = "DATA" /\ m.rem > 1 /\ k > 1 THEN
         LET t == Min(k, m.rem) - 1
             last == IF m.segs = <<>> THEN <<0, 0>> ELSE m.segs[Len(m.segs)]
             q == [m EXCEPT !.rem = m.rem - t, !.pos = m.pos + t,
                            !.segs = IF m.segs # <<>> /\ last[1] + last[2] = m.pos
                                       THEN [m.segs EXCEPT ![Len(m.segs)] = <<@[1], @[2] + t>>]
                                       ELSE Append(m.segs, <<m.pos, t>>)]
         IN MRun(q, c, v, k - t)
  ELSE IF m.ph = "LINE" /\ m.semi /\ c # "LF" THEN                   \* inside a chunk-ext: ignored up to LF
         MRun([m EXCEPT !.pos = m.pos + k], c, v, 0)
  ELSE MRun(MStep1(m, c, v), c, v, k - 1)

RECURSIVE MFold(_, _)
MFold(m, items) == IF items = <<>> THEN m
                   ELSE LET q == MRun(m, Head(items).c, Head(items).v, Head(items).k)
                        IN IF q.pos >= 0 THEN MFold(q, Tail(items)) ELSE q

MV(m) == [v |-> IF m.ph = "DONE" THEN "accept" ELSE IF m.ph = "ERR" THEN "reject" ELSE "incomplete",
          segs |-> m.segs, cons |-> m.cons]

\* ------------------------------------------------------------------ P allows an observation
IsPrefixSegs(a, b) ==   \* byte ranges a are a prefix of byte ranges b
  \/ a = <<>>
  \/ /\ Len(a) <= Len(b)
     /\ \A i \in 1..(Len(a) - 1) : a[i] = b[i]
     /\ a[Len(a)][1] = b[Len(a)][1] /\ a[Len(a)][2] <= b[Len(a)][2]

\* o = [v, segs, cons]: what a decoder answered for the same input
Allowed(pv, o) ==
  CASE pv.v = "accept" -> \/ o.v = "accept" /\ o.segs = pv.segs /\ o.cons = pv.cons
                          \/ pv.gray # "" /\ o.v # "accept" /\ IsPrefixSegs(o.segs, pv.segs)
    [] OTHER -> o.v # "accept" /\ IsPrefixSegs(o.segs, pv.segs)

\* ------------------------------------------------------------------ trailer section (after the last-chunk line)
\* variants: "none" CRLF | "field" one field | "fields" two | "nocolon" | "trunc" (input ends) | "lf" bare LF end
TrailerVariants == {"none", "field", "fields", "nocolon", "trunc", "lf"}
TrailerV(t) == CASE t \in {"none", "field", "fields"} -> "accept"
                 [] t = "nocolon" -> "reject"
                 [] t = "trunc" -> "incomplete"
                 [] OTHER -> "gray"
=====================================================================
