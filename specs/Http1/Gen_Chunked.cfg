CONSTANTS
  Cap = 1000
  N = @N@
  T = @T@
  F = @F@
  ND = @ND@
INIT EInit
NEXT ENext
INVARIANTS Conform Emit
CHECK_DEADLOCK FALSE
