CONSTANTS
  Cap = 1000
  N = @N@
  T = @T@
INIT EInit
NEXT ENext
INVARIANTS Emit
CHECK_DEADLOCK FALSE
