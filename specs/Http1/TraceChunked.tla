--------------------------- MODULE TraceChunked ---------------------------
(* Validation of recorded encoder output against Layer P of Chunked.tla.  Every line  *)
(* of trace.ndjson is one execution of the real chunkedWriter: the writes it was      *)
(* given and the wire it produced, abstracted to class items.  Obligations: the wire  *)
(* is strictly inside the grammar (accept, no gray leniency used), the body ends      *)
(* exactly at the end of the wire, and the decoded length is the sum of the writes.   *)
(* The decoded byte ranges are printed so that the content can be compared too.       *)
EXTENDS Chunked, Json
VARIABLE l
Trace == ndJsonDeserialize("trace.ndjson")

RECURSIVE Sum(_)
Sum(q) == IF q = <<>> THEN 0 ELSE Head(q) + Sum(Tail(q))
RECURSIVE Total(_)
Total(items) == IF items = <<>> THEN 0 ELSE Head(items).k + Total(Tail(items))
RECURSIVE SegSum(_)
SegSum(q) == IF q = <<>> THEN 0 ELSE Head(q)[2] + SegSum(Tail(q))

Why(e) == LET pv == PV(PFold(PInit, e.items)) IN
  IF e.fail # "" THEN e.fail
  ELSE IF pv.v # "accept" THEN "wire-not-in-grammar"
  ELSE IF pv.gray # "" THEN "wire-uses-leniency"
  ELSE IF pv.cons # Total(e.items) THEN "bytes-after-last-chunk"
  ELSE IF SegSum(pv.segs) # Sum(e.writes) THEN "decoded-length"
  ELSE "ok"

TInit == l \in 1..Len(Trace)
TNext == FALSE /\ UNCHANGED l
Emit == PrintT(ToJson([id |-> Trace[l].id, why |-> Why(Trace[l]),
                       segs |-> PV(PFold(PInit, Trace[l].items)).segs]))
=========================================================================
