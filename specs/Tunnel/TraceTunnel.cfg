INIT TInit
NEXT TNext
INVARIANT Report
POSTCONDITION Accepted
CHECK_DEADLOCK FALSE
