CONSTANTS
  MaxChunks = @CHUNKS@
  Sizes = {1, 2}
SPECIFICATION Spec
INVARIANTS PrefixOK Conservation
PROPERTIES AllDelivered ClosePropagates
CHECK_DEADLOCK FALSE
