-------------------------- MODULE GenTunnel --------------------------
(* Scripts for the tunnel harness: protocol, early bytes on either side, a sequence of  *)
(* sends (size class per chunk) and who closes.                                         *)
EXTENDS Integers, Sequences, FiniteSets, TLC, Json
CONSTANTS MaxOps
SizeClasses == {"1", "small", "page", "big"}
Ops == [op : {"c2b", "b2c"}, size : SizeClasses]
VARIABLES sc, done
Scripts == UNION {[1..m -> Ops] : m \in 0..MaxOps}
Init == /\ sc \in [proto : {"ws", "wss", "stream"}, earlyC : {"none", "1", "page"}, earlyB : {"none", "1", "page"},
                   ops : Scripts, closer : {"c", "b"}]
        /\ done = FALSE
Next == ~done /\ done' = TRUE /\ UNCHANGED sc
Emit == done => PrintT(ToJson(sc))
======================================================================
