------------------------- MODULE TraceTunnel -------------------------
(* Validates tunnel executions recorded at the two real endpoints (client socket and    *)
(* scripted backend) against Layer P of Tunnel.tla.  Events:                            *)
(*   send side n            side has written n more bytes                               *)
(*   recv side n ok         side has read n more bytes; ok = content equals the bytes   *)
(*                          the peer sent at these stream offsets                       *)
(*   sync                   the harness waited until both directions were quiet         *)
(*   close side / eof side seen                                                         *)
EXTENDS Integers, Sequences, FiniteSets, TLC, Json
Tr == ndJsonDeserialize("trace.ndjson")
VARIABLES l, sentC, sentB, recvB, recvC, closed, dead, bad
tvars == <<l, sentC, sentB, recvB, recvC, closed, dead, bad>>
Ev == Tr[l]
Mark(why) == bad' = bad \cup {[cid |-> Ev.cid, l |-> l, why |-> why]} /\ dead' = TRUE
Keep == UNCHANGED <<bad, dead>>
TInit == l = 1 /\ sentC = 0 /\ sentB = 0 /\ recvB = 0 /\ recvC = 0 /\ closed = "none" /\ dead = FALSE /\ bad = {}
TNew == /\ Ev.ev = "new" /\ sentC' = 0 /\ sentB' = 0 /\ recvB' = 0 /\ recvC' = 0 /\ closed' = "none"
        /\ dead' = FALSE /\ (IF Ev.established THEN UNCHANGED bad ELSE Mark("TunnelNotEstablished"))
TSend == /\ Ev.ev = "send" /\ ~dead
         /\ IF Ev.side = "c" THEN sentC' = sentC + Ev.n /\ UNCHANGED sentB
                             ELSE sentB' = sentB + Ev.n /\ UNCHANGED sentC
         /\ Keep /\ UNCHANGED <<recvB, recvC, closed>>
TRecv == /\ Ev.ev = "recv" /\ ~dead
         /\ IF Ev.side = "b" THEN recvB' = recvB + Ev.n /\ UNCHANGED recvC
                             ELSE recvC' = recvC + Ev.n /\ UNCHANGED recvB
         /\ IF ~Ev.ok THEN Mark("BytesCorruptedOrReordered")
            ELSE IF recvB' > sentC \/ recvC' > sentB THEN Mark("MoreReceivedThanSent")
            ELSE Keep
         /\ UNCHANGED <<sentC, sentB, closed>>
TSync == /\ Ev.ev = "sync" /\ ~dead
         /\ (IF closed = "none" /\ (recvB # sentC \/ recvC # sentB) THEN Mark("BytesNotDelivered") ELSE Keep)
         /\ UNCHANGED <<sentC, sentB, recvB, recvC, closed>>
TClose == /\ Ev.ev = "close" /\ ~dead /\ closed' = Ev.side /\ Keep
          /\ UNCHANGED <<sentC, sentB, recvB, recvC>>
TEof == /\ Ev.ev = "eof" /\ ~dead
        /\ (IF closed # "none" /\ Ev.side # closed /\ ~Ev.seen THEN Mark("CloseNotPropagated")
            ELSE IF closed = "none" /\ Ev.seen THEN Mark("ClosedUnexpectedly") ELSE Keep)
        /\ UNCHANGED <<sentC, sentB, recvB, recvC, closed>>
TSkip == dead /\ Ev.ev # "new" /\ Keep /\ UNCHANGED <<sentC, sentB, recvB, recvC, closed>>
TNext == l <= Len(Tr) /\ l' = l + 1 /\ (TNew \/ TSend \/ TRecv \/ TSync \/ TClose \/ TEof \/ TSkip)
Report == (l = Len(Tr) + 1) => PrintT(ToJson([done |-> TRUE, consumed |-> l - 1, bad |-> bad]))
Accepted == TLCGet("stats").diameter - 1 = Len(Tr)
======================================================================
