----------------------------- MODULE Tunnel -----------------------------
(* C47: an established WebSocket / TLS-offload stream tunnel through BFE                *)
(* (bfe_websocket/server_conn.go, bfe_stream/server_conn.go): two FIFO byte channels    *)
(* client -> backend and backend -> client, bytes that arrive together with the upgrade *)
(* request / the 101 response / the TLS handshake ("early" bytes), and closes.          *)
(* Layer P: what a side receives is a prefix of what the other side sent (order,        *)
(* content, no duplication); everything a side sent before anybody closed is delivered; *)
(* after either side closes, the other side sees end-of-stream.                         *)
EXTENDS Integers, Sequences, FiniteSets, TLC

CONSTANTS MaxChunks, Sizes       \* chunk size classes

VARIABLES sentC, sentB,          \* number of bytes sent so far by client / backend
          inC2B, inB2C,          \* bytes in flight inside the proxy
          recvB, recvC,          \* bytes delivered to backend / client
          closed,                \* "none" | "c" | "b": who closed first
          eofB, eofC,            \* end-of-stream observed by backend / client
          nch
vars == <<sentC, sentB, inC2B, inB2C, recvB, recvC, closed, eofB, eofC, nch>>

Init == /\ sentC = 0 /\ sentB = 0 /\ inC2B = 0 /\ inB2C = 0 /\ recvB = 0 /\ recvC = 0
        /\ closed = "none" /\ eofB = FALSE /\ eofC = FALSE /\ nch = 0

SendC(n) == /\ closed = "none" /\ nch < MaxChunks
            /\ sentC' = sentC + n /\ inC2B' = inC2B + n /\ nch' = nch + 1
            /\ UNCHANGED <<sentB, inB2C, recvB, recvC, closed, eofB, eofC>>
SendB(n) == /\ closed = "none" /\ nch < MaxChunks
            /\ sentB' = sentB + n /\ inB2C' = inB2C + n /\ nch' = nch + 1
            /\ UNCHANGED <<sentC, inC2B, recvB, recvC, closed, eofB, eofC>>
\* io.Copy moves bytes in order
DeliverB == /\ inC2B > 0 /\ ~eofB
            /\ \E k \in 1..inC2B : recvB' = recvB + k /\ inC2B' = inC2B - k
            /\ UNCHANGED <<sentC, sentB, inB2C, recvC, closed, eofB, eofC, nch>>
DeliverC == /\ inB2C > 0 /\ ~eofC
            /\ \E k \in 1..inB2C : recvC' = recvC + k /\ inB2C' = inB2C - k
            /\ UNCHANGED <<sentC, sentB, inC2B, recvB, closed, eofB, eofC, nch>>
Close(side) == /\ closed = "none" /\ closed' = side
               /\ UNCHANGED <<sentC, sentB, inC2B, inB2C, recvB, recvC, eofB, eofC, nch>>
\* the copy of the closing side's direction ends after draining; the proxy then closes both
EofAtB == /\ closed = "c" /\ inC2B = 0 /\ ~eofB /\ eofB' = TRUE
          /\ UNCHANGED <<sentC, sentB, inC2B, inB2C, recvB, recvC, closed, eofC, nch>>
EofAtC == /\ closed = "b" /\ inB2C = 0 /\ ~eofC /\ eofC' = TRUE
          /\ UNCHANGED <<sentC, sentB, inC2B, inB2C, recvB, recvC, closed, eofB, nch>>

Next == \/ \E n \in Sizes : SendC(n) \/ SendB(n)
        \/ DeliverB \/ DeliverC \/ Close("c") \/ Close("b") \/ EofAtB \/ EofAtC
Spec == Init /\ [][Next]_vars /\ WF_vars(DeliverB) /\ WF_vars(DeliverC) /\ WF_vars(EofAtB) /\ WF_vars(EofAtC)

PrefixOK == recvB <= sentC /\ recvC <= sentB
Conservation == recvB + inC2B = sentC /\ recvC + inB2C = sentB
\* everything sent while the tunnel is open is eventually delivered; a close reaches the peer
AllDelivered == (closed = "none") ~> (closed # "none" \/ (recvB = sentC /\ recvC = sentB))
ClosePropagates == (closed = "c" ~> eofB) /\ (closed = "b" ~> eofC)
=========================================================================
