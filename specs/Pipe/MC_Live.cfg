\* liveness under fairness of all processes; no state constraint
CONSTANTS
  Caps = {@CAPS@}
  MaxW = @MAXW@
  MaxR = @MAXR@
  MaxWrites = @WRITES@
  MaxCloserOps = @COPS@
  MaxErrReads = @ERRREADS@
  CloseErrs = {@CERRS@}
  BreakErrs = {@BERRS@}
  SignalOnWrite = @SIGW@
  SignalOnClose = @SIGC@
SPECIFICATION SpecFair
PROPERTIES @PROPS@
CHECK_DEADLOCK TRUE
