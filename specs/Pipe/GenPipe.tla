----------------------------- MODULE GenPipe -----------------------------
(* Behaviour generator: sequentialised schedules of Pipe.  A schedule is a sequence *)
(* of calls (write k / read k / close e / break e / release) as the harness can     *)
(* step them on the real pipe from one controlling goroutine: a Read that blocks    *)
(* stays blocked in its own goroutine, and after a call that signals, the woken     *)
(* reader runs before the next call ("wake", not a call: the harness waits for the  *)
(* reader's reaction).  Every step carries the reply of the mechanism (expM,        *)
(* diagnostic); the verdict on the real replies is TracePipe's.                     *)
EXTENDS Pipe, Json
CONSTANTS MaxOps,
          MaxGate   \* the closer starts after 0..MaxGate calls (spreads -simulate runs; 0 = no restriction)
VARIABLES h, fin, gate
gvars == <<vars, h, fin, gate>>

Op(o) == /\ Len(h) < MaxOps /\ ~fin
         /\ h' = Append(h, o @@ [n |-> rep'.n, err |-> rep'.err, blk |-> rep'.blk])
         /\ fin' = FALSE /\ UNCHANGED gate

GInit == Init /\ h = <<>> /\ fin = FALSE /\ gate \in 0..MaxGate
CloserOn == Len(h) >= gate

AllDone == nw = MaxWrites /\ nc = MaxCloserOps /\ rdone /\ rstate = "idle"

GNext ==
  \/ /\ rstate = "woken" /\ MReadWake /\ Op([op |-> "wake", k |-> rk, e |-> None])
  \/ /\ rstate # "woken"
     /\ \/ \E k \in 1..MaxW : MWrite(k) /\ Op([op |-> "write", k |-> k, e |-> None])
        \/ \E k \in 1..MaxR : MReadCall(k) /\ Op([op |-> "read", k |-> k, e |-> None])
        \/ CloserOn /\ \E e \in CloseErrs : MClose(e) /\ Op([op |-> "close", k |-> 0, e |-> e])
        \/ CloserOn /\ \E e \in BreakErrs : MBreak(e) /\ Op([op |-> "break", k |-> 0, e |-> e])
        \/ CloserOn /\ MRelease /\ Op([op |-> "release", k |-> 0, e |-> None])
  \/ /\ ~fin /\ (Len(h) = MaxOps \/ AllDone) /\ Len(h) > 0
     /\ fin' = TRUE /\ UNCHANGED <<vars, h, gate>>

\* printed once per behaviour, when it is complete
Emit == fin => PrintT(ToJson([cap |-> cap, ops |-> h]))
=========================================================================
