------------------------------- MODULE Pipe -------------------------------
(* C21, Layer M: bfe_util/pipe as the code does it.  One action per critical       *)
(* section of pipe.go (everything between p.mu.Lock and Unlock / c.Wait is atomic): *)
(*   MWrite      Pipe.Write            (FixedBuffer.Write with slide-on-write)      *)
(*   MReadCall   Pipe.Read, first pass of the loop: returns or starts waiting       *)
(*   MReadWake   Pipe.Read, a pass of the loop after c.Wait returned                *)
(*   MClose      CloseWithError / CloseWithErrorAndCode  (dst = &p.err)             *)
(*   MBreak      BreakWithError                          (dst = &p.breakErr)        *)
(*   MRelease    Release                                                            *)
(* Three processes: one writer (the serve goroutine), one reader (the handler       *)
(* goroutine), one closer (closeStream on the serve goroutine, RequestBody.Close on *)
(* the handler goroutine).  sync.Cond: Wait enqueues the goroutine before it        *)
(* unlocks, Signal wakes one waiter, there are no spurious wake-ups.                *)
(* Every reply is handed to the Layer-P action of PipeP; TLC checks that no reply   *)
(* contradicts Layer P, that the closed system cannot deadlock, and liveness.       *)
EXTENDS PipeP, TLC

CONSTANTS Caps,          \* set of capacities explored
          MaxW, MaxR,    \* write payloads 1..MaxW bytes, read slices 1..MaxR bytes
          MaxWrites,     \* the writer makes this many Write calls
          MaxCloserOps,  \* the closer makes this many calls, one of them closes/breaks
          MaxErrReads,   \* the reader stops after this many error returns
          CloseErrs, BreakErrs,
          SignalOnWrite, SignalOnClose   \* TRUE as in the code; FALSE shows what the checks catch

VARIABLES mem, r, w,     \* FixedBuffer: buf[1..cap] (0 = stale), read / write index (0-based)
          bnil,          \* p.b == nil
          err, berr,     \* p.err, p.breakErr
          rstate,        \* reader: "idle" | "wait" (in c.Wait) | "woken" (signalled, wants p.mu)
          rk,            \* len(d) of the Read call in progress
          nw, nc, nerr,  \* calls made by writer / closer, error returns seen by the reader
          nextv,         \* bytes offered so far; payload bytes are nextv+1, nextv+2, ...
          rep            \* the reply of the last call as the mechanism computes it
mvars == <<mem, r, w, bnil, err, berr, rstate, rk, nw, nc, nerr, nextv, rep>>
vars == <<pvars, mvars>>
\* rep is write-only: hidden from the fingerprint in the safety run
MCView == <<pvars, mem, r, w, bnil, err, berr, rstate, rk, nw, nc, nerr, nextv>>

Zero == [i \in 1..cap |-> 0]
Buffered == IF bnil THEN <<>> ELSE SubSeq(mem, r + 1, w)
rdone == nerr >= MaxErrReads
Reply(n, e, blk) == [n |-> n, err |-> e, blk |-> blk]

Init == /\ \E c \in Caps : PInit(c)
        /\ mem = Zero /\ r = 0 /\ w = 0 /\ bnil = FALSE
        /\ err = None /\ berr = None /\ rstate = "idle" /\ rk = 0
        /\ nw = 0 /\ nc = 0 /\ nerr = 0 /\ nextv = 0 /\ rep = Reply(0, None, FALSE)

Signal(on) == rstate' = IF on /\ rstate = "wait" THEN "woken" ELSE rstate

---------------------------------------------------------------------------
(* FixedBuffer.Write: slide the unread bytes to the front when the payload does not *)
(* fit behind w, copy what fits.                                                    *)
MWrite(k) ==
  /\ nw < MaxWrites
  /\ LET data == [i \in 1..k |-> nextv + i] IN
     /\ nextv' = nextv + k /\ nw' = nw + 1
     /\ IF err # None \/ bnil
          THEN /\ PWrite(k, 0, "closed", data) /\ rep' = Reply(0, "closed", FALSE)
               /\ UNCHANGED <<mem, r, w>>
          ELSE LET slide == r > 0 /\ k > cap - w
                   w1 == IF slide THEN w - r ELSE w
                   r1 == IF slide THEN 0 ELSE r
                   m1 == IF slide THEN [i \in 1..cap |-> IF i <= w - r THEN mem[r + i] ELSE 0]
                                  ELSE mem
                   n == Min2(k, cap - w1)
               IN /\ mem' = [i \in 1..cap |-> IF i > w1 /\ i <= w1 + n THEN data[i - w1] ELSE m1[i]]
                  /\ r' = r1 /\ w' = w1 + n
                  /\ PWrite(k, n, IF n < k THEN "full" ELSE None, data)
                  /\ rep' = Reply(n, IF n < k THEN "full" ELSE None, FALSE)
  /\ Signal(SignalOnWrite)
  /\ UNCHANGED <<bnil, err, berr, rk, nc, nerr>>

(* One pass of the loop in Pipe.Read for a slice of length k. *)
ReadPass(k) ==
  IF berr # None
    THEN /\ PRead(k, 0, berr, <<>>) /\ rep' = Reply(0, berr, FALSE)
         /\ rstate' = "idle" /\ nerr' = nerr + 1 /\ UNCHANGED <<mem, r, w>>
  ELSE IF ~bnil /\ w - r > 0
    THEN LET n == Min2(k, w - r)
             r1 == r + n
         IN /\ PRead(k, n, None, SubSeq(mem, r + 1, r + n)) /\ rep' = Reply(n, None, FALSE)
            /\ IF r1 = w THEN /\ r' = 0 /\ w' = 0 /\ mem' = Zero
                         ELSE /\ r' = r1 /\ w' = w
                              /\ mem' = [i \in 1..cap |-> IF i <= r1 THEN 0 ELSE mem[i]]
            /\ rstate' = "idle" /\ UNCHANGED nerr
  ELSE IF err # None
    THEN /\ PRead(k, 0, err, <<>>) /\ rep' = Reply(0, err, FALSE)
         /\ rstate' = "idle" /\ nerr' = nerr + 1 /\ UNCHANGED <<mem, r, w>>
  ELSE /\ PBlock /\ rep' = Reply(0, None, TRUE)
       /\ rstate' = "wait" /\ UNCHANGED <<mem, r, w, nerr>>

MReadCall(k) == /\ rstate = "idle" /\ ~rdone
                /\ rk' = k /\ ReadPass(k)
                /\ UNCHANGED <<bnil, err, berr, nw, nc, nextv>>
MReadWake == /\ rstate = "woken"
             /\ ReadPass(rk)
             /\ UNCHANGED <<bnil, err, berr, rk, nw, nc, nextv>>

(* closeWithError(dst, e): the first error wins, except that a recorded io.EOF is   *)
(* replaced by a later error; Signal in every case.                                 *)
Latch(dst, e) == IF dst = None \/ dst = "eof" THEN e ELSE dst
\* the closer's last call closes or breaks if nothing did so far (closed system)
MayIdle == nc + 1 < MaxCloserOps \/ err # None \/ berr # None

MClose(e) == /\ nc < MaxCloserOps /\ nc' = nc + 1
             /\ err' = Latch(err, e) /\ PClose(e) /\ Signal(SignalOnClose)
             /\ rep' = Reply(0, err', FALSE)
             /\ UNCHANGED <<mem, r, w, bnil, berr, rk, nw, nerr, nextv>>
MBreak(e) == /\ nc < MaxCloserOps /\ nc' = nc + 1
             /\ berr' = Latch(berr, e) /\ PBreak(e) /\ Signal(SignalOnClose)
             /\ rep' = Reply(0, berr', FALSE)
             /\ UNCHANGED <<mem, r, w, bnil, err, rk, nw, nerr, nextv>>
\* Release is called once (assumption, see docs/pipe.md); it does not signal
MRelease == /\ nc < MaxCloserOps /\ ~bnil /\ MayIdle /\ nc' = nc + 1
            /\ bnil' = TRUE /\ mem' = Zero /\ r' = 0 /\ w' = 0 /\ PRelease
            /\ rep' = Reply(0, None, FALSE)
            /\ UNCHANGED <<err, berr, rstate, rk, nw, nerr, nextv>>

Writer == \E k \in 1..MaxW : MWrite(k)
Reader == MReadWake \/ \E k \in 1..MaxR : MReadCall(k)
Closer == \/ \E e \in CloseErrs : MClose(e)
          \/ \E e \in BreakErrs : MBreak(e)
          \/ MRelease
\* everybody has finished: the only state in which nothing is left to do
Terminated == nw = MaxWrites /\ nc = MaxCloserOps /\ rdone /\ UNCHANGED vars

Next == Writer \/ Reader \/ Closer \/ Terminated
Spec == Init /\ [][Next]_vars
\* fairness: only that the reader goroutine is scheduled
SpecFairReader == Spec /\ WF_vars(Reader)
\* fairness of all three (needed for termination: somebody has to close)
SpecFair == Spec /\ WF_vars(Reader) /\ WF_vars(Writer) /\ WF_vars(Closer)

---------------------------------------------------------------------------
TypeOK == /\ r \in 0..cap /\ w \in 0..cap /\ r <= w
          /\ rstate \in {"idle", "wait", "woken"}
          /\ Len(ws) <= nextv /\ Len(rs) <= Len(ws)
\* the mechanism's buffer holds exactly what Layer P says is still readable
BufferIsReadable == Buffered = readable
\* p.err / p.breakErr are among the errors given
ErrGiven == /\ (err = None) = (cgiven = {}) /\ (err # None => err \in cgiven)
            /\ (berr = None) = (bgiven = {}) /\ (berr # None => berr \in bgiven)
\* Pipe.Err(): breakErr if set, else err; Done(): closed by the first close / break
ErrQueryOK == ErrVerdict(IF berr # None THEN berr ELSE err) = "ok"
\* a goroutine sleeps in c.Wait only while Read has nothing to return
NoLostWakeup == rstate = "wait" => ~CanReturn

\* liveness: every accepted byte is read unless the pipe is broken / released
MaxBytes == MaxWrites * MaxW
Progress == \A i \in 1..MaxBytes :
              (Len(ws) >= i) ~> (Len(rs) >= i \/ broken \/ released)
\* the same in one formula (it implies Progress: ws only grows): again and again the reader
\* has caught up with everything accepted
CaughtUp == []<>(Len(rs) = Len(ws) \/ broken \/ released)
\* a blocked Read returns (someone closes), the reader finishes
Unblocks == (rstate = "wait") ~> (rstate = "idle")
Termination == <>rdone
===========================================================================
