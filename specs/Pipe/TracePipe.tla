---------------------------- MODULE TracePipe ----------------------------
(* Trace validation of real executions of bfe_util/pipe.Pipe against Layer P.       *)
(* trace.ndjson holds many recorded cases back to back.  Within a case the events   *)
(* are ordered by the per-pipe sequence number the hooks assign under p.mu (the     *)
(* linearization order), never by wall clock.  Every event is one step; the Layer-P *)
(* action of PipeP is taken with the reply the real code gave, the obligation it    *)
(* contradicts (if any) is collected in `bad` and the rest of that case is skipped. *)
(* Layer-M observations (buffered length and flags seen by the hook) that differ    *)
(* from the model are collected in `drift` (diagnostic).                            *)
(*                                                                                  *)
(* event: [cid, ev, cap, asked, n, err, data, blen, fc, fb, fr]                     *)
(*   ev   "new" | "write" | "read" | "block" | "close" | "break" | "release"        *)
(*        | "stuck" (the reader did not return from Read; harness watchdog)         *)
(*        | "query" (Err() returned err; the Done() channel is closed: n = 1)       *)
(*        | "panic"                                                                 *)
(*   data write: the payload offered (asked bytes); read: the bytes delivered       *)
(*   err  class of the error returned / given                                       *)
(*   blen, fc, fb, fr   p.b.Len() (-1 = released), closed / broken / released flags *)
(*        as the hook saw them after the change (-1 / FALSE for harness events)     *)
EXTENDS PipeP, Json, TLC

Trace == ndJsonDeserialize("trace.ndjson")

VARIABLES l,       \* next event to consume
          dead,    \* current case already rejected
          bad,     \* set of [cid, l, why]
          drift    \* set of [cid, l, why]
tvars == <<pvars, l, dead, bad, drift>>

Ev == Trace[l]
Mark(why) == bad' = bad \cup {[cid |-> Ev.cid, l |-> l, why |-> why]}

TInit == /\ l = 1 /\ dead = FALSE /\ bad = {} /\ drift = {}
         /\ PInit(0)

TNew == /\ Ev.ev = "new"
        /\ cap' = Ev.cap /\ ws' = <<>> /\ rs' = <<>> /\ cgiven' = {} /\ bgiven' = {}
        /\ released' = Ev.fr       \* a Pipe value that never had a buffer starts as released
        /\ rblocked' = FALSE /\ viol' = "ok"
        /\ dead' = FALSE /\ UNCHANGED <<bad, drift>>

Skip == /\ Ev.ev # "new" /\ dead /\ UNCHANGED <<pvars, dead, bad, drift>>

\* what the hook saw against what the model holds after the step (mechanism level)
HookView == IF Ev.blen = -2 THEN "ok"     \* event without hook data
            ELSE IF Ev.fc # closed' THEN "closed-flag"
            ELSE IF Ev.fb # broken' THEN "broken-flag"
            ELSE IF Ev.fr # released' THEN "released-flag"
            ELSE IF ~broken' /\ Ev.blen # (IF released' THEN -1 ELSE Len(readable')) THEN "buffered"
            ELSE "ok"

Judge == /\ IF viol' = "ok" /\ InOrderOnce' THEN UNCHANGED <<dead, bad>>
            ELSE Mark(IF viol' # "ok" THEN viol' ELSE "InOrderOnce") /\ dead' = TRUE
         /\ drift' = IF viol' = "ok" /\ HookView # "ok"
                       THEN drift \cup {[cid |-> Ev.cid, l |-> l, why |-> HookView]}
                       ELSE drift

Step == \/ Ev.ev = "write" /\ PWrite(Ev.asked, Ev.n, Ev.err, Ev.data)
        \/ Ev.ev = "read" /\ PRead(Ev.asked, Ev.n, Ev.err, Ev.data)
        \/ Ev.ev = "block" /\ PBlock
        \/ Ev.ev = "close" /\ PClose(Ev.err)
        \/ Ev.ev = "break" /\ PBreak(Ev.err)
        \/ Ev.ev = "release" /\ PRelease
        \/ Ev.ev = "stuck" /\ PStuck
        \/ Ev.ev = "query" /\ PQuery(Ev.err, Ev.n = 1)

TStep == /\ Ev.ev \in {"write", "read", "block", "close", "break", "release", "stuck", "query"}
         /\ ~dead
         /\ Step /\ Judge

TPanic == /\ Ev.ev = "panic" /\ ~dead
          /\ Mark("panic") /\ dead' = TRUE /\ UNCHANGED <<pvars, drift>>

TNext == /\ l <= Len(Trace) /\ l' = l + 1
         /\ (TNew \/ Skip \/ TStep \/ TPanic)
TSpec == TInit /\ [][TNext]_tvars

\* printed when the whole trace has been consumed
Report == (l = Len(Trace) + 1) =>
             PrintT(ToJson([done |-> TRUE, consumed |-> l - 1, bad |-> bad, drift |-> drift]))
\* every line must be explained by exactly one step: the search is linear
Accepted == TLCGet("stats").diameter - 1 = Len(Trace)
=========================================================================
