------------------------------ MODULE PipeP ------------------------------
(* C21, Layer P: what a body pipe (bfe_util/pipe.Pipe) promises, stated only over  *)
(* what is observable through its API: the capacity given to the constructor, the  *)
(* arguments and results of Write / Read, the errors given to CloseWithError /     *)
(* BreakWithError, Release, and whether a Read call has returned.                  *)
(*                                                                                 *)
(*   ws  the stream accepted by Write so far (the first n bytes of every payload)  *)
(*   rs  the stream delivered by Read so far                                       *)
(*                                                                                 *)
(* Every P-action takes the *observed* reply as parameters, appends to ws / rs and *)
(* leaves in `viol` the name of the first obligation the reply contradicts ("ok"   *)
(* if none).  Pipe.tla (Layer M) calls them with the replies the mechanism         *)
(* computes; TracePipe.tla calls them with the replies the real code gave.         *)
(* Where the property leaves a choice (how many bytes a Read returns, how much of  *)
(* a payload that does not fit is taken, which of the given errors is reported)    *)
(* the obligation is a set / a range, never a single value.                        *)
EXTENDS Integers, Sequences, SequencesExt, FiniteSets

VARIABLES cap,       \* capacity of the buffer (constructor argument)
          ws, rs,
          cgiven,    \* errors given to CloseWithError so far
          bgiven,    \* errors given to BreakWithError so far
          released,  \* Release was called: buffered data is given up, no more writes
          rblocked,  \* the reader is inside Read and has found nothing to return
          viol
pvars == <<cap, ws, rs, cgiven, bgiven, released, rblocked, viol>>

None == "none"
Min2(a, b) == IF a < b THEN a ELSE b

closed == cgiven # {}
broken == bgiven # {}
\* what a Read may still deliver
readable == IF released THEN <<>> ELSE SubSeq(ws, Len(rs) + 1, Len(ws))
\* a Read call can return in this state (otherwise it must block)
CanReturn == broken \/ readable # <<>> \/ closed

PInit(c) == /\ cap = c /\ ws = <<>> /\ rs = <<>> /\ cgiven = {} /\ bgiven = {}
            /\ released = FALSE /\ rblocked = FALSE /\ viol = "ok"

---------------------------------------------------------------------------
(* Read returned (n, err) with the bytes `data` for a slice of length asked. *)
ReadVerdict(asked, n, err, data) ==
  IF n # Len(data) \/ n < 0 \/ n > asked THEN "ReadCount"
  ELSE IF broken THEN                    \* a break is reported immediately
         (IF n = 0 /\ err \in bgiven THEN "ok" ELSE "BreakImmediate")
  ELSE IF asked = 0 /\ n = 0 /\ err = None THEN "ok"      \* zero-length read
  ELSE IF readable # <<>> THEN
         IF err # None THEN (IF err \in cgiven THEN "CloseBeforeDrain" ELSE "ReadSpuriousError")
         ELSE IF n = 0 THEN "ReadEmptyReturn"
         ELSE IF n > Len(readable) THEN "InOrderOnce"
         ELSE IF data # SubSeq(readable, 1, n) THEN "InOrderOnce"
         ELSE "ok"
  ELSE IF n > 0 THEN "InOrderOnce"       \* bytes that were never written / delivered twice
  ELSE IF closed THEN                    \* drained: the close error, and only now
         (IF err \in cgiven THEN "ok" ELSE "CloseReported")
  ELSE "ReadReturnedWithoutDataOrClosure"

PRead(asked, n, err, data) ==
  /\ viol' = ReadVerdict(asked, n, err, data)
  /\ rs' = IF viol' = "ok" THEN rs \o data ELSE rs
  /\ rblocked' = FALSE
  /\ UNCHANGED <<cap, ws, cgiven, bgiven, released>>

(* Read found nothing to return and waits. *)
PBlock ==
  /\ viol' = IF broken THEN "BlockedAfterBreak"
             ELSE IF readable # <<>> THEN "BlockedWithData"
             ELSE IF closed THEN "BlockedAfterClose" ELSE "ok"
  /\ rblocked' = TRUE
  /\ UNCHANGED <<cap, ws, rs, cgiven, bgiven, released>>

(* The reader did not come back from Read although nothing else is running. *)
PStuck ==
  /\ viol' = IF CanReturn THEN "Hang" ELSE "ok"
  /\ UNCHANGED <<cap, ws, rs, cgiven, bgiven, released, rblocked>>

---------------------------------------------------------------------------
(* Write returned (n, err) for the payload `data` (Len(data) = asked). *)
WriteVerdict(asked, n, err) ==
  IF n < 0 \/ n > asked THEN "WriteCount"
  ELSE IF n < asked /\ err = None THEN "WriteSilentDrop"   \* never silently truncated
  ELSE IF closed \/ released THEN
         (IF n = 0 /\ err # None THEN "ok" ELSE "WriteAfterClose")
  ELSE IF broken THEN "ok"               \* nobody will read it; accepted or refused
  ELSE IF asked <= cap - Len(readable) THEN
         (IF n = asked /\ err = None THEN "ok" ELSE "WriteRefusedThoughFits")
  ELSE IF n > cap - Len(readable) THEN "WriteOverflow"
  ELSE "ok"                              \* does not fit: error reported (n < asked => err, above)

PWrite(asked, n, err, data) ==
  /\ viol' = WriteVerdict(asked, n, err)
  /\ ws' = IF viol' = "ok" THEN ws \o SubSeq(data, 1, n) ELSE ws
  /\ UNCHANGED <<cap, rs, cgiven, bgiven, released, rblocked>>

PClose(e) == /\ cgiven' = cgiven \cup {e} /\ viol' = "ok"
             /\ UNCHANGED <<cap, ws, rs, bgiven, released, rblocked>>
PBreak(e) == /\ bgiven' = bgiven \cup {e} /\ viol' = "ok"
             /\ UNCHANGED <<cap, ws, rs, cgiven, released, rblocked>>
PRelease  == /\ released' = TRUE /\ viol' = "ok"
             /\ UNCHANGED <<cap, ws, rs, cgiven, bgiven, rblocked>>

(* Err() returned e; Done() is closed (d = TRUE) or not.  Pure queries. *)
ErrVerdict(e) == IF broken THEN (IF e \in bgiven THEN "ok" ELSE "ErrReport")
                 ELSE IF closed THEN (IF e \in cgiven THEN "ok" ELSE "ErrReport")
                 ELSE IF e = None THEN "ok" ELSE "ErrReport"
PQuery(e, d) == /\ viol' = IF ErrVerdict(e) # "ok" THEN ErrVerdict(e)
                              ELSE IF d = (closed \/ broken) THEN "ok" ELSE "DoneReport"
                /\ UNCHANGED <<cap, ws, rs, cgiven, bgiven, released, rblocked>>

---------------------------------------------------------------------------
(* The obligations as state predicates (checked by TLC on Layer M, evaluated in   *)
(* every state of a recorded trace).                                              *)
ReplyOK      == viol = "ok"
InOrderOnce  == IsPrefix(rs, ws)
\* accepted bytes are distinct in the model, so a prefix is also "exactly once"
=========================================================================
