CONSTANTS
  Caps = {@CAPS@}
  MaxW = @MAXW@
  MaxR = @MAXR@
  MaxWrites = @WRITES@
  MaxCloserOps = @COPS@
  MaxErrReads = @ERRREADS@
  CloseErrs = {@CERRS@}
  BreakErrs = {@BERRS@}
  SignalOnWrite = TRUE
  SignalOnClose = TRUE
  MaxOps = @OPS@
  MaxGate = @GATE@
INIT GInit
NEXT GNext
INVARIANTS Emit
CHECK_DEADLOCK FALSE
