\* liveness under fairness of the reader only; no state constraint
CONSTANTS
  Caps = {@CAPS@}
  MaxW = @MAXW@
  MaxR = @MAXR@
  MaxWrites = @WRITES@
  MaxCloserOps = @COPS@
  MaxErrReads = @ERRREADS@
  CloseErrs = {@CERRS@}
  BreakErrs = {@BERRS@}
  SignalOnWrite = @SIGW@
  SignalOnClose = @SIGC@
SPECIFICATION SpecFairReader
PROPERTIES @PROPS@
CHECK_DEADLOCK TRUE
