\* exhaustive: safety (Layer P obligations on every reply, deadlock) 
CONSTANTS
  Caps = {@CAPS@}
  MaxW = @MAXW@
  MaxR = @MAXR@
  MaxWrites = @WRITES@
  MaxCloserOps = @COPS@
  MaxErrReads = @ERRREADS@
  CloseErrs = {@CERRS@}
  BreakErrs = {@BERRS@}
  SignalOnWrite = @SIGW@
  SignalOnClose = @SIGC@
SPECIFICATION Spec
INVARIANTS ReplyOK InOrderOnce TypeOK BufferIsReadable ErrGiven ErrQueryOK NoLostWakeup
VIEW MCView
CHECK_DEADLOCK TRUE
