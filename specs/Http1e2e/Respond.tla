----------------------------- MODULE Respond -----------------------------
(* C27  HTTP/1 responses to clients are correctly framed.                             *)
(*                                                                                    *)
(* Decision table: request (method, version/connection option) x response source      *)
(* (backend / module) x status x backend framing x backend Connection x body length   *)
(*   -> what the client must be able to parse.                                        *)
(* Layer P (RFC 7230 3.3, 3.3.3, 6.3, 6.6; statement of C27):                         *)
(*   exactly one response, same status, the end-to-end header, body = backend body    *)
(*   (empty for HEAD, 204, 304), framing the client can delimit: Content-Length or    *)
(*   (HTTP/1.1 only) chunked, else delimited by close and then the connection IS      *)
(*   closed; the connection is also closed when the client asked for it (HTTP/1.0     *)
(*   without keep-alive, "Connection: close"); on a connection that stays open the    *)
(*   next response starts exactly where this one ended.  A backend body that ends     *)
(*   early must not look complete to the client.                                      *)
(* Layer M: chunkWriter.writeHeader / response.finishRequest as the code decides.     *)
EXTENDS Integers, Sequences, FiniteSets, TLC

CONSTANTS Lens            \* body lengths to use, e.g. {0, 5, 600, 70000}

Methods  == {"GET", "HEAD"}
ClientVs == {"10", "10ka", "11", "11close"}      \* HTTP/1.0, 1.0 + keep-alive, 1.1, 1.1 + close
Sources  == {"backend", "module"}
Statuses == {200, 204, 304, 404, 500}
BFrames  == {"cl", "chunked", "eof", "trunc"}    \* module: "cl" (Content-Length header set) / "eof" (not set)
BConns   == {"none", "close", "keep-alive"}

VARIABLES method, cv, src, status, bfr, bconn, blen, done
vars == <<method, cv, src, status, bfr, bconn, blen, done>>

Init == /\ method \in Methods /\ cv \in ClientVs /\ src \in Sources /\ status \in Statuses
        /\ bfr \in BFrames /\ bconn \in BConns /\ blen \in Lens
        /\ (src = "module" => bfr \in {"cl", "eof"} /\ bconn = "none")
        /\ (bfr = "trunc" => blen > 0)
        /\ (status \in {204, 304} /\ src = "backend" => bfr \in {"cl", "eof"})   \* declared body only via cl
        /\ (status \in {204, 304} /\ bfr = "eof" => blen = 0)
        /\ done = FALSE
Next == ~done /\ done' = TRUE /\ UNCHANGED <<method, cv, src, status, bfr, bconn, blen>>

V11 == cv \in {"11", "11close"}

(* ------------------------------ Layer P --------------------------------- *)
NoBody   == method = "HEAD" \/ status \in {204, 304}
ExpLen   == IF NoBody THEN 0 ELSE blen
Framings == IF NoBody THEN {"none"} ELSE IF V11 THEN {"cl", "chunked", "eof"} ELSE {"cl", "eof"}
AskClose == cv \in {"10", "11close"}
Trunc    == bfr = "trunc" /\ ~NoBody
\* outcome: [framing, len, err (client noticed an incomplete body), closed]
POK(o) ==
    IF Trunc THEN o.closed /\ (o.err \/ (o.framing = "eof" /\ ~V11))
    ELSE /\ o.framing \in Framings /\ o.len = ExpLen /\ ~o.err
         /\ (o.framing = "eof" => o.closed)
         /\ (AskClose => o.closed)

(* ------------------------------ Layer M --------------------------------- *)
\* is a Content-Length known when the header is written ?
KnownCL == \/ bfr \in {"cl", "trunc"}
           \/ src = "module" /\ blen <= 512 /\ status # 304 /\ ~(method = "HEAD" /\ blen = 0)
FramingM == IF NoBody THEN "none" ELSE IF KnownCL THEN "cl" ELSE IF V11 THEN "chunked" ELSE "eof"
ClosedM  == \/ AskClose \/ FramingM = "eof" \/ Trunc
            \/ cv = "10ka" /\ ~(method = "HEAD" \/ KnownCL)
            \/ src = "module" /\ status \in {204, 304} /\ blen > 0    \* body refused (ErrBodyNotAllowed) -> close
OutM == [framing |-> FramingM, len |-> IF Trunc THEN blen \div 2 ELSE ExpLen, err |-> Trunc, closed |-> ClosedM]
MSatisfiesP == POK(OutM)
==========================================================================
