---------------------------- MODULE GenForward ----------------------------
EXTENDS Forward, Json
F(n, v) == [n |-> n, v |-> v]
Emit == done => PrintT(ToJson([proto |-> proto, method |-> MethodStr, target |-> TargetStr,
                       fields |-> <<F(NameStr(n1, 1), ValStr(v1, 1)), F(NameStr(n2, 2), ValStr(v2, 2))>>,
                       body |-> BodyStr, chunked |-> (b = "chunked"),
                       cls |-> [m |-> m, t |-> t, b |-> b, n1 |-> n1, v1 |-> v1, n2 |-> n2, v2 |-> v2],
                       expP |-> ExpP,
                       expM |-> [reject |-> OutM.rej, fwd |-> OutM.fwd]]))
===========================================================================
