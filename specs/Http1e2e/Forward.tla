----------------------------- MODULE Forward -----------------------------
(* C25  Requests forwarded to backends cannot be split or injected.                   *)
(*                                                                                    *)
(* A request = frontend protocol x method x target x two header fields (name class x  *)
(* value class) x body class.  Classes contain the bytes that matter for splitting:   *)
(* CR, LF, NUL, DEL, SP, ':' (written as tokens <CR> <LF> <NUL> <DEL> <SP> <HT>; the  *)
(* harness turns them into bytes).                                                    *)
(*                                                                                    *)
(* Layer P (RFC 7230 3, 3.2; statement of C25), about the bytes on the backend wire:  *)
(*   either nothing is written (request refused), or exactly one message, nothing     *)
(*   left over, no CR/LF/NUL/DEL inside the request line or a header line, request    *)
(*   line of three parts; method, target, body equal to what was sent; every valid    *)
(*   field forwarded once with its value (OWS trimmed); a valid name with a value     *)
(*   containing control bytes is dropped or forwarded with the control bytes replaced *)
(*   by SP; a name containing control bytes never appears; no other field appears     *)
(*   (except Host / Content-Length / Transfer-Encoding written by the proxy).         *)
(*   A request whose method or target is not valid must not reach the backend.        *)
(*   A request with a field name that is not a token (control bytes, SP, "(", ":") is *)
(*   refused by the front end: HTTP/1 answers 4xx (RFC 7230 3.2.4), HTTP/2 resets the *)
(*   stream or answers 4xx; nothing reaches the backend.                              *)
(*   The captured bytes are read twice: by Go's parser, and strictly with bare CR and *)
(*   bare LF taken as line ends - no field may appear in either reading that the      *)
(*   client did not send.                                                             *)
(* Layer M: what bfe_http.ReadRequest / bfe_http2 / Request.write / WriteSubset do.   *)
EXTENDS Integers, Sequences, FiniteSets, TLC

CONSTANT MaxDevs          \* how many components may leave their default class

Protos  == {"h1", "h2"}
Methods == {"GET", "POST", "lower", "nul", "sp"}
Targets == {"plain", "query", "pct", "sp", "nul", "cr"}
Bodies  == {"none", "cl", "chunked", "smuggle"}
NameCs  == {"tok", "lc", "cr", "nul", "del", "sp", "paren", "colon"}
ValCs   == {"plain", "sp", "ht", "pad", "empty", "cr", "crinj", "nul", "crlf", "lf"}

VARIABLES proto, m, t, b, n1, v1, n2, v2, done
vars == <<proto, m, t, b, n1, v1, n2, v2, done>>

D(x, def) == IF x = def THEN 0 ELSE 1

\* shapes that cannot be sent (or are by definition something else) on a frontend
NameOK(p, n) == IF p = "h1" THEN n # "colon" ELSE n # "lc"
ValOK(p, v)  == p = "h1" => v # "crlf"                  \* on HTTP/1 this IS two lines
Init ==
    /\ proto \in Protos
    /\ m \in Methods /\ (proto = "h1" => m # "sp")
    /\ t \in Targets /\ (proto = "h1" => t # "sp")
    /\ D(m, "GET") + D(t, "plain") <= MaxDevs
    /\ b \in Bodies /\ (b # "none" <=> m = "POST")
    /\ D(m, "GET") + D(t, "plain") + D(b, IF m = "POST" THEN "cl" ELSE "none") <= MaxDevs
    /\ n1 \in NameCs /\ NameOK(proto, n1) /\ v1 \in ValCs /\ ValOK(proto, v1)
    /\ D(m, "GET") + D(t, "plain") + D(b, IF m = "POST" THEN "cl" ELSE "none") + D(n1, "tok") + D(v1, "plain") <= MaxDevs
    /\ n2 \in NameCs /\ NameOK(proto, n2) /\ v2 \in ValCs /\ ValOK(proto, v2)
    /\ D(m, "GET") + D(t, "plain") + D(b, IF m = "POST" THEN "cl" ELSE "none") + D(n1, "tok") + D(v1, "plain")
         + D(n2, "tok") + D(v2, "plain") <= MaxDevs
    /\ done = FALSE

(* ------------------------- concretisation (shared) ----------------------- *)
MethodStr == CASE m = "lower" -> "get" [] m = "nul" -> "G<NUL>T" [] m = "sp" -> "GET<SP>/evil?" [] OTHER -> m
TargetStr == CASE t = "plain" -> "/a" [] t = "query" -> "/a?q=1&r=%0d%0aX:1" [] t = "pct" -> "/a%20b"
               [] t = "sp" -> "/a<SP>b" [] t = "nul" -> "/a<NUL>b" [] OTHER -> "/a<CR>b"
BodyStr == CASE b = "none" -> "" [] b = "smuggle" -> "x<CR><LF><CR><LF>GET<SP>/inj<SP>HTTP/1.1<CR><LF>Host:<SP>evil<CR><LF><CR><LF>"
             [] OTHER -> "hello"
K(k) == IF k = 1 THEN "1" ELSE "2"
NameStr(nc, k) ==
    LET up == CASE nc = "tok" -> "X-F" [] nc = "lc" -> "x-f" [] nc = "cr" -> "X<CR>F" [] nc = "nul" -> "X<NUL>F"
                [] nc = "del" -> "X<DEL>F" [] nc = "sp" -> "X<SP>F" [] nc = "paren" -> "X(F" [] OTHER -> "x:f"
        lo == CASE nc = "tok" -> "x-f" [] nc = "cr" -> "x<CR>f" [] nc = "nul" -> "x<NUL>f"
                [] nc = "del" -> "x<DEL>f" [] nc = "sp" -> "x<SP>f" [] nc = "paren" -> "x(f" [] OTHER -> "x:f"
    IN (IF proto = "h2" THEN lo ELSE up) \o K(k)
LowName(nc, k) == (CASE nc \in {"tok", "lc"} -> "x-f" [] nc = "sp" -> "x<SP>f" [] nc = "paren" -> "x(f"
                     [] nc = "colon" -> "x:f" [] OTHER -> "?") \o K(k)
ValStr(vc, k) == CASE vc = "plain" -> "v" \o K(k) [] vc = "sp" -> "a<SP>b" \o K(k) [] vc = "ht" -> "a<HT>b" \o K(k)
                   [] vc = "pad" -> "<SP>v" \o K(k) \o "<SP><HT>" [] vc = "empty" -> ""
                   [] vc = "cr" -> "a<CR>b" \o K(k) [] vc = "nul" -> "a<NUL>b" \o K(k)
                   [] vc = "crinj" -> "a<CR>X-Inj:<SP>" \o K(k)
                   [] vc = "crlf" -> "a<CR><LF>X-Inj:<SP>" \o K(k) [] OTHER -> "a<LF>X-Inj:<SP>" \o K(k)
\* the value a forwarded field may carry (control bytes -> SP, OWS trimmed)
ValFwd(vc, k) == CASE vc = "plain" -> "v" \o K(k) [] vc = "sp" -> "a b" \o K(k) [] vc = "ht" -> "a<HT>b" \o K(k)
                   [] vc = "pad" -> "v" \o K(k) [] vc = "empty" -> ""
                   [] vc \in {"cr", "nul"} -> "a b" \o K(k)
                   [] vc = "crinj" -> "a X-Inj: " \o K(k)
                   [] vc = "crlf" -> "a  X-Inj: " \o K(k) [] OTHER -> "a X-Inj: " \o K(k)

NameCtl(nc)  == nc \in {"cr", "nul", "del"}
NameGray(nc) == nc \in {"sp", "paren", "colon"}
ValCtl(vc)   == vc \in {"cr", "crinj", "nul", "crlf", "lf"}
LineInvalid  == m \in {"nul", "sp"} \/ t \in {"sp", "nul", "cr"}

(* ------------------------------ Layer P --------------------------------- *)
\* expectation for one sent field: [n: lower name, vals: allowed values, must: has to be present]
FieldExp(nc, vc, k) ==
    IF NameCtl(nc) THEN [n |-> "", vals |-> {}, must |-> FALSE, gray |-> FALSE]
    ELSE IF NameGray(nc) THEN [n |-> LowName(nc, k), vals |-> {}, must |-> FALSE, gray |-> TRUE]
    ELSE [n |-> LowName(nc, k), vals |-> {ValFwd(vc, k)} \cup (IF vc = "lf" THEN {"a"} ELSE {}),
          must |-> ~ValCtl(vc), gray |-> FALSE]
\* HTTP/1 front end (RFC 7230 3.2.4, 3.1.1; C24): a field name that is not a token, or a target with
\* control bytes, is answered 4xx and nothing reaches the backend.  HTTP/2: such a request is a
\* malformed stream (reset or 4xx), nothing reaches the backend either.
NameBad(nc) == NameCtl(nc) \/ NameGray(nc)
FrontReject == \/ NameBad(n1) \/ NameBad(n2) \/ t \in {"nul", "cr"}
               \/ proto = "h2" /\ (ValCtl(v1) \/ ValCtl(v2))
\* a bare LF inside a value on HTTP/1 may be read as a line end (RFC 7230 3.5): the text after it may
\* then show up as a field of its own
LfSplit == proto = "h1" /\ (v1 = "lf" \/ v2 = "lf")
ExpP == [mustReject |-> LineInvalid \/ FrontReject, frontReject |-> FrontReject,
         extra |-> IF LfSplit THEN {"x-inj"} ELSE {},
         fields |-> <<FieldExp(n1, v1, 1), FieldExp(n2, v2, 2)>>,
         own |-> {"host", "content-length", "transfer-encoding"}]

\* a forwarding outcome: [rej |-> TRUE] or [rej |-> FALSE, fwd |-> set of forwarded [n, v]] (lower names)
POK(out) ==
    IF out.rej THEN TRUE
    ELSE /\ ~LineInvalid /\ ~FrontReject
         /\ \A k \in 1..2 : LET e == ExpP.fields[k] IN
               /\ e.must => \E f \in out.fwd : f.n = e.n /\ f.v \in e.vals
               /\ (~e.gray /\ e.n # "") => \A f \in out.fwd : f.n = e.n => f.v \in e.vals
         /\ \A f \in out.fwd : f.n \in ExpP.extra \/ \E k \in 1..2 : f.n = ExpP.fields[k].n /\ f.n # ""

(* ------------------------------ Layer M --------------------------------- *)
RejectM ==
    IF proto = "h1" THEN t \in {"nul", "cr"} \/ m = "nul" \/ NameBad(n1) \/ NameBad(n2)
    ELSE \/ LineInvalid
         \/ \E x \in {n1, n2} : NameCtl(x) \/ NameGray(x)
         \/ \E x \in {v1, v2} : ValCtl(x)
\* HTTP/1: non-token names are dropped when the header is written, control bytes in values become SP
\* (a bare LF in an HTTP/1 value is taken as a line end by the reader: two well-formed fields result)
FwdOne(nc, vc, k) == IF NameCtl(nc) \/ NameGray(nc) THEN {}
                     ELSE IF vc = "lf" /\ proto = "h1" THEN {[n |-> LowName(nc, k), v |-> "a"], [n |-> "x-inj", v |-> K(k)]}
                     ELSE {[n |-> LowName(nc, k), v |-> ValFwd(vc, k)]}
OutM == [rej |-> RejectM, fwd |-> IF RejectM THEN {} ELSE FwdOne(n1, v1, 1) \cup FwdOne(n2, v2, 2)]

Next == ~done /\ done' = TRUE /\ UNCHANGED <<proto, m, t, b, n1, v1, n2, v2>>
MSatisfiesP == POK(OutM)
==========================================================================
