------------------------------- MODULE Conn -------------------------------
(* C28  Keep-alive connections stay in sync.                                          *)
(*                                                                                    *)
(* One HTTP/1.x client connection on which a sequence of requests is pipelined (all   *)
(* bytes sent at once).  Request classes:                                             *)
(*   "<METHOD>:<framing>" for GET, HEAD, POST, OPTIONS, DELETE x no body /            *)
(*     Content-Length body / chunked body (RFC 7230 3.3: the presence of a body is    *)
(*     signalled by the framing fields, whatever the method) - bodies contain the     *)
(*     text of a complete request "GET /smuggled ..." ;                               *)
(*   early / earlybig: POST whose backend answers without reading the body and resets *)
(*     (3 kB / 300 kB body: below / above the 256 KiB the server is willing to skip); *)
(*   expect: Expect: 100-continue with body; expectearly: same, backend answers early *)
(*   expect0: Expect: 100-continue with Content-Length: 0; expectbad: unknown Expect; *)
(*   bad: malformed header line; oversize: header block larger than MaxHeaderBytes;   *)
(*   http10: HTTP/1.0 without keep-alive; close: Connection: close.                   *)
(* Layer P (RFC 7230 6.3, 6.6, 3.3.3; statement of C28):                              *)
(*   the final responses received answer r1, r2, .. in order, one each (interim 100   *)
(*   only for Expect requests); a response produced for a request of a "normal" class *)
(*   carries that request's id; nothing else is received; if fewer responses than     *)
(*   requests arrive the connection is closed; after a request that ends persistence  *)
(*   or whose end cannot be determined no later request is answered and the           *)
(*   connection is closed; no backend ever sees the request embedded in a body.       *)
(* Graceful shutdown (bfe_server.ShutdownHandler closes CloseNotifyCh; response.WriteHeader):   *)
(*   a case may run while the server is in graceful-shutdown state (sd = TRUE).  Then *)
(*   (RFC 7230 6.6) the first response ends persistence: an HTTP/1.1 response produced *)
(*   by the backend announces it with "Connection: close", it is complete and in sync, *)
(*   nothing after it is answered and the connection is closed.                        *)
(* Layer M: the conn.serve loop: ReadReq, Handle, WriteResp (Drain <= 256 KiB), Close.*)
EXTENDS Integers, Sequences, FiniteSets, TLC

CONSTANTS MaxReqs,        \* requests pipelined on the connection
          Classes,        \* request classes to use
          SD,             \* subset of BOOLEAN: server states (TRUE = graceful shutdown) to explore
          MaxReqsSD       \* requests pipelined on a connection served during graceful shutdown

\* every method with every body framing: "<METHOD>:<none|cl|chunked>"
Methods  == {"GET", "HEAD", "POST", "OPTIONS", "DELETE"}
Framings == {"none", "cl", "chunked"}
\* "clbig" / "chunkedbig": a body larger than the per-request header limit (MaxHeaderBytes + 4096),
\* with the embedded request placed exactly at that offset of the request's bytes on the wire
BigMF == {m \o ":" \o f : m \in {"POST", "HEAD"}, f \in {"clbig", "chunkedbig"}}
MF == {m \o ":" \o f : m \in Methods, f \in Framings} \cup BigMF
AllClasses == MF \cup {"early", "earlybig", "expect", "expectearly",
               "expect0", "expectbad", "bad", "oversize", "http10", "close"}
ASSUME Classes \subseteq AllClasses

(* ------------------------------ Layer P --------------------------------- *)
EndsPersistence(c) == c \in {"expect0", "expectbad", "bad", "oversize", "http10", "close"}
Normal(c)  == c \in MF \cup {"expect", "http10", "close"}   \* answered by the backend
Interim(c) == c \in {"expect", "expectearly"}
AnyS == 0
Statuses(c) == CASE Normal(c) -> {200}
                 [] c \in {"early", "earlybig", "expectearly"} -> {AnyS}
                 [] c = "expect0" -> {400, 417} [] c = "expectbad" -> {417}
                 [] c = "bad" -> {400} [] OTHER -> {400, 413, 431}
\* index of the first request after which nothing may be answered (0: none)
RECURSIVE FirstEnd(_, _)
FirstEnd(cs, k) == IF k > Len(cs) THEN 0 ELSE IF EndsPersistence(cs[k]) THEN k ELSE FirstEnd(cs, k + 1)
\* during graceful shutdown the first request answered is the last one
FirstEndSD(cs, sd) == IF sd THEN 1 ELSE FirstEnd(cs, 1)
\* responses that must announce the close (HTTP/1.1 responses relayed from the backend)
MustAnnounce(c, sd) == sd /\ Normal(c) /\ c # "http10"

\* obs: [resps: Seq of [st, id (0 = none), interim (number of 100s before it)], closed, smuggled, garbage]
POK(cs, sd, obs) ==
    LET k == Len(obs.resps) fe == FirstEndSD(cs, sd) IN
    /\ k <= Len(cs)
    /\ \A j \in 1..k : /\ (AnyS \in Statuses(cs[j]) \/ obs.resps[j].st \in Statuses(cs[j]))
                       /\ (Normal(cs[j]) => obs.resps[j].id = j)
                       /\ (obs.resps[j].id # 0 => obs.resps[j].id = j)
                       /\ (obs.resps[j].interim > 0 => Interim(cs[j]))
                       /\ (MustAnnounce(cs[j], sd) => obs.resps[j].announced)
    /\ (fe # 0 => k <= fe /\ obs.closed)
    /\ (k < Len(cs) => obs.closed)
    /\ ~obs.smuggled /\ ~obs.garbage

(* ------------------------------ Layer M --------------------------------- *)
VARIABLES cs,        \* the pipelined request classes
          i,         \* next request to read
          resps, closed,
          sd         \* the server is in graceful-shutdown state while the connection is served
vars == <<cs, i, resps, closed, sd>>

Init == /\ sd \in SD
        /\ cs \in UNION {[1..n -> Classes] : n \in 1..(IF sd THEN MaxReqsSD ELSE MaxReqs)}
        /\ i = 1 /\ resps = <<>> /\ closed = FALSE

\* Early backend answers race with the proxy still writing the body: the client gets the backend's
\* 403 or, when the reset is noticed first, the proxy's own 500; the interim 100 may or may not be out.
EarlyC(c) == c \in {"early", "earlybig", "expectearly"}
StatusM(c) == CASE Normal(c) -> {200} [] EarlyC(c) -> {403, 500}
                [] c = "expect0" -> {400} [] c = "expectbad" -> {417} [] c = "bad" -> {400} [] OTHER -> {413}
InterimM(c) == IF c = "expect" THEN {1} ELSE IF c = "expectearly" THEN {0, 1} ELSE {0}
\* does the loop go on to read the next request ?
\* (earlybig: whether more than 256 KiB of the body are still unread when the response is written
\*  depends on how far the transport got: both outcomes occur)
ContinueM(c) == IF EarlyC(c) THEN BOOLEAN
                ELSE {c \in MF \cup {"expect"}}

Serve == /\ ~closed /\ i <= Len(cs)
         /\ \E st \in StatusM(cs[i]), im \in InterimM(cs[i]) :
              resps' = Append(resps, [st |-> st, id |-> IF st \in {200, 403} THEN i ELSE 0, interim |-> im,
                                      \* response.WriteHeader: Connection: close on HTTP/1.1 while shutting down
                                      announced |-> sd /\ cs[i] # "http10"])
         /\ i' = i + 1
         /\ \E cont \in ContinueM(cs[i]) : closed' = (sd \/ ~cont)
         /\ UNCHANGED <<cs, sd>>
Next == Serve
Done == closed \/ i > Len(cs)
ObsM == [resps |-> resps, closed |-> closed, smuggled |-> FALSE, garbage |-> FALSE]
MSatisfiesP == Done => POK(cs, sd, ObsM)
===========================================================================
