CONSTANTS
  MaxConn = @MAXCONN@
  HopCards = @CARDS@
INIT Init
NEXT Next
INVARIANTS MSatisfiesP E2EKept Emit
CHECK_DEADLOCK FALSE
