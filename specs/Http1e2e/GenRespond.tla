---------------------------- MODULE GenRespond ----------------------------
EXTENDS Respond, Json
Emit == done => PrintT(ToJson([method |-> method, cv |-> cv, src |-> src, status |-> status, bfr |-> bfr,
                               bconn |-> bconn, blen |-> blen,
                               expP |-> [nobody |-> NoBody, len |-> ExpLen, framings |-> Framings,
                                         askclose |-> AskClose, trunc |-> Trunc, v11 |-> V11],
                               expM |-> OutM]))
===========================================================================
