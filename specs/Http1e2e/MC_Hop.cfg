CONSTANTS
  MaxConn = @MAXCONN@
INIT Init
NEXT Next
INVARIANTS MSatisfiesP E2EKept
CHECK_DEADLOCK FALSE
