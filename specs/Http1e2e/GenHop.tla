------------------------------ MODULE GenHop ------------------------------
EXTENDS Hop, Json
Emit == done => PrintT(ToJson([proto |-> inp.proto, method |-> IF HasBody(inp) THEN "POST" ELSE "GET", target |-> "/hop",
                       fields |-> Sent(inp), body |-> IF HasBody(inp) THEN "hello" ELSE "", chunked |-> HasBody(inp),
                       expP |-> [forbid |-> Forbid(inp), only |-> Only(inp)],
                       expM |-> [fwd |-> FwdM(inp)]]))
===========================================================================
