CONSTANTS
  MaxReqs = @MAXREQS@
  Classes = @CLASSES@
INIT Init
NEXT Next
INVARIANTS MSatisfiesP Emit
CHECK_DEADLOCK FALSE
