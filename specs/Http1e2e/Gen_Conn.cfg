CONSTANTS
  MaxReqs = @MAXREQS@
  Classes = @CLASSES@
  SD = @SD@
  MaxReqsSD = @MAXREQSSD@
INIT Init
NEXT Next
INVARIANTS MSatisfiesP Emit
CHECK_DEADLOCK FALSE
