------------------------------ MODULE GenConn ------------------------------
EXTENDS Conn, Json
Emit == Done => PrintT(ToJson([reqs |-> cs, sd |-> sd,
           expP |-> [per |-> [j \in 1..Len(cs) |-> [statuses |-> Statuses(cs[j]), normal |-> Normal(cs[j]),
                                                     interim |-> Interim(cs[j]),
                                                     announce |-> MustAnnounce(cs[j], sd)]],
                     firstend |-> FirstEndSD(cs, sd)],
           expM |-> [resps |-> resps, closed |-> closed]]))
============================================================================
