------------------------------ MODULE GenConn ------------------------------
EXTENDS Conn, Json
Emit == Done => PrintT(ToJson([reqs |-> cs,
           expP |-> [per |-> [j \in 1..Len(cs) |-> [statuses |-> Statuses(cs[j]), normal |-> Normal(cs[j]),
                                                     interim |-> Interim(cs[j])]],
                     firstend |-> FirstEnd(cs, 1)],
           expM |-> [resps |-> resps, closed |-> closed]]))
============================================================================
