----------------------------- MODULE BasicP -----------------------------
(* Layer P of C11: the basic route table as described in                              *)
(* docs/zh_cn/introduction/route.md ("基础规则表").  A transcription of the document:   *)
(* no radix tree, no reversed strings, no trailing-slash trick appear here.  Labels   *)
(* and path elements are opaque values (only compared for equality).                  *)
(*                                                                                    *)
(*  host          : non-empty sequence of labels, leftmost first                      *)
(*  host pattern  : exact host | <<Star>> \o suffix  ( *.suffix ) | <<Star>> ( any )  *)
(*  path pattern  : [k |-> "exact"|"prefix"|"any", e |-> sequence of elements]        *)
(*                  exact /a/b = <<a,b>>, exact / = <<>>, prefix /a/* = <<a>>,        *)
(*                  prefix /* = <<>>, any = * or empty                                *)
(*  request path  : [abs |-> starts with "/", e |-> elements, sl |-> trailing slash]  *)
(*                  "" = [abs |-> FALSE, e |-> <<>>, sl |-> FALSE]                    *)
(*  rule table    : function  <<host pattern, path pattern>> -> cluster               *)
(*                  (a rule with several hosts / paths is the set of its pairs; two   *)
(*                  rules for the same pair are a load error, see C13)                *)
EXTENDS Integers, Sequences, FiniteSets, TLC

CONSTANTS Star,                        \* the label "*"
          Miss                         \* the answer "no basic rule hit" (distinct from every cluster)

AnyHost == <<Star>>
IsAnyH(p)  == p = AnyHost
IsWildH(p) == Len(p) >= 2 /\ p[1] = Star
IsExactH(p) == ~IsAnyH(p) /\ ~IsWildH(p)

\* "*" stands for exactly one label
WildMatchH(p, h) == IsWildH(p) /\ Len(h) = Len(p) /\ Tail(h) = Tail(p)

PrefixSeq(a, b) == Len(a) <= Len(b) /\ SubSeq(b, 1, Len(a)) = a

(* Two readings of "exact path match" for a request path that differs from the rule's  *)
(* path only by a trailing slash: the document's table says the trailing slash is      *)
(* ignored for prefix rules and is silent for exact rules.  Both readings are admitted *)
(* (the expectation is a set).                                                         *)
Readings == {"strict", "slash-insensitive"}
ExactMatchQ(pp, q, rd) == /\ pp.k = "exact" /\ q.abs /\ pp.e = q.e
                          /\ (rd = "strict" => (q.sl = FALSE \/ q.e = <<>>))
PrefixMatchQ(pp, q) == pp.k = "prefix" /\ q.abs /\ PrefixSeq(pp.e, q.e)

\* the rules (pairs) of the host class that decides host h: exact, else wildcard, else any
HostClass(R, h) ==
  LET ex == {r \in DOMAIN R : IsExactH(r[1]) /\ r[1] = h}
      wi == {r \in DOMAIN R : WildMatchH(r[1], h)}
      an == {r \in DOMAIN R : IsAnyH(r[1])}
  IN IF ex # {} THEN ex ELSE IF wi # {} THEN wi ELSE an

\* within the class: exact path, else the prefix rule with most elements, else any-path
PathPick(S, q, rd) ==
  LET ex == {r \in S : ExactMatchQ(r[2], q, rd)}
      pr == {r \in S : PrefixMatchQ(r[2], q)}
      an == {r \in S : r[2].k = "any"}
  IN IF ex # {} THEN ex
     ELSE IF pr # {} THEN {r \in pr : \A s \in pr : Len(s[2].e) <= Len(r[2].e)}
     ELSE an

\* the pair(s) hit; by construction at most one
HitSet(R, h, q, rd) == PathPick(HostClass(R, h), q, rd)
BasicGet(R, h, q, rd) == LET s == HitSet(R, h, q, rd)
                         IN IF s = {} THEN Miss ELSE R[CHOOSE r \in s : TRUE]
\* what the property admits
BasicExpect(R, h, q) == {BasicGet(R, h, q, rd) : rd \in Readings}
=========================================================================
