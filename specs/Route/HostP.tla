----------------------------- MODULE HostP -----------------------------
(* Layer P of C10 (host -> product).  Only what the property's statement mentions:   *)
(* the host table as a map  host pattern -> product, the VIP table, the default      *)
(* product, the request's Host and the VIP of its connection; the answer is the      *)
(* product (and, when the host table answered, which entry answered - observable as  *)
(* req.Route.HostTag).  No trie, no reversed strings, no map iteration here.         *)
(*                                                                                   *)
(* A host name is a non-empty sequence of labels, leftmost label first:              *)
(*   <<"b","a">> is  b.a .  A wildcard pattern is <<"*">> \o suffix  ( *.suffix ).   *)
EXTENDS Integers, Sequences, FiniteSets, TLC

IsWild(p)  == Len(p) >= 2 /\ p[1] = "*"
Suffix(p)  == SubSeq(p, 2, Len(p))
LastN(h, n) == SubSeq(h, Len(h) - n + 1, Len(h))
\* h ends with ".s": s is a proper suffix of h in whole labels
EndsWith(h, s) == Len(h) > Len(s) /\ LastN(h, Len(s)) = s

(* The raw Host of a request: the labels plus the spelling variations the property   *)
(* declares irrelevant ("compared case-insensitively with port and trailing dot      *)
(* ignored").  The binding realises up/port/dot as real spellings.                   *)
Variants == [up : BOOLEAN, port : BOOLEAN, dot : BOOLEAN]
Raw(l, v) == [l |-> l, v |-> v]
Norm(raw) == raw.l

NoPat == <<>>

\* T: function  pattern -> product  (the host table, tags elided: one tag per pattern)
ExactHits(T, h) == {p \in DOMAIN T : p = h}
WildHits(T, h)  == {p \in DOMAIN T : IsWild(p) /\ EndsWith(h, Suffix(p))}

\* the table entry that decides host h, or NoPat: exact first, else longest *.suffix
HostHit(T, h) ==
  IF ExactHits(T, h) # {} THEN h
  ELSE IF WildHits(T, h) # {}
       THEN CHOOSE p \in WildHits(T, h) : \A q \in WildHits(T, h) : Len(q) <= Len(p)
       ELSE NoPat

(* cfg = [T |-> host table, vips |-> function vip -> product, def |-> product or ""] *)
(* cvip = the VIP of the connection, "" when unknown.                                *)
Resolve(cfg, raw, cvip) ==
  LET hit == HostHit(cfg.T, Norm(raw)) IN
  IF hit # NoPat                  THEN [kind |-> "host",    prod |-> cfg.T[hit],       pat |-> hit]
  ELSE IF cvip \in DOMAIN cfg.vips THEN [kind |-> "vip",     prod |-> cfg.vips[cvip],   pat |-> NoPat]
  ELSE IF cfg.def # ""             THEN [kind |-> "default", prod |-> cfg.def,          pat |-> NoPat]
  ELSE                                  [kind |-> "none",    prod |-> "",               pat |-> NoPat]

(* ---- the documents' own example (docs/*/configuration/server_data_conf/host_rule.data.md, *)
(*      vip_rule.data.md): example.org -> example_product, vip 111.111.111.111 -> example_product *)
DocT    == (<<"example", "org">> :> "example_product")
DocCfg  == [T |-> DocT, vips |-> ("111.111.111.111" :> "example_product"), def |-> ""]
Plain   == [up |-> FALSE, port |-> FALSE, dot |-> FALSE]
ASSUME DocExample ==
  /\ Resolve(DocCfg, Raw(<<"example", "org">>, Plain), "").prod = "example_product"
  /\ Resolve(DocCfg, Raw(<<"other", "org">>, Plain), "111.111.111.111") =
        [kind |-> "vip", prod |-> "example_product", pat |-> NoPat]
  /\ Resolve(DocCfg, Raw(<<"other", "org">>, Plain), "").kind = "none"
  \* longest suffix
  /\ HostHit((<<"*", "a">> :> "p1") @@ (<<"*", "b", "a">> :> "p2"), <<"x", "b", "a">>) = <<"*", "b", "a">>
  /\ HostHit((<<"*", "a">> :> "p1") @@ (<<"*", "b", "a">> :> "p2"), <<"x", "c", "a">>) = <<"*", "a">>
  /\ HostHit((<<"*", "a">> :> "p1"), <<"a">>) = NoPat
=========================================================================
