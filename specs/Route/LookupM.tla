----------------------------- MODULE LookupM -----------------------------
(* C12.  Alphabet and Layer M (HostTable.LookupCluster as the code does it) for the    *)
(* combination of basic and advanced rules.  Basic tables come from a small            *)
(* sub-alphabet of BasicM with clusters in {cb, ADVANCED_MODE}; advanced rules are     *)
(* conditions from a four-letter alphabet whose truth for a request the spec defines:  *)
(*   "T" always true (default_t()), "F" never true, "H" host is x.t, "P" path is /a.   *)
EXTENDS LookupP, BasicM
CONSTANTS MaxAdv, MaxLRules

AdvL    == <<"ADVANCED_MODE">>     \* cfg: AdvMode <- AdvL
NoRouteL == <<"ERR">>              \* cfg: NoRoute <- NoRouteL

LHostPats == {<<Lx, Lt>>, <<StarL, Lt>>, <<StarL>>}
LPathPats == {Ex(<<Ea>>), Pre(<<Ea>>), AnyP}
LReqHosts == {<<Lx, Lt>>, <<Ly, Lt>>, <<Lt>>}
LReqPaths == {Q(<<Ea>>), Q(<<Ea, Eb>>), Q(<<Eb>>)}
LPairs    == LHostPats \X LPathPats
BasicClusters == {<<"cb">>, AdvL}
LTables   == UNION {[S -> BasicClusters] : S \in SubsetsUpTo(LPairs, MaxLRules)}

Conds == {"T", "F", "H", "P"}
Truth(c, h, q) == CASE c = "T" -> TRUE [] c = "F" -> FALSE
                    [] c = "H" -> h = <<Lx, Lt>> [] c = "P" -> q = Q(<<Ea>>)
AdvClusters == {<<"c1">>, <<"c2">>}
AdvRules == [cond : Conds, c : AdvClusters]
AdvLists == UNION {[1..n -> AdvRules] : n \in 0..MaxAdv}
\* product configuration: basic table or none, advanced list or none
BasicOpts == {[has |-> FALSE, R |-> <<>>]} \cup {[has |-> TRUE, R |-> r] : r \in LTables}
AdvOpts   == {[has |-> FALSE, l |-> <<>>]} \cup {[has |-> TRUE, l |-> a] : a \in AdvLists}
Prods     == [b : BasicOpts, a : AdvOpts]

AdvFor(p, h, q) == [i \in 1..Len(p.a.l) |-> [t |-> Truth(p.a.l[i].cond, h, q), c |-> p.a.l[i].c]]
PExpect(p, h, q) == LookupExpect(p.b.R, p.b.has, AdvFor(p, h, q), p.a.has, h, q)

(* ------------------------------ Layer M ------------------------------ *)
RECURSIVE FirstMatch(_, _, _)
FirstMatch(rules, h, q) ==            \* for _, rule := range rules { if Match { ...; break } }
  IF rules = <<>> THEN <<"">>
  ELSE IF Truth(Head(rules).cond, h, q) THEN Head(rules).c ELSE FirstMatch(Tail(rules), h, q)

MLookup(p, h, q) ==                   \* HostTable.LookupCluster
  LET b == IF ~p.b.has THEN Miss ELSE MGet(p.b.R, h, q) IN
  IF b # Miss /\ b # AdvL THEN b
  ELSE IF ~p.a.has THEN NoRouteL                            \* ErrNoProductRule
  ELSE LET c == FirstMatch(p.a.l, h, q) IN
       IF c = <<"">> THEN NoRouteL ELSE c                   \* ErrNoMatchRule
=========================================================================
