\* C12: basic table (<= MaxLRules rules over a 3x3 alphabet, clusters cb / ADVANCED_MODE) or none,
\* advanced list of <= MaxAdv rules over conditions {T,F,H,P} and clusters {c1,c2} or none, 9 requests
CONSTANTS
  Star <- StarL
  Miss <- MissL
  AdvMode <- AdvL
  NoRoute <- NoRouteL
  Alpha = "small"
  MaxRules = 2
  MaxAdv = @ADV@
  MaxLRules = @LRULES@
INIT Init
NEXT Next
INVARIANTS MRefinesP PShape POrder
CHECK_DEADLOCK FALSE
