\* C10: every host table with <= MaxEntries entries over Labels/MaxDepth, every VIP table,
\* default product, probe host and connection VIP
CONSTANTS
  Labels = {"a", "b"}
  MaxDepth = @DEPTH@
  MaxEntries = @ENTRIES@
  Products = {"p1", "p2"}
  Vips = {"v1"}
  VipProds = @VIPPRODS@
  Defs = @DEFS@
  CVips = {"", "v1", "v2"}
INIT Init
NEXT Next
INVARIANTS MRefinesP PTotal PChain
CHECK_DEADLOCK FALSE
