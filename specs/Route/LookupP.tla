----------------------------- MODULE LookupP -----------------------------
(* Layer P of C12: how the basic table and the advanced (ordered, condition based)     *)
(* table of a product combine into the destination cluster                             *)
(* (docs/zh_cn/introduction/route.md "匹配顺序", docs/en_us/introduction/route.md):      *)
(*   the basic-rule result when it names a real cluster; when the basic table misses   *)
(*   or yields ADVANCED_MODE, the cluster of the first advanced rule, in configured    *)
(*   order, whose condition the request satisfies; otherwise an error (not forwarded). *)
(* Conditions are opaque: the property only needs their truth value for the request.   *)
EXTENDS BasicP

CONSTANTS AdvMode,      \* the cluster name ADVANCED_MODE
          NoRoute       \* the answer "error, request not forwarded"

\* adv: sequence of [t |-> truth of the rule's condition for this request, c |-> cluster];
\* hasAdv: the product has an advanced rule list at all
AdvPick(adv, hasAdv) ==
  LET hits == {i \in 1..Len(adv) : adv[i].t} IN
  IF ~hasAdv \/ hits = {} THEN NoRoute
  ELSE adv[CHOOSE i \in hits : \A j \in hits : i <= j].c

Combine(b, adv, hasAdv) == IF b # Miss /\ b # AdvMode THEN b ELSE AdvPick(adv, hasAdv)

\* R: basic rule table (BasicP), hasBasic: the product has a basic table
LookupExpect(R, hasBasic, adv, hasAdv, h, q) ==
  {Combine(b, adv, hasAdv) : b \in (IF hasBasic THEN BasicExpect(R, h, q) ELSE {Miss})}
=========================================================================
