CONSTANTS
  Star <- StarL
  Miss <- MissL
  AdvMode <- AdvL
  NoRoute <- NoRouteL
  Alpha = "small"
  MaxRules = 2
  MaxAdv = @ADV@
  MaxLRules = @LRULES@
INIT GInit
NEXT GNext
INVARIANTS Emit
CHECK_DEADLOCK FALSE
