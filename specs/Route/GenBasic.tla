---------------------------- MODULE GenBasic ----------------------------
(* Case generator for C11 (and the basic part of C12): one JSON object per rule table  *)
(* with every request of the alphabet and the set of answers Layer P admits            *)
(* (e = indexes into `rules`, 0 = no basic rule hit).  Strings are spelled out so the  *)
(* binding only has to put them into a route_rule.data file / a request.               *)
EXTENDS BasicM, Json, SequencesExt

\* the table grows one pair at a time: exhaustive search visits every table with <= MaxRules pairs
\* once, -simulate walks to random tables without enumerating them all first
VARIABLES g, fin
GInit == g = <<>> /\ fin = FALSE
GNext == /\ ~fin
         /\ \/ /\ Cardinality(DOMAIN g) < MaxRules
               /\ \E r \in Pairs \ DOMAIN g : g' = [x \in DOMAIN g \cup {r} |-> <<"C", x>>]
               /\ fin' = FALSE
            \/ fin' = TRUE /\ UNCHANGED g       \* dedicated print step (see Emit)

RECURSIVE Str(_)
Str(s) == IF s = <<>> THEN "" ELSE s[1] \o Str(Tail(s))

Idx(rs, c) == IF c = Miss THEN 0 ELSE CHOOSE i \in 1..Len(rs) : <<"C", rs[i]>> = c
Case(R) == LET rs == SetToSeq(DOMAIN R) IN
  [rules  |-> [i \in 1..Len(rs) |-> [h |-> Str(HostStr(rs[i][1])), p |-> Str(PathPatStr(rs[i][2]))]],
   probes |-> SetToSeq({[h |-> Str(HostStr(hh)), q |-> Str(ReqPathStr(qq)),
                         e |-> {Idx(rs, c) : c \in BasicExpect(R, hh, qq)}]
                        : hh \in ReqHosts, qq \in ReqPaths})]
Emit == fin => PrintT(ToJson(Case(g)))
=========================================================================
