CONSTANTS
  Kinds = @KINDS@
  MaxDev = @DEV@
  InitPos = @INITPOS@
INIT GInit
NEXT GNext
INVARIANTS Emit
CHECK_DEADLOCK FALSE
