CONSTANTS
  Kinds = @KINDS@
  MaxDev = @DEV@
INIT GInit
NEXT GNext
INVARIANTS Emit
CHECK_DEADLOCK FALSE
