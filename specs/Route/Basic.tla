------------------------------ MODULE Basic ------------------------------
(* C11 model-checking harness: every rule table (<= MaxRules pairs over the alphabet), *)
(* every request host and path; the mechanism model answers within what Layer P        *)
(* admits; Layer P is single-valued per reading and never crosses host classes.        *)
(* The document's own examples are checked as ASSUMEs (BasicDoc).                      *)
EXTENDS BasicM, BasicDoc

VARIABLES R, h, q, out, done
vars == <<R, h, q, out, done>>

NoH == << <<"-">> >>
Init == /\ R \in Tables /\ h = NoH /\ q = QEmpty
        /\ out = <<"pending">> /\ done = FALSE
Get(hh, qq) == /\ ~done /\ h' = hh /\ q' = qq /\ out' = MGet(R, hh, qq) /\ done' = TRUE
               /\ UNCHANGED R
Next == ~done /\ \E hh \in ReqHosts, qq \in ReqPaths : Get(hh, qq)

MRefinesP == done => out \in BasicExpect(R, h, q)

PSingle == \A rd \in Readings : Cardinality(HitSet(R, h, q, rd)) <= 1
\* once a host class is entered the answer is a rule of that class or a miss
PNoCross == \A rd \in Readings :
   LET res == BasicGet(R, h, q, rd)
       ex  == {r \in DOMAIN R : r[1] = h}
       wi  == {r \in DOMAIN R : WildMatchH(r[1], h)}
   IN /\ (ex # {}) => (res = Miss \/ res \in {R[r] : r \in ex})
      /\ (ex = {} /\ wi # {}) => (res = Miss \/ res \in {R[r] : r \in wi})
\* the two readings differ only for a trailing slash after a non-empty path
PReadings == (q.sl = FALSE \/ q.e = <<>>) => Cardinality(BasicExpect(R, h, q)) = 1
=========================================================================
