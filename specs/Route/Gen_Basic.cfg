CONSTANTS
  Star <- StarL
  Miss <- MissL
  Alpha = "@ALPHA@"
  MaxRules = @RULES@
INIT GInit
NEXT GNext
INVARIANTS Emit
CHECK_DEADLOCK FALSE
