\* C14: host tags x host spellings (two names, two cases) x products x vip spellings x iteration orders
CONSTANTS
  Fixed = @FIXED@
  Names0 = {"h1", "h2"}
  Tags0 = {"t1", "t2"}
  Prods0 = {"p1", "p2"}
  MaxPerTag = @PERTAG@
INIT Init
NEXT Next
INVARIANTS Deterministic PFunction
CHECK_DEADLOCK FALSE
