----------------------------- MODULE DetermM -----------------------------
(* C14, Layer M: HostRuleConfLoad / buildHostRoute / VipRuleConfLoad as the code does  *)
(* it, with Go's unspecified map iteration order as explicit nondeterminism: the       *)
(* orders in which `range` visits the host tags, the products, the host2HostTag map    *)
(* and the Vips map are parameters.  With Fixed = TRUE (the code after the fix:        *)
(* commits: duplicate checks up to case / across products) every order gives the same  *)
(* result; with Fixed = FALSE (the pinned commit) TLC finds two orders that disagree.  *)
EXTENDS DetermP
CONSTANTS Fixed,          \* TRUE: loaders reject the ambiguous shapes
          Names0, Tags0, Prods0, MaxPerTag

\* two spellings of the VIP v1 (e.g. 10.1.1.1 and ::ffff:10.1.1.1) and one of v2
VipSp0 == {[ip |-> "v1", form |-> "a"], [ip |-> "v1", form |-> "b"], [ip |-> "v2", form |-> "a"]}
Cases == {"lo", "up"}
Spellings == [n : Names0, c : Cases]
SmallSubsets(S, k) == {x \in SUBSET S : Cardinality(x) <= k}
HostCfgs == {c \in [hosts : [Tags0 -> SmallSubsets(Spellings, MaxPerTag)], tags : [Prods0 -> SUBSET Tags0],
                    vips : {[p \in Prods0 |-> {}]}] : WellFormed(c)}
VipCfgs  == [hosts : {[t \in Tags0 |-> {}]}, tags : {[p \in Prods0 |-> {}]},
             vips : [Prods0 -> SUBSET VipSp0]]

Perms(S) == {f \in [1..Cardinality(S) -> S] : \A i, j \in 1..Cardinality(S) : f[i] = f[j] => i = j}
AllSp(cfg)  == UNION {cfg.hosts[t] : t \in DOMAIN cfg.hosts}
AllVip(cfg) == UNION {cfg.vips[p] : p \in DOMAIN cfg.vips}

\* HostRuleConfLoad duplicate check: exact spelling at the pinned commit, up to case after the fix
DupHost(cfg) == IF Fixed
                THEN \E t1, t2 \in DOMAIN cfg.hosts : \E a \in cfg.hosts[t1], b \in cfg.hosts[t2] :
                        a.n = b.n /\ (t1 # t2 \/ a # b)
                ELSE \E t1, t2 \in DOMAIN cfg.hosts : t1 # t2 /\ cfg.hosts[t1] \cap cfg.hosts[t2] # {}
DupTag(cfg)  == Fixed /\ \E t \in Tags0 : Cardinality(ProdsOf(cfg, t)) > 1
DupVip(cfg)  == Fixed /\ \E ip \in Ips(cfg) : Cardinality(VipProds(cfg, ip)) > 1

\* position of x in the permutation o
Pos(o, x) == CHOOSE i \in DOMAIN o : o[i] = x
LastOf(o, S) == CHOOSE x \in S : \A y \in S : Pos(o, y) <= Pos(o, x)

\* oS: order in which buildHostRoute ranges over host2HostTag (spellings; lower-cased key, last wins)
\* oP: order in which the loaders range over HostTags / Vips (products; last writer wins)
LoadM(cfg, oS, oP) ==
  IF DupHost(cfg) \/ DupTag(cfg) \/ DupVip(cfg) THEN [ok |-> FALSE]
  ELSE LET tagOfSp(sp) == CHOOSE t \in DOMAIN cfg.hosts : sp \in cfg.hosts[t]
           prodOfTag(t) == LastOf(oP, ProdsOf(cfg, t))
           hostOf(n) == LET sp == LastOf(oS, {s \in AllSp(cfg) : s.n = n})
                        IN [tag |-> tagOfSp(sp), prod |-> prodOfTag(tagOfSp(sp))]
       IN [ok |-> TRUE,
           host |-> [n \in Names(cfg) |-> hostOf(n)],
           vip  |-> [ip \in Ips(cfg) |-> LastOf(oP, VipProds(cfg, ip))]]

\* bal_gslb.Init: sub-clusters appended in map order, then sorted by name
GslbOrder(subs, o) == LET n == Cardinality(subs) IN
   \* the sorted list does not depend on the visiting order o
   CHOOSE s \in Perms(subs) : \A i, j \in 1..n : i < j => s[i] < s[j]
=========================================================================
