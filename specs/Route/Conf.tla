------------------------------ MODULE Conf ------------------------------
(* C13 model-checking harness: every shape with at most MaxDev fields off the           *)
(* documented baseline, for every kind of file set; the loaders' model agrees with      *)
(* Layer P wherever Layer P has a verdict; Layer P is total and the class table is      *)
(* well-formed.                                                                         *)
EXTENDS ConfM
CONSTANTS Kinds, MaxDev

VARIABLES k, s, out, n
vars == <<k, s, out, n>>

Init == /\ k \in Kinds /\ s \in Shapes(k, 1) /\ out = MVerdict(k, s) /\ n = 1
More(sh) == /\ s' = sh /\ out' = MVerdict(k, sh) /\ n' = n + 1 /\ UNCHANGED k
Next == n < MaxDev /\ \E sh \in Extend(k, s) : More(sh)

MRefinesP == /\ (PVerdict(k, s) = "accept") => out = "acc"
             /\ (PVerdict(k, s) = "reject") => out = "rej"
PTotal    == PVerdict(k, s) \in {"accept", "reject", "gray"}
ASSUME TablesOK == \A kk \in AllKinds : \A f \in FieldSet(kk) :
               /\ Baseline(f) \in States(f)
               /\ Class(f, Baseline(f)) = "A"
               /\ {p[1] : p \in MTab(f)} = States(f)
               /\ \A st \in States(f) : Class(f, st) \in {"A", "R", "G"}
\* closure: every state that stands for a dangling reference is a must-reject
ASSUME Closure == \A kk \in AllKinds : \A f \in FieldSet(kk) : \A st \in States(f) :
               st \in {"dangling", "tagdangling", "proddangling"} => Class(f, st) = "R"
=========================================================================
