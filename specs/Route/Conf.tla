------------------------------ MODULE Conf ------------------------------
(* C13 model-checking harness: every shape with at most MaxDev fields off the           *)
(* documented baseline, for every kind of file set; the loaders' model agrees with      *)
(* Layer P wherever Layer P has a verdict; Layer P is total and the class table is      *)
(* well-formed.                                                                         *)
EXTENDS ConfM
CONSTANTS Kinds, MaxDev

VARIABLES k, s, out, done
vars == <<k, s, out, done>>

Init == /\ k \in Kinds /\ s = BaseShape(k) /\ out = "pending" /\ done = FALSE
Load(sh) == /\ ~done /\ s' = sh /\ out' = MVerdict(k, sh) /\ done' = TRUE /\ UNCHANGED k
Next == \E sh \in Shapes(k, MaxDev) : Load(sh)

MRefinesP == done => /\ (PVerdict(k, s) = "accept") => out = "acc"
                     /\ (PVerdict(k, s) = "reject") => out = "rej"
PTotal    == PVerdict(k, s) \in {"accept", "reject", "gray"}
TablesOK  == \A f \in FieldSet(k) :
               /\ Baseline(f) \in States(f)
               /\ Class(f, Baseline(f)) = "A"
               /\ {p[1] : p \in MTab(f)} = States(f)
               /\ \A st \in States(f) : Class(f, st) \in {"A", "R", "G"}
\* closure: every state that stands for a dangling reference is a must-reject
Closure   == \A f \in FieldSet(k) : \A st \in States(f) :
               st \in {"dangling", "tagdangling", "proddangling"} => Class(f, st) = "R"
=========================================================================
