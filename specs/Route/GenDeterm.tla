---------------------------- MODULE GenDeterm ----------------------------
(* Case generator for C14: one JSON object per file set: the files' content, whether     *)
(* Layer P requires rejection ("reject", with the kind of ambiguity) or a function       *)
(* ("function", with the function itself); plus gslb weight tables (always a function:   *)
(* which sub-cluster serves a client may not depend on the load).                        *)
EXTENDS DetermM, Json, SequencesExt
CONSTANT Subs0

Absent == 9   \* weight value standing for "sub-cluster not in the predecessor configuration"
GslbCfgs == {w \in [Subs0 -> 0..2] : \E s \in Subs0 : w[s] > 0}

VARIABLE g
GInit == \/ g \in {[kind |-> "host", c |-> c] : c \in HostCfgs}
         \/ g \in {[kind |-> "vip", c |-> c] : c \in VipCfgs}
         \/ g \in {[kind |-> "gslb", c |-> w] : w \in GslbCfgs}
GNext == UNCHANGED g

Why(c) == (IF AmbiguousHost(c) THEN {"host-under-two-tags"} ELSE {})
          \cup (IF AmbiguousTag(c) THEN {"tag-under-two-products"} ELSE {})
          \cup (IF AmbiguousVip(c) THEN {"vip-under-two-products"} ELSE {})
Case(x) ==
  IF x.kind = "gslb" THEN [kind |-> "gslb", w |-> x.c, e |-> "function",
                           \* "independent of ... reload count": besides a fresh load the same files are reached by a
                           \* reload from each predecessor table; Absent marks a sub-cluster the predecessor lacks,
                           \* the other predecessor has every weight changed (all sub-clusters kept)
                           prevs |-> SetToSeq({[s \in Subs0 |-> IF s = a THEN Absent ELSE x.c[s]] :
                                                a \in {a \in Subs0 : \E s \in Subs0 \ {a} : x.c[s] > 0}}
                                              \cup {[s \in Subs0 |-> 1]})]
  ELSE LET c == x.c IN
       [kind  |-> x.kind,
        hosts |-> [t \in DOMAIN c.hosts |-> SetToSeq(c.hosts[t])],
        tags  |-> [p \in DOMAIN c.tags |-> SetToSeq(c.tags[p])],
        vips  |-> [p \in DOMAIN c.vips |-> SetToSeq(c.vips[p])],
        e     |-> Expect(c),
        why   |-> Why(c),
        mean  |-> IF Ambiguous(c) THEN [host |-> <<>>, vip |-> <<>>]
                  ELSE [host |-> SetToSeq({[n |-> n, tag |-> Meaning(c).host[n].tag, prod |-> Meaning(c).host[n].prod] : n \in Names(c)}),
                        vip  |-> SetToSeq({[ip |-> ip, prod |-> Meaning(c).vip[ip]] : ip \in Ips(c)})]]
Emit == PrintT(ToJson(Case(g)))
=========================================================================
