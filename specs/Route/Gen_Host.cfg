CONSTANTS
  Labels = {"a", "b"}
  MaxDepth = @DEPTH@
  MaxEntries = @ENTRIES@
  Products = {"p1", "p2"}
  Vips = @VIPS@
  VipProds = @VIPPRODS@
  Defs = @DEFS@
  CVips = @CVIPS@
INIT GInit
NEXT GNext
INVARIANTS Emit
CHECK_DEADLOCK FALSE
