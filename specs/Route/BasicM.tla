----------------------------- MODULE BasicM -----------------------------
(* C11.  Layer M: the mechanism of route_rule_conf/basic_rule_tree.go at the level of  *)
(* characters - hosts and paths are strings (sequences of one-character strings), the  *)
(* trees are keyed by the reversed host string / the path string, lookups are string   *)
(* Get and LongestPrefix, exactly as hostTrees.insert/get and pathTrees.insert/get do. *)
(* Layer P (BasicP) works on labels and path elements; TLC checks, for every rule      *)
(* table and request within the alphabets below, that the two agree.                   *)
(* In this module a label / path element is a sequence of characters: x.t is           *)
(* << <<"x">>, <<"t">> >>, the label "xt" is <<"x","t">>.                              *)
EXTENDS BasicP
CONSTANTS Alpha,        \* "small" | "full" : which alphabet
          MaxRules      \* rule table = at most MaxRules (host pattern, path pattern) pairs

StarL == <<"*">>        \* cfg: Star <- StarL
MissL == <<"MISS">>     \* cfg: Miss <- MissL
Lx == <<"x">>   Ly == <<"y">>   Lt == <<"t">>   Lxt == <<"x", "t">>
Ea == <<"a">>   Eb == <<"b">>   Ec == <<"c">>   Eab == <<"a", "b">>

AnyP   == [k |-> "any",    e |-> <<>>]
Ex(e)  == [k |-> "exact",  e |-> e]
Pre(e) == [k |-> "prefix", e |-> e]
Q(e)   == [abs |-> TRUE,  e |-> e,    sl |-> FALSE]
QS(e)  == [abs |-> TRUE,  e |-> e,    sl |-> TRUE]
QEmpty == [abs |-> FALSE, e |-> <<>>, sl |-> FALSE]

Full == Alpha = "full"
HostPats == {<<Lx, Lt>>, <<Ly, Lx, Lt>>, <<StarL, Lt>>, <<StarL, Lx, Lt>>, <<StarL>>}
            \cup (IF Full THEN {<<Lxt>>} ELSE {})
ReqHosts == {<<Lx, Lt>>, <<Ly, Lt>>, <<Ly, Lx, Lt>>, <<Lt>>, <<Lxt>>}
            \cup (IF Full THEN {<<Ly, Ly, Lx, Lt>>, <<Ly, Lxt>>} ELSE {})
PathPats == {Ex(<<>>), Ex(<<Ea>>), Ex(<<Ea, Eb>>), Pre(<<>>), Pre(<<Ea>>), Pre(<<Ea, Eb>>), AnyP}
            \cup (IF Full THEN {Ex(<<Eab>>)} ELSE {})
ReqPaths == {QEmpty, Q(<<>>), Q(<<Ea>>), QS(<<Ea>>), Q(<<Eab>>), Q(<<Ea, Eb>>), QS(<<Ea, Eb>>),
             Q(<<Ea, Eb, Ec>>), Q(<<Eb>>)}
            \cup (IF Full THEN {Q(<<Eab, Ec>>), Q(<<Ea, Ec>>)} ELSE {})
Pairs == HostPats \X PathPats

RECURSIVE SubsetsUpTo(_, _)
SubsetsUpTo(S, k) == IF k = 0 THEN {{}}
                     ELSE LET prev == SubsetsUpTo(S, k - 1)
                          IN prev \cup {s \cup {x} : s \in prev, x \in S}
\* every rule gets its own cluster, named by the pair: the answer identifies the rule hit
Tables == {[r \in S |-> <<"C", r>>] : S \in SubsetsUpTo(Pairs, MaxRules)}

(* ------------------------------ strings ------------------------------ *)
RECURSIVE Join(_, _)
Join(ss, sep) == IF ss = <<>> THEN <<>>
                 ELSE IF Len(ss) = 1 THEN ss[1]
                 ELSE ss[1] \o <<sep>> \o Join(Tail(ss), sep)
RevS(s) == [i \in 1..Len(s) |-> s[Len(s) + 1 - i]]
ReverseFqdn(s) == LET r == RevS(s) IN IF Len(r) > 0 /\ r[1] = "." THEN Tail(r) ELSE r
StrPrefix(a, b) == Len(a) <= Len(b) /\ SubSeq(b, 1, Len(a)) = a
HasDot(s) == \E i \in 1..Len(s) : s[i] = "."
Last(s) == s[Len(s)]

HostStr(h) == Join(h, ".")
PathPatStr(pp) == CASE pp.k = "any"    -> <<"*">>
                    [] pp.k = "exact"  -> <<"/">> \o Join(pp.e, "/")
                    [] pp.k = "prefix" -> IF pp.e = <<>> THEN <<"/", "*">>
                                          ELSE <<"/">> \o Join(pp.e, "/") \o <<"/", "*">>
ReqPathStr(q) == IF ~q.abs THEN <<>>
                 ELSE <<"/">> \o Join(q.e, "/") \o (IF q.sl /\ q.e # <<>> THEN <<"/">> ELSE <<>>)

(* ------------------------------ Layer M ------------------------------ *)
\* hostTrees.insert: which tree, which key
HKey(hp) == LET s == HostStr(hp)
            IN IF s[1] = "*" THEN [t |-> "wild",  k |-> ReverseFqdn(Tail(s))]
               ELSE               [t |-> "exact", k |-> ReverseFqdn(s)]
\* pathTrees.insert
PKey(pp) == LET s == PathPatStr(pp)
            IN IF Last(s) = "*"
               THEN LET k0 == SubSeq(s, 1, Len(s) - 1)
                    IN [t |-> "wild", k |-> IF Len(k0) > 0 /\ Last(k0) # "/" THEN Append(k0, "/") ELSE k0]
               ELSE [t |-> "exact", k |-> s]
NoNode == [t |-> "none", k |-> <<>>]

\* hostTrees.get
MHostGet(R, h) ==
  LET key   == ReverseFqdn(HostStr(h))
      nodes == {HKey(r[1]) : r \in DOMAIN R}
      wk    == {n.k : n \in {m \in nodes : m.t = "wild"}}
      cands == {k \in wk : StrPrefix(k, key)}
  IN IF [t |-> "exact", k |-> key] \in nodes THEN [t |-> "exact", k |-> key]
     ELSE IF cands = {} THEN NoNode
     ELSE LET lp  == CHOOSE k \in cands : \A j \in cands : Len(j) <= Len(k)
              rem == SubSeq(key, Len(lp) + 1, Len(key))
          IN IF HasDot(rem)
             THEN (IF <<>> \in wk THEN [t |-> "wild", k |-> <<>>] ELSE NoNode)
             ELSE [t |-> "wild", k |-> lp]
\* pathTrees.get
MPathGet(R, node, q) ==
  LET rules == {r \in DOMAIN R : HKey(r[1]) = node}
      path  == ReqPathStr(q)
      ex    == {r \in rules : PKey(r[2]) = [t |-> "exact", k |-> path]}
      path2 == IF Len(path) > 0 /\ Last(path) # "/" THEN Append(path, "/") ELSE path
      wc    == {r \in rules : PKey(r[2]).t = "wild" /\ StrPrefix(PKey(r[2]).k, path2)}
  IN IF ex # {} THEN R[CHOOSE r \in ex : TRUE]
     ELSE IF wc # {}
          THEN R[CHOOSE r \in wc : \A s \in wc : Len(PKey(s[2]).k) <= Len(PKey(r[2]).k)]
          ELSE Miss
\* BasicRouteRuleTree.Get
MGet(R, h, q) == LET n == MHostGet(R, h) IN IF n = NoNode THEN Miss ELSE MPathGet(R, n, q)

\* distinct patterns of the alphabet have distinct tree keys (otherwise the loader
\* reports a duplicate and the table is not a legal configuration)
ASSUME KeysInjective ==
  /\ \A a, b \in HostPats : HKey(a) = HKey(b) => a = b
  /\ \A a, b \in PathPats : PKey(a) = PKey(b) => a = b
=========================================================================
