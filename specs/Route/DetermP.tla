----------------------------- MODULE DetermP -----------------------------
(* Layer P of C14: loading a set of configuration files is a *function*.               *)
(* The meaning of host_rule.data / vip_rule.data as the documents give it              *)
(* (host -> host tag -> product, vip -> product, host names compared                   *)
(* case-insensitively) is a relation; a file set for which that relation is not a      *)
(* function (a host name - up to case - under two host tags, a host tag that carries   *)
(* hosts under two products, a VIP - up to spelling - under two products) has no       *)
(* order-independent meaning and must be rejected.  Every other file set, when it is   *)
(* accepted, must answer every request the same way on every load, namely as the       *)
(* relation says.  Nothing about maps, iteration or tries appears here.                *)
(*   cfg.hosts : [Tags -> SUBSET Spellings]   spelling = [n |-> name, c |-> "lo"|"up"] *)
(*   cfg.tags  : [Products -> SUBSET Tags]                                             *)
(*   cfg.vips  : [Products -> SUBSET VipSpellings]  vip spelling = [ip, form]          *)
EXTENDS Integers, Sequences, FiniteSets, TLC

TagsOf(cfg, n)  == {t \in DOMAIN cfg.hosts : \E sp \in cfg.hosts[t] : sp.n = n}
ProdsOf(cfg, t) == {p \in DOMAIN cfg.tags : t \in cfg.tags[p]}
VipProds(cfg, ip) == {p \in DOMAIN cfg.vips : \E v \in cfg.vips[p] : v.ip = ip}
Names(cfg) == {sp.n : sp \in UNION {cfg.hosts[t] : t \in DOMAIN cfg.hosts}}
Ips(cfg)   == {v.ip : v \in UNION {cfg.vips[p] : p \in DOMAIN cfg.vips}}

AmbiguousHost(cfg) == \E n \in Names(cfg) : Cardinality(TagsOf(cfg, n)) > 1
AmbiguousTag(cfg)  == \E t \in DOMAIN cfg.hosts : cfg.hosts[t] # {} /\ Cardinality(ProdsOf(cfg, t)) > 1
AmbiguousVip(cfg)  == \E ip \in Ips(cfg) : Cardinality(VipProds(cfg, ip)) > 1
Ambiguous(cfg) == AmbiguousHost(cfg) \/ AmbiguousTag(cfg) \/ AmbiguousVip(cfg)

\* well-formed: every tag that carries hosts belongs to some product (otherwise the file is
\* rejected for a reason that is not C14's)
WellFormed(cfg) == \A t \in DOMAIN cfg.hosts : cfg.hosts[t] # {} => ProdsOf(cfg, t) # {}

\* the function, when the relation is one
Meaning(cfg) ==
  [host |-> [n \in Names(cfg) |-> LET t == CHOOSE x \in TagsOf(cfg, n) : TRUE
                                  IN [tag |-> t, prod |-> CHOOSE p \in ProdsOf(cfg, t) : TRUE]],
   vip  |-> [ip \in Ips(cfg) |-> CHOOSE p \in VipProds(cfg, ip) : TRUE]]

\* "reject": no load may succeed; "function": every successful load answers Meaning(cfg)
Expect(cfg) == IF Ambiguous(cfg) THEN "reject" ELSE "function"
=========================================================================
