------------------------------ MODULE HostM------------------------------
(* C10.  Layer M: the mechanism of bfe_route/host_table.go - a trie keyed by the     *)
(* reversed label sequence with a "splat" entry per node (bfe_route/trie), the       *)
(* fallback chain of LookupHostTagAndProduct - checked by TLC, for every table /     *)
(* probe within the constants, against Layer P (HostP).                              *)
EXTENDS HostP
CONSTANTS Labels,        \* label alphabet, e.g. {"a","b"}
          MaxDepth,      \* host names have 1..MaxDepth labels, wildcard suffixes 1..MaxDepth-1
          MaxEntries,    \* host table entries
          Products,      \* product names
          Vips,          \* VIPs that may be configured
          VipProds,      \* products a configured VIP may map to
          Defs,          \* default products ("" = none configured)
          CVips          \* VIP a connection may arrive on ("" = unknown)

SeqsUpTo(S, n) == UNION {[1..k -> S] : k \in 1..n}
HostNames == SeqsUpTo(Labels, MaxDepth)
WildPats  == {<<"*">> \o s : s \in SeqsUpTo(Labels, MaxDepth - 1)}
Pats      == HostNames \cup WildPats

RECURSIVE SubsetsUpTo(_, _)
SubsetsUpTo(S, k) == IF k = 0 THEN {{}}
                     ELSE LET prev == SubsetsUpTo(S, k - 1)
                          IN prev \cup {s \cup {x} : s \in prev, x \in S}
Tables    == UNION {[S -> Products] : S \in SubsetsUpTo(Pats, MaxEntries)}
VipTables == UNION {[S -> VipProds] : S \in SUBSET Vips}
Configs   == [T : Tables, vips : VipTables, def : Defs]

(* ------------------------------ Layer M ------------------------------ *)
Rev(s) == [i \in 1..Len(s) |-> s[Len(s) + 1 - i]]
Key(p) == Rev(p)                      \* ReverseFqdnHost + Split("."): "*" comes last
PrefixOf(a, b) == Len(a) <= Len(b) /\ SubSeq(b, 1, Len(a)) = a
HasNode(T, n)  == \E p \in DOMAIN T : PrefixOf(n, Key(p))
EntryAt(T, n)  == IF \E p \in DOMAIN T : Key(p) = n
                  THEN CHOOSE p \in DOMAIN T : Key(p) = n ELSE NoPat
\* Trie.Set: at the node where the remaining path is <<"*">> the SplatEntry is set
SplatAt(T, n)  == EntryAt(T, Append(n, "*"))

RECURSIVE TGet(_, _, _)
TGet(T, node, rest) ==                \* Trie.Get
  IF rest = <<>> THEN EntryAt(T, node)
  ELSE LET child == Append(node, Head(rest))
           sub   == IF HasNode(T, child) THEN TGet(T, child, Tail(rest)) ELSE NoPat
       IN IF sub = NoPat /\ SplatAt(T, node) # NoPat THEN SplatAt(T, node) ELSE sub

MResolve(c, h, v) ==                  \* LookupHostTagAndProduct
  LET hit == TGet(c.T, <<>>, Rev(h))
      r1  == IF hit # NoPat THEN [kind |-> "host", prod |-> c.T[hit], pat |-> hit]
             ELSE [kind |-> "none", prod |-> "", pat |-> NoPat]
      r2  == IF r1.kind = "none" /\ v # "" /\ DOMAIN c.vips # {} /\ v \in DOMAIN c.vips
             THEN [kind |-> "vip", prod |-> c.vips[v], pat |-> NoPat] ELSE r1
      r3  == IF r2.kind = "none" /\ c.def # ""
             THEN [kind |-> "default", prod |-> c.def, pat |-> NoPat] ELSE r2
  IN r3
=========================================================================
