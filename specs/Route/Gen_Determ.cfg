CONSTANTS
  Fixed = TRUE
  Names0 = {"h1", "h2"}
  Tags0 = {"t1", "t2"}
  Prods0 = {"p1", "p2"}
  MaxPerTag = @PERTAG@
  Subs0 = {"s1", "s2", "s3"}
INIT GInit
NEXT GNext
INVARIANTS Emit
CHECK_DEADLOCK FALSE
