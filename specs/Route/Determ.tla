------------------------------ MODULE Determ ------------------------------
(* C14 model-checking harness: every small host / vip file set x every iteration order. *)
EXTENDS DetermM

VARIABLES cfg, oS, oP, out, n
vars == <<cfg, oS, oP, out, n>>

Init == /\ cfg \in HostCfgs \cup VipCfgs /\ oS = <<>> /\ oP = <<>> /\ out = [ok |-> FALSE] /\ n = 0
Load(a, b) == /\ oS' = a /\ oP' = b /\ out' = LoadM(cfg, a, b) /\ n' = 1 /\ UNCHANGED cfg
Next == n = 0 /\ \E a \in Perms(AllSp(cfg)), b \in Perms(Prods0) : Load(a, b)

\* the load is a function of the files: whatever the iteration order, an accepted load answers
\* as the relation says, and ambiguous file sets are never accepted
Deterministic == n = 1 => /\ (Expect(cfg) = "reject") => ~out.ok
                          /\ out.ok => (out.host = Meaning(cfg).host /\ out.vip = Meaning(cfg).vip)
\* sanity of Layer P: the relation of a non-ambiguous file set is a function
PFunction == ~Ambiguous(cfg) =>
               /\ \A x \in Names(cfg) : Cardinality(TagsOf(cfg, x)) = 1
               /\ \A x \in Names(cfg) : \A t \in TagsOf(cfg, x) : Cardinality(ProdsOf(cfg, t)) = 1
               /\ \A ip \in Ips(cfg) : Cardinality(VipProds(cfg, ip)) = 1
\* the documents' example (one host, one tag, one product, one vip) is a function
ASSUME DocExample ==
  LET c == [hosts |-> ("exampleTag" :> {[n |-> "example.org", c |-> "lo"]}),
            tags  |-> ("example_product" :> {"exampleTag"}),
            vips  |-> ("example_product" :> {[ip |-> "111.111.111.111", form |-> "a"]})]
  IN /\ Expect(c) = "function"
     /\ Meaning(c).host["example.org"] = [tag |-> "exampleTag", prod |-> "example_product"]
     /\ Meaning(c).vip["111.111.111.111"] = "example_product"
=========================================================================
