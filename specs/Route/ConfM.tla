------------------------------ MODULE ConfM ------------------------------
(* C13, Layer M: what the loaders do with every (field, state) of the grammar -         *)
(* HostTableConfCheck / HostRuleConfLoad, VipTableConfCheck, route_rule_conf.convert    *)
(* (+ checkHostInBasicRule / checkPathInBasicRule / condition.Build), BfeClusterConfCheck, *)
(* ServerDataConf.check, GslbConfCheck, ClusterTableConfCheck, the JSON decoder -       *)
(* as a table plus the few cross-field rules of the code.  TLC checks that wherever     *)
(* Layer P has a verdict the mechanism agrees (the spec models the code as it is after  *)
(* the fix: commits; open findings show up in the binding).  For gray shapes the        *)
(* mechanism verdict is only a diagnostic (MODEL-DRIFT) in the binding.                 *)
EXTENDS ConfP

\* field -> set of <<state, "acc" | "rej">> : the effect of that state alone
MTab(f) == CASE f \in {"sPos", "tPos"} -> {<<"only", "acc">>, <<"first", "acc">>, <<"middle", "acc">>, <<"last", "acc">>}
  [] f = "target" -> {<<"host", "acc">>, <<"vip", "acc">>, <<"route", "acc">>, <<"cluster", "acc">>,
                                 <<"gslb", "acc">>, <<"ctable", "acc">>}
  [] f = "hVersion" -> {<<"ok", "acc">>, <<"absent", "rej">>, <<"null", "rej">>, <<"badtype", "rej">>, <<"empty", "acc">>}
  [] f = "hDefault" -> {<<"null", "acc">>, <<"absent", "acc">>, <<"ok", "acc">>, <<"dangling", "rej">>, <<"badtype", "rej">>, <<"empty", "rej">>}
  [] f = "hHosts" -> {<<"ok", "acc">>, <<"absent", "rej">>, <<"null", "rej">>, <<"badtype", "rej">>, <<"empty", "acc">>, <<"vnull", "rej">>, <<"vbadtype", "rej">>, <<"vempty", "acc">>, <<"ebadtype", "rej">>, <<"tagdangling", "rej">>}
  [] f = "hHostTags" -> {<<"ok", "acc">>, <<"absent", "rej">>, <<"null", "rej">>, <<"badtype", "rej">>, <<"empty", "rej">>, <<"vnull", "rej">>, <<"vbadtype", "rej">>, <<"vempty", "rej">>, <<"ebadtype", "rej">>}
  [] f = "vVersion" -> {<<"ok", "acc">>, <<"absent", "rej">>, <<"null", "rej">>, <<"badtype", "rej">>, <<"empty", "rej">>}
  [] f = "vVips" -> {<<"ok", "acc">>, <<"absent", "acc">>, <<"null", "acc">>, <<"badtype", "rej">>, <<"empty", "acc">>, <<"vnull", "acc">>, <<"vbadtype", "rej">>, <<"vempty", "acc">>, <<"ebadtype", "rej">>, <<"badip", "rej">>, <<"ipv6", "acc">>, <<"proddangling", "rej">>}
  [] f = "rVersion" -> {<<"ok", "acc">>, <<"absent", "rej">>, <<"null", "rej">>, <<"badtype", "rej">>, <<"empty", "acc">>}
  [] f = "rProductRule" -> {<<"ok", "acc">>, <<"absent", "acc">>, <<"null", "acc">>, <<"badtype", "rej">>, <<"empty", "acc">>, <<"vnull", "acc">>, <<"vbadtype", "rej">>, <<"vempty", "acc">>, <<"ebadtype", "rej">>, <<"proddangling", "rej">>}
  [] f = "rCond" -> {<<"ok", "acc">>, <<"absent", "rej">>, <<"null", "rej">>, <<"badtype", "rej">>, <<"syntaxerr", "rej">>, <<"unknownprim", "rej">>, <<"empty", "rej">>}
  [] f = "rAdvCluster" -> {<<"ok", "acc">>, <<"absent", "rej">>, <<"null", "rej">>, <<"badtype", "rej">>, <<"dangling", "rej">>, <<"empty", "rej">>}
  [] f = "rBasicRule" -> {<<"ok", "acc">>, <<"absent", "acc">>, <<"null", "acc">>, <<"badtype", "rej">>, <<"empty", "acc">>, <<"vnull", "acc">>, <<"vbadtype", "rej">>, <<"vempty", "acc">>, <<"ebadtype", "rej">>, <<"proddangling", "rej">>}
  [] f = "rBasicHost" -> {<<"ok", "acc">>, <<"absent", "acc">>, <<"null", "acc">>, <<"badtype", "rej">>, <<"ebadtype", "rej">>, <<"wildcard", "acc">>, <<"any", "acc">>, <<"badwild", "rej">>, <<"twostar", "rej">>, <<"emptystr", "rej">>, <<"emptylist", "acc">>}
  [] f = "rBasicPath" -> {<<"ok", "acc">>, <<"absent", "acc">>, <<"null", "acc">>, <<"badtype", "rej">>, <<"ebadtype", "rej">>, <<"prefix", "acc">>, <<"any", "acc">>, <<"badprefix", "acc">>, <<"twostar", "rej">>, <<"midstar", "rej">>, <<"emptystr", "rej">>, <<"noslash", "acc">>, <<"emptylist", "acc">>}
  [] f = "rBasicCluster" -> {<<"ok", "acc">>, <<"advmode", "acc">>, <<"absent", "rej">>, <<"null", "rej">>, <<"badtype", "rej">>, <<"dangling", "rej">>, <<"empty", "rej">>}
  [] f = "cVersion" -> {<<"ok", "acc">>, <<"absent", "rej">>, <<"null", "rej">>, <<"badtype", "rej">>, <<"empty", "acc">>}
  [] f = "cConfig" -> {<<"ok", "acc">>, <<"absent", "rej">>, <<"null", "rej">>, <<"badtype", "rej">>, <<"empty", "rej">>, <<"vnull", "acc">>, <<"vbadtype", "rej">>, <<"docexample", "acc">>}
  [] f = "cProtocol" -> {<<"absent", "acc">>, <<"http", "acc">>, <<"fcgi", "acc">>, <<"h2c", "acc">>, <<"upper", "acc">>, <<"unknown", "rej">>, <<"badtype", "rej">>}
  [] f = "cSchem" -> {<<"http", "acc">>, <<"absent", "acc">>, <<"tcp", "acc">>, <<"upper", "rej">>, <<"unknown", "rej">>, <<"badtype", "rej">>}
  [] f = "cHashStrategy" -> {<<"id", "acc">>, <<"absent", "acc">>, <<"idnoheader", "rej">>, <<"ip", "acc">>, <<"idpreferred", "acc">>, <<"uri", "acc">>, <<"unknown", "rej">>, <<"badtype", "rej">>}
  [] f = "cBalanceMode" -> {<<"absent", "acc">>, <<"wrr", "acc">>, <<"wlc", "acc">>, <<"lower", "acc">>, <<"unknown", "rej">>, <<"badtype", "rej">>}
  [] f = "cTimeout" -> {<<"ok", "acc">>, <<"absent", "acc">>, <<"negative", "acc">>, <<"badtype", "rej">>}
  [] f = "gClusters" -> {<<"ok", "acc">>, <<"absent", "rej">>, <<"null", "rej">>, <<"badtype", "rej">>, <<"empty", "acc">>, <<"vnull", "rej">>, <<"vbadtype", "rej">>, <<"wbadtype", "rej">>, <<"allzero", "rej">>, <<"blackhole", "acc">>, <<"negweight", "acc">>}
  [] f = "gHostname" -> {<<"ok", "acc">>, <<"absent", "rej">>, <<"null", "rej">>, <<"badtype", "rej">>}
  [] f = "gTs" -> {<<"ok", "acc">>, <<"absent", "rej">>, <<"null", "rej">>, <<"badtype", "rej">>}
  [] f = "tVersion" -> {<<"ok", "acc">>, <<"absent", "rej">>, <<"null", "rej">>, <<"badtype", "rej">>}
  [] f = "tConfig" -> {<<"ok", "acc">>, <<"absent", "rej">>, <<"null", "rej">>, <<"badtype", "rej">>, <<"empty", "acc">>, <<"vnull", "acc">>, <<"vbadtype", "rej">>, <<"subnull", "rej">>, <<"subbadtype", "rej">>, <<"subempty", "rej">>, <<"elemnull", "rej">>, <<"elembadtype", "rej">>}
  [] f = "tAddr" -> {<<"ok", "acc">>, <<"absent", "rej">>, <<"null", "rej">>, <<"badtype", "rej">>}
  [] f = "tName" -> {<<"ok", "acc">>, <<"absent", "rej">>, <<"null", "rej">>, <<"badtype", "rej">>}
  [] f = "tPort" -> {<<"ok", "acc">>, <<"absent", "rej">>, <<"null", "rej">>, <<"strnum", "rej">>, <<"badtype", "rej">>}
  [] f = "tWeight" -> {<<"ok", "acc">>, <<"absent", "rej">>, <<"null", "rej">>, <<"strnum", "rej">>, <<"zero", "rej">>, <<"badtype", "rej">>}
  [] f = "whole" -> {<<"ok", "acc">>, <<"missing", "rej">>, <<"emptyfile", "rej">>, <<"garbage", "rej">>, <<"truncated", "rej">>, <<"toparray", "rej">>, <<"topstring", "rej">>, <<"topnull", "rej">>, <<"trailing", "acc">>, <<"bom", "rej">>}
MClassMap == [f \in AllFields |-> [st \in StatesMap[f] |-> (CHOOSE p \in MTab(f) : p[1] = st)[2]]]
MClass(f, st) == MClassMap[f][st]

NoRules(st) == st \in {"absent", "null", "empty", "vnull", "vempty"}
MVerdict(k, s) ==
  LET single == \E f \in FieldSet(k) : MClass(f, s[f]) = "rej"
      sdc == k = "sdc"
      \* convert(): "no product rule" when both sections are missing
      noSection == sdc /\ s["rProductRule"] \in {"absent", "null"} /\ s["rBasicRule"] \in {"absent", "null"}
      \* ServerDataConf.check: a cluster_conf without clusters only fails when some rule names a cluster
      \* (a basic rule whose target is ADVANCED_MODE names no cluster)
      refs == sdc /\ (~NoRules(s["rProductRule"])
                      \/ (~NoRules(s["rBasicRule"]) /\ ~(s["rBasicRule"] = "ok" /\ s["rBasicCluster"] = "advmode" /\ s["sPos"] = "only")))
      cfgEmptyOnly == sdc /\ s["cConfig"] = "empty" /\ ~refs
                      /\ \A f \in FieldSet(k) \ {"cConfig"} : MClass(f, s[f]) = "acc"
      \* HostTags without the product / the tag only fails through Hosts or the route products
      tagsGoneOnly == sdc /\ s["hHostTags"] \in {"empty", "vempty"} /\ ~refs
                      /\ s["hHosts"] \in {"empty"} /\ s["hDefault"] \in {"null", "absent"}
                      /\ \A f \in FieldSet(k) \ {"hHostTags"} : MClass(f, s[f]) = "acc"
      \* SubClusterBackend.Check: a zero weight only fails when no sibling has a positive weight
      zeroPadded == k = "ctable" /\ s["tWeight"] = "zero" /\ s["tPos"] # "only"
                    /\ \A f \in FieldSet(k) \ {"tWeight"} : MClass(f, s[f]) = "acc"
  IN IF (single /\ ~cfgEmptyOnly /\ ~tagsGoneOnly /\ ~zeroPadded) \/ noSection \/ BothBlank(k, s) THEN "rej" ELSE "acc"
=========================================================================
