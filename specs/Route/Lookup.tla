------------------------------ MODULE Lookup ------------------------------
(* C12 model-checking harness: every product configuration (basic table or none x     *)
(* advanced list or none) x every request of the alphabet.                            *)
EXTENDS LookupM, BasicDoc

VARIABLES p, h, q, out, done
vars == <<p, h, q, out, done>>

Init == /\ p \in Prods /\ h = << <<"-">> >> /\ q = QEmpty /\ out = <<"pending">> /\ done = FALSE
Do(hh, qq) == /\ ~done /\ h' = hh /\ q' = qq /\ out' = MLookup(p, hh, qq) /\ done' = TRUE
              /\ UNCHANGED p
Next == ~done /\ \E hh \in LReqHosts, qq \in LReqPaths : Do(hh, qq)

MRefinesP == done => out \in PExpect(p, h, q)

\* sanity of Layer P
PShape == \A r \in PExpect(p, h, q) :
   /\ r # Miss /\ r # AdvL                                   \* never the marker values
   /\ (r = NoRouteL) \/ r = <<"cb">> \/ r \in AdvClusters
\* a real basic hit wins over every advanced rule; the first true advanced rule wins otherwise
POrder ==
   LET b == IF ~p.b.has THEN {Miss} ELSE BasicExpect(p.b.R, h, q)
       adv == p.a.l IN
   /\ (b = {<<"cb">>}) => PExpect(p, h, q) = {<<"cb">>}
   /\ (b \subseteq {Miss, AdvL} /\ p.a.has) =>
        \A r \in PExpect(p, h, q) :
          \/ r = NoRouteL /\ \A i \in 1..Len(adv) : ~Truth(adv[i].cond, h, q)
          \/ \E i \in 1..Len(adv) : /\ Truth(adv[i].cond, h, q) /\ adv[i].c = r
                                      /\ \A j \in 1..(i - 1) : ~Truth(adv[j].cond, h, q)
   /\ (b \subseteq {Miss, AdvL} /\ ~p.a.has) => PExpect(p, h, q) = {NoRouteL}

\* docs/zh_cn/introduction/route.md "示例": www.c.com goes through ADVANCED_MODE to the advanced table
ASSUME DocDemoLookup ==
  LET L == INSTANCE LookupP WITH Star <- "*", Miss <- "MISS", AdvMode <- "ADVANCED_MODE", NoRoute <- "ERR"
      adv(d1, d) == << [t |-> d1, c |-> "Demo-D1"], [t |-> d, c |-> "Demo-D"], [t |-> TRUE, c |-> "Demo-E"] >>
      req(e) == [abs |-> TRUE, e |-> e, sl |-> FALSE]
  IN /\ L!LookupExpect(Demo, TRUE, adv(TRUE, TRUE), TRUE, <<"www", "c", "com">>, req(<<"z">>)) = {"Demo-D1"}
     /\ L!LookupExpect(Demo, TRUE, adv(FALSE, TRUE), TRUE, <<"www", "c", "com">>, req(<<"z">>)) = {"Demo-D"}
     /\ L!LookupExpect(Demo, TRUE, adv(FALSE, FALSE), TRUE, <<"www", "d", "com">>, req(<<"z">>)) = {"Demo-E"}
     /\ L!LookupExpect(Demo, TRUE, adv(FALSE, FALSE), TRUE, <<"www", "a", "com">>, req(<<"a", "b">>)) = {"Demo-B"}
     /\ L!LookupExpect(Demo, TRUE, <<>>, TRUE, <<"www", "d", "com">>, req(<<"z">>)) = {"ERR"}
=========================================================================
