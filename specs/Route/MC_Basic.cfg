\* C11: all rule tables with <= MaxRules (host, path) pairs over the alphabet, all requests
CONSTANTS
  Star <- StarL
  Miss <- MissL
  Alpha = "@ALPHA@"
  MaxRules = @RULES@
INIT Init
NEXT Next
INVARIANTS MRefinesP PSingle PNoCross PReadings
CHECK_DEADLOCK FALSE
