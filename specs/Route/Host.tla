------------------------------ MODULE Host ------------------------------
(* C10 model-checking harness: TLC enumerates every (configuration, host, VIP) within *)
(* the constants and checks that the mechanism model (HostM) answers what Layer P     *)
(* (HostP) dictates, and that Layer P itself is total and ordered as the statement.   *)
EXTENDS HostM

VARIABLES cfg, h, cvip, out, done
vars == <<cfg, h, cvip, out, done>>
Nothing == [kind |-> "pending", prod |-> "", pat |-> NoPat]

Init == /\ cfg \in Configs /\ h = <<"-">> /\ cvip = ""
        /\ out = Nothing /\ done = FALSE
Lookup(hh, v) == /\ ~done /\ h' = hh /\ cvip' = v /\ out' = MResolve(cfg, hh, v) /\ done' = TRUE
                 /\ UNCHANGED cfg
Next == ~done /\ \E hh \in HostNames, v \in CVips : Lookup(hh, v)

(* ---------------------------- obligations ---------------------------- *)
\* the mechanism computes what the property says, whatever the spelling of the host
MRefinesP == done => \A v \in Variants : out = Resolve(cfg, Raw(h, v), cvip)

\* sanity of Layer P itself
PTotal == LET r == Resolve(cfg, Raw(h, Plain), cvip) IN
          /\ r.kind \in {"host", "vip", "default", "none"}
          /\ (r.kind # "none") => r.prod \in Products
PChain == LET r == Resolve(cfg, Raw(h, Plain), cvip)
              wild == {p \in DOMAIN cfg.T : IsWild(p) /\ EndsWith(h, Suffix(p))} IN
          /\ (h \in DOMAIN cfg.T) => (r.kind = "host" /\ r.pat = h)
          /\ (h \notin DOMAIN cfg.T /\ wild # {}) =>
                (r.kind = "host" /\ r.pat \in wild /\ \A q \in wild : Len(q) <= Len(r.pat))
          /\ (h \notin DOMAIN cfg.T /\ wild = {}) =>
                /\ r.kind # "host"
                /\ (cvip \in DOMAIN cfg.vips) => (r.kind = "vip" /\ r.prod = cfg.vips[cvip])
                /\ (cvip \notin DOMAIN cfg.vips /\ cfg.def # "") => (r.kind = "default" /\ r.prod = cfg.def)
                /\ (cvip \notin DOMAIN cfg.vips /\ cfg.def = "") => r.kind = "none"
=========================================================================
