---------------------------- MODULE GenLookup ----------------------------
(* Case generator for C12: one JSON object per product configuration with every        *)
(* request of the alphabet, the truth value the spec assigns to each advanced          *)
(* condition for that request, and the set of answers Layer P admits.                  *)
EXTENDS LookupM, Json, SequencesExt

VARIABLE g
GInit == g \in Prods
GNext == UNCHANGED g

RECURSIVE Str(_)
Str(s) == IF s = <<>> THEN "" ELSE s[1] \o Str(Tail(s))

Case(p) == LET rs == SetToSeq(DOMAIN p.b.R) IN
  [basic  |-> [has |-> p.b.has,
               rules |-> [i \in 1..Len(rs) |-> [h |-> Str(HostStr(rs[i][1])), p |-> Str(PathPatStr(rs[i][2])),
                                                c |-> p.b.R[rs[i]][1]]]],
   adv    |-> [has |-> p.a.has, l |-> [i \in 1..Len(p.a.l) |-> [cond |-> p.a.l[i].cond, c |-> p.a.l[i].c[1]]]],
   probes |-> SetToSeq({[h |-> Str(HostStr(hh)), q |-> Str(ReqPathStr(qq)),
                         t |-> [i \in 1..Len(p.a.l) |-> Truth(p.a.l[i].cond, hh, qq)],
                         e |-> {r[1] : r \in PExpect(p, hh, qq)}]
                        : hh \in LReqHosts, qq \in LReqPaths})]
Emit == PrintT(ToJson(Case(g)))
=========================================================================
