\* C13: all shapes with <= MaxDev deviations from the documented baseline
CONSTANTS
  Kinds = {"sdc", "gslb", "ctable", "file"}
  MaxDev = @DEV@
INIT Init
NEXT Next
INVARIANTS MRefinesP PTotal
CHECK_DEADLOCK FALSE
