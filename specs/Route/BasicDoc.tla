---------------------------- MODULE BasicDoc ----------------------------
(* The examples of docs/zh_cn/introduction/route.md as ASSUMEs: a slip in the         *)
(* transcription BasicP shows up as a TLC assumption failure (exit 2), never as a     *)
(* violation blamed on the code.  Labels and path elements are plain strings here.    *)
EXTENDS Sequences, TLC
D == INSTANCE BasicP WITH Star <- "*", Miss <- "MISS"

dH(a)          == a                                   \* a host is already a sequence of labels
dAnyP          == [k |-> "any",    e |-> <<>>]
dEx(e)         == [k |-> "exact",  e |-> e]
dPre(e)        == [k |-> "prefix", e |-> e]
dQ(e)          == [abs |-> TRUE,  e |-> e,    sl |-> FALSE]
dQS(e)         == [abs |-> TRUE,  e |-> e,    sl |-> TRUE]      \* with a trailing slash
dEmpty         == [abs |-> FALSE, e |-> <<>>, sl |-> FALSE]     \* 空值
dOne(hp, pp)   == (<<hp, pp>> :> "c")
dHit(hp, pp, h, q)  == D!BasicExpect(dOne(hp, pp), h, q) = {"c"}
dNoHit(hp, pp, h, q) == D!BasicExpect(dOne(hp, pp), h, q) = {"MISS"}

\* table "host条件 / 请求的host / 是否匹配"
ASSUME DocHostTable ==
  /\ dHit(<<"*">>, dAnyP, <<"www", "test1", "com">>, dQ(<<>>))
  /\ dHit(<<"*", "test1", "com">>, dAnyP, <<"host", "test1", "com">>, dQ(<<>>))
  /\ dNoHit(<<"*", "test1", "com">>, dAnyP, <<"vip", "host", "test1", "com">>, dQ(<<>>))
  /\ dNoHit(<<"*", "test1", "com">>, dAnyP, <<"example", "com">>, dQ(<<>>))
  /\ dNoHit(<<"*", "test1", "com">>, dAnyP, <<"test1", "com">>, dQ(<<>>))

\* table "path条件 / 请求的path / 是否匹配"
dHH == <<"www", "test1", "com">>
ASSUME DocPathTable ==
  /\ dHit(<<"*">>, dAnyP, dHH, dEmpty)
  /\ dHit(<<"*">>, dAnyP, dHH, dQ(<<>>))
  /\ dHit(<<"*">>, dAnyP, dHH, dQ(<<"a", "b">>))
  /\ dNoHit(<<"*">>, dEx(<<>>), dHH, dEmpty)
  /\ dHit(<<"*">>, dEx(<<>>), dHH, dQ(<<>>))
  /\ dNoHit(<<"*">>, dEx(<<>>), dHH, dQ(<<"a">>))
  /\ dNoHit(<<"*">>, dPre(<<>>), dHH, dEmpty)
  /\ dHit(<<"*">>, dPre(<<>>), dHH, dQ(<<>>))
  /\ dHit(<<"*">>, dPre(<<>>), dHH, dQ(<<"a">>))
  /\ dHit(<<"*">>, dPre(<<>>), dHH, dQ(<<"a", "b">>))
  /\ dHit(<<"*">>, dPre(<<>>), dHH, dQS(<<"a">>))
  /\ dHit(<<"*">>, dPre(<<"a", "b">>), dHH, dQ(<<"a", "b", "c">>))
  /\ dHit(<<"*">>, dPre(<<"a", "b">>), dHH, dQ(<<"a", "b", "c", "d">>))
  /\ dHit(<<"*">>, dPre(<<"a", "b">>), dHH, dQ(<<"a", "b">>))
  /\ dNoHit(<<"*">>, dPre(<<"a", "b">>), dHH, dQ(<<"a", "c">>))
  /\ dNoHit(<<"*">>, dPre(<<"a", "b">>), dHH, dQS(<<"a">>))

\* "基础规则匹配示例": four rules, request vip.b.test1.com/interface/d hits rule 2
Ex4 == (<<<<"*", "test1", "com">>, dAnyP>>                        :> "StaticCluster1")
    @@ (<<<<"*", "b", "test1", "com">>, dPre(<<"interface">>)>>   :> "PhpCluster2")
    @@ (<<<<"*", "b", "test1", "com">>, dPre(<<>>)>>              :> "StaticCluster3")
    @@ (<<<<"www", "test1", "com">>, dEx(<<"interface", "d">>)>>  :> "PhpCluster4")
ASSUME DocExample4 ==
  D!BasicExpect(Ex4, <<"vip", "b", "test1", "com">>, dQ(<<"interface", "d">>)) = {"PhpCluster2"}

\* "示例": product demo (only the statements the matching rules make unambiguous)
Demo == (<<<<"www", "a", "com">>, dPre(<<"a">>)>>     :> "Demo-A")
     @@ (<<<<"www", "a", "com">>, dEx(<<"a", "b">>)>> :> "Demo-B")
     @@ (<<<<"*", "a", "com">>, dAnyP>>               :> "Demo-C")
     @@ (<<<<"www", "c", "com">>, dAnyP>>             :> "ADVANCED_MODE")
ASSUME DocDemo ==
  /\ D!BasicExpect(Demo, <<"www", "a", "com">>, dQ(<<"a", "x">>)) = {"Demo-A"}
  /\ D!BasicExpect(Demo, <<"www", "a", "com">>, dQ(<<"a", "b">>)) = {"Demo-B"}
  /\ D!BasicExpect(Demo, <<"x", "a", "com">>, dQ(<<"z">>)) = {"Demo-C"}
  /\ D!BasicExpect(Demo, <<"www", "c", "com">>, dQ(<<"z">>)) = {"ADVANCED_MODE"}
  /\ D!BasicExpect(Demo, <<"www", "d", "com">>, dQ(<<"z">>)) = {"MISS"}
  \* statement of the property: no fallback to another host class when the path does not match
  /\ D!BasicExpect(Demo, <<"www", "a", "com">>, dQ(<<"z">>)) = {"MISS"}
=========================================================================
