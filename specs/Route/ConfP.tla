------------------------------ MODULE ConfP ------------------------------
(* Layer P of C13: which configuration files must load, which must be rejected.        *)
(*                                                                                     *)
(* A configuration *shape* assigns a state to every field of a small grammar of the    *)
(* documented files (docs/*/configuration/server_data_conf/*.md, cluster_conf/*.md,    *)
(* docs/zh_cn/introduction/route.md for basic rules).  Every (field, state) has a      *)
(* class:                                                                              *)
(*   "A"  the documents show / describe this form           -> part of a file that loads *)
(*   "R"  malformed: wrong JSON type, a value the documents exclude, or a reference to *)
(*        a product / cluster / host tag that does not exist -> the file is rejected   *)
(*   "G"  the documents are silent or ambiguous (missing field, null, empty container, *)
(*        spelling variants)                                 -> no verdict             *)
(* A shape must be rejected when some field is "R", must be accepted when all fields   *)
(* are "A"; otherwise it is gray (replayed for crashes only).  A loader that panics    *)
(* violates the property whatever the class.                                           *)
(* Lists: every list of a shape (host names of a tag, tags of a product, vips, advanced  *)
(* and basic rules of a product, Hostname / Path of a basic rule, backends of a          *)
(* sub-cluster) holds one *subject* element - the one that carries the element-level     *)
(* states (e*, elem*, rCond, rAdvCluster, rBasic*, tAddr ...) - and well-formed          *)
(* siblings.  The field sPos / tPos says where the subject sits: alone ("only"), before  *)
(* ("first"), between ("middle") or after ("last") well-formed siblings.  The position   *)
(* never changes the verdict (class "A"): a malformed element must be found wherever it  *)
(* is, a documented file stays documented with more well-formed elements.                *)
(* kinds: "sdc"  host_rule + vip_rule + route_rule + cluster_conf through              *)
(*               LoadServerDataConf (h*, v*, r*, c* fields)                            *)
(*        "gslb" gslb.data, "ctable" cluster_table.data, "file" whole-file damage      *)
EXTENDS Integers, Sequences, FiniteSets, TLC

Fields(k) == CASE k = "zz" -> <<>>
  [] k = "sdc" -> <<"hVersion", "hDefault", "hHosts", "hHostTags", "vVersion", "vVips", "rVersion", "rProductRule", "rCond", "rAdvCluster", "rBasicRule", "rBasicHost", "rBasicPath", "rBasicCluster", "cVersion", "cConfig", "cProtocol", "cSchem", "cHashStrategy", "cBalanceMode", "cTimeout", "sPos">>
  [] k = "gslb" -> <<"gClusters", "gHostname", "gTs">>
  [] k = "ctable" -> <<"tVersion", "tConfig", "tAddr", "tName", "tPort", "tWeight", "tPos">>
  [] k = "file" -> <<"target", "whole">>

\* state table: field -> set of <<state, class>>
Tab(f) == CASE f \in {"sPos", "tPos"} -> {<<"only", "A">>, <<"first", "A">>, <<"middle", "A">>, <<"last", "A">>}
  [] f = "target" -> {<<"host", "A">>, <<"vip", "A">>, <<"route", "A">>, <<"cluster", "A">>,
                                <<"gslb", "A">>, <<"ctable", "A">>}
  [] f = "hVersion" -> {<<"ok", "A">>, <<"absent", "G">>, <<"null", "G">>, <<"badtype", "R">>, <<"empty", "G">>}
  [] f = "hDefault" -> {<<"null", "A">>, <<"absent", "G">>, <<"ok", "A">>, <<"dangling", "R">>, <<"badtype", "R">>, <<"empty", "G">>}
  [] f = "hHosts" -> {<<"ok", "A">>, <<"absent", "G">>, <<"null", "G">>, <<"badtype", "R">>, <<"empty", "G">>, <<"vnull", "G">>, <<"vbadtype", "R">>, <<"vempty", "G">>, <<"ebadtype", "R">>, <<"tagdangling", "R">>}
  [] f = "hHostTags" -> {<<"ok", "A">>, <<"absent", "G">>, <<"null", "G">>, <<"badtype", "R">>, <<"empty", "G">>, <<"vnull", "G">>, <<"vbadtype", "R">>, <<"vempty", "G">>, <<"ebadtype", "R">>}
  [] f = "vVersion" -> {<<"ok", "A">>, <<"absent", "G">>, <<"null", "G">>, <<"badtype", "R">>, <<"empty", "G">>}
  [] f = "vVips" -> {<<"ok", "A">>, <<"absent", "G">>, <<"null", "G">>, <<"badtype", "R">>, <<"empty", "G">>, <<"vnull", "G">>, <<"vbadtype", "R">>, <<"vempty", "G">>, <<"ebadtype", "R">>, <<"badip", "R">>, <<"ipv6", "G">>, <<"proddangling", "R">>}
  [] f = "rVersion" -> {<<"ok", "A">>, <<"absent", "G">>, <<"null", "G">>, <<"badtype", "R">>, <<"empty", "G">>}
  [] f = "rProductRule" -> {<<"ok", "A">>, <<"absent", "G">>, <<"null", "G">>, <<"badtype", "R">>, <<"empty", "G">>, <<"vnull", "G">>, <<"vbadtype", "R">>, <<"vempty", "G">>, <<"ebadtype", "R">>, <<"proddangling", "R">>}
  [] f = "rCond" -> {<<"ok", "A">>, <<"absent", "G">>, <<"null", "G">>, <<"badtype", "R">>, <<"syntaxerr", "R">>, <<"unknownprim", "R">>, <<"empty", "G">>}
  [] f = "rAdvCluster" -> {<<"ok", "A">>, <<"absent", "G">>, <<"null", "G">>, <<"badtype", "R">>, <<"dangling", "R">>, <<"empty", "G">>}
  [] f = "rBasicRule" -> {<<"ok", "A">>, <<"absent", "A">>, <<"null", "G">>, <<"badtype", "R">>, <<"empty", "G">>, <<"vnull", "G">>, <<"vbadtype", "R">>, <<"vempty", "G">>, <<"ebadtype", "R">>, <<"proddangling", "R">>}
  [] f = "rBasicHost" -> {<<"ok", "A">>, <<"absent", "A">>, <<"null", "G">>, <<"badtype", "R">>, <<"ebadtype", "R">>, <<"wildcard", "A">>, <<"any", "A">>, <<"badwild", "R">>, <<"twostar", "R">>, <<"emptystr", "G">>, <<"emptylist", "G">>}
  [] f = "rBasicPath" -> {<<"ok", "A">>, <<"absent", "A">>, <<"null", "G">>, <<"badtype", "R">>, <<"ebadtype", "R">>, <<"prefix", "A">>, <<"any", "A">>, <<"badprefix", "G">>, <<"twostar", "R">>, <<"midstar", "R">>, <<"emptystr", "G">>, <<"noslash", "G">>, <<"emptylist", "G">>}
  [] f = "rBasicCluster" -> {<<"ok", "A">>, <<"advmode", "A">>, <<"absent", "G">>, <<"null", "G">>, <<"badtype", "R">>, <<"dangling", "R">>, <<"empty", "G">>}
  [] f = "cVersion" -> {<<"ok", "A">>, <<"absent", "G">>, <<"null", "G">>, <<"badtype", "R">>, <<"empty", "G">>}
  [] f = "cConfig" -> {<<"ok", "A">>, <<"absent", "G">>, <<"null", "G">>, <<"badtype", "R">>, <<"empty", "G">>, <<"vnull", "G">>, <<"vbadtype", "R">>, <<"docexample", "A">>}
  [] f = "cProtocol" -> {<<"absent", "A">>, <<"http", "A">>, <<"fcgi", "A">>, <<"h2c", "G">>, <<"upper", "G">>, <<"unknown", "R">>, <<"badtype", "R">>}
  [] f = "cSchem" -> {<<"http", "A">>, <<"absent", "A">>, <<"tcp", "A">>, <<"upper", "G">>, <<"unknown", "R">>, <<"badtype", "R">>}
  [] f = "cHashStrategy" -> {<<"id", "A">>, <<"absent", "A">>, <<"idnoheader", "G">>, <<"ip", "A">>, <<"idpreferred", "A">>, <<"uri", "G">>, <<"unknown", "R">>, <<"badtype", "R">>}
  [] f = "cBalanceMode" -> {<<"absent", "A">>, <<"wrr", "A">>, <<"wlc", "A">>, <<"lower", "G">>, <<"unknown", "R">>, <<"badtype", "R">>}
  [] f = "cTimeout" -> {<<"ok", "A">>, <<"absent", "A">>, <<"negative", "G">>, <<"badtype", "R">>}
  [] f = "gClusters" -> {<<"ok", "A">>, <<"absent", "G">>, <<"null", "G">>, <<"badtype", "R">>, <<"empty", "G">>, <<"vnull", "G">>, <<"vbadtype", "R">>, <<"wbadtype", "R">>, <<"allzero", "G">>, <<"blackhole", "A">>, <<"negweight", "G">>}
  [] f = "gHostname" -> {<<"ok", "A">>, <<"absent", "G">>, <<"null", "G">>, <<"badtype", "R">>}
  [] f = "gTs" -> {<<"ok", "A">>, <<"absent", "G">>, <<"null", "G">>, <<"badtype", "R">>}
  [] f = "tVersion" -> {<<"ok", "A">>, <<"absent", "G">>, <<"null", "G">>, <<"badtype", "R">>}
  [] f = "tConfig" -> {<<"ok", "A">>, <<"absent", "G">>, <<"null", "G">>, <<"badtype", "R">>, <<"empty", "G">>, <<"vnull", "G">>, <<"vbadtype", "R">>, <<"subnull", "G">>, <<"subbadtype", "R">>, <<"subempty", "G">>, <<"elemnull", "G">>, <<"elembadtype", "R">>}
  [] f = "tAddr" -> {<<"ok", "A">>, <<"absent", "G">>, <<"null", "G">>, <<"badtype", "R">>}
  [] f = "tName" -> {<<"ok", "A">>, <<"absent", "G">>, <<"null", "G">>, <<"badtype", "R">>}
  [] f = "tPort" -> {<<"ok", "A">>, <<"absent", "G">>, <<"null", "G">>, <<"strnum", "G">>, <<"badtype", "R">>}
  [] f = "tWeight" -> {<<"ok", "A">>, <<"absent", "G">>, <<"null", "G">>, <<"strnum", "G">>, <<"zero", "G">>, <<"badtype", "R">>}
  [] f = "whole" -> {<<"ok", "A">>, <<"missing", "R">>, <<"emptyfile", "R">>, <<"garbage", "R">>, <<"truncated", "R">>, <<"toparray", "R">>, <<"topstring", "R">>, <<"topnull", "G">>, <<"trailing", "G">>, <<"bom", "G">>}

Baseline(f) == CASE f \in {"sPos", "tPos"} -> "only"
  [] f = "target" -> "host"
  [] f = "hVersion" -> "ok"
  [] f = "hDefault" -> "null"
  [] f = "hHosts" -> "ok"
  [] f = "hHostTags" -> "ok"
  [] f = "vVersion" -> "ok"
  [] f = "vVips" -> "ok"
  [] f = "rVersion" -> "ok"
  [] f = "rProductRule" -> "ok"
  [] f = "rCond" -> "ok"
  [] f = "rAdvCluster" -> "ok"
  [] f = "rBasicRule" -> "ok"
  [] f = "rBasicHost" -> "ok"
  [] f = "rBasicPath" -> "ok"
  [] f = "rBasicCluster" -> "ok"
  [] f = "cVersion" -> "ok"
  [] f = "cConfig" -> "ok"
  [] f = "cProtocol" -> "absent"
  [] f = "cSchem" -> "http"
  [] f = "cHashStrategy" -> "id"
  [] f = "cBalanceMode" -> "absent"
  [] f = "cTimeout" -> "ok"
  [] f = "gClusters" -> "ok"
  [] f = "gHostname" -> "ok"
  [] f = "gTs" -> "ok"
  [] f = "tVersion" -> "ok"
  [] f = "tConfig" -> "ok"
  [] f = "tAddr" -> "ok"
  [] f = "tName" -> "ok"
  [] f = "tPort" -> "ok"
  [] f = "tWeight" -> "ok"
  [] f = "whole" -> "ok"

\* (the same tables as functions, so that TLC evaluates the CASEs once)
AllKinds     == {"sdc", "gslb", "ctable", "file"}
FieldSetMap  == [k \in AllKinds |-> {Fields(k)[i] : i \in 1..Len(Fields(k))}]
FieldSet(k)  == FieldSetMap[k]
AllFields    == UNION {FieldSetMap[k] : k \in AllKinds}
StatesMap    == [f \in AllFields |-> {p[1] : p \in Tab(f)}]
States(f)    == StatesMap[f]
ClassMap     == [f \in AllFields |-> [st \in StatesMap[f] |-> (CHOOSE p \in Tab(f) : p[1] = st)[2]]]
Class(f, st) == ClassMap[f][st]

\* a field below a container only exists when the container is there
Needs(f) == CASE f \in {"rCond", "rAdvCluster"}                       -> <<"rProductRule", "ok">>
              [] f \in {"rBasicHost", "rBasicPath", "rBasicCluster"}  -> <<"rBasicRule", "ok">>
              [] f \in {"cProtocol", "cSchem", "cHashStrategy", "cBalanceMode", "cTimeout"} -> <<"cConfig", "ok">>
              [] f \in {"tAddr", "tName", "tPort", "tWeight"}         -> <<"tConfig", "ok">>
              [] OTHER -> <<"", "">>
BaseMap      == [f \in AllFields |-> Baseline(f)]
NeedsMap     == [f \in AllFields |-> Needs(f)]
Realisable(k, s) == \A f \in FieldSet(k) :
    (s[f] # BaseMap[f] /\ NeedsMap[f][1] # "") => s[NeedsMap[f][1]] = NeedsMap[f][2]

\* "一条基础规则的host条件和path条件，需要至少有一个不为空值"
Blank == {"absent", "null", "emptylist"}
BothBlank(k, s) == k = "sdc" /\ s["rBasicRule"] = "ok" /\ s["rBasicHost"] \in Blank /\ s["rBasicPath"] \in Blank

PVerdict(k, s) ==
  IF (\E f \in FieldSet(k) : Class(f, s[f]) = "R") \/ BothBlank(k, s) THEN "reject"
  ELSE IF \A f \in FieldSet(k) : Class(f, s[f]) = "A" THEN "accept"
  ELSE "gray"

\* shapes with at most n fields off the baseline
BaseShape(k) == [f \in FieldSet(k) |-> BaseMap[f]]
RECURSIVE ShapesUpTo(_, _)
ShapesUpTo(k, n) ==
  IF n = 0 THEN {BaseShape(k)}
  ELSE LET prev == ShapesUpTo(k, n - 1)
       IN prev \cup UNION {UNION {{[s EXCEPT ![f] = st] : st \in States(f)} : f \in FieldSet(k)} : s \in prev}
Shapes(k, n) == {s \in ShapesUpTo(k, n) : Realisable(k, s)}

\* one more field off the baseline
Devs(k, s) == {f \in FieldSet(k) : s[f] # BaseMap[f]}
Extend(k, s) == {sh \in UNION {{[s EXCEPT ![f] = st] : st \in States(f) \ {BaseMap[f]}}
                               : f \in FieldSet(k) \ Devs(k, s)} : Realisable(k, sh)}

(* the documents' own examples are the baseline shapes (and cConfig = "docexample"):   *)
(* they must come out as "accept"                                                      *)
ASSUME DocExamples ==
  /\ \A k \in {"sdc", "gslb", "ctable", "file"} : PVerdict(k, BaseShape(k)) = "accept"
  /\ PVerdict("sdc", [BaseShape("sdc") EXCEPT !["cConfig"] = "docexample"]) = "accept"
  /\ PVerdict("sdc", [BaseShape("sdc") EXCEPT !["rBasicRule"] = "absent"]) = "accept"
  \* the property's statement: "including basic rules targeting ADVANCED_MODE"
  /\ PVerdict("sdc", [BaseShape("sdc") EXCEPT !["rBasicCluster"] = "advmode"]) = "accept"
  /\ PVerdict("sdc", [BaseShape("sdc") EXCEPT !["rAdvCluster"] = "dangling"]) = "reject"
=========================================================================
