---------------------------- MODULE GenConf ----------------------------
(* Case generator for C13: one JSON object per shape: kind, field states, the verdict   *)
(* of Layer P ("accept" | "reject" | "gray") and of the loaders' model ("acc" | "rej"). *)
EXTENDS ConfM, Json
CONSTANTS Kinds, MaxDev,
          InitPos   \* TRUE: start from the shapes whose subject element is not alone (every position x every other state)

VARIABLES g, fin
PosFields == {"sPos", "tPos"}
Start(kk) == IF InitPos THEN {sh \in Shapes(kk, 1) : \E f \in PosFields \cap FieldSet(kk) : sh[f] # "only"}
             ELSE Shapes(kk, 1)
GInit == fin = FALSE /\ \E kk \in Kinds : g \in {[k |-> kk, s |-> sh, n |-> 1] : sh \in Start(kk)}
GNext == /\ ~fin
         /\ \/ /\ g.n < MaxDev
               /\ \E sh \in Extend(g.k, g.s) : g' = [k |-> g.k, s |-> sh, n |-> g.n + 1]
               /\ fin' = FALSE
            \/ fin' = TRUE /\ UNCHANGED g       \* dedicated print step (-simulate evaluates every successor)
\* r: the reasons of a must-reject verdict (fields whose state is class "R")
Reasons(k, s) == {f \o "=" \o s[f] : f \in {x \in FieldSet(k) : Class(x, s[x]) = "R"}}
                 \cup (IF BothBlank(k, s) THEN {"rBasicHost+rBasicPath=blank"} ELSE {})
Emit == fin => PrintT(ToJson([k |-> g.k, s |-> g.s, e |-> PVerdict(g.k, g.s), m |-> MVerdict(g.k, g.s),
                       r |-> Reasons(g.k, g.s)]))
=========================================================================
