---------------------------- MODULE GenConf ----------------------------
(* Case generator for C13: one JSON object per shape: kind, field states, the verdict   *)
(* of Layer P ("accept" | "reject" | "gray") and of the loaders' model ("acc" | "rej"). *)
EXTENDS ConfM, Json
CONSTANTS Kinds, MaxDev

VARIABLE g
GInit == \E kk \in Kinds : g \in {[k |-> kk, s |-> sh] : sh \in Shapes(kk, MaxDev)}
GNext == UNCHANGED g
Emit == PrintT(ToJson([k |-> g.k, s |-> g.s, e |-> PVerdict(g.k, g.s), m |-> MVerdict(g.k, g.s)]))
=========================================================================
