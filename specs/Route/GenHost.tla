---------------------------- MODULE GenHost ----------------------------
(* Case generator for C10: one JSON object per configuration, holding every probe    *)
(* (host, connection VIP) with the answer Layer P dictates.  The answer is the same  *)
(* for every spelling in `vars` (TLC checks that in Host.tla, MRefinesP); the        *)
(* binding realises each spelling as a real Host header.                             *)
EXTENDS HostM, Json, SequencesExt

VARIABLE g
GInit == g \in Configs
GNext == UNCHANGED g

RECURSIVE Dot(_)
Dot(s) == IF s = <<>> THEN "" ELSE IF Len(s) = 1 THEN s[1] ELSE s[1] \o "." \o Dot(Tail(s))

Probe(c, hh, v) == LET r == Resolve(c, Raw(hh, Plain), v)
                   IN [h |-> Dot(hh), vip |-> v, k |-> r.kind, p |-> r.prod, m |-> Dot(r.pat)]
Case(c) == [t      |-> SetToSeq({[pat |-> Dot(p), prod |-> c.T[p]] : p \in DOMAIN c.T}),
            vips   |-> SetToSeq({[vip |-> x, prod |-> c.vips[x]] : x \in DOMAIN c.vips}),
            def    |-> c.def,
            probes |-> SetToSeq({Probe(c, hh, v) : hh \in HostNames, v \in CVips}),
            vars   |-> SetToSeq(Variants)]
Emit == PrintT(ToJson(Case(g)))
=========================================================================
