"""Util family: specs/Util  <->  bfe_util/ipdict (C19), bfe_util/hash_set (C20), bfe_bufio (C22).

C19  IpDict.tla     pure decision procedure: TLC enumerates inputs and prints the membership
                    Layer P expects; cmd/util ipdict builds the real IPItems/IPTable and compares.
C20  HashSet.tla    stateful: TLC checks mechanism (buckets, node pool, free list) against the
                    bounded-set property; TLC-generated and seeded random histories are run on the
                    real HashSet, the recorded replies are validated by TLC (TraceHashSet.tla).
C22  Bufio.tla      stateful: reader/writer over an abstract stream; generated op scripts run on
                    bfe_bufio and on std bufio side by side; recorded replies validated by TLC
                    (TraceBufio.tla) against Layer P (byte stream + counters).
"""
import json
import os
import random

from lib import vlib


# ----------------------------------------------------------------------------- C19
def model_only(ctx, *a, **kw):
    """MC run of a mechanism model on its own (no code involved).  VERIF_UTIL_SKIP_MC=1 skips it; used
    only to demonstrate the binding on mutated code quickly (the evidence says so)."""
    if os.environ.get("VERIF_UTIL_SKIP_MC") == "1":
        ctx.notes.append("VERIF_UTIL_SKIP_MC: model-only run %s/%s skipped" % (a[0], a[1]))
        return None
    return ctx.tlc_must_pass(*a, **kw)


def ipdict_run(ctx, cases, label):
    if not cases:
        raise vlib.MachineryError("no cases generated (%s)" % label)
    for i, c in enumerate(cases):
        c.setdefault("id", i + 1)
    res = ctx.harness("util", ["ipdict"], cases=cases, timeout=1200)
    crash = [r for r in res if "_harness_exit" in r or "_bad_case" in r]
    summ = [r for r in res if r.get("summary")]
    if crash or not summ or summ[0]["cases"] != len(cases):
        raise vlib.MachineryError("util ipdict harness died (%s): %s" % (label, (crash or res[-1:])))
    for r in res:
        if r.get("ok") is False:
            ctx.report(r["sig"], r.get("detail", ""), case=r.get("case"), harness="util", cmd="ipdict")
    ctx.cov["evaluations"] += summ[0]["probes"]
    for c in cases:
        key = (c["r"], c["s"])
        ctx.count(key, nontrivial=bool(c["r"] or c["s"]))
        ctx.cov["evaluations"] -= 1          # evaluations = probes, distinct = distinct dictionaries
    for c in cases[len(cases) // 2: len(cases) // 2 + 2]:
        ctx.sample({"ranges": c["r"], "singles": c["s"], "spec_says_contained": c["exp"]})
    return summ[0]


def ipdict_gen(ctx, d, mode="mc", num=0, depth=12):
    r = ctx.tlc("Util", "GenIpDict", "Gen_IpDict.cfg", mode=mode, defines=d, sim_num=num,
                sim_depth=depth, timeout=1500, count=False)
    if not r.ok:
        raise vlib.MachineryError("GenIpDict %s failed: %s %s" % (d, r.error or r.violation, r.out[-500:]))
    return r.cases


def check_c19(ctx):
    q = ctx.tier == "quick"
    ctx.cov["rule"] = ("case = one dictionary (sequence of ranges in insertion order + multiset of singles over one "
                       "ordered address space with three zones: IPv6 ::n below the IPv4-mapped block, IPv4 0.0.0.n = "
                       "::ffff:0.0.0.n, IPv6 ::1:0:0:n above it, and the highest addresses up to ffff:..:ffff; IPv6 ranges "
                       "below, above and straddling the IPv4 block, ending at the highest address) enumerated (exhaustive) or simulated by TLC together "
                       "with the set of contained probe addresses Layer P dictates; each is built on the real code "
                       "(NewIPItems/InsertPair/InsertSingle/Sort/IPTable.Update, every 7th through txt_load."
                       "CheckAndLoad) and IPTable.Search is compared on every address of the domain incl. the one "
                       "above each zone, IPv4 given in 4-byte, 16-byte and (txt) ::ffff: notation. evaluations = Search calls compared; distinct = "
                       "distinct non-empty dictionaries.")
    # 1. TLC, exhaustive: the mechanism model (sort + marker merge + truncate + binary search) equals
    #    Contains for every input, and every input is printed with the membership Layer P dictates
    both = [{"A": 1, "MAXR": 4, "MAXS": 1}, {"A": 2, "MAXR": 3, "MAXS": 0}] if q else \
           [{"A": 1, "MAXR": 4, "MAXS": 2}, {"A": 2, "MAXR": 3, "MAXS": 1}, {"A": 1, "MAXR": 5, "MAXS": 0}]
    only = [] if q else [{"A": 3, "MAXR": 3, "MAXS": 0}]
    cases = []
    for d in both:
        ctx.cov["constants"]["MCGen_IpDict_A%d_R%d_S%d" % (d["A"], d["MAXR"], d["MAXS"])] = d
        cases += ctx.tlc_must_pass("Util", "GenIpDict", "MCGen_IpDict.cfg", defines=d, timeout=2400).cases
    for d in only:
        ctx.cov["constants"]["MC_IpDict_A%d_R%d_S%d" % (d["A"], d["MAXR"], d["MAXS"])] = d
        model_only(ctx, "Util", "IpDict", "MC_IpDict.cfg", defines=d, timeout=2400)
    # 2. TLC-simulated larger dictionaries (more ranges than the exhaustive bound)
    sims = [({"A": 8, "MAXR": 6, "MAXS": 2}, 4000)] if q else \
           [({"A": 8, "MAXR": 7, "MAXS": 3}, 40000), ({"A": 20, "MAXR": 10, "MAXS": 3}, 15000)]
    for d, num in sims:
        ctx.cov["constants"]["Gen_IpDict_sim_A%d_R%d_S%d" % (d["A"], d["MAXR"], d["MAXS"])] = dict(d, num=num)
        cases += ipdict_gen(ctx, d, "sim", num, depth=d["MAXR"] + d["MAXS"] + 3)
    ctx.cov["exhaustive"] = True
    ipdict_run(ctx, cases, "C19")


# ----------------------------------------------------------------------------- C20
HS_K = 12            # key ids of Trace_HashSet.cfg


def hs_keyclass(k, valid, fixed):
    if k in valid:
        return "valid"
    if fixed:
        return ("empty", "short", "long")[k % 3]
    return "long"


def hashset_run(ctx, cases, label):
    """Run histories on the real HashSet, validate the recorded replies with TLC (Layer P)."""
    if not cases:
        raise vlib.MachineryError("no cases generated (%s)" % label)
    for i, c in enumerate(cases):
        c["id"] = i + 1
        c.setdefault("nk", HS_K)
    res = ctx.harness("util", ["hashset"], cases=cases, timeout=1200)
    crash = [r for r in res if "_harness_exit" in r or "_bad_case" in r]
    summ = [r for r in res if r.get("summary")]
    events = [r for r in res if "ev" in r]
    if crash or not summ or (summ[0]["cases"] != len(cases) and not summ[0].get("hangs")):
        raise vlib.MachineryError("util hashset harness died (%s): %s" % (label, (crash or res[-1:])))
    if summ[0]["drift"]:
        ctx.drift("action=add/remove %d replies differ from the mechanism model (%s)" %
                  (summ[0]["drift"], summ[0]["drift_examples"]))
    details = {}
    for i, e in enumerate(events):
        if "detail" in e:
            details[i + 1] = e.pop("detail")
    trace = "".join(json.dumps(e, separators=(",", ":")) + "\n" for e in events)
    r = ctx.tlc("Util", "TraceHashSet", "Trace_HashSet.cfg", mode="trace", timeout=1500,
                extra_files={"trace.ndjson": trace}, count=False)
    rep = [c for c in r.cases if c.get("done")]
    if not r.ok or not rep or rep[0]["consumed"] != len(events):
        raise vlib.MachineryError("hash set trace validation did not complete (%s): %s %s" %
                                  (label, r.error or r.violation, r.out[-600:]))
    ctx.traces(len(cases))
    by_id = {c["id"]: c for c in cases}
    pos, n = {}, {}
    for i, e in enumerate(events):
        n[e["cid"]] = n.get(e["cid"], -1) + 1
        pos[i + 1] = n[e["cid"]]          # 0 = "new", j = j-th op
    nbad = 0
    for b in rep[0]["bad"]:
        nbad += 1
        case = by_id[b["cid"]]
        j = pos[b["l"]]
        op = case["ops"][j - 1]
        mode = "fixed" if case["fixed"] else "var"
        sig = "%s/%s/%s/%s" % (b["why"], op["op"], mode, hs_keyclass(op["k"], case["valid"], case["fixed"]))
        det = "cap=%d valid=%s %s hash=%s ops[0..%d]=%s; observed %s %s" % (
            case["cap"], case["valid"], mode, case["hash"], j - 1,
            [(o["op"], o["k"]) for o in case["ops"][:j]], events[b["l"] - 1], details.get(b["l"], ""))
        ctx.report(sig, det[:1500], case=dict(case, ops=case["ops"][:j]), harness="util", cmd="hashset")
    for c in cases:
        ctx.count([c["cap"], c["valid"], c["fixed"], c["hash"], [(o["op"], o["k"]) for o in c["ops"]]],
                  nontrivial=len(c["ops"]) > 0)
    for c in cases[:2]:
        ctx.sample({"case": {k: c[k] for k in ("cap", "valid", "fixed", "hash")}, "ops": c["ops"][:6],
                    "recorded": [e for e in events if e["cid"] == c["id"]][:7]})
    return nbad


def hashset_gen(ctx, d, mode="mc", num=0, depth=0):
    r = ctx.tlc("Util", "GenHashSet", "Gen_HashSet.cfg", mode=mode, defines=d, sim_num=num,
                sim_depth=depth, timeout=1500, count=False)
    if not r.ok:
        raise vlib.MachineryError("GenHashSet %s failed: %s %s" % (d, r.error or r.violation, r.out[-500:]))
    return r.cases


def hashset_random(ctx, num, length, stream=0):
    """Seeded long histories beyond the model's bounds (bigger capacity, more keys)."""
    rnd = random.Random(ctx.seed * 104729 + stream)
    out = []
    for _ in range(num):
        cap = rnd.randint(1, 8)
        nv = rnd.randint(1, HS_K - 2)
        valid = sorted(rnd.sample(range(1, HS_K + 1), nv))
        hot = rnd.sample(range(1, HS_K + 1), min(HS_K, cap + 2))
        ops = []
        for _ in range(length):
            k = rnd.choice(hot) if rnd.random() < 0.8 else rnd.randint(1, HS_K)
            ops.append({"op": "add" if rnd.random() < 0.55 else "remove", "k": k})
        out.append({"cap": cap, "valid": valid, "hash": rnd.choice(["const", "mod", "pair", "nil", "fnv"]),
                    "fixed": rnd.random() < 0.5, "ops": ops})
    return out


def check_c20(ctx):
    q = ctx.tier == "quick"
    ctx.cov["rule"] = ("case = one Add/Remove history on one set (capacity, fixed/variable key length, injected hash "
                       "function: constant = all keys collide, k mod buckets, two buckets, default murmur3, fnv) "
                       "enumerated (exhaustive short) or simulated by TLC from the mechanism model, plus seeded long "
                       "random histories; each is run on the real hash_set.HashSet; after every call Exist() of every "
                       "key id and Len() are recorded and TLC validates every recorded reply against Layer P "
                       "(bounded set). distinct = distinct (set parameters, history).")
    # 1. TLC: buckets + node pool + free list implement the bounded set, all histories (unbounded length)
    ALL = '{"const","pair","mod"}'
    mcs = [(3, 5, '{"const","pair"}')] if q else [(2, 6, ALL), (3, 6, ALL), (4, 5, '{"const"}')]
    for cap, k, hms in mcs:
        d = {"K": k, "CAP": cap, "VALID": "{1,2,3,4}" if cap < 4 else "{1,2,3,4,5}", "HASH": hms, "STEPS": 0}
        ctx.cov["constants"]["MC_HashSet_cap%d" % cap] = d
        model_only(ctx, "Util", "HashSet", "MC_HashSet.cfg", defines=d, timeout=2400)
    # 2. behaviours
    cases = []
    gens = [({"K": 4, "CAP": 2, "VALID": "{1,2,3}", "HASH": '{"const"}', "OPS": 4 if q else 5}, "mc", 0, 0),
            ({"K": 6, "CAP": 3, "VALID": "{1,2,3,4}", "HASH": ALL, "OPS": 14}, "sim", 1000 if q else 8000, 20),
            ({"K": 8, "CAP": 5, "VALID": "{1,2,3,4,5,6}", "HASH": ALL, "OPS": 24}, "sim", 300 if q else 3000, 30)]
    if not q:
        gens.append(({"K": 5, "CAP": 3, "VALID": "{1,2,3,4}", "HASH": '{"pair"}', "OPS": 4}, "mc", 0, 0))
    for d, mode, num, depth in gens:
        ctx.cov["constants"]["Gen_HashSet_%s_cap%d_ops%d" % (mode, d["CAP"], d["OPS"])] = dict(d, num=num)
        got = hashset_gen(ctx, d, mode, num, depth)
        for i, c in enumerate(got):
            c["fixed"] = i % 2 == 0
            if mode == "sim" and i % 5 == 4:       # same history under a real hash function
                c["hash"] = "nil" if i % 10 == 4 else "fnv"
                for o in c["ops"]:
                    o.pop("expM", None)
            c["nk"] = d["K"]
        cases += got
    cases += hashset_random(ctx, 60 if q else 800, 80 if q else 120)
    hashset_run(ctx, cases, "C20")


# ----------------------------------------------------------------------------- C22
def bufio_run(ctx, cases, label):
    """Run scripts on bfe_bufio and std bufio side by side; TLC validates both recordings against
    Layer P.  bfe_bufio contradicting P = violation; std bufio contradicting P = the spec is wrong
    (machinery failure, no verdict)."""
    if not cases:
        raise vlib.MachineryError("no cases generated (%s)" % label)
    for i, c in enumerate(cases):
        c["id"] = i + 1
    res = ctx.harness("util", ["bufio"], cases=cases, timeout=1200)
    crash = [r for r in res if "_harness_exit" in r or "_bad_case" in r]
    summ = [r for r in res if r.get("summary")]
    events = [r for r in res if "ev" in r]
    if crash or not summ or (summ[0]["cases"] != len(cases) and not summ[0].get("hangs")):
        raise vlib.MachineryError("util bufio harness died (%s): %s" % (label, (crash or res[-1:])))
    if summ[0]["drift"]:
        ctx.drift("action=Buffered() %d values differ from the mechanism model (after %s)" %
                  (summ[0]["drift"], summ[0]["drift_examples"]))
    if summ[0]["std_diff"]:
        ctx.notes.append("bfe_bufio and std bufio replies differ in %d scripts (first differing call: %s)" %
                         (summ[0]["std_diff"], summ[0]["std_diff_examples"]))
    details = {}
    for i, e in enumerate(events):
        e.pop("buf", None)
        if "detail" in e:
            details[i + 1] = e.pop("detail")
    trace = "".join(json.dumps(e, separators=(",", ":")) + "\n" for e in events)
    r = ctx.tlc("Util", "TraceBufio", "Trace_Bufio.cfg", mode="trace", timeout=1500,
                extra_files={"trace.ndjson": trace}, count=False)
    rep = [c for c in r.cases if c.get("done")]
    if not r.ok or not rep or rep[0]["consumed"] != len(events):
        raise vlib.MachineryError("bufio trace validation did not complete (%s): %s %s" %
                                  (label, r.error or r.violation, r.out[-600:]))
    ctx.traces(len(cases))
    by_id = {c["id"]: c for c in cases}
    pos, n = {}, {}
    for i, e in enumerate(events):
        n[e["cid"]] = n.get(e["cid"], -1) + 1
        pos[i + 1] = n[e["cid"]]
    stdbad = []
    nbad = 0
    for b in sorted(rep[0]["bad"], key=lambda x: x["l"]):
        case = by_id[b["cid"] // 2]
        j = pos[b["l"]]
        ev = events[b["l"] - 1]
        hist = [(o["op"], o["a"]) for o in case["ops"][:j]]
        what = "stream=%s chunks=%s eofd=%s" % (case.get("s"), case.get("chunks"), case.get("eofd")) \
            if case["kind"] == "r" else "urf=%s" % case.get("urf")
        det = "%s ops[0..%d]=%s; observed %s %s" % (what, j - 1, hist, ev, details.get(b["l"], ""))
        if b["cid"] % 2 == 1:
            stdbad.append("%s: %s" % (b["why"], det[:600]))
            continue
        nbad += 1
        sig = "%s/%s%s" % (b["why"], ev["ev"], "+prefix" if ev.get("pfx") else "")
        ctx.report(sig, det[:1500], case=dict(case, ops=case["ops"][:j]), harness="util", cmd="bufio")
    if stdbad:
        raise vlib.MachineryError("Layer P of Bufio contradicts the standard library's bufio on %d scripts "
                                  "(the spec must be corrected, no verdict): %s" % (len(stdbad), stdbad[:3]))
    for c in cases:
        ctx.count([c["kind"], c.get("s"), c.get("chunks"), c.get("eofd"), c.get("urf"),
                   [(o["op"], o["a"], o.get("ch"), o.get("e")) for o in c["ops"]]], nontrivial=len(c["ops"]) > 0)
    for c in cases[:1] + cases[-1:]:
        ctx.sample({"case": {k: c.get(k) for k in ("kind", "s", "chunks", "eofd", "urf")},
                    "ops": [(o["op"], o["a"]) for o in c["ops"][:8]],
                    "recorded": [e for e in events if e["cid"] == 2 * c["id"]][:8]})
    return nbad


def bufio_gen(ctx, module, cfg, d, mode="mc", num=0, depth=0):
    r = ctx.tlc("Util", module, cfg, mode=mode, defines=d, sim_num=num, sim_depth=depth,
                timeout=1500, count=False)
    if not r.ok:
        raise vlib.MachineryError("%s %s failed: %s %s" % (module, d, r.error or r.violation, r.out[-500:]))
    return r.cases


ALLC = '{"x","X","r","n"}'


def check_c22(ctx):
    q = ctx.tier == "quick"
    ctx.cov["rule"] = ("case = one script of Reader calls (Read, ReadByte, ReadRune, UnreadByte, UnreadRune, ReadSlice, "
                       "ReadLine, ReadBytes/ReadString, Peek, WriteTo) over one stream from {x, CR, LF} delivered in one "
                       "chunk pattern, or one script of Writer calls (Write, WriteString, WriteByte/WriteRune, Flush, "
                       "ReadFrom), enumerated (short) or simulated by TLC from the mechanism model; each is executed on "
                       "bfe_bufio and on the standard library's bufio with buffer size 16; TLC validates every recorded "
                       "reply and the TotalRead/TotalWrite value read after every call against Layer P (std bufio must "
                       "satisfy the same Layer P, otherwise no verdict). distinct = distinct scripts.")
    # 1. TLC: the mechanism models satisfy Layer P and the counter clauses in every reachable state
    XRN = '{"X","r","n"}'
    rds = [{"CLASSES": XRN, "SYMS": 3, "MAXLEN": 17, "CHUNKS": "{1,100}", "EOFS": "{TRUE,FALSE}", "READS": "{2,16}",
            "PEEKS": "{16}", "DELIMS": "{2}"}] if q else \
          [{"CLASSES": ALLC, "SYMS": 3, "MAXLEN": 48, "CHUNKS": "{1,100,15002}", "EOFS": "{TRUE,FALSE}",
            "READS": "{1,3,16}", "PEEKS": "{1,16}", "DELIMS": "{1,2}"},
           {"CLASSES": XRN, "SYMS": 4, "MAXLEN": 48, "CHUNKS": "{3,100}", "EOFS": "{TRUE,FALSE}", "READS": "{2,20}",
            "PEEKS": "{16}", "DELIMS": "{2}"}]
    for i, rd in enumerate(rds):
        ctx.cov["constants"]["MC_BufR_%d" % i] = rd
        model_only(ctx, "Util", "BufR", "MC_BufR.cfg", defines=rd, timeout=3000)
    wd = {"WS": "{0,1,2,15,16,17,33}", "FS": "{0,1,16,17,33}", "FC": "{1,5,100}", "MAXACC": 50 if q else 70}
    ctx.cov["constants"]["MC_BufW"] = wd
    model_only(ctx, "Util", "BufW", "MC_BufW.cfg", defines=wd, timeout=3000)
    # 2. behaviours
    cases = []
    g = {"CLASSES": XRN, "SYMS": 3, "MAXLEN": 33, "CHUNKS": "{100,1}", "EOFS": "{FALSE}", "READS": "{2,16}",
         "PEEKS": "{16}", "DELIMS": "{2}", "OPS": 2}
    if not q:
        g = dict(g, CLASSES=ALLC, CHUNKS="{100,1,3}", EOFS="{TRUE,FALSE}")
    ctx.cov["constants"]["Gen_BufR_mc"] = g
    cases += bufio_gen(ctx, "GenBufR", "Gen_BufR.cfg", g)
    g = {"CLASSES": ALLC, "SYMS": 5, "MAXLEN": 80, "CHUNKS": "{1,3,100,15002,7,16}", "EOFS": "{TRUE,FALSE}",
         "READS": "{1,2,5,16,20}", "PEEKS": "{0,1,3,16}", "DELIMS": "{1,2}", "OPS": 10}
    ctx.cov["constants"]["Gen_BufR_sim"] = dict(g, num=1200 if q else 20000)
    cases += bufio_gen(ctx, "GenBufR", "Gen_BufR.cfg", g, "sim", 1200 if q else 20000, 14)
    g = {"WS": "{0,1,15,17,33}", "FS": "{0,17,33}", "FC": "{5,100}", "MAXACC": 200, "OPS": 2 if q else 3}
    ctx.cov["constants"]["Gen_BufW_mc"] = g
    cases += bufio_gen(ctx, "GenBufW", "Gen_BufW.cfg", g)
    g = {"WS": "{0,1,2,15,16,17,33}", "FS": "{0,1,16,17,33}", "FC": "{1,5,100}", "MAXACC": 400, "OPS": 10}
    ctx.cov["constants"]["Gen_BufW_sim"] = dict(g, num=400 if q else 5000)
    cases += bufio_gen(ctx, "GenBufW", "Gen_BufW.cfg", g, "sim", 400 if q else 5000, 14)
    bufio_run(ctx, cases, "C22")


# ----------------------------------------------------------------------------- registry
PROPS = {"C19": check_c19, "C20": check_c20, "C22": check_c22}


def replay(ctx, pid, rep):
    case = dict(rep["case"])
    if pid == "C19":
        ipdict_run(ctx, [case], "replay")
    elif pid == "C20":
        hashset_run(ctx, [case], "replay")
    elif pid == "C22":
        bufio_run(ctx, [case], "replay")
    rc = ctx.finish()
    print("replay: %s" % ("violation reproduced" if rc == 1 else "no violation on the current tree"))
    return rc
