"""Proxy family: specs/Proxy/{Invoke,GenInvoke,TraceInvoke}.tla <-> bfe_server.ReverseProxy.clusterInvoke / FinishReq.

C07 (active-connection counts) and C08 (retries safe and bounded):
  1. TLC checks the retry loop model Invoke.tla (several concurrent requests, shared counters) against Layer P.
  2. TLC (GenInvoke) enumerates scenarios: retry settings x request shape x failure kind of each backend x
     the attempt at which a HandleForward filter finishes the request x concurrency.
  3. cmd/proxy runs each scenario on an in-process BFE with scripted backends; connection-counter hooks
     (bfe_balance/backend, build tag verif) and a HandleForward filter record what the loop really did.
  4. TLC (TraceInvoke) validates the recording against Layer P.
"""
import json

from lib import vlib

C07 = {"NegativeCount", "NonZeroAtQuiescence", "panic"}
C08 = {"TooManyAttempts", "ResendAfterSuccess", "UnjustifiedResend", "CrossAttemptInFirstSub",
       "CrossAttemptAlthoughDisabled", "panic"}


def scenarios(ctx):
    q = ctx.tier == "quick"
    r = ctx.tlc("Proxy", "GenInvoke", "Gen_Invoke.cfg", mode="sim", sim_num=90 if q else 1500, sim_depth=3,
                timeout=1200, count=False)
    if not r.ok or not r.cases:
        raise vlib.MachineryError("GenInvoke failed: %s %s" % (r.error or r.violation, r.out[-400:]))
    cases, seen = [], set()
    for c in r.cases:
        k = json.dumps(c, sort_keys=True)
        if k not in seen:
            seen.add(k)
            cases.append(c)
    # shapes every run must contain (the forward-phase Finish verdict at the first and at a later attempt,
    # retryable GETs against failing backends, cross retry)
    fixed = [
        {"retryMax": 1, "crossRetry": 0, "retryGet": False, "get": True, "nobody": True, "subA": ["ok"], "subB": [], "finishAt": 1, "conc": 1},
        {"retryMax": 2, "crossRetry": 0, "retryGet": False, "get": True, "nobody": True, "subA": ["connect", "ok"], "subB": [], "finishAt": 2, "conc": 1},
        {"retryMax": 2, "crossRetry": 1, "retryGet": True, "get": True, "nobody": True, "subA": ["readhdr", "readhdr"], "subB": ["ok"], "finishAt": 0, "conc": 2},
        {"retryMax": 1, "crossRetry": 1, "retryGet": True, "get": False, "nobody": False, "subA": ["readhdr"], "subB": ["ok"], "finishAt": 0, "conc": 1},
        {"retryMax": 2, "crossRetry": 1, "retryGet": False, "get": False, "nobody": False, "subA": ["connect", "connect"], "subB": ["ok"], "finishAt": 0, "conc": 3},
        {"retryMax": 0, "crossRetry": 1, "retryGet": True, "get": True, "nobody": True, "subA": ["timeout"], "subB": ["readhdr"], "finishAt": 0, "conc": 1},
    ]
    for f in fixed:
        f.setdefault("finishAtEnd", False)
    fixed.append({"retryMax": 1, "crossRetry": 0, "retryGet": False, "get": True, "nobody": True, "subA": ["ok"], "subB": [],
                  "finishAt": 0, "finishAtEnd": True, "conc": 2})
    fixed.append({"retryMax": 2, "crossRetry": 1, "retryGet": True, "get": True, "nobody": True, "subA": ["readhdr", "ok"], "subB": ["ok"],
                  "finishAt": 0, "finishAtEnd": True, "conc": 1})
    # health flap: a request is in flight on the only backend while other requests fail on it (FailNum 1), the tcp health
    # check brings it back (SuccNum 1) before the slow request finishes
    fixed.append({"retryMax": 0, "crossRetry": 0, "retryGet": False, "get": True, "nobody": True, "subA": ["flaky"], "subB": [],
                  "finishAt": 0, "finishAtEnd": False, "conc": 3, "flap": True})
    # SPDY front end: a GET that carries a body must not be replayed although RetryGet is on; a body-less one may be
    for nobody in (False, True):
        fixed.append({"retryMax": 2, "crossRetry": 0, "retryGet": True, "get": True, "nobody": nobody, "subA": ["readhdr", "ok"],
                      "subB": [], "finishAt": 0, "finishAtEnd": False, "conc": 1, "front": "spdy"})
        fixed.append({"retryMax": 2, "crossRetry": 1, "retryGet": True, "get": True, "nobody": nobody, "subA": ["timeout"],
                      "subB": ["ok"], "finishAt": 0, "finishAtEnd": False, "conc": 1, "front": "spdy"})
    for f in fixed:
        f.setdefault("flap", False)
        f.setdefault("front", "h1")
    for c in cases:
        c.setdefault("flap", False)
        c.setdefault("front", "h1")
    return fixed + cases


def run(ctx, cases, decisive):
    for i, c in enumerate(cases):
        c["id"] = i + 1
    res = ctx.harness("proxy", ["invoke-run"], cases=cases, timeout=1800)
    fatal = [x for x in res if "_fatal" in x or "_harness_exit" in x]
    summ = [x for x in res if x.get("summary")]
    if fatal or not summ or summ[0]["cases"] != len(cases):
        raise vlib.MachineryError("proxy harness failed: %s %s" % (fatal[:2], (ctx.last_stderr or "")[-600:]))
    events = [x for x in res if "ev" in x]
    extra = {}
    for i, e in enumerate(events):
        extra[i + 1] = {k: e.pop(k) for k in ("req", "status", "forwards", "b") if k in e}
    trace = "".join(json.dumps(e, separators=(",", ":")) + "\n" for e in events)
    r = ctx.tlc("Proxy", "TraceInvoke", "TraceInvoke.cfg", mode="trace", timeout=1500,
                extra_files={"trace.ndjson": trace}, count=False)
    rep = [c for c in r.cases if c.get("done")]
    if not r.ok or not rep or rep[0]["consumed"] != len(events):
        raise vlib.MachineryError("TraceInvoke did not complete: %s %s" % (r.error or r.violation, r.out[-800:]))
    by_id = {c["id"]: c for c in cases}
    for b in rep[0]["bad"]:
        if b["why"] not in decisive:
            continue
        c = by_id[b["cid"]]
        ev = events[b["l"] - 1]
        shape = "finishAt=%s" % ("0" if c["finishAt"] == 0 else ("1" if c["finishAt"] == 1 else "later"))
        if c.get("finishAtEnd"):
            shape += "+end"
        if c.get("flap"):
            shape += "+flap"
        if c.get("front", "h1") != "h1":
            shape += "+" + c["front"]
        sig = "%s/%s/%s" % (b["why"], ev["ev"], shape)
        mine = [dict(e, **extra.get(i + 1, {})) for i, e in enumerate(events) if e["cid"] == b["cid"]]
        ctx.report(sig, "scenario %s; recorded: %s" % (json.dumps(c), str(mine)[:1500]), case=c,
                   harness="proxy", cmd="invoke-run")
    natt = sum(len(e["att"]) for e in events if e["ev"] == "fin")
    nretry = sum(1 for e in events if e["ev"] == "fin" and len(e["att"]) > 1)
    ctx.cov["invoke_observed"] = {"events": len(events), "attempts": natt, "requests_with_retry": nretry}
    if natt == 0 or nretry == 0:
        raise vlib.MachineryError("driver exercised no retries (attempts=%d)" % natt)
    ctx.traces(len(cases))
    for c in cases:
        ctx.count({k: v for k, v in c.items() if k != "id"},
                  nontrivial=any(k != "ok" for k in c["subA"]) or c["finishAt"] > 0)
    ctx.sample({"scenario": cases[0], "recorded": [e for e in events if e["cid"] == cases[0]["id"]][:8]})


def mc(ctx):
    q = ctx.tier == "quick"
    d = {"REQS": "1, 2", "RETRYMAX": 1, "KINDS": '"connect", "readhdr"'} if q else \
        {"REQS": "1, 2", "RETRYMAX": 2, "KINDS": '"connect", "readhdr", "timeout"'}
    ctx.cov["constants"]["MC_Invoke"] = d
    ctx.tlc_must_pass("Proxy", "Invoke", "MC_Invoke.cfg", defines=d, timeout=3000)


RULE = ("cases = scenarios printed by TLC (GenInvoke: retry settings x request shape x failure kind of every backend of "
        "the first-choice and of the other sub-cluster x attempt at which a HandleForward filter finishes the request x "
        "1-3 concurrent requests) plus fixed corner scenarios; each runs on an in-process BFE with scripted backends "
        "(closed port, accept+close, stall past TimeoutResponseHeader, 200 OK); IncConnNum/DecConnNum hooks and a "
        "HandleForward filter record the loop; TLC (TraceInvoke) validates the recording. nontrivial = some backend "
        "fails or a filter finishes the request.")


def run_tunnel_counters(ctx):
    """WebSocket (ws, wss) and TLS-offload stream tunnels also count against the backend (findBackend: IncConnNum, connect
    failure -> DecConnNum, tunnel end -> DecConnNum).  cmd/tunnel records the counter hooks while it runs tunnel scripts against a
    cluster whose first backend refuses connections; the same Layer P applies (TraceInvoke: NegativeCount, NonZeroAtQuiescence)."""
    q = ctx.tier == "quick"
    cases = [{"proto": p, "earlyC": "1", "earlyB": "none", "ops": [{"op": "c2b", "size": "small"}, {"op": "b2c", "size": "small"}], "closer": cl}
             for p in ("ws", "wss", "stream") for cl in ("c", "b")] * (1 if q else 6)
    for i, c in enumerate(cases):
        c = cases[i] = dict(c)
        c["id"] = i + 1
    res = ctx.harness("tunnel", ["tunnel-run"], cases=cases, timeout=900)
    summ = [x for x in res if x.get("summary")]
    if not summ or summ[0]["cases"] != len(cases) or any("_fatal" in x or "_harness_exit" in x for x in res):
        raise vlib.MachineryError("tunnel harness failed: %s" % res[-2:])
    events = []
    for c in cases:
        events.append({"ev": "req", "cid": c["id"], "retryMax": 9, "crossRetry": 0, "retryGet": False, "get": True, "nobody": True})
        for x in res:
            if x.get("cid") == c["id"] and "cev" in x:
                if x["cev"] == "quiet":
                    events.append({"ev": "quiet", "cid": c["id"], "conns": x["conns"]})
                else:
                    events.append({"ev": x["cev"], "cid": c["id"], "sub": "A", "kind": "tunnel", "n": x["n"]})
    ninc = sum(1 for e in events if e["ev"] == "inc")
    if ninc < len(cases):
        raise vlib.MachineryError("tunnel counter hooks saw only %d increments for %d tunnels" % (ninc, len(cases)))
    trace = "".join(json.dumps(e, separators=(",", ":")) + "\n" for e in events)
    r = ctx.tlc("Proxy", "TraceInvoke", "TraceInvoke.cfg", mode="trace", timeout=900,
                extra_files={"trace.ndjson": trace}, count=False)
    rep = [c for c in r.cases if c.get("done")]
    if not r.ok or not rep or rep[0]["consumed"] != len(events):
        raise vlib.MachineryError("TraceInvoke (tunnels) did not complete: %s %s" % (r.error or r.violation, r.out[-600:]))
    by_id = {c["id"]: c for c in cases}
    for b in rep[0]["bad"]:
        c = by_id[b["cid"]]
        mine = [e for e in events if e["cid"] == b["cid"]]
        ctx.report("%s/tunnel/%s" % (b["why"], c["proto"]), "tunnel script %s; counter events %s" % (json.dumps(c), str(mine)[:1200]),
                   case=c, harness="tunnel", cmd="tunnel-run")
    ctx.traces(len(cases))
    ctx.cov["tunnel_counter_events"] = {"tunnels": len(cases), "increments": ninc}


def check_c07(ctx):
    mc(ctx)
    ctx.cov["rule"] = RULE + (" Plus WebSocket (ws, wss) and TLS-offload stream tunnels through a cluster whose first backend refuses "
                              "connections: the counter hooks are recorded and validated against the same Layer P.")
    run(ctx, scenarios(ctx), C07)
    run_tunnel_counters(ctx)


def check_c08(ctx):
    mc(ctx)
    ctx.cov["rule"] = RULE
    run(ctx, scenarios(ctx), C08)
    ctx.assumptions.append("failure kinds produced: connect (closed port), read-header (accept+close), header timeout (stall); write errors and broken keep-alive transports are not scripted")


PROPS = {"C07": check_c07, "C08": check_c08}


def replay(ctx, pid, rep):
    if rep.get("cmd") == "tunnel-run":
        run_tunnel_counters(ctx)
        rc = ctx.finish()
        print("replay: %s" % ("violation reproduced" if rc == 1 else "no violation on the current tree"))
        return rc
    run(ctx, [dict(rep["case"])], C07 | C08)
    rc = ctx.finish()
    print("replay: %s" % ("violation reproduced" if rc == 1 else "no violation on the current tree"))
    return rc
