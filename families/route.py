"""Route family: specs/Route/*.tla  <->  bfe_route, bfe_config/bfe_route_conf, bfe_config/bfe_cluster_conf.

Pipeline (every property of the family):
  1. TLC exhaustively checks, within the stated constants, that the mechanism model (Layer M:
     trie with splat entries / radix trees keyed by reversed strings / LookupCluster / the loaders'
     checks / map-iteration-order nondeterminism) satisfies Layer P (the documented rule as
     set-theoretic definitions) and that Layer P is total, single-valued and agrees with the
     documents' own examples (ASSUMEs).
  2. TLC (Gen*.tla) enumerates (configuration, probes) cases with the verdict Layer P computes.
  3. cmd/route materialises each case as real configuration files, loads them with the real
     loaders (LoadServerDataConf, RouteConfLoad, ...) and probes HostTable / BasicRouteRuleTree.
  4. Verdicts come only from step 3: real result not in the set Layer P admits, a panic, or
     nondeterminism across repeated loads.
"""
import json

from lib import vlib

SPEC = "Route"


def gen(ctx, module, cfg, defines, mode="mc", num=0, depth=2, timeout=900):
    r = ctx.tlc(SPEC, module, cfg, mode=mode, sim_num=num, sim_depth=depth, defines=defines,
                timeout=timeout, count=False)
    if not r.ok:
        raise vlib.MachineryError("%s %s failed: %s %s" % (module, cfg, r.error or r.violation, r.out[-600:]))
    if not r.cases:
        raise vlib.MachineryError("%s %s generated no case" % (module, cfg))
    return r.cases


def dedup(cases):
    seen, out = set(), []
    for c in cases:
        k = json.dumps(c, sort_keys=True)
        if k not in seen:
            seen.add(k)
            out.append(c)
    return out


def run_cases(ctx, sub, cases, label, nontrivial=lambda c: True, args=(), timeout=1500, sigmap=None):
    """Replay cases on the real code through `cmd/route <sub>`; report contradictions of Layer P."""
    if not cases:
        raise vlib.MachineryError("no cases generated (%s)" % label)
    for i, c in enumerate(cases):
        c["id"] = i + 1
    res = ctx.harness("route", [sub] + list(args), cases=cases, timeout=timeout)
    crash = [r for r in res if "_harness_exit" in r]
    bad = [r for r in res if "_bad_case" in r]
    out = [r for r in res if "id" in r and "ok" in r]
    if crash or bad or len(out) != len(cases):
        raise vlib.MachineryError("route harness %s died or lost cases (%d of %d): %s" %
                                  (sub, len(out), len(cases), (crash or bad or res[-1:])))
    by_id = {c["id"]: c for c in cases}
    checked = 0
    for r in out:
        c = by_id[r["id"]]
        checked += r.get("checked", 0)
        for d in r.get("drift") or []:
            ctx.drift(d)
        for f in r.get("fails") or []:
            case = dict(c)
            case.pop("id", None)
            if isinstance(r.get("obs"), dict) and "conc" in r["obs"]:
                case["conc"] = r["obs"]["conc"]
            sig = f["sig"]
            if sig == "harness-panic":      # the harness' own materialisation failed: no verdict
                raise vlib.MachineryError("route harness %s could not materialise a case: %s" % (sub, f.get("detail")))
            ctx.report(sig, (f.get("detail") or "")[:1500], case=case, harness="route", cmd=sub)
        ctx.count({k: v for k, v in c.items() if k != "id"}, nontrivial=nontrivial(c))
    if checked == 0 and not any(r.get("fails") or r.get("gray") for r in out):
        raise vlib.MachineryError("route harness %s compared nothing (%s)" % (sub, label))
    ctx.traces(len(out))
    ctx.cov.setdefault("probe_evaluations", 0)
    ctx.cov["probe_evaluations"] += checked
    for c, r in list(zip(cases, out))[:2]:
        s = {k: (v[:6] if isinstance(v, list) else v) for k, v in c.items()}
        ctx.sample({"case": s, "result": {k: r.get(k) for k in ("ok", "checked", "gray", "obs")}})
    return out


# ------------------------------------------------------------------------------------ C10
def check_c10(ctx):
    q = ctx.tier == "quick"
    ctx.cov["rule"] = ("MC: every host table (<= ENTRIES entries: exact names and *.suffix patterns over labels {a,b}, "
                       "depth <= 3) x VIP table x default product x probe host x connection VIP; invariant: the trie/"
                       "splat mechanism model answers what Layer P (exact, else longest *.suffix, else VIP, else default, "
                       "else none) dictates, for every spelling (case, port, trailing dot). Gen: one case per "
                       "configuration with all probes; each is written as host_rule/vip_rule/route_rule/cluster_conf "
                       "files, loaded with bfe_route.LoadServerDataConf and probed with "
                       "HostTable.LookupHostTagAndProduct in 8 spellings; product / host tag / error compared with "
                       "the spec's answer. distinct = distinct configurations with at least one host entry.")
    mcd = {"DEPTH": 3, "ENTRIES": 2, "VIPPRODS": '{"p2"}', "DEFS": '{"", "p1"}'} if q else \
          {"DEPTH": 3, "ENTRIES": 3, "VIPPRODS": '{"p1", "p2"}', "DEFS": '{"", "p1", "p2"}'}
    ctx.cov["constants"]["MC_Host"] = dict(mcd, Labels="{a,b}", Products="{p1,p2}", Vips="{v1}", CVips='{"",v1,v2}')
    ctx.tlc_must_pass(SPEC, "Host", "MC_Host.cfg", defines=mcd, timeout=1500)
    cases = []
    # all tables, rich fallback (VIP table {} or v1->p2, default none or p1)
    g1 = {"DEPTH": 3, "ENTRIES": 2, "VIPS": '{"v1"}', "VIPPRODS": '{"p2"}', "DEFS": '{"", "p1"}',
          "CVIPS": '{"", "v1", "v2"}'}
    # small tables, every fallback combination
    g2 = {"DEPTH": 3, "ENTRIES": 1, "VIPS": '{"v1"}', "VIPPRODS": '{"p1", "p2"}', "DEFS": '{"", "p1", "p2"}',
          "CVIPS": '{"", "v1", "v2"}'}
    ctx.cov["constants"]["Gen_Host"] = [g1, g2]
    cases += gen(ctx, "GenHost", "Gen_Host.cfg", g1)
    cases += gen(ctx, "GenHost", "Gen_Host.cfg", g2)
    if not q:
        g3 = dict(g1, ENTRIES=3, DEFS='{"p1"}', VIPPRODS='{"p2"}')
        ctx.cov["constants"]["Gen_Host"].append(dict(g3, mode="simulate"))
        cases += gen(ctx, "GenHost", "Gen_Host.cfg", g3, mode="sim", num=3000, depth=2, timeout=2400)
    cases = dedup(cases)
    run_cases(ctx, "host", cases, "C10", nontrivial=lambda c: len(c["t"]) > 0)


# ------------------------------------------------------------------------------------ C11
def check_c11(ctx):
    q = ctx.tier == "quick"
    ctx.cov["rule"] = ("MC: every basic rule table (<= RULES (host pattern, path pattern) pairs over hosts {x.t, y.x.t, "
                       "*.t, *.x.t, *[, xt]} and paths {/, /a, /a/b, /*, /a/*, /a/b/*, *[, /ab]}) x request host x request "
                       "path; invariant: the character-level radix mechanism model (reversed host keys, LongestPrefix, "
                       "single-label check, trailing-slash trick) answers within what the transcription of "
                       "docs/zh_cn/introduction/route.md admits; the document's tables and examples are ASSUMEs. "
                       "Gen: one case per table with all requests; written as route_rule.data (one rule per pair and "
                       "grouped multi-host/multi-path rules, 'any' spelled * or omitted, mixed case), loaded with "
                       "RouteConfLoad / LoadServerDataConf and probed with BasicRouteRuleTree.Get and "
                       "HostTable.LookupCluster (upper-case and :port spellings). distinct = distinct non-empty tables.")
    mcd = {"ALPHA": "small", "RULES": 2}
    ctx.cov["constants"]["MC_Basic"] = [mcd]
    ctx.tlc_must_pass(SPEC, "Basic", "MC_Basic.cfg", defines=mcd, timeout=1500)
    if not q:
        for d in ({"ALPHA": "full", "RULES": 2}, {"ALPHA": "small", "RULES": 3}):
            ctx.cov["constants"]["MC_Basic"].append(d)
            ctx.tlc_must_pass(SPEC, "Basic", "MC_Basic.cfg", defines=d, timeout=2400)
    cases = []
    g1 = {"ALPHA": "small", "RULES": 2}
    ctx.cov["constants"]["Gen_Basic"] = [g1]
    cases += gen(ctx, "GenBasic", "Gen_Basic.cfg", g1)
    # larger tables: random walks of GenBasic (each walk prints the tables of 0..RULES pairs it passes)
    for d, num in (({"ALPHA": "small", "RULES": 3}, 60), ({"ALPHA": "full", "RULES": 4}, 40)) if q else \
                  (({"ALPHA": "full", "RULES": 2}, 0), ({"ALPHA": "small", "RULES": 3}, 600),
                   ({"ALPHA": "full", "RULES": 4}, 400)):
        ctx.cov["constants"]["Gen_Basic"].append(dict(d, mode="simulate num=%d" % num if num else "mc"))
        if num:
            cases += gen(ctx, "GenBasic", "Gen_Basic.cfg", d, mode="sim", num=num, depth=d["RULES"] + 2, timeout=2400)
        else:
            cases += gen(ctx, "GenBasic", "Gen_Basic.cfg", d, timeout=2400)
    cases = dedup(cases)
    run_cases(ctx, "basic", cases, "C11", nontrivial=lambda c: len(c["rules"]) > 0)


# ------------------------------------------------------------------------------------ C12
def check_c12(ctx):
    q = ctx.tier == "quick"
    ctx.cov["rule"] = ("MC: every product configuration = basic table (<= LRULES rules over hosts {x.t, *.t, *} x paths "
                       "{/a, /a/*, *}, target cb or ADVANCED_MODE) or no basic table x advanced list (<= ADV rules, "
                       "conditions {always, never, host is x.t, path is /a}, clusters {c1,c2}) or no advanced list x 9 "
                       "requests; invariant: the LookupCluster mechanism model answers within what Layer P admits "
                       "(real basic hit wins; miss or ADVANCED_MODE -> first true advanced rule in order; else error). "
                       "Gen: one case per product configuration with all requests and the truth value of every "
                       "condition; written as route_rule.data, loaded with HostRuleConfLoad/VipRuleConfLoad/"
                       "RouteConfLoad + HostTable.Update, probed with HostTable.LookupCluster and HostTable.Lookup; the "
                       "truth values are first confirmed on the real condition objects. distinct = distinct product "
                       "configurations.")
    mcs = [{"ADV": 2, "LRULES": 1}] if q else [{"ADV": 2, "LRULES": 2}, {"ADV": 3, "LRULES": 1}]
    ctx.cov["constants"]["MC_Lookup"] = mcs
    for d in mcs:
        ctx.tlc_must_pass(SPEC, "Lookup", "MC_Lookup.cfg", defines=d, timeout=2400)
    cases = []
    g1 = {"ADV": 2, "LRULES": 1}
    ctx.cov["constants"]["Gen_Lookup"] = [g1]
    cases += gen(ctx, "GenLookup", "Gen_Lookup.cfg", g1)
    for d, num in () if q else (({"ADV": 2, "LRULES": 2}, 4000), ({"ADV": 3, "LRULES": 1}, 4000)):
        ctx.cov["constants"]["Gen_Lookup"].append(dict(d, mode="simulate num=%d" % num))
        cases += gen(ctx, "GenLookup", "Gen_Lookup.cfg", d, mode="sim", num=num, depth=2, timeout=1500)
    cases = dedup(cases)
    ctx.assumptions.append("C12: 'not forwarded' is observed as the error return of LookupCluster/Lookup (the reverse "
                           "proxy answers such a request itself); no end-to-end run with a backend is made here.")
    run_cases(ctx, "lookup", cases, "C12", nontrivial=lambda c: c["basic"]["has"] or c["adv"]["has"])


# ------------------------------------------------------------------------------------ C13
def check_c13(ctx):
    q = ctx.tier == "quick"
    ctx.cov["rule"] = ("MC: every configuration shape with <= DEV fields off the documented baseline, for host_rule + "
                       "vip_rule + route_rule + cluster_conf (21 fields, 3-13 states each: ok / absent / null / wrong "
                       "type / empty / dangling reference / documented alternatives such as ADVANCED_MODE), gslb.data, "
                       "cluster_table.data and whole-file damage; invariant: wherever Layer P has a verdict (all fields "
                       "documented -> accept; some field malformed or dangling -> reject) the loaders' model agrees; "
                       "class tables well-formed; documents' examples accepted (ASSUME). Gen: one case per shape; "
                       "written as real files, loaded with every single loader and with LoadServerDataConf / "
                       "GslbConfLoad / ClusterTableLoad under recover; accept/reject compared with Layer P, gray shapes "
                       "replayed for crashes only; plus seeded structural mutations of the documented files (crash "
                       "check only). distinct = distinct shapes with a verdict.")
    mcd = {"DEV": 2}
    ctx.cov["constants"]["MC_Conf"] = dict(mcd, Kinds="{sdc,gslb,ctable,file}")
    ctx.tlc_must_pass(SPEC, "Conf", "MC_Conf.cfg", defines=mcd, timeout=2400)
    cases = []
    allk = '{"sdc", "gslb", "ctable", "file"}'
    sdck = '{"sdc"}'
    if q:
        gens = [({"KINDS": allk, "DEV": 1, "INITPOS": "FALSE"}, None),
                ({"KINDS": '{"gslb", "ctable", "file"}', "DEV": 2, "INITPOS": "FALSE"}, None),
                # every position of the subject element x every other single deviation, exhaustively
                ({"KINDS": sdck, "DEV": 2, "INITPOS": "TRUE"}, None),
                ({"KINDS": sdck, "DEV": 2, "INITPOS": "FALSE"}, 300), ({"KINDS": sdck, "DEV": 3, "INITPOS": "FALSE"}, 120)]
    else:
        gens = [({"KINDS": allk, "DEV": 2, "INITPOS": "FALSE"}, None), ({"KINDS": allk, "DEV": 3, "INITPOS": "TRUE"}, 1500),
                ({"KINDS": allk, "DEV": 3, "INITPOS": "FALSE"}, 1500)]
    ctx.cov["constants"]["Gen_Conf"] = []
    for d, num in gens:
        ctx.cov["constants"]["Gen_Conf"].append(dict(d, mode="simulate num=%d" % num if num else "mc"))
        if num:
            cases += gen(ctx, "GenConf", "Gen_Conf.cfg", d, mode="sim", num=num, depth=d["DEV"] + 2, timeout=2400)
        else:
            cases += gen(ctx, "GenConf", "Gen_Conf.cfg", d, timeout=2400)
    cases = dedup(cases)
    run_cases(ctx, "conf", cases, "C13", nontrivial=lambda c: c["e"] != "gray")
    # crash-freedom on arbitrary JSON: seeded structural mutations of the documented files
    n = 1500 if q else 20000
    res = ctx.harness("route", ["conf-fuzz", str(n)], cases=[], timeout=1500)
    summ = [r for r in res if r.get("fuzz_summary")]
    if not summ or [r for r in res if "_harness_exit" in r]:
        raise vlib.MachineryError("route conf-fuzz died: %s" % res[-1:])
    ctx.cov["fuzzed_files"] = summ[0]["files"]
    ctx.traces(summ[0]["files"])
    for r in res:
        if r.get("fuzz_panic"):
            ctx.report("panic/fuzz/" + r["loader"], r["detail"][:1500],
                       case={"fuzz": True, "loader": r["loader"], "text": r["text"]}, harness="route", cmd="conf-fuzz-one")


# ------------------------------------------------------------------------------------ C14
def check_c14(ctx):
    q = ctx.tier == "quick"
    ctx.cov["rule"] = ("MC: every small host_rule.data (2 host names x 2 spellings by case, 2 host tags, 2 products) and "
                       "vip_rule.data (2 VIPs, one with 2 spellings, 2 products) x every order in which Go may range over "
                       "the maps involved; invariant: an accepted load answers exactly the function the files denote and "
                       "file sets that denote no function (a host name - up to case - under two tags, a tag with hosts "
                       "under two products, a VIP under two products) are rejected, whatever the order. Gen: one case "
                       "per file set (+ gslb weight tables); each is loaded R times in one process and once or twice in "
                       "fresh processes with LoadServerDataConf / BalTable.Init and every lookup (product, host tag, "
                       "sub-cluster and backend for fixed client addresses) is compared across the loads and with the "
                       "function. distinct = distinct file sets.")
    mcd = {"FIXED": "TRUE", "PERTAG": 2 if q else 3}
    ctx.cov["constants"]["MC_Determ"] = dict(mcd, Names="{h1,h2}", Tags="{t1,t2}", Prods="{p1,p2}")
    ctx.tlc_must_pass(SPEC, "Determ", "MC_Determ.cfg", defines=mcd, timeout=2400)
    gd = {"PERTAG": 2 if q else 3}
    ctx.cov["constants"]["Gen_Determ"] = dict(gd, R=20 if q else 60, processes=2 if q else 3)
    cases = dedup(gen(ctx, "GenDeterm", "Gen_Determ.cfg", gd, timeout=1500))
    out = run_cases(ctx, "determ", cases, "C14")
    if not any(isinstance(r.get("obs"), dict) and r["obs"].get("accepted") for r in out):
        raise vlib.MachineryError("C14: no file set was accepted by the loaders - nothing was compared")


PROPS = {"C10": check_c10, "C11": check_c11, "C12": check_c12, "C13": check_c13, "C14": check_c14}

SUBCMD = {"C10": "host", "C11": "basic", "C12": "lookup", "C13": "conf", "C14": "determ"}


def replay(ctx, pid, rep):
    case = dict(rep["case"])
    sub = rep.get("cmd") or SUBCMD[pid]
    if case.get("fuzz"):
        res = ctx.harness("route", ["conf-fuzz-one"], cases=[case], timeout=300)
        for r in res:
            if r.get("fuzz_panic"):
                ctx.report("panic/fuzz/" + r["loader"], r["detail"][:1500], case=case, harness="route", cmd="conf-fuzz-one")
        if not [r for r in res if r.get("fuzz_summary")]:
            raise vlib.MachineryError("route conf-fuzz-one died: %s" % res[-1:])
    else:
        run_cases(ctx, sub, [case], "replay")
    rc = ctx.finish()
    print("replay: %s" % ("violation reproduced" if rc == 1 else "no violation on the current tree"))
    return rc
