"""C47 — WebSocket and TLS stream tunnels are byte-transparent: specs/Tunnel <-> bfe_websocket / bfe_stream through an
in-process BFE (cmd/tunnel)."""
import json

from lib import vlib


def run(ctx, cases):
    for i, c in enumerate(cases):
        c["id"] = i + 1
    res = ctx.harness("tunnel", ["tunnel-run"], cases=cases, timeout=1800)
    fatal = [x for x in res if "_fatal" in x or "_harness_exit" in x]
    summ = [x for x in res if x.get("summary")]
    if fatal or not summ or summ[0]["cases"] != len(cases):
        raise vlib.MachineryError("tunnel harness failed: %s %s" % (fatal[:2], (ctx.last_stderr or "")[-600:]))
    events = [x for x in res if "ev" in x]
    why = {}
    for i, e in enumerate(events):
        if "why" in e:
            why[i + 1] = e.pop("why")
    trace = "".join(json.dumps(e, separators=(",", ":")) + "\n" for e in events)
    r = ctx.tlc("Tunnel", "TraceTunnel", "TraceTunnel.cfg", mode="trace", timeout=1500,
                extra_files={"trace.ndjson": trace}, count=False)
    rep = [c for c in r.cases if c.get("done")]
    if not r.ok or not rep or rep[0]["consumed"] != len(events):
        raise vlib.MachineryError("TraceTunnel did not complete: %s %s" % (r.error or r.violation, r.out[-800:]))
    by_id = {c["id"]: c for c in cases}
    for b in rep[0]["bad"]:
        c = by_id[b["cid"]]
        mine = [e for e in events if e["cid"] == b["cid"]]
        early = "early" if (c["earlyC"] != "none" or c["earlyB"] != "none") else "plain"
        ctx.report("%s/%s/%s/closer=%s" % (b["why"], c["proto"], early, c["closer"]),
                   "script %s; %s; recorded (tail): %s" % (json.dumps(c), why.get(b["l"], ""), str(mine[-12:])[:1500]),
                   case=c, harness="tunnel", cmd="tunnel-run")
    nbytes = sum(e["n"] for e in events if e["ev"] == "recv")
    ctx.cov["tunnel_observed"] = {"events": len(events), "bytes_received": nbytes,
                                  "established": sum(1 for e in events if e["ev"] == "new" and e["established"])}
    if nbytes == 0:
        raise vlib.MachineryError("no byte went through any tunnel")
    ctx.traces(len(cases))
    for c in cases:
        ctx.count({k: v for k, v in c.items() if k != "id"}, nontrivial=len(c["ops"]) > 0 or c["earlyC"] != "none" or c["earlyB"] != "none")
    ctx.sample({"script": cases[0], "recorded": [e for e in events if e["cid"] == cases[0]["id"]][:10]})


def check_c47(ctx):
    q = ctx.tier == "quick"
    d = {"CHUNKS": 3 if q else 4}
    ctx.cov["constants"]["MC_Tunnel"] = d
    ctx.tlc_must_pass("Tunnel", "Tunnel", "MC_Tunnel.cfg", defines=d, timeout=2400)
    r = ctx.tlc("Tunnel", "GenTunnel", "Gen_Tunnel.cfg", mode="sim", sim_num=60 if q else 900, sim_depth=3,
                defines={"OPS": 4}, timeout=1200, count=False)
    if not r.ok or not r.cases:
        raise vlib.MachineryError("GenTunnel failed: %s %s" % (r.error or r.violation, r.out[-400:]))
    cases, seen = [], set()
    for c in r.cases:
        k = json.dumps(c, sort_keys=True)
        if k not in seen:
            seen.add(k)
            cases.append(c)
    fixed = [{"proto": p, "earlyC": ec, "earlyB": eb, "ops": [{"op": "c2b", "size": "big"}, {"op": "b2c", "size": "big"}], "closer": cl}
             for p in ("ws", "wss", "stream") for ec, eb, cl in (("page", "none", "c"), ("none", "page", "b"), ("1", "1", "c"))]
    run(ctx, fixed + cases)
    ctx.cov["rule"] = ("cases = scripts printed by TLC (GenTunnel: protocol ws / wss / TLS-offload stream, early bytes sent in the "
                       "same write as the upgrade request / the 101 response / right after the handshake, up to 4 chunks of 4 size "
                       "classes in either direction, which side closes) plus fixed ones; both endpoints are raw sockets of the "
                       "harness around an in-process BFE; every send/receive (with content check against a position-dependent "
                       "pattern), sync point, close and end-of-stream is recorded and validated by TLC (TraceTunnel).")
    ctx.assumptions.append("delivery is awaited for up to 15 s per sync point, close propagation for up to 10 s")


PROPS = {"C47": check_c47}


def replay(ctx, pid, rep):
    run(ctx, [dict(rep["case"])])
    rc = ctx.finish()
    print("replay: %s" % ("violation reproduced" if rc == 1 else "no violation on the current tree"))
    return rc
