"""cond family: specs/Cond/*.tla  <->  bfe_basic/condition (+ parser, bfe_util time parsing).

Pure decision procedures: TLC (1) checks the mechanism layer of the spec against the property layer
over every input in the bound, (2) prints every enumerated input with the outcome Layer P dictates;
cmd/cond renders each into a real condition string and a real bfe_basic.Request, calls
condition.Build / Match under recover + watchdog and compares.  Verdicts only from the real replies.
Gray inputs (documents silent or ambiguous) are replayed for panics/hangs only.
"""
from lib import vlib

SPEC = "Cond"


def _gen(ctx, module, cfg, defines, timeout=900, mode="mc", **kw):
    r = ctx.tlc(SPEC, module, cfg, defines=defines, timeout=timeout, count=False, mode=mode, **kw)
    if not r.ok:
        raise vlib.MachineryError("%s %s failed: %s %s" % (module, cfg, r.error or r.violation, r.out[-600:]))
    if not r.cases:
        raise vlib.MachineryError("%s %s generated no cases" % (module, cfg))
    return r.cases


def _tlc_parallel(ctx, jobs, workers=4):
    """jobs: [(module, cfg, defines)] -> list of TlcResult, run concurrently (each TLC with a few workers:
    the runs are small, start-up dominated).  Every run must pass (spec-alone failure = machinery)."""
    from concurrent.futures import ThreadPoolExecutor
    with ThreadPoolExecutor(max_workers=len(jobs)) as ex:
        futs = [ex.submit(ctx.tlc, SPEC, j[0], j[1], defines=j[2], timeout=2400, count=False,
                          **dict({"workers": workers}, **(j[3] if len(j) > 3 else {}))) for j in jobs]
        out = [f.result() for f in futs]
    for (m, cfg, d), r in zip([j[:3] for j in jobs], out):
        if not r.ok:
            raise vlib.MachineryError("TLC on %s/%s %s %s failed: violation=%s error=%s" %
                                      (SPEC, m, cfg, d, r.violation, r.error))
        ctx.cov["states"] += r.distinct
        ctx.cov["transitions"] += r.generated
    return out


def _run(ctx, sub, cases, timeout=900):
    return _run_raw(ctx, sub, [], cases, timeout)


def _run_raw(ctx, sub, args, cases, timeout=900):
    for i, c in enumerate(cases):
        c["id"] = i + 1
    res = ctx.harness("cond", [sub] + list(args), cases=cases, timeout=timeout)
    crash = [r for r in res if "_harness_exit" in r]
    sanity = [r for r in res if "_sanity" in r]
    summ = [r for r in res if r.get("summary")]
    if crash:
        raise vlib.MachineryError("cond harness died: %s" % crash[-1])
    if sanity:
        raise vlib.MachineryError("cond harness rendering sanity failed (binding broken): %s" % sanity[0]["_sanity"])
    if not summ or summ[0]["cases"] != len(cases):
        raise vlib.MachineryError("cond harness did not process every case: %s" % summ)
    return [r for r in res if "sig" in r], summ[0]


# ----------------------------------------------------------------------------- C16
def _expr_report(ctx, cases, sub="expr"):
    bad, summ = _run(ctx, sub, cases)
    ctx.traces(len(cases))
    for b in bad:
        c = b.get("case") or {}
        ctx.report(b["sig"], b.get("detail", "")[:1500], case={"toks": c.get("toks"), "tt": c.get("tt")},
                   harness="cond", cmd="expr")
    return bad


def check_c16(ctx):
    q = ctx.tier == "quick"
    maxlen = 9 if q else 10
    mcd = {"MAXLEN": maxlen, "LVLOR": 1, "LVLAND": 2}
    ctx.cov["constants"]["MC_Expr"] = dict(mcd, NPrim=3, LvlNot=3)
    ctx.cov["rule"] = ("cases = every token string over p1..p3 ! && || ( ) of at most MaxLen tokens that the documented "
                       "grammar accepts (TLC builds them through viable prefixes), each with the truth table over all 8 "
                       "assignments computed by the reference evaluator that reads the documented precedence table; "
                       "each is rendered (canonical + one seeded rendering: primitive set, white space) into a condition "
                       "string, built with condition.Build and matched against 8 real requests. distinct = token strings.")
    # one TLC run: Layer M against Layer P on every sentence (invariants) + the printed cases
    r = ctx.tlc_must_pass(SPEC, "GenCondExpr", "Gen_Expr.cfg", defines=mcd, timeout=1500)
    cases = r.cases
    if not cases:
        raise vlib.MachineryError("GenCondExpr generated no cases")
    ctx.cov["exhaustive"] = True
    _expr_report(ctx, cases)
    for c in cases:
        ops = set(c["toks"])
        ctx.count(c["toks"], nontrivial=len(c["toks"]) > 1)
    for c in [c for c in cases if "&&" in c["toks"] and "||" in c["toks"] and "(" not in c["toks"]][:3]:
        ctx.sample({"toks": " ".join(c["toks"]), "truth_table_p1p2p3_000_to_111": c["tt"]})
    ctx.assumptions.append("associativity of && and || is not observable through Match (both are associative, "
                           "primitives have no side effects); only the relative precedence and grouping are decided")


# ----------------------------------------------------------------------------- C17
import os

ALPHABET = os.path.join(vlib.SPECS, SPEC, "alphabet.json")


def _syntax_report(ctx, cases):
    res = _run_raw(ctx, "syntax", [ALPHABET], cases)
    bad, summ = res
    ctx.traces(len(cases))
    for b in bad:
        ctx.report(b["sig"], b.get("detail", "")[:1500], case=b.get("case"), harness="cond", cmd="syntax")
    return bad, summ


def _crosscheck_protos(ctx, sigtable):
    """The spec's signature tables against parser.funcProtos of the tree under test (diagnostic)."""
    res = ctx.harness("cond", ["protos"], cases=[])
    protos = [r for r in res if "protos" in r]
    if not protos:
        raise vlib.MachineryError("cond protos produced nothing: %s" % res[-1:])
    code = {k: ["S" if t == "STRING" else "B" if t == "BOOL" else t for t in v] for k, v in protos[0]["protos"].items()}
    notes = []
    for name, types in sorted(sigtable["doc"].items()):
        if name not in code:
            notes.append("documented primitive %s is missing from funcProtos" % name)
        elif code[name] != types:
            notes.append("documented primitive %s%s has prototype %s in funcProtos" % (name, types, code[name]))
    for name, types in sorted(sigtable["undoc"].items()):
        if code.get(name) != types:
            notes.append("undocumented primitive %s: spec table %s, funcProtos %s" % (name, types, code.get(name)))
    for name in sorted(set(code) - set(sigtable["doc"]) - set(sigtable["undoc"])):
        notes.append("funcProtos has %s%s which is neither documented nor in the spec's UndocSig" % (name, code[name]))
    for n_ in notes:
        print("NOTE C17 signature table: " + n_)
    ctx.notes.extend(notes)
    ctx.cov["signature_table_crosscheck"] = {"documented": len(sigtable["doc"]), "undocumented_in_code": len(sigtable["undoc"]),
                                             "mismatches": notes}


def check_c17(ctx):
    q = ctx.tier == "quick"
    bounds = {"MAXRAW": 4, "MAXGUIDED": 5, "MAXPLAIN": 6, "MAXCHARS": 4} if q else \
             {"MAXRAW": 5, "MAXGUIDED": 6, "MAXPLAIN": 8, "MAXCHARS": 4}
    ctx.cov["constants"]["Gen_Syntax"] = dict(bounds, MaxDev=1)
    ctx.cov["rule"] = ("cases = (a) every token string over {K1,K0,KX,KE,(,),!,&&,||,',',S,B,I,J} up to MaxRaw tokens, "
                       "(b) grammar-directed token strings with one arbitrary inserted/substituted token up to MaxGuided and "
                       "without deviation up to MaxPlain, each with the verdict ok|error of Layer P (TLC also checks the "
                       "rewriting model of the code's pipeline against it on every string); (c) every character string over a "
                       "15-symbol byte alphabet up to MaxChars plus VERIF_SEED-seeded TLC simulations of longer ones, in several "
                       "contexts (verdict: any, never panic/hang); (d) every primitive x every argument-type vector of length "
                       "0..4 and, for the documented types, every combination of value classes (IP, regexp, hash range, time, "
                       "time-of-day) with verdict ok|error|gray. Each is rendered (canonical + seeded variants) and passed to "
                       "condition.Build under recover + watchdog; built conditions are also Matched once. "
                       "distinct = distinct abstract inputs.")
    jobs = [("GenCondSyntax", "Gen_Syntax.cfg",
             dict(bounds, MODES='"raw","guided","plain","chars"', INV="MSatisfiesP"), {"workers": vlib.NCPU})]
    # seeded random character strings beyond the exhaustive bound (TLC -simulate; the printing invariant is
    # evaluated on every successor of every step: about num x workers x 9 x 15 strings, ~40k quick / ~300k thorough)
    sim = dict(bounds, MODES='"chars"', MAXCHARS=9, INV="")
    simkw = {"mode": "sim", "sim_num": 75 if q else 550, "sim_depth": 10, "workers": 4}
    jobs.append(("GenCondSyntax", "Gen_Syntax.cfg", sim, simkw))
    ctx.cov["constants"]["Gen_Syntax_chars_simulated"] = {"MaxChars": 9, "sim_num": simkw["sim_num"], "sim_depth": 10}
    seen = set()
    cases = []
    d = {"MAXARGS": 4}
    ctx.cov["constants"]["Gen_Calls"] = d
    jobs.append(("GenCondCalls", "Gen_Calls.cfg", d, {"workers": 2}))
    results = _tlc_parallel(ctx, jobs)
    for r in results[:-1]:
        for c in r.cases:
            key = (c["kind"] == "chars", tuple(c["toks"]))
            if key not in seen:
                seen.add(key)
                cases.append(c)
    r = results[-1]
    sig = [c for c in r.cases if c.get("kind") == "sigtable"]
    calls = [c for c in r.cases if c.get("kind") == "call"]
    if not sig or not calls:
        raise vlib.MachineryError("GenCondCalls printed no signature table / calls")
    _crosscheck_protos(ctx, sig[0])
    cases += calls
    ctx.cov["exhaustive"] = True
    bad, summ = _syntax_report(ctx, cases)
    ctx.cov["built_ok"] = summ.get("built")
    for c in cases:
        ctx.count([c.get("kind"), c.get("toks"), c.get("prim"), c.get("args")], nontrivial=True)
    for c in [c for c in cases if c.get("expect") == "ok"][:2] + [c for c in calls if c.get("expect") == "error"][-2:]:
        ctx.sample(c)
    ctx.assumptions.append("token classes are concretised by specs/Cond/alphabet.json; a class member the code treats "
                           "differently from its class would show as a violation to be triaged (none on the fixed tree)")
    ctx.assumptions.append("gray (no verdict, panics only): primitives of funcProtos that no document mentions; host list with a "
                           "port; blanks inside a hash section or an IP list; lower-case time zone letter; reversed IP/time range; "
                           "mixed address families; different zones in a periodic range; non-empty period")

# ----------------------------------------------------------------------------- C18
PRIM_GROUPS = [["str"], ["path", "elem", "urlreg"], ["host", "port", "qkey", "ckey", "hkey", "method", "tls"],
               ["iprange", "vipin", "hash", "tag", "time", "tod", "rescode", "trusted"]]


def _prim_report(ctx, cases):
    bad, summ = _run(ctx, "prim", cases)
    ctx.traces(len(cases))
    for b in bad:
        case = b.get("case") or {}
        case.pop("id", None)
        ctx.report(b["sig"], b.get("detail", "")[:1500], case=case, harness="cond", cmd="prim")
    return bad


def check_c18(ctx):
    q = ctx.tier == "quick"
    base = {"STRLEN": 2 if q else 3, "PATLEN": 1 if q else 2, "BIG": "FALSE" if q else "TRUE"}
    ctx.cov["constants"]["Gen_Prim"] = base
    ctx.cov["rule"] = ("cases = for every documented primitive (44; one Layer-P operator each) every combination of pattern list, "
                       "flag and request attribute over the small alphabets of CondPrim.tla (strings over {a,A,b} / {a,A,/}, "
                       "hosts with and without port, v4/v6 addresses around byte boundaries, present/absent/empty attributes, "
                       "zones Z/H/N with wall-clock values around hour and day boundaries), with the expected truth value "
                       "(hash primitives: function-independent relations). TLC also checks the code-shaped formulations "
                       "(Layer M) against Layer P on every decisive case. Each case is rendered into condition strings and "
                       "real requests (bfe_http.ReadRequest + session), condition.Build + Match, compared. "
                       "distinct = distinct (conditions, requests) cases, gray ones excluded.")
    jobs = [("GenCondPrim", "Gen_Prim.cfg", dict(base, GROUPS=",".join('"%s"' % g for g in gs))) for gs in PRIM_GROUPS]
    cases = []
    for r in _tlc_parallel(ctx, jobs, workers=2):
        cases += r.cases
    if not cases:
        raise vlib.MachineryError("GenCondPrim generated no cases")
    ctx.cov["exhaustive"] = True
    _prim_report(ctx, cases)
    groups = {}
    for c in cases:
        groups[c["g"]] = groups.get(c["g"], 0) + 1
        ctx.count([c["conds"], c["reqs"]], nontrivial=c["rel"] != "G")
    ctx.cov["cases_per_group"] = groups
    ctx.cov["gray_cases"] = sum(1 for c in cases if c["rel"] == "G")
    shown = set()
    for c in cases:
        if c["g"] not in shown and c["rel"] == "T" and len(shown) < 5:
            shown.add(c["g"])
            ctx.sample(c)
    ctx.assumptions.append("gray (no verdict, panics only): an empty entry in a pattern list when it decides the outcome; "
                           "paths or element patterns with empty elements (//); req_port_in without a port in Host; key "
                           "primitives when only letter case differs; non-canonical keys and present-but-empty headers for "
                           "*_header_key_in; lower-case method names; SNI / client CA names differing in case only")
    ctx.assumptions.append("the hash function of *_hash_in is not documented: only function-independent relations are checked")
    ctx.assumptions.append("bfe_time_range / bfe_periodic_time_range are driven through the documented X-Bfe-Debug-Time header")


PROPS = {"C16": check_c16, "C17": check_c17, "C18": check_c18}


def replay(ctx, pid, rep):
    case = dict(rep["case"])
    sub = rep.get("cmd") or "expr"
    if sub == "expr":
        _expr_report(ctx, [case])
    elif sub == "syntax":
        _syntax_report(ctx, [case])
    elif sub == "prim":
        _prim_report(ctx, [case])
    rc = ctx.finish()
    print("replay: %s" % ("violation reproduced" if rc == 1 else "no violation on the current tree"))
    return rc
