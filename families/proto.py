"""proto family: specs/Proto/{ProxyProto,Fcgi,Doh}.tla  <->  bfe_proxy (C46), bfe_fcgi (C55), mod_doh (C56).

Pipeline of every property:
  1. TLC checks exhaustively, within the tier's constants, that the mechanism model (Layer M: the
     receiver / encoder / converter as the code does it) satisfies Layer P (what the protocol
     documents and the property dictate) for every input shape.
  2. TLC (Gen*) prints every input of that space as one JSON case together with what Layer P
     expects (allowed outcomes, header length, expected totals / kept records / ECS family).
  3. harness/cmd/proto turns the abstract case into bytes (seeded members of the symbol classes),
     drives the real code and compares what it did with the expectation carried by the case.
Verdicts come only from step 3.  A failing case is executed a second time before it is reported.
"""
import json
import random

from lib import vlib

HARNESS = "proto"


def gen(ctx, module, cfg, defines, timeout=900):
    r = ctx.tlc("Proto", module, cfg, mode="mc", defines=defines, timeout=timeout, count=False)
    if not r.ok:
        raise vlib.MachineryError("%s %s failed: %s %s" % (module, cfg, r.error or r.violation, r.out[-500:]))
    if not r.cases:
        raise vlib.MachineryError("%s printed no case" % module)
    # TLC's workers print in no fixed order: sort, so that the seeded choices below are reproducible
    return sorted(r.cases, key=lambda c: json.dumps(c, sort_keys=True))


def run(ctx, cmd, cases, keyf, label, timeout=1500):
    """Replay cases through harness sub-command `cmd`; report every contradiction of Layer P."""
    for i, c in enumerate(cases):
        c["id"] = i + 1
    res = ctx.harness(HARNESS, [cmd], cases=cases, timeout=timeout)
    crash = [r for r in res if "_harness_exit" in r or "_bad_case" in r]
    if crash:
        raise vlib.MachineryError("%s harness died: %s" % (label, str(crash[-1])[:1500]))
    by_id = {r.get("id"): r for r in res}
    if len(by_id) != len(cases):
        raise vlib.MachineryError("%s: %d results for %d cases" % (label, len(by_id), len(cases)))
    bad = [r for r in res if not r.get("ok")]
    mach = [r for r in bad if r.get("sig") == "machinery"]
    if mach:
        raise vlib.MachineryError("%s: %s" % (label, mach[0].get("detail")))
    # a failure must reproduce before it is reported (one representative per signature is enough
    # to call the signature reproducible)
    if bad:
        rep = {}
        for r in bad:
            rep.setdefault(r["sig"], r)
        again = [dict(cases[r["id"] - 1]) for r in rep.values()][:200]
        res2 = ctx.harness(HARNESS, [cmd], cases=again, timeout=timeout)
        sig2 = {r.get("sig") for r in res2 if not r.get("ok")}
        flaky = [s for s in list(rep)[:200] if s not in sig2]
        if flaky:
            raise vlib.MachineryError("%s: failure did not reproduce on re-execution: %s" % (label, flaky[:3]))
    ndrift = 0
    drift_ex = []
    for c in cases:
        r = by_id[c["id"]]
        ctx.count(keyf(c), nontrivial=not c.get("gray"))
        if r.get("ok"):
            d = r.get("drift")
            if not d and "expM" in c and isinstance(c["expM"], str) and not c.get("gray"):
                got = (r.get("obs") or {}).get("outcome")
                if got and got != c["expM"]:
                    d = "outcome %s, mechanism model %s" % (got, c["expM"])
            if d:
                ndrift += 1
                if len(drift_ex) < 2:
                    drift_ex.append("%s: %s" % (keyf(c), d))
            continue
        case = {k: v for k, v in c.items() if k != "expM"}
        ctx.report(r["sig"], (r.get("detail") or "")[:1500] + " obs=" + json.dumps(r.get("obs"))[:600],
                   case=case, harness=HARNESS, cmd=cmd)
    if ndrift:
        ctx.drift("action=%s %d replies differ from the mechanism model, e.g. %s" % (cmd, ndrift, drift_ex))
    ctx.traces(len(cases))
    for c in cases[:1] + cases[len(cases) // 2:len(cases) // 2 + 1]:
        ctx.sample({"case": {k: v for k, v in c.items()}, "observed": by_id[c["id"]].get("obs")})
    return len(bad)


# ----------------------------------------------------------------------------- C46
def check_c46(ctx):
    q = ctx.tier == "quick"
    consts = {"CHUNKS": 3 if q else 4, "PAY": 1 if q else 2}
    ctx.cov["constants"]["MC_ProxyProto"] = consts
    ctx.tlc_must_pass("Proto", "ProxyProto", "MC_ProxyProto.cfg", defines=consts, timeout=1500)
    base = gen(ctx, "GenProxyProto", "Gen_ProxyProto.cfg", consts, timeout=1500)
    rnd = random.Random(ctx.seed * 9176 + 46)
    cases = []
    for c in base:
        c0 = dict(c, alt=0, jit=0, order=0)                 # canonical members, cuts between symbols
        cases.append(c0)
        c1 = dict(c, alt=rnd.randrange(1, 1 << 40), jit=rnd.randrange(1, 1 << 40) if rnd.random() < 0.7 else 0,
                  order=rnd.randrange(2))                   # seeded members, one more cut inside a symbol
        cases.append(c1)
    ctx.cov["exhaustive"] = True
    ctx.cov["rule"] = ("cases = every (header shape, payload, split into <= %d deliveries) TLC enumerates from "
                       "ProxyProto.tla, each replayed twice on bfe_proxy.NewConn over net.Pipe (canonical bytes; seeded "
                       "addresses/ports/payload bytes plus one extra cut inside a symbol and RemoteAddr-before-Read order). "
                       "Compared: outcome in Allowed(shape), RemoteAddr/VirtualAddr, every byte read after the header. "
                       "distinct = distinct non-gray (shape, symbols, cuts, seeded variant)." % consts["CHUNKS"])
    ctx.assumptions += [
        "The PROXY protocol document (HAProxy proxy-protocol.txt 2.1/2.2) is transcribed into Allowed()/Hdr() of ProxyProto.tla.",
        "Gray (no verdict, panics/hangs only): v2 DGRAM and AF_UNIX families on a TCP listener; streams shorter than 12 bytes "
        "that start with 'P' (no protocol bfe serves has such a message).",
        "v1 lines longer than 107 bytes after UNKNOWN may be accepted or rejected ('should').",
    ]
    run(ctx, "proxyproto", cases,
        lambda c: [c["shape"], c["syms"], c["cuts"], c["alt"] != 0], "C46")


# ----------------------------------------------------------------------------- C55
def _set(xs):
    return "{" + ", ".join(str(x) for x in xs) + "}"


def check_c55(ctx):
    q = ctx.tier == "quick"
    if q:
        names, vals, pairs, bodies, data, cuts = [1, 127, 128, 70000], [0, 1, 127, 128, 65491, 65492, 70000], 2, [0, 65501], 3, 1
    else:
        names = [1, 127, 128, 65492, 65493, 70000]
        vals = [0, 1, 127, 128, 65364, 65491, 65492, 65535, 65536, 140000]
        pairs, bodies, data, cuts = 2, [0, 65500, 65501, 200000], 4, 1
    consts = {"NAMES": _set(names), "VALS": _set(vals), "PAIRS": pairs, "BODIES": _set(bodies),
              "DATA": data, "CUTS": cuts, "SIDES": '{"req", "resp"}'}
    ctx.cov["constants"]["MC_Fcgi"] = consts
    ctx.tlc_must_pass("Proto", "Fcgi", "MC_Fcgi.cfg", defines=consts, timeout=2400)
    base = gen(ctx, "GenFcgi", "Gen_Fcgi.cfg", consts, timeout=2400)
    if not q:   # three parameters over the boundary lengths (requests only)
        c3 = dict(consts, NAMES=_set([1, 128, 70000]), VALS=_set([0, 127, 65491, 65492, 70000]), PAIRS=3,
                  BODIES=_set([0, 65501]), SIDES='{"req"}')
        ctx.cov["constants"]["MC_Fcgi_3pairs"] = c3
        ctx.tlc_must_pass("Proto", "Fcgi", "MC_Fcgi.cfg", defines=c3, timeout=2400)
        base += [c for c in gen(ctx, "GenFcgi", "Gen_Fcgi.cfg", c3, timeout=2400) if len(c.get("pairs", [])) == 3]
    rnd = random.Random(ctx.seed * 5501 + 55)
    cases = []
    for c in base:
        if c["kind"] == "req":
            c["pairs"] = [{"nl": p["nl"], "vl": p["vl"]} for p in c["pairs"]]
            cases.append(dict(c, api="do", bchunk=rnd.choice([4096, 32768, 70000])))
            if rnd.random() < (0.25 if q else 0.35):      # the production path: Transport.RoundTrip over TCP
                cases.append(dict(c, api="rt", bchunk=rnd.choice([4096, 70000])))
        else:
            c["cuts"] = sorted(c["cuts"])
            cases.append(dict(c, api="do"))
            if rnd.random() < (0.06 if q else 0.04):
                cases.append(dict(c, api="rt"))
    ctx.cov["exhaustive"] = True
    ctx.cov["rule"] = ("cases = every request (<= %d parameters over the name/value length classes x body length) and every "
                       "responder script (<= %d data records STDOUT/STDERR x 3 closing orders x padding x <= %d delivery cuts) "
                       "TLC enumerates from Fcgi.tla; requests go through FCGIClient.Do on a net.Pipe (and a seeded share "
                       "through Transport.RoundTrip on loopback TCP) to an in-harness FastCGI application written from the "
                       "FastCGI specification, which decodes records and name-value pairs and compares them with what was "
                       "handed to the client; responses: bytes returned by the client == concatenation of the STDOUT contents."
                       % (pairs if q else 3, data, cuts))
    ctx.assumptions += [
        "FastCGI Specification 1.0 sections 3.3, 3.4, 5.1-5.5, 6.2 are transcribed into ReqOK/RespOK of Fcgi.tla and into the "
        "in-harness application (harness/cmd/proto/fcgi.go), which shares no code with bfe_fcgi.",
        "The application side is well-formed (records complete, END_REQUEST last); malformed application output is out of scope.",
    ]

    def key(c):
        if c["kind"] == "req":
            return ["req", c["api"], c["pairs"], c["body"]]
        return ["resp", c["api"], c["script"], c["cuts"]]
    run(ctx, "fcgi", cases, key, "C55", timeout=2400)


# ----------------------------------------------------------------------------- C56
def check_c56(ctx):
    q = ctx.tier == "quick"
    lim = [r for r in ctx.harness(HARNESS, ["doh-limit"], cases=[]) if "limit" in r]
    if not lim:
        raise vlib.MachineryError("doh-limit produced nothing")
    limit = int(lim[0]["limit"])
    if limit < 600 or limit > 60000:
        raise vlib.MachineryError("POST size limit %d outside the range the harness can build messages for" % limit)
    consts = {"LIMIT": limit, "LEVEL": 1 if q else 2}
    ctx.cov["constants"]["MC_Doh"] = consts
    ctx.tlc_must_pass("Proto", "Doh", "MC_Doh.cfg", defines=consts, timeout=600)
    base = gen(ctx, "GenDoh", "Gen_Doh.cfg", consts, timeout=600)
    rnd = random.Random(ctx.seed * 8484 + 56)
    cases = []
    for c in base:
        cases.append(dict(c, alt=0))
        for _ in range(1 if q else 3):
            cases.append(dict(c, alt=rnd.randrange(1, 1 << 30)))
    ctx.cov["exhaustive"] = True
    ctx.cov["rule"] = ("cases = every request shape TLC enumerates from Doh.tla (method x dns-parameter encoding x content type "
                       "x body size vs the limit of %d x POST framing (Content-Length / chunked) x delivery (complete / ends before the last record / ends one byte early / connection reset) x message validity x client address family and in-memory form x "
                       "RemoteAddr/ClientAddr x EDNS content of the query), canonical plus seeded ids/names/addresses; the "
                       "hand-built query goes through mod_doh.RequestToDnsMsg (+ miekg Pack) and through DnsClient.Fetch to an "
                       "in-harness UDP upstream; the forwarded bytes are parsed by a hand-written DNS parser and compared with "
                       "the client's message and the expected client-subnet option." % limit)
    ctx.assumptions += [
        "RFC 8484 4.1 (GET/POST forms), RFC 6891 6.1.1 (one OPT), RFC 7871 6 (FAMILY, SOURCE PREFIX-LENGTH) are transcribed "
        "into Allowed/ForwardOK of Doh.tla; SOURCE PREFIX-LENGTH = full address length as the property states.",
        "No verdict on: padded / standard-alphabet base64, two dns parameters, POST with another content type (either "
        "outcome accepted; if forwarded the message must still be right); a client-supplied client-subnet option may be kept "
        "or replaced.",
    ]
    run(ctx, "doh", cases,
        lambda c: [c["method"], c["enc"], c["ctype"], c["size"], c["msg"], c["cfam"], c["via"], c["edns"],
                   c.get("frame"), c.get("deliv"), c["alt"] != 0], "C56")


PROPS = {"C46": check_c46, "C55": check_c55, "C56": check_c56}
CMDS = {"C46": "proxyproto", "C55": "fcgi", "C56": "doh"}


def replay(ctx, pid, rep):
    case = dict(rep["case"])
    cmd = rep.get("cmd") or CMDS[pid]
    run(ctx, cmd, [case], lambda c: c, "replay")
    rc = ctx.finish()
    print("replay: %s" % ("violation reproduced" if rc == 1 else "no violation on the current tree"))
    return rc
