"""tlsneg family: specs/Tls/{Negotiate,Ticket}*.tla  <->  bfe_tls (server side).

C41  Negotiate.tla is a decision procedure (client hello, server configuration) -> outcome with a
     Layer-P answer (refusal must/may/no, the version, a set of suites, a set of ALPN answers) and a
     Layer-M answer (what readClientHello does).  TLC (NegotiateMC) checks M inside P exhaustively
     over three product domains; NegotiateGen prints every pair of the (smaller) replay domains plus
     seeded samples of the full cross product with both answers; cmd/tlsneg `neg` performs each
     handshake against bfe_tls.Server with crypto/tls (or, for hellos crypto/tls cannot produce, an
     explicit-hello driver around bfe_tls's client code) and echoes 1 KiB both ways.
C44  Ticket.tla: server epochs (ticket key, tickets on/off, session cache generation, max version,
     suites, client-auth policy) and client connections offering the saved ticket / session id,
     untouched or tampered.  TicketMC checks StepOK on every step of every history <= N steps;
     TicketGen prints histories (two exhaustive shapes + seeded samples) with both answers;
     cmd/tlsneg `resume` replays them.
Verdicts only from what the real code did, against Layer P.  Layer-M differences are MODEL-DRIFT.
"""
import json
import random

from lib import vlib

GODEBUG = {"GODEBUG": "tlsrsakex=1,tls3des=1,tls10server=1"}
H2_SUITES = ("EG", "XG", "CH")
ALL_SUITES = ["EG", "EC", "RC", "R3", "XG"]
GO_ORDER = ["XG", "EG", "EC", "RC", "R3"]
PROTOS = ["h2", "http/1.1", "spdy/3.1"]
SNI = {"a": "a.example", "b": "b.example", "": ""}
NO_RULE = {"on": False, "sni": "", "grade": "C", "np": [], "clientauth": False, "chacha": False}


RETRY_ENV = dict(GODEBUG, VERIF_TLSNEG_WORKERS="1", VERIF_TLSNEG_TIMEOUT="90")
MAX_RETRY = 8


def _retry_hung(ctx, cmd, hcases, hung_ids, label):
    """Cases whose watchdog expired in the parallel run are re-executed alone with a long watchdog
    before they are judged (a loaded machine must not produce a verdict).  Returns {id: result}."""
    if not hung_ids:
        return {}
    if len(hung_ids) > MAX_RETRY:
        ctx.notes.append("%s: %d cases timed out in the parallel run; %d re-run alone" % (label, len(hung_ids), MAX_RETRY))
    pick = sorted(hung_ids)[:MAX_RETRY]
    res = ctx.harness("tlsneg", [cmd], cases=[c for c in hcases if c["id"] in pick], timeout=1500, env=RETRY_ENV)
    _machinery(res, label + " (retry)")
    out = {r["id"]: r for r in res if "id" in r}
    still = [i for i in pick if _is_hung(out.get(i))]
    if not still and len(hung_ids) > MAX_RETRY:
        raise vlib.MachineryError("%s: %d connections timed out under load; the re-run ones completed - no verdict" % (label, len(hung_ids)))
    return out


def _is_hung(r):
    if r is None:
        return True
    if "obs" in r:
        return bool(r["obs"].get("hang"))
    return any(isinstance(s, dict) and s.get("hang") for s in r.get("steps") or [])


def _machinery(res, what):
    crash = [r for r in res if "_harness_exit" in r]
    summ = [r for r in res if r.get("summary")]
    bad = [r for r in res if "_bad_case" in r]
    if crash or not summ or bad:
        raise vlib.MachineryError("tlsneg harness failed (%s): %s" % (what, (crash or bad or res[-1:])[:1]))


# ======================================================================================= C41

def _hrule(r):
    """spec rule record -> harness RuleSpec (None when no rule is configured)"""
    if not r["on"]:
        return None
    return {"sni": SNI[r["sni"]], "grade": r["grade"], "np": r["np"], "clientauth": r["clientauth"], "chacha": r["chacha"]}


def neg_harness_case(c):
    cl, sv = c["cl"], c["sv"]
    rule = None
    if sv["rule"]["on"]:
        rule = _hrule(sv["rule"])
    return {"id": c["id"],
            "cl": {"kind": cl["kind"], "min": cl["min"], "max": cl["max"], "suites": cl["suites"],
                   "scsv": cl["scsv"], "ecc": cl["ecc"], "alpn": cl["alpn"], "sni": SNI[cl["sni"]]},
            "sv": {"min": sv["min"], "max": sv["max"], "suites": sv["suites"], "prefer": sv["prefer"],
                   "np": sv["np"], "rule": rule, "cert": sv["cert"]}}


def _perm(rnd, pool, lo, hi):
    k = rnd.randint(lo, hi)
    return rnd.sample(pool, k)


def neg_sample_inputs(ctx, num, stream=0):
    """Seeded sampling of the full cross product (alphabet of Negotiate.tla); TLC verifies
    well-formedness (InvWellFormed) and computes the expectations."""
    rnd = random.Random(ctx.seed * 104729 + stream)
    out = []
    svmm = [(a, b) for a in (0, 10, 11, 12) for b in (0, 10, 11, 12) if (a or 3) <= (b or 12)]
    for i in range(num):
        kind = rnd.choice(["go", "raw", "raw"])
        mx = rnd.choice([10, 11, 12, 12])
        mn = rnd.choice([v for v in (10, 11, 12) if v <= mx] + [10])
        if kind == "go":
            s = set(_perm(rnd, ALL_SUITES, 1, 5))
            suites = [x for x in GO_ORDER if x in s]
            scsv, ecc = False, rnd.choice(["ok", "ok", "foreign"])
        else:
            suites = _perm(rnd, ALL_SUITES + ["CH"], 1, 5)
            scsv, ecc = rnd.random() < 0.35, rnd.choice(["ok", "ok", "none", "foreign"])
        cl = {"kind": kind, "min": mn, "max": mx, "suites": suites, "scsv": scsv, "ecc": ecc,
              "alpn": _perm(rnd, PROTOS, 0, 3), "sni": rnd.choice(["a", "b"])}
        a, b = rnd.choice(svmm)
        rule = dict(NO_RULE)
        if rnd.random() < 0.5:
            rule = {"on": True, "sni": "a", "grade": rnd.choice(["A+", "A", "B", "C"]), "np": _perm(rnd, PROTOS, 0, 3),
                    "clientauth": False, "chacha": rnd.random() < 0.5}
        sv = {"min": a, "max": b, "suites": [] if rnd.random() < 0.3 else _perm(rnd, ALL_SUITES + ["CH"], 1, 5),
              "prefer": rnd.random() < 0.6, "np": _perm(rnd, PROTOS, 0, 3), "rule": rule,
              "cert": "ecdsa" if rnd.random() < 0.2 else "rsa"}
        out.append({"id": i + 1, "cl": cl, "sv": sv})
    return out


def _err_class(o):
    ce, se = o.get("c_err", ""), o.get("s_err", "")
    if o.get("alert"):
        return "alert=" + o["alert"]
    if "unadvertised ALPN" in ce:
        return "client-rejected-alpn"
    if "resumed a session with" in ce:
        return "client-rejected-resumption"
    if o.get("c_alert"):
        return "client-alert=" + o["c_alert"]
    return "error"


def _h2_unusable(c, vers, suite):
    cl, sv = c["cl"], c["sv"]
    sp = sv["rule"]["np"] if (sv["rule"]["on"] and sv["rule"]["sni"] == cl["sni"]) else sv["np"]
    return "h2" in cl["alpn"] and "h2" in sp and (vers < 12 or suite not in H2_SUITES)


def judge_neg(ctx, c, o):
    """Compare one observation with Layer P (report) and Layer M (drift).  Returns number of reports."""
    P, M = c["expP"], c["expM"]
    case = {"kind": "neg", "case": c}
    n = 0

    def rep(sig, detail):
        nonlocal n
        n += 1
        ctx.report(sig, "%s; case cl=%s sv=%s; expP=%s; observed %s" % (
            detail, json.dumps(c["cl"]), json.dumps(c["sv"]), json.dumps(P), json.dumps(o))[:1800],
            case=case, harness="tlsneg", cmd="neg")

    if o.get("panic"):
        rep("panic/neg", "panic during handshake: " + o["panic"][:300])
        return n
    if o.get("hang"):
        rep("hang/neg", "handshake did not finish within the watchdog")
        return n
    c_ok, s_ok = o.get("c_ok"), o.get("s_ok")
    if P["refuse"] == "must":
        if c_ok or s_ok:
            sig = "completed-though-must-refuse/" + P["why"]
            if P["why"] == "fallback":
                sig += "/svmax=%s" % ("default" if c["sv"]["max"] == 0 else "explicit")
            rep(sig, "handshake completed (client ok=%s, server ok=%s) although it must be refused (%s)" % (c_ok, s_ok, P["why"]))
        elif M["by"] == "server" and o.get("alert") and o["alert"] != M["alert"]:
            return "alert %s, model %s" % (o["alert"], M["alert"])
        return n
    if not (c_ok and s_ok):
        if P["refuse"] == "no":
            cls = _err_class(o)
            if cls == "client-rejected-alpn":
                sig = "alpn-outside-mutual/client-rejected" + ("/h2-unusable" if _h2_unusable(c, P["vers"], M["suite"]) else "")
            else:
                sig = "refused-though-acceptable/" + cls
            rep(sig, "handshake failed although version, suite and ALPN can be agreed")
            return n
        return None if not M["done"] else "refused (allowed: RFC leaves it open), model completes"
    # completed on both ends
    if not (o["c_vers"] == o["s_vers"] == P["vers"]):
        rep("version/got=%s,%s/want=%s" % (o["c_vers"], o["s_vers"], P["vers"]), "negotiated version is not the highest mutual one")
    if o["c_suite"] != o["s_suite"] or o["s_suite"] not in P["suites"]:
        rep("suite-outside-mutual/got=%s" % o["s_suite"], "cipher suite not in the mutually usable set")
    if o["c_alpn"] != o["s_alpn"] or o["s_alpn"] not in P["alpn"]:
        sig = "alpn-outside-mutual/got=%s" % (o["s_alpn"] or "none")
        if _h2_unusable(c, o["s_vers"], o["s_suite"]):
            sig += "/h2-unusable"
        rep(sig, "ALPN answer outside what both offered (client sees %r, server %r)" % (o["c_alpn"], o["s_alpn"]))
    if o.get("echo") != "ok":
        rep("echo/" + str(o.get("echo"))[:40], "application data did not flow intact in both directions")
    if n == 0:
        if not M["done"]:
            return "completed, model refuses"
        if o["s_suite"] != M["suite"] or o["s_alpn"] != M["alpn"]:
            return "suite/alpn %s/%s, model %s/%s" % (o["s_suite"], o["s_alpn"] or "-", M["suite"], M["alpn"] or "-")
    return n


def run_neg(ctx, cases, label):
    if not cases:
        raise vlib.MachineryError("no negotiation cases (%s)" % label)
    for i, c in enumerate(cases):
        c["id"] = i + 1
    res = ctx.harness("tlsneg", ["neg"], cases=[neg_harness_case(c) for c in cases], timeout=2400, env=GODEBUG)
    _machinery(res, label)
    obs = {r["id"]: r["obs"] for r in res if "obs" in r}
    if len(obs) != len(cases):
        raise vlib.MachineryError("tlsneg neg: %d cases in, %d observations out" % (len(cases), len(obs)))
    hcases = [neg_harness_case(c) for c in cases]
    for i, r in _retry_hung(ctx, "neg", hcases, [i for i, o in obs.items() if o.get("hang")], label).items():
        obs[i] = r["obs"]
    drift = {}
    for c in cases:
        o = obs[c["id"]]
        d = judge_neg(ctx, c, o)
        if isinstance(d, str):
            drift.setdefault(d.split(",")[0][:60], []).append(c["id"])
        done = c["expP"]["refuse"] != "must"
        ctx.count({"cl": c["cl"], "sv": c["sv"]}, nontrivial=True)
        if done and len(ctx.cov["samples"]) < 2:
            ctx.sample({"cl": c["cl"], "sv": c["sv"], "expP": c["expP"], "observed": o})
        elif not done and len(ctx.cov["samples"]) == 2:
            ctx.sample({"cl": c["cl"], "sv": c["sv"], "expP": c["expP"], "observed": o})
    ctx.traces(len(cases))
    for k, ids in sorted(drift.items()):
        ctx.drift("action=negotiate %d case(s): %s (e.g. case id %d)" % (len(ids), k, ids[0]))


def check_c41(ctx):
    q = ctx.tier == "quick"
    ctx.cov["rule"] = ("cases = (client hello, server configuration) pairs: every pair of three product domains "
                       "(version x SCSV x grade; suite lists x preference x certificate; ALPN lists x rule) enumerated by TLC, "
                       "plus seeded samples of the full cross product; each is one real handshake bfe_tls.Server <-> "
                       "crypto/tls (or explicit-hello driver) with 1 KiB echoed both ways, judged against Layer P of "
                       "Negotiate.tla. distinct = distinct (cl, sv) pairs.")
    mcp = '{"ver", "suite", "alpn"}'
    ctx.cov["constants"]["NegotiateMC"] = {"Presets": mcp, "Tier": ctx.tier}
    ctx.tlc_must_pass("Tls", "NegotiateMC", "NegotiateMC.cfg", defines={"PRESETS": mcp, "TIER": ctx.tier},
                      timeout=3000, want_cases=False)
    nsample = 3000 if q else 30000
    inputs = neg_sample_inputs(ctx, nsample)
    gp = '{"gver", "gsuite", "galpn", "file"}' if q else '{"ver", "suite", "alpn", "file"}'
    ctx.cov["constants"]["NegotiateGen"] = {"Presets": gp, "Tier": "quick", "sampled": nsample}
    r = ctx.tlc("Tls", "NegotiateGen", "NegotiateGen.cfg", defines={"PRESETS": gp, "TIER": "quick"},
                extra_files={"inputs.ndjson": "".join(json.dumps(x, separators=(",", ":")) + "\n" for x in inputs)},
                timeout=3000, count=False)
    if not r.ok:
        raise vlib.MachineryError("NegotiateGen failed: %s %s" % (r.error or r.violation, r.out[-500:]))
    if sum(1 for c in r.cases if c.get("pre") == "file") != nsample:
        raise vlib.MachineryError("NegotiateGen evaluated %d of %d sampled inputs" % (
            sum(1 for c in r.cases if c.get("pre") == "file"), nsample))
    ctx.cov["exhaustive"] = False
    run_neg(ctx, r.cases, "C41")


# ======================================================================================= C44

TICKET_TAMPERS = ["flip-iv0", "flip-iv15", "flip-vers", "flip-suite", "flip-mslen", "flip-ms0", "flip-msN",
                  "flip-ncert", "flip-ctN", "flip-mac0", "flip-macN", "trunc-1", "trunc-mac", "trunc-47",
                  "extend-1", "garbage", "foreign"]
SID_TAMPERS = ["flip-id0", "flip-idN", "trunc-id", "cache-trunc", "cache-evict"]


def res_harness_case(h):
    steps = []
    ca = 1
    for st in h["steps"]:
        if st["op"] == "epoch":
            e = st["sv"]
            ca = e["ca"]
            steps.append({"op": "epoch", "sv": {"min": 0, "max": e["max"], "suites": e["suites"], "prefer": True,
                                                  "cert": "rsa", "key": e["key"], "tickets": e["tickets"],
                                                  "cache": e["cache"], "auth": e["auth"], "rule": _hrule(e["rule"]), "ca": ca}})
        else:
            c = st["cl"]
            steps.append({"op": "conn", "offer": st["offer"], "tamper": st["tamper"],
                          "cl": {"kind": c["kind"], "min": 10, "max": c["max"], "suites": c["suites"], "ecc": "ok",
                                 "sni": SNI[c["sni"]], "cert": c["cert"], "ca": ca, "noticket": c["noticket"]}})
    return {"id": h["id"], "steps": steps}


def res_sample_histories(ctx, num, thorough, stream=0):
    rnd = random.Random(ctx.seed * 15485863 + stream)
    sv_max = [0, 11, 10] if thorough else [0, 11]
    cl_max = [12, 11, 10] if thorough else [12, 11]
    sv_suites = [["EG", "EC"], ["EC"], ["EG"], ["RC", "EC"], ["CH", "EG", "EC"]]
    go_suites = [["EG", "EC", "RC"], ["EC", "RC"], ["EG"], ["RC"], ["EG", "CH", "EC"]]

    def rule():
        if rnd.random() < 0.45:
            return dict(NO_RULE)
        g, ca, ch = rnd.choice([("C", True, False), ("C", True, False), ("C", False, True), ("A+", False, False),
                                ("C", False, False), ("A+", True, True)] if thorough else
                               [("C", True, False), ("C", True, False), ("C", False, True), ("A+", False, False)])
        return {"on": True, "sni": "a", "grade": g, "np": [], "clientauth": ca, "chacha": ch}
    raw_suites = go_suites + [["RC", "EC", "EG"]]

    def epoch():
        return {"key": rnd.choice([1, 1, 2, 3]), "tickets": rnd.random() < 0.8, "cache": rnd.choice([0, 1, 1, 2]),
                "max": rnd.choice(sv_max), "suites": rnd.choice(sv_suites), "auth": rnd.choice(["none", "none", "request", "require"]),
                "rule": rule(), "ca": rnd.choice([1, 1, 2])}

    out = []
    for i in range(num):
        kind = rnd.choice(["go", "raw", "raw"])
        noticket = kind == "raw" and rnd.random() < 0.5
        e = epoch()
        steps = [{"op": "epoch", "sv": e}]
        have_conn = False
        for k in range(rnd.randint(2, 4)):
            if have_conn and rnd.random() < 0.35 and steps[-1]["op"] != "epoch":
                ne = dict(e)
                for d in rnd.sample(["key", "key", "tickets", "cache", "max", "suites", "auth", "rule", "rule", "ca", "ca"], rnd.choice([1, 1, 2])):
                    ne[d] = epoch()[d]
                e = ne
                steps.append({"op": "epoch", "sv": e})
                continue
            cl = {"kind": kind, "max": rnd.choice(cl_max + [12]), "suites": rnd.choice(go_suites if kind == "go" else raw_suites),
                  "cert": rnd.choice(["none", "A", "A", "A", "B", "fake"]), "noticket": noticket, "sni": rnd.choice(["a", "a", "b"])}
            offer = "saved" if (have_conn and rnd.random() < 0.85) else "none"
            tamper = "none"
            if offer == "saved" and rnd.random() < 0.45:
                tamper = rnd.choice(TICKET_TAMPERS + SID_TAMPERS if kind == "raw" else TICKET_TAMPERS)
            steps.append({"op": "conn", "cl": cl, "offer": offer, "tamper": tamper})
            have_conn = True
        out.append({"hid": i + 1, "steps": steps})
    return out


def judge_res(ctx, h, obs_steps):
    """Judge one replayed history step by step; stops at the first step after which the real client's
    saved session differs from the model's (later expectations would not apply)."""
    n = 0
    drift = []
    steps = h["steps"]
    masters = {}

    def rep(i, sig, detail):
        nonlocal n
        n += 1
        ctx.report(sig, ("step %d: %s; steps[0..%d]=%s; observed=%s" % (
            i, detail, i, json.dumps([{k: v for k, v in s.items() if k not in ("expM",)} for s in steps[:i + 1]]),
            json.dumps(obs_steps[i])))[:2500],
            case={"kind": "res", "case": {"steps": steps[:i + 1]}}, harness="tlsneg", cmd="resume")

    for i, st in enumerate(steps):
        if st["op"] == "epoch":
            continue
        o = obs_steps[i]
        P, M = st["expP"], st["expM"]
        before = n
        if o.get("panic"):
            rep(i, "panic/resume", "panic: " + o["panic"][:300])
            break
        if o.get("hang"):
            rep(i, "hang/resume", "connection did not finish within the watchdog")
            break
        ce = o.get("c_err", "")
        c_ok, s_ok = o.get("c_ok"), o.get("s_ok")
        resumed_attempt = o.get("s_resumed") or o.get("c_resumed") or "resumed a session with" in ce
        resumed = c_ok and s_ok and o.get("s_resumed") and o.get("c_resumed")
        tam = st["tamper"] if (P["sent"] and P["whynot"] == "tampered") else ""
        if resumed_attempt and P["resume"] == "no":
            rep(i, "resume-not-allowed/%s%s" % (P["whynot"], "/" + tam if tam else ""),
                "server honoured an offer it must decline (%s)" % P["whynot"])
        elif c_ok and s_ok and o.get("s_resumed") != o.get("c_resumed"):
            rep(i, "resume-disagree", "client and server disagree on whether the session was resumed")
        elif resumed:
            s = P["sess"]
            if o.get("sess_from") != s["from"]:
                drift.append("step %d: harness offered the session of step %s, model of step %s" % (i, o.get("sess_from"), s["from"]))
                break
            if o["s_vers"] != s["vers"] or o["c_vers"] != s["vers"]:
                rep(i, "resumed-params/version", "resumed connection does not keep the session's version")
            if o["s_suite"] != s["suite"] or o["c_suite"] != s["suite"]:
                rep(i, "resumed-params/suite", "resumed connection does not keep the session's cipher suite")
            if masters.get(s["from"]) and o.get("s_master") != masters[s["from"]]:
                rep(i, "resumed-params/master", "resumed connection does not keep the original master secret")
            if P["needcert"] and o.get("s_peer", 0) == 0:
                rep(i, "clientauth-bypassed/resumed", "resumed although a client certificate is required and the session has none")
            elif (o.get("s_peer", 0) > 0) != (s["cert"] != "none"):
                rep(i, "resumed-params/peer-cert", "client-certificate state of the resumed connection differs from the session's")
            if o.get("echo") != "ok":
                rep(i, "echo/resumed", "application data did not flow intact on the resumed connection: %s" % o.get("echo"))
        else:
            F = P["full"]
            how = "fresh" if not P["sent"] else "offer:%s%s" % (P["whynot"] or "valid", "/" + tam if tam else "")
            if F["refuse"] == "must":
                if c_ok or s_ok:
                    rep(i, "completed-though-must-refuse/%s" % F["why"], "full handshake completed although it must be refused")
            elif not (c_ok and s_ok):
                # a stored certificate that no longer verifies may abort the connection (as crypto/tls does)
                if F["refuse"] == "no" and not P["mayabort"]:
                    rep(i, "conn-failed/%s/%s" % (how, _err_class(o)),
                        "connection failed where an ordinary full handshake must succeed")
            else:
                if not (o["c_vers"] == o["s_vers"] == F["vers"]):
                    rep(i, "version/full", "full handshake version is not the highest mutual one")
                if o["c_suite"] != o["s_suite"] or o["s_suite"] not in F["suites"]:
                    rep(i, "suite-outside-mutual/full", "full handshake suite outside the mutual set")
                if P["needcert"] and (o.get("s_peer", 0) == 0 or o.get("cert_req") == 0):
                    rep(i, "clientauth-bypassed/full", "client certificate required but none requested / presented")
                if o.get("echo") != "ok":
                    rep(i, "echo/full", "application data did not flow intact: %s" % o.get("echo"))
        if c_ok and s_ok:
            masters[i] = o.get("s_master")
        if n > before:
            break
        # Layer M / synchronisation with the model's idea of the client's saved session
        if bool(resumed) != M["resume"]:
            drift.append("resume decision %s, model %s (%s)" % (bool(resumed), M["resume"], P["whynot"] or "allowed"))
            break
        if not resumed and bool(c_ok and s_ok) != M["done"]:
            drift.append("full handshake %s, model %s" % ("completed" if c_ok and s_ok else "failed", M["done"]))
            break
        if c_ok and s_ok and not resumed:
            ms = M["saved"]
            newm = ms["from"] == i
            newo = o.get("got_ticket") or o.get("got_sid")
            if bool(newm) != bool(newo) or (newm and (
                    ms["kind"] != ("ticket" if o.get("got_ticket") else "sid") or ms["vers"] != o["s_vers"] or
                    ms["suite"] != o["s_suite"] or (ms["cert"] != "none") != (o.get("s_peer", 0) > 0))):
                drift.append("session kept after step %d differs from the model (%s vs %s/%s/%s)" % (
                    i, ms, o.get("got_ticket"), o.get("got_sid"), o.get("s_suite")))
                break
    return n, drift


def run_res(ctx, hists, label):
    if not hists:
        raise vlib.MachineryError("no resumption histories (%s)" % label)
    for i, h in enumerate(hists):
        h["id"] = i + 1
    res = ctx.harness("tlsneg", ["resume"], cases=[res_harness_case(h) for h in hists], timeout=2400, env=GODEBUG)
    _machinery(res, label)
    obs = {r["id"]: r for r in res if "steps" in r}
    if len(obs) != len(hists):
        raise vlib.MachineryError("tlsneg resume: %d histories in, %d out" % (len(hists), len(obs)))
    hcases = [res_harness_case(h) for h in hists]
    obs.update(_retry_hung(ctx, "resume", hcases, [i for i, r in obs.items() if _is_hung(r)], label))
    drifts = {}
    nconn = 0
    for h in hists:
        r = obs[h["id"]]
        if r.get("panic"):
            ctx.report("panic/resume-driver", r["panic"][:600], case={"kind": "res", "case": {"steps": h["steps"]}},
                       harness="tlsneg", cmd="resume")
            continue
        _, dr = judge_res(ctx, h, r["steps"])
        for d in dr:
            drifts.setdefault(d.split("(")[0][:70], []).append(h["id"])
        inp = [{k: v for k, v in s.items() if k not in ("expP", "expM")} for s in h["steps"]]
        conns = sum(1 for s in h["steps"] if s["op"] == "conn")
        nconn += conns
        ctx.count(inp, nontrivial=any(s["op"] == "conn" and s["offer"] == "saved" for s in h["steps"]))
        if len(ctx.cov["samples"]) < 3 and any(s["op"] == "conn" and s.get("expM", {}).get("resume") for s in h["steps"]):
            ctx.sample({"history": inp, "observed": [
                {k: v for k, v in s.items() if k in ("c_ok", "s_ok", "c_resumed", "s_resumed", "s_vers", "s_suite", "s_peer", "cert_req", "echo")}
                for s in r["steps"]]})
    ctx.traces(len(hists))
    ctx.cov["connections"] = ctx.cov.get("connections", 0) + nconn
    for k, ids in sorted(drifts.items()):
        ctx.drift("action=resume %d history(ies): %s (e.g. history id %d)" % (len(ids), k, ids[0]))


def _gen_hist(ctx, preset, steps, tier, hist=None):
    extra = {}
    if hist is not None:
        extra["histories.ndjson"] = "".join(json.dumps(x, separators=(",", ":")) + "\n" for x in hist)
    r = ctx.tlc("Tls", "TicketGen", "TicketGen.cfg", defines={"PRESET": preset, "TIER": tier, "STEPS": steps},
                extra_files=extra, timeout=3000, count=False)
    if not r.ok:
        raise vlib.MachineryError("TicketGen %s failed: %s %s" % (preset, r.error or r.violation, r.out[-500:]))
    if hist is not None and len(r.cases) != len(hist):
        raise vlib.MachineryError("TicketGen evaluated %d of %d sampled histories" % (len(r.cases), len(hist)))
    return r.cases


def check_c44(ctx):
    q = ctx.tier == "quick"
    ctx.cov["rule"] = ("cases = histories (initial server epoch, then <= 4 steps: configuration change | connection "
                       "offering nothing / the saved ticket or session id, untouched or tampered): every tamper kind on a "
                       "stable configuration (TLC-enumerated), every single-dimension configuration change between issue and "
                       "offer (TLC-enumerated in the thorough tier), plus seeded sampled histories; each is replayed on "
                       "bfe_tls.Server with crypto/tls (ClientSessionCache + ResumptionState) or the explicit-hello driver "
                       "(session-id path via an in-memory ServerSessionCache) and judged against Layer P of Ticket.tla. "
                       "distinct = distinct histories containing at least one offer.")
    steps = 3 if q else 4
    ctx.cov["constants"]["TicketMC"] = {"Preset": "mc", "Tier": ctx.tier, "MaxSteps": steps}
    ctx.tlc_must_pass("Tls", "TicketMC", "TicketMC.cfg", defines={"PRESET": "mc", "TIER": ctx.tier, "STEPS": steps},
                      timeout=3000, want_cases=False)
    hists = _gen_hist(ctx, "tamper", 2, "quick")
    hists += _gen_hist(ctx, "rotate", 5, "quick")
    hists += _gen_hist(ctx, "policy", 3, ctx.tier)
    if not q:
        hists += _gen_hist(ctx, "config", 3, "quick")
    nsample = 1500 if q else 20000
    ctx.cov["constants"]["TicketGen"] = {"presets": ["tamper", "rotate", "policy"] + ([] if q else ["config"]) + ["file"], "sampled": nsample}
    hists += _gen_hist(ctx, "file", 8, ctx.tier, hist=res_sample_histories(ctx, nsample, not q))
    ctx.cov["exhaustive"] = False
    run_res(ctx, hists, "C44")


PROPS = {"C41": check_c41, "C44": check_c44}


def replay(ctx, pid, rep):
    case = rep["case"]
    if case["kind"] == "neg":
        run_neg(ctx, [dict(case["case"])], "replay")
    else:
        run_res(ctx, [dict(case["case"])], "replay")
    rc = ctx.finish()
    print("replay: %s" % ("violation reproduced" if rc == 1 else "no violation on the current tree"))
    return rc
