"""C15 — hot reload atomic and race-free: specs/Server/{SrvReload,TraceSrvReload}.tla <-> in-process BFE under
concurrent reloads (cmd/reload, built with -race)."""
import json
import random

from lib import vlib


def run(ctx, cases):
    for i, c in enumerate(cases):
        c["id"] = i + 1
    res = ctx.harness("reload", ["reload-run"], cases=cases, timeout=1800, race=True)
    stderr = ctx.last_stderr or ""
    for sig, text in vlib.race_reports(stderr):
        ctx.report(sig, text, case=None, harness="reload", cmd="reload-run")
    fatal = [x for x in res if "_fatal" in x]
    crash = [x for x in res if "_harness_exit" in x]
    summ = [x for x in res if x.get("summary")]
    if fatal or not summ or summ[0]["cases"] != len(cases) or (crash and "DATA RACE" not in stderr):
        raise vlib.MachineryError("reload harness failed: %s %s" % (fatal[:2] or crash[:1], stderr[-600:]))
    events = [x for x in res if "ev" in x]
    ends = {}
    for e in events:
        if e["ev"] == "end":
            ends[e["cid"]] = {k: e.pop(k) for k in ("failures", "requests", "nolog")}
    trace = "".join(json.dumps(e, separators=(",", ":")) + "\n" for e in events)
    r = ctx.tlc("Server", "TraceSrvReload", "TraceSrvReload.cfg", mode="trace", timeout=1500,
                extra_files={"trace.ndjson": trace}, count=False)
    rep = [c for c in r.cases if c.get("done")]
    if not r.ok or not rep or rep[0]["consumed"] != len(events):
        raise vlib.MachineryError("TraceSrvReload did not complete: %s %s" % (r.error or r.violation, r.out[-800:]))
    by_id = {c["id"]: c for c in cases}
    for b in rep[0]["bad"]:
        ev = events[b["l"] - 1]
        ctx.report("%s/%s" % (b["why"], ev["ev"]), "event %s of case %s" % (ev, by_id[b["cid"]]), case=by_id[b["cid"]],
                   harness="reload", cmd="reload-run")
    # unlogged cases: requests are still judged by the harness (status 200 from cluster c0)
    for cid, e in ends.items():
        if e["nolog"] and e["failures"]:
            ctx.report("MixedGenerationsOrFailure/nolog", "%d of %d requests failed or reached the wrong cluster" %
                       (e["failures"], e["requests"]), case=by_id[cid], harness="reload", cmd="reload-run")
    nreq = sum(1 for e in events if e["ev"] == "req_end")
    nsw = sum(1 for e in events if e["ev"] == "swap_end")
    ctx.cov["reload_observed"] = {"requests_logged": nreq, "reloads_logged": nsw,
                                  "requests_total": sum(e["requests"] for e in ends.values())}
    if nreq == 0 or nsw == 0:
        raise vlib.MachineryError("driver recorded no requests or no reloads")
    ctx.traces(len(cases))
    for c in cases:
        ctx.count({k: v for k, v in c.items() if k != "id"})
    ctx.sample({"case": cases[0], "recorded": [e for e in events if e["cid"] == cases[0]["id"]][:10]})


def gen_cases(ctx):
    q = ctx.tier == "quick"
    rnd = random.Random(ctx.seed * 17 + 15)
    out = []
    for i in range(6 if q else 40):
        out.append({"clients": rnd.choice([2, 4, 8]), "requests": 25 if q else 60, "reloaders": rnd.choice([1, 2, 3]),
                    "reloads": 40 if q else 120, "slowMs": rnd.choice([0, 0, 3, 10]), "nolog": i % 2 == 1})
    return out


def check_c15(ctx):
    q = ctx.tier == "quick"
    d = {"MAXGEN": 3 if q else 4}
    ctx.cov["constants"]["MC_SrvReload"] = d
    ctx.tlc_must_pass("Server", "SrvReload", "MC_SrvReload.cfg", defines=d, timeout=2400)
    run(ctx, gen_cases(ctx))
    ctx.cov["rule"] = ("cases = seeded concurrent runs: 2-8 client goroutines issue requests to an in-process BFE while 1-3 "
                       "reloader goroutines publish alternating configuration generations through ServerDataConfReload "
                       "(generation g maps the probe host to product P(g) and only P(g) to cluster c0, so any mixture of two "
                       "generations inside one request reaches c1) and another goroutine reloads gslb, TLS and module data; "
                       "harness built with -race; request/reload start and end events are validated by TLC "
                       "(TraceSrvReload); half of the runs record nothing (race detection without harness-induced ordering).")
    ctx.assumptions.append("reloads are driven through the exported reload entry points (as the web monitor does), not over HTTP")


PROPS = {"C15": check_c15}


def replay(ctx, pid, rep):
    for _ in range(3):
        run(ctx, [dict(rep["case"])] if rep.get("case") else gen_cases(ctx))
    rc = ctx.finish()
    print("replay: %s" % ("violation reproduced" if rc == 1 else "no violation on the current tree (3 runs)"))
    return rc
