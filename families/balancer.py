"""Balancer family: specs/Balancer/{SlbP,Slb,GenSlb,TraceSlb}.tla  <->  bfe_balance/bal_slb.

Pipeline (every property of the family):
  1. TLC exhaustively checks the mechanism model Slb.tla against the Layer-P obligations.
  2. TLC (GenSlb) enumerates / simulates behaviours: operation sequences with arguments.
  3. cmd/balancer slb-run replays them on the real bal_slb.BalanceRR and records one event
     per call with the real reply.
  4. TLC (TraceSlb) validates the recorded events against Layer P, evaluating every
     obligation in every state; rejected cases come back as `bad`.
Verdicts come only from step 4 (real replies); model-vs-code reply differences are MODEL-DRIFT.
"""
import json
import random

from lib import vlib

TRACE_N = 6


def _phase(case, upto):
    ph = "initial"
    for op in case["ops"][1:upto]:
        if op["op"] == "update":
            ph = "after-update"
        elif op["op"] == "flip":
            ph = "after-flip"
    return ph


def run_cases(ctx, cases, twin=False, label="", decisive=None):
    """Replay cases on the real code, validate the recorded trace with TLC.
    decisive: set of obligation names that count for this property (others ignored)."""
    if not cases:
        raise vlib.MachineryError("no cases generated (%s)" % label)
    for i, c in enumerate(cases):
        c["id"] = i + 1
        c["twin"] = twin
    res = ctx.harness("balancer", ["slb-run"], cases=cases, timeout=900)
    events = [r for r in res if "ev" in r]
    summ = [r for r in res if r.get("summary")]
    crash = [r for r in res if "_harness_exit" in r]
    if crash or not summ:
        raise vlib.MachineryError("balancer harness died: %s" % (crash or res[-1:]))
    if summ[0]["drift"]:
        ctx.drift("action=pick %d replies differ from the mechanism model, e.g. %s" %
                  (summ[0]["drift"], summ[0]["drift_examples"][:2]))
    # keep human-readable details out of the TLC trace
    details = {}
    for e in events:
        if "detail" in e:
            details[(e["cid"], e["algo"])] = e.pop("detail")
    trace = "".join(json.dumps(e, separators=(",", ":")) + "\n" for e in events)
    r = ctx.tlc("Balancer", "TraceSlb", "Trace.cfg", mode="trace", timeout=1200,
                extra_files={"trace.ndjson": trace}, count=False)
    rep = [c for c in r.cases if c.get("done")]
    if not r.ok or not rep or rep[0]["consumed"] != len(events):
        raise vlib.MachineryError("trace validation did not complete (%s): %s %s" %
                                  (label, r.error or r.violation, r.out[-600:]))
    ctx.traces(len({e["cid"] for e in events}))
    by_id = {c["id"]: c for c in cases}
    pos = {}
    # event index -> op index within its case
    n = {}
    for i, e in enumerate(events):
        n[e["cid"]] = n.get(e["cid"], -1) + 1
        pos[i + 1] = n[e["cid"]]
    nbad = 0
    for b in rep[0]["bad"]:
        why = b["why"]
        if decisive is not None and why not in decisive:
            continue
        nbad += 1
        case = by_id[b["cid"]]
        k = pos[b["l"]]
        op = case["ops"][k] if k < len(case["ops"]) else {}
        algo = events[b["l"] - 1].get("algo", "?")
        nb = case["ops"][0]["n"]
        wts = case["ops"][0]["w"]
        for o in case["ops"][1:k]:
            if o["op"] == "update":
                wts = o["w"]
        shape = "empty" if nb == 0 else ("nonpos" if any(x <= 0 for x in wts) else "pos")
        sig = "%s/%s/%s/%s" % (why, algo, _phase(case, k), shape)
        det = "case ops[0..%d]; observed event %s %s" % (k, events[b["l"] - 1],
                                                         details.get((b["cid"], algo), ""))
        ctx.report(sig, det[:1500], case={"ops": case["ops"][:k + 1], "twin": twin},
                   harness="balancer", cmd="slb-run")
    for c in cases:
        picks = sum(1 for o in c["ops"] if o["op"] == "pick")
        ctx.count(c["ops"], nontrivial=picks > 0)
    for c in cases[:2]:
        ctx.sample({"case": c["ops"][:8], "recorded": [e for e in events if e["cid"] == c["id"]][:8]})
    return nbad


def present(ops, n):
    for o in reversed(ops):
        if o["op"] == "update" and o.get("keep"):
            return o["keep"]
    return list(range(1, n + 1))


def random_cases(ctx, num, nmax, wmax, picks, algos, flips=True, updates=True, stream=0):
    """Seeded random driver (recorded executions beyond the TLC-generated behaviours):
    larger weights and longer runs than the model's bounds."""
    rnd = random.Random(ctx.seed * 7919 + stream)
    out = []
    for _ in range(num):
        n = rnd.randint(1, nmax)
        ordr = list(range(1, n + 1))
        rnd.shuffle(ordr)
        lo = -1 if "simple" in algos else 1
        w = [rnd.randint(lo, wmax) if rnd.random() < 0.85 else rnd.randint(1, wmax) for _ in range(n)]
        ops = [{"op": "load", "n": n, "ord": ordr, "w": w}]
        while len(ops) < picks:
            x = rnd.random()
            if x < 0.04 and updates:
                cur = present(ops, n)
                keep = [i for i in cur if rnd.random() < 0.8]
                gone = [i for i in range(1, n + 1) if i not in cur]
                if gone and rnd.random() < 0.5:
                    keep.append(rnd.choice(gone))            # at most one backend is (re-)added per reload
                keep = sorted(keep) or [cur[0]]
                w = [rnd.randint(lo, wmax) if (i + 1) in keep else 0 for i in range(n)]
                ops.append({"op": "update", "w": w, "keep": keep})
            elif x < 0.07 and flips:
                ops.append({"op": "flip", "b": rnd.choice(present(ops, n))})
            elif x < 0.15 and any(a.startswith("wlc") for a in algos):
                ops.append({"op": "conn", "b": rnd.choice(present(ops, n)), "d": 1})
            else:
                a = rnd.choice(algos)
                ops.append({"op": "pick", "algo": a, "r": rnd.randint(0, max(0, sum(x for x in w if x > 0) - 1))})
        # conn -1 only when positive: keep a shadow count
        out.append({"ops": ops})
    return out


def gen(ctx, cfg, defines, mode="mc", num=0, depth=0, timeout=600):
    defines = dict({"FOCUS": "FALSE", "ANYORDER": "TRUE"}, **defines)
    r = ctx.tlc("Balancer", "GenSlb", cfg, mode=mode, sim_num=num, sim_depth=depth,
                defines=defines, timeout=timeout, count=False)
    if not r.ok:
        raise vlib.MachineryError("GenSlb %s failed: %s %s" % (cfg, r.error or r.violation, r.out[-500:]))
    if not r.cases:
        # vacuity guard: a generator whose bounds never let a behaviour reach its full length prints nothing
        raise vlib.MachineryError("GenSlb %s %s generated no behaviour" % (cfg, defines))
    return r.cases


def slowstart_end_cases(ctx, num):
    """C01 'slow start finished': a restarted backend ramps up for 1 s with sparse traffic (a gap around the end of the
    period); afterwards the long-run shares must be the configured ones (TraceSlb.TShareCheck)."""
    import random
    rnd = random.Random(ctx.seed * 59 + 1)
    out = []
    for _ in range(num):
        n = rnd.randint(2, 4)
        w = [rnd.randint(1, 3) for _ in range(n)]
        ops = [{"op": "load", "n": n, "ord": list(range(1, n + 1)), "w": w},
               {"op": "slowstart", "b": rnd.randint(1, n), "t": 1}]
        for ms in (rnd.randint(50, 300), rnd.randint(200, 500)):
            ops += [{"op": "sleep", "t": ms}, {"op": "pick", "algo": "smooth", "r": 0}]
        ops += [{"op": "sleep", "t": 700 + rnd.randint(0, 300)}, {"op": "pick", "algo": "smooth", "r": 0},
                {"op": "sleep", "t": 20}, {"op": "pick", "algo": "smooth", "r": 0}, {"op": "ssdone"}]
        ops += [{"op": "pick", "algo": "smooth", "r": 0}] * (30 * sum(w))
        ops.append({"op": "sharecheck"})
        out.append({"ops": ops})
    return out


def check_c01(ctx):
    q = ctx.tier == "quick"
    ctx.cov["rule"] = ("cases = TLC-enumerated (exhaustive small N) and TLC-simulated behaviours of GenSlb "
                       "(smooth picks with one reload at every position) plus seeded long runs; each is replayed on "
                       "bal_slb.BalanceRR (with a twin object for determinism) and its recorded events are validated "
                       "by TLC against Layer P (Window, Periodic, ReplyOK, Deterministic). distinct = distinct op "
                       "sequences containing at least one pick.")
    mcd = {"N": 3, "WLO": 0, "WHI": 3, "PICKS": 14, "UPDATES": 1, "SCALE": 1} if q else \
          {"N": 3, "WLO": 0, "WHI": 4, "PICKS": 26, "UPDATES": 1, "SCALE": 1}
    ctx.cov["constants"]["MC_C01"] = mcd
    ctx.tlc_must_pass("Balancer", "Slb", "MC_C01.cfg", defines=dict(mcd, ANYORDER="TRUE"), timeout=1500, coverage=not q)
    cases = []
    g1 = {"N": 2, "WLO": 0, "WHI": 3, "PICKS": 12, "UPDATES": 1, "OPS": 14, "SCALE": 100} if q else \
         {"N": 3, "WLO": 0, "WHI": 2, "PICKS": 14, "UPDATES": 1, "OPS": 16, "SCALE": 100}
    ctx.cov["constants"]["Gen_C01_exhaustive"] = g1
    cases += gen(ctx, "Gen_C01.cfg", g1, timeout=1500)
    # reloads that change one thing only (a removal, one re-addition, one weight), exhaustively for 3 backends
    g3 = {"N": 3, "WLO": 0, "WHI": 2, "PICKS": 7, "UPDATES": 1, "OPS": 9, "SCALE": 100, "FOCUS": "TRUE", "ANYORDER": "FALSE"} if q else \
         {"N": 3, "WLO": 0, "WHI": 3, "PICKS": 10, "UPDATES": 1, "OPS": 12, "SCALE": 100, "FOCUS": "TRUE"}
    ctx.cov["constants"]["Gen_C01_focus"] = g3
    cases += gen(ctx, "Gen_C01.cfg", g3, timeout=1500)
    for n, num in ((3, 300), (4, 300)) if q else ((3, 2500), (4, 1500), (5, 800)):
        # OPS must not exceed PICKS: a behaviour is printed when it has exactly OPS operations
        g2 = {"N": n, "WLO": 0, "WHI": 4 if n < 5 else 3, "PICKS": 30, "UPDATES": 1, "OPS": 28, "SCALE": 100,
              "ANYORDER": "TRUE" if n < 5 else "FALSE"}
        cases += gen(ctx, "Gen_C01.cfg", g2, mode="sim", num=num, depth=34)
    # sub-clusters that also contain disabled members (weight 0 or negative, e.g. -1): the shares of the
    # positive-weight backends must not be affected by them
    for n, num in ((3, 200),) if q else ((3, 1500), (4, 1000)):
        g4 = {"N": n, "WLO": 1, "WHI": 3, "PICKS": 24, "UPDATES": 1, "OPS": 22, "SCALE": 100, "ANYORDER": "TRUE"}
        ctx.cov["constants"]["Gen_C01_negative_N%d" % n] = g4
        cases += gen(ctx, "Gen_C01.cfg", g4, mode="sim", num=num, depth=28)
    cases += random_cases(ctx, 40 if q else 400, 6, 12 if q else 30, 150 if q else 400, ["smooth"], flips=True)
    ctx.cov["exhaustive"] = False
    run_cases(ctx, slowstart_end_cases(ctx, 6 if q else 40), twin=False, label="C01-slowstart-end",
              decisive={"ShareAfterSlowStart", "ReplyOK", "panic", "hang"})
    run_cases(ctx, cases, twin=True, label="C01",
              decisive={"Window", "Periodic", "Deterministic", "FreshDeterministic", "panic", "hang", "unknown-backend", "ReplyOK"})


def check_all(ctx, decisive, label):
    q = ctx.tier == "quick"
    mcd = {"N": 3, "WLO": 1, "WHI": 2, "PICKS": 2, "UPDATES": 1, "FLIPS": 1, "CONNOPS": 1, "MAXCONN": 1, "SCALE": 2} if q else \
          {"N": 3, "WLO": 1, "WHI": 2, "PICKS": 3, "UPDATES": 1, "FLIPS": 1, "CONNOPS": 1, "MAXCONN": 2, "SCALE": 2}
    ctx.cov["constants"]["MC_All"] = mcd
    ctx.tlc_must_pass("Balancer", "Slb", "MC_All.cfg", defines=dict(mcd, ANYORDER="TRUE"), timeout=2400, coverage=False)
    cases = []
    for n, num in ((0, 20), (1, 100), (2, 300), (3, 600), (4, 300)) if q else \
            ((0, 50), (1, 500), (2, 3000), (3, 6000), (4, 6000)):
        g = {"N": n, "WLO": 1, "WHI": 3, "PICKS": 10, "UPDATES": 2, "FLIPS": 3, "CONNOPS": 4,
             "MAXCONN": 3, "OPS": 12 if n else 8, "SCALE": 100}   # N = 0: only picks and reloads exist
        cases += gen(ctx, "Gen_All.cfg", g, mode="sim", num=num, depth=16)
    algos = ["smooth", "simple", "sticky", "wlc_smooth", "wlc_simple"]
    cases += random_cases(ctx, 60 if q else 600, 6, 9, 60 if q else 150, algos, stream=1)
    ctx.cov["rule"] = ("cases = TLC-simulated behaviours of GenSlb over all five algorithms mixed with availability "
                       "flips, connection-count changes and reloads (N = 0..5, weights -1..3) plus seeded random "
                       "drivers; replayed on bal_slb.BalanceRR, recorded events validated by TLC against Layer P. "
                       "distinct = distinct op sequences with at least one pick.")
    run_cases(ctx, cases, twin=False, label=label, decisive=decisive)


def run_gslb(ctx):
    """Cluster-level decision (Gslb.tla): TLC enumerates configuration x request with the allowed
    outcome sets; cmd/balancer gslb-run replays each on a real BalanceGslb (WRR, WLC, sticky)."""
    q = ctx.tier == "quick"
    d = {"K": 3, "MAXRETRY": 1, "MAXRT": 3, "MAXRES": 3} if q else {"K": 3, "MAXRETRY": 2, "MAXRT": 4, "MAXRES": 5}
    dm = {"K": 3, "MAXRETRY": 1, "MAXRT": 3, "MAXRES": 3} if q else {"K": 3, "MAXRETRY": 2, "MAXRT": 4, "MAXRES": 4}
    ctx.cov["constants"]["MC_Gslb"] = dm
    ctx.tlc_must_pass("Balancer", "Gslb", "MC_Gslb.cfg", defines=dm, timeout=2400)
    r = ctx.tlc("Balancer", "GenGslb", "Gen_Gslb.cfg", mode="sim", sim_num=4000 if q else 60000, sim_depth=3,
                defines=d, timeout=1800, count=False)
    if not r.ok or not r.cases:
        raise vlib.MachineryError("GenGslb failed: %s %s" % (r.error or r.violation, r.out[-400:]))
    cases = r.cases
    for i, c in enumerate(cases):
        c["id"] = i + 1
    res = ctx.harness("balancer", ["gslb-run"], cases=cases, timeout=900)
    summ = [x for x in res if x.get("summary")]
    if not summ or summ[0]["cases"] != len(cases) or any("_harness_exit" in x for x in res):
        raise vlib.MachineryError("gslb-run died: %s" % res[-2:])
    nd = 0
    for x in res:
        if "ok" not in x:
            continue
        if x.get("drift"):
            nd += 1
            if nd == 1:
                ctx.drift("action=Balance(gslb) " + x["drift"])
        if not x["ok"]:
            ctx.report(x["sig"], x.get("detail", ""), case=x.get("case"), harness="balancer", cmd="gslb-run")
    for c in cases:
        ctx.count({k: c[k] for k in ("sw", "shape", "retryMax", "crossRetry", "rt", "r")},
                  nontrivial=c["expect"]["load"])
    ctx.traces(len(cases))
    ctx.sample({"gslb_case": cases[0]})


def check_c03(ctx):
    check_all(ctx, {"ReplyOK", "unknown-backend"}, "C03")
    q = ctx.tier == "quick"
    # restarted backends under slow start, drained (weight 0) ones included: never selected, whatever the ramp does
    run_cases(ctx, slowstart_cases(ctx, 14 if q else 100, algos=("smooth", "sticky", "wlc_smooth", "wlc_simple"),
                                   ramp=(1, 2), stream=3), twin=False, label="C03-slowstart", decisive={"ReplyOK", "unknown-backend"})
    run_gslb(ctx)
    ctx.cov["rule"] += (" Plus Gslb.tla: TLC-simulated (configuration, request) pairs with the allowed outcome set, "
                        "replayed on bal_gslb.BalanceGslb in WRR, WLC and sticky mode.")


def check_c02(ctx):
    q = ctx.tier == "quick"
    mc = {"N": 4, "MAXW": 3} if q else {"N": 5, "MAXW": 4}
    ctx.cov["constants"]["MC_Sticky"] = mc
    ctx.tlc_must_pass("Balancer", "Sticky", "MC_Sticky.cfg", defines=mc, timeout=1200)
    cases = []
    for n, mw in ((2, 3), (3, 2)) if q else ((2, 4), (3, 3), (4, 2)):
        r = ctx.tlc("Balancer", "GenSticky", "Gen_Sticky.cfg", defines={"N": n, "MAXW": mw}, timeout=600, count=False)
        if not r.ok:
            raise vlib.MachineryError("GenSticky failed: %s" % (r.error or r.violation))
        for c in r.cases:
            if sum(c["w"]) == 0:
                continue
            cases.append(dict(c, kind="slb"))
            if c["n"] <= 3:                      # the gslb harness has three named sub-clusters
                cases.append(dict(c, kind="gslb"))
                if 0 in c["w"]:                  # disabled sub-clusters are written with weight -1 as well
                    cases.append(dict(c, kind="gslb", w=[x if x > 0 else -1 for x in c["w"]]))
    import random
    rnd = random.Random(ctx.seed)
    if len(cases) > (500 if q else 4000):
        # keep the run short: seeded subset, always including the corner configurations
        keep = [c for c in cases if not all(c["av"]) or 0 in c["w"]][: (150 if q else 1000)]
        rest = [c for c in cases if c not in keep]
        rnd.shuffle(rest)
        cases = keep + rest[: (350 if q else 3000)]
    for i, c in enumerate(cases):
        c["id"] = i + 1
    res = ctx.harness("balancer", ["sticky-run"], cases=cases, timeout=1500)
    events = [x for x in res if "ev" in x]
    summ = [x for x in res if x.get("summary")]
    if not summ or summ[0]["cases"] != len(cases) or any("_harness_exit" in x for x in res):
        raise vlib.MachineryError("sticky-run died: %s" % res[-2:])
    strategies = {}
    for i, e in enumerate(events):
        strategies[i + 1] = e.pop("strategy", "perm%s" % e.get("perm"))
    trace = "".join(json.dumps(e, separators=(",", ":")) + "\n" for e in events)
    r = ctx.tlc("Balancer", "TraceSticky", "TraceSticky.cfg", mode="trace", timeout=1500,
                extra_files={"trace.ndjson": trace}, count=False)
    rep = [c for c in r.cases if c.get("done")]
    if not r.ok or not rep or rep[0]["consumed"] != len(events):
        raise vlib.MachineryError("TraceSticky did not complete: %s %s" % (r.error or r.violation, r.out[-500:]))
    by_id = {c["id"]: c for c in cases}
    for b in rep[0]["bad"]:
        c = by_id[b["cid"]]
        sig = "%s/%s/%s" % (b["why"], c["kind"], strategies[b["l"]] if c["kind"] == "gslb" else "order")
        ctx.report(sig, "config %s; recorded table event #%d %s" % (c, b["l"], str(events[b["l"] - 1])[:300]),
                   case=c, harness="balancer", cmd="sticky-run")
    ctx.traces(len(cases))
    for c in cases:
        ctx.count({k: c[k] for k in ("kind", "w", "av")}, nontrivial=sum(1 for x, a in zip(c["w"], c["av"]) if x > 0 and a) > 1)
    ctx.sample({"config": cases[0], "recorded": events[:3]})
    ctx.cov["rule"] = ("cases = all (weights, availability) configurations TLC enumerates for N targets (seeded subset when "
                       "large), each as session-sticky backend pick (all configuration orders) and as hash sub-cluster pick "
                       "(5 hash strategies x 2 fresh objects); the harness records the complete residue -> target table with "
                       "two keys per residue; TLC (TraceSticky) evaluates Partition, OnlyEligible, Stable, OrderIndep. "
                       "nontrivial = at least two eligible targets.")
    ctx.assumptions.append("the key hash is murmur3-64 (used only to find keys for every residue); empty hash keys are random by design and excluded")


def check_c09(ctx):
    q = ctx.tier == "quick"
    mc = {"SUBS": "", "RELOADS": 2, "TOUCH": 1} if q else {"SUBS": "", "RELOADS": 2, "TOUCH": 2}
    ctx.cov["constants"]["MC_Reload"] = mc
    ctx.tlc_must_pass("Balancer", "Reload", "MC_Reload.cfg", defines=mc, timeout=2400)
    cases = []
    # the successor enumeration of one reload step grows quickly with the universe: most histories use two backend
    # identities (one of them IPv6), the thorough tier adds some over three
    for backs, num in (('"b1", "b3"', 150),) if q else (('"b1", "b3"', 3000), ('"b1", "b2", "b3"', 120)):
        g = {"RELOADS": 4, "TOUCH": 4, "OPS": 12, "BACKS": backs}
        r = ctx.tlc("Balancer", "GenReload", "Gen_Reload.cfg", mode="sim", sim_num=num, sim_depth=16,
                    defines=g, timeout=1800, count=False)
        if not r.ok or not r.cases:
            raise vlib.MachineryError("GenReload failed: %s %s" % (r.error or r.violation, r.out[-400:]))
        cases += r.cases
    run_reload(ctx, cases)
    ctx.cov["rule"] = ("cases = TLC-simulated reload histories of Reload.tla (2 clusters x 2 sub-clusters x 3 backends; "
                       "adds, removes, renames = remove+add, state changes, selections); replayed through gslb.data / "
                       "cluster_table.data files, BalTable.Init, BalTableConfLoad and BalTableReload; every snapshot "
                       "(object identity, avail, conn, close channel) is validated by TLC (TraceReload) against Layer P. "
                       "distinct = distinct histories with at least one reload.")
    ctx.assumptions.append("gslb.data and cluster_table.data are consistent (every sub-cluster of gslb.data has an entry in cluster_table.data)")


def run_reload(ctx, cases):
    for i, c in enumerate(cases):
        c["id"] = i + 1
    res = ctx.harness("balancer", ["reload-run"], cases=cases, timeout=900)
    events = [x for x in res if "ev" in x]
    summ = [x for x in res if x.get("summary")]
    if not summ or summ[0]["cases"] != len(cases) or any("_harness_exit" in x for x in res):
        raise vlib.MachineryError("reload-run died: %s" % res[-2:])
    details = {}
    for i, e in enumerate(events):
        for k in ("detail", "err", "missing"):
            if k in e:
                details[i + 1] = e.pop(k)
    trace = "".join(json.dumps(e, separators=(",", ":")) + "\n" for e in events)
    r = ctx.tlc("Balancer", "TraceReload", "TraceReload.cfg", mode="trace", timeout=1500,
                extra_files={"trace.ndjson": trace}, count=False)
    rep = [c for c in r.cases if c.get("done")]
    if not r.ok or not rep or rep[0]["consumed"] != len(events):
        raise vlib.MachineryError("TraceReload did not complete: %s %s" % (r.error or r.violation, r.out[-800:]))
    by_id = {c["id"]: c for c in cases}
    for b in rep[0]["bad"]:
        c = by_id[b["cid"]]
        ev = events[b["l"] - 1]
        sig = "%s/%s" % (b["why"], ev["ev"])
        ctx.report(sig, "event #%d %s %s" % (b["l"], str(ev)[:500], details.get(b["l"], "")),
                   case={"ops": c["ops"]}, harness="balancer", cmd="reload-run")
    ctx.traces(len(cases))
    for c in cases:
        ctx.count(c["ops"], nontrivial=any(o["op"] == "reload" for o in c["ops"]))
    ctx.sample({"history": cases[0]["ops"][:6], "recorded": events[:3]})


def check_c06(ctx):
    q = ctx.tier == "quick"
    mc = {"FAILNUM": 2, "SUCCNUM": 2, "T3": "", "MAXFAILS": 5, "MAXPROBES": 5} if q else \
         {"FAILNUM": 2, "SUCCNUM": 2, "T3": ", 3", "MAXFAILS": 6, "MAXPROBES": 6}
    ctx.cov["constants"]["MC_Health"] = mc
    ctx.tlc_must_pass("Balancer", "Health", "MC_Health.cfg", defines=mc, timeout=2400)
    cases, seen = [], set()
    for fn, sn in ((1, 1), (2, 2), (3, 1), (1, 3)) if q else ((1, 1), (2, 2), (3, 1), (1, 3), (2, 3), (3, 3)):
        r = ctx.tlc("Balancer", "GenHealth", "Gen_Health.cfg", mode="sim", sim_num=12 if q else 120, sim_depth=150,
                    defines={"FAILNUM": fn, "SUCCNUM": sn, "OPS": 24}, timeout=900, count=False)
        if not r.ok:
            raise vlib.MachineryError("GenHealth failed: %s %s" % (r.error or r.violation, r.out[-400:]))
        for c in r.cases:
            k = json.dumps(c, sort_keys=True)
            if k not in seen:
                seen.add(k)
                cases.append(c)
    # seeded scripts with late release (the simulator tends to release early)
    import random
    rnd = random.Random(ctx.seed * 31 + 6)
    for _ in range(90 if q else 400):
        fn, sn = rnd.randint(1, 3), rnd.randint(1, 3)
        ops = []
        for _ in range(rnd.randint(10, 40)):
            x = rnd.random()
            if x < 0.12:
                # a burst: all request threads report failures at once (overlapping UpdateStatus calls)
                for k in range(rnd.randint(3, 9)):
                    ops.append({"op": "fail", "t": k % 3 + 1})
            elif x < 0.45:
                ops.append({"op": "fail", "t": rnd.randint(1, 3)})
            elif x < 0.6:
                ops.append({"op": "succ", "t": rnd.randint(1, 3)})
            elif x < 0.93:
                ops.append({"op": "probe", "ok": rnd.random() < 0.6})
            elif x < 0.97:
                # the health-check configuration is reloaded while a checker may be running
                ops.append({"op": "conf", "succNum": rnd.randint(1, 4)})
                ops += [{"op": "probe", "ok": True}] * rnd.randint(2, 6)
            else:
                ops.append({"op": "release"})
        cases.append({"failNum": fn, "succNum": sn, "ops": ops})
    run_health(ctx, cases)
    ctx.cov["rule"] = ("cases = environment scripts (which request thread reports failure/success, probe outcomes via a "
                       "loopback listener that is opened/closed, release) printed by TLC simulation of Health.tla plus seeded "
                       "ones; played with real goroutines against backend.BfeBackend with real health-check goroutines "
                       "(8 ms interval); events recorded by the verif hooks under the backend lock and validated by TLC "
                       "(TraceHealth) against Layer P. distinct = distinct scripts containing at least one failure report.")
    ctx.assumptions.append("health checks of type tcp against 127.0.0.1; real time: 8 ms check interval, quiescence wait up to 2 s")


def run_health(ctx, cases):
    for i, c in enumerate(cases):
        c["id"] = i + 1
    res = ctx.harness("balancer", ["health-run"], cases=cases, timeout=1500, race=True)
    for sig, text in vlib.race_reports(ctx.last_stderr or ""):
        ctx.report(sig, text, case=None, harness="balancer", cmd="health-run")
    events = [x for x in res if "ev" in x]
    summ = [x for x in res if x.get("summary")]
    crash = [x for x in res if "_harness_exit" in x]
    if not summ or summ[0]["cases"] != len(cases) or (crash and "DATA RACE" not in (ctx.last_stderr or "")):
        raise vlib.MachineryError("health-run died: %s" % res[-2:])
    trace = "".join(json.dumps(e, separators=(",", ":")) + "\n" for e in events)
    r = ctx.tlc("Balancer", "TraceHealth", "TraceHealth.cfg", mode="trace", timeout=1500,
                extra_files={"trace.ndjson": trace}, count=False)
    rep = [c for c in r.cases if c.get("done")]
    if not r.ok or not rep or rep[0]["consumed"] != len(events):
        raise vlib.MachineryError("TraceHealth did not complete: %s %s" % (r.error or r.violation, r.out[-800:]))
    by_id = {c["id"]: c for c in cases}
    for b in rep[0]["bad"]:
        c = by_id[b["cid"]]
        lo = max(0, b["l"] - 8)
        ctx.report("%s/health" % b["why"], "events before the rejected one: %s" % str(events[lo:b["l"]])[:1500],
                   case=c, harness="balancer", cmd="health-run")
    ctx.traces(len(cases))
    nchk = sum(1 for e in events if e["ev"] == "check_start")
    nup = sum(1 for e in events if e["ev"] == "set_avail" and e.get("avail"))
    ctx.cov["health_events"] = {"events": len(events), "checkers_started": nchk, "restored": nup}
    if nchk == 0 or nup == 0:
        raise vlib.MachineryError("health driver never exercised a checker/restore (checkers=%d, restores=%d)" % (nchk, nup))
    for c in cases:
        ctx.count({"f": c["failNum"], "s": c["succNum"], "ops": c["ops"]}, nontrivial=any(o["op"] == "fail" for o in c["ops"]))
    ctx.sample({"script": cases[0], "recorded": [e for e in events if e["cid"] == cases[0]["id"]][:10]})


def slowstart_cases(ctx, num, algos=("wlc_smooth", "wlc_simple"), ramp=(1,), stream=4):
    """Picks while a restarted backend's weight ramps up (slow start): seeded scenarios in real time."""
    import random
    rnd = random.Random(ctx.seed * 53 + stream)
    out = []
    for _ in range(num):
        n = rnd.randint(1, 4)
        w = [rnd.randint(1, 3) if rnd.random() < 0.75 else 0 for _ in range(n)]     # 0 = drained backend
        ops = [{"op": "load", "n": n, "ord": list(range(1, n + 1)), "w": w}]
        for b in range(1, n + 1):
            for _ in range(rnd.randint(0, 6)):
                ops.append({"op": "conn", "b": b, "d": 1})
        ops.append({"op": "slowstart", "b": rnd.randint(1, n), "t": rnd.choice(ramp)})
        for _ in range(rnd.randint(15, 30)):
            ops.append({"op": "sleep", "t": rnd.randint(0, 60)})
            ops.append({"op": "pick", "algo": rnd.choice(list(algos)), "r": 0})
            if rnd.random() < 0.3:
                ops.append({"op": "conn", "b": rnd.randint(1, n), "d": 1})
        out.append({"ops": ops})
    return out


def check_c04(ctx):
    check_all(ctx, {"ReplyOK", "unknown-backend"}, "C04")
    q = ctx.tier == "quick"
    run_cases(ctx, slowstart_cases(ctx, 12 if q else 120), twin=False, label="C04-slowstart", decisive={"ReplyOK", "unknown-backend"})
    # decision table: every weight vector x every connection-count vector for 4 backends (GenWlcTable.tla); the replies are
    # judged by TraceSlb against SlbP.ArgMin
    tabs = [{"N": 4, "WS": "{1, 2}", "MAXC": 3, "PICKS": 4, "ALGO": '"wlc_smooth"'}]
    if not q:
        tabs += [{"N": 4, "WS": "{1, 2}", "MAXC": 3, "PICKS": 3, "ALGO": '"wlc_simple"'},
                 {"N": 5, "WS": "{1, 2}", "MAXC": 2, "PICKS": 5, "ALGO": '"wlc_smooth"'}]
    for d in tabs:
        r = ctx.tlc("Balancer", "GenWlcTable", "Gen_WlcTable.cfg", mode="mc", defines=d, timeout=1500, count=False)
        if not r.ok or not r.cases:
            raise vlib.MachineryError("GenWlcTable %s failed: %s %s" % (d, r.error or r.violation, r.out[-500:]))
        ctx.cov["constants"]["Gen_WlcTable_N%d_%s" % (d["N"], d["ALGO"].strip('"'))] = dict(d, cases=len(r.cases))
        run_cases(ctx, r.cases, twin=False, label="C04-table", decisive={"ReplyOK", "unknown-backend", "panic", "hang"})
    ctx.cov["rule"] += (" Plus the complete decision table for 4 backends (weights {1,2}, 0..3 connections each; thorough: also "
                        "wlc_simple and 5 backends): every table row is a history load / ConnOps / WLC picks replayed on the "
                        "real BalanceRR.")
    ctx.cov["rule"] += (" Plus seeded slow-start scenarios in real time (a restarted backend's effective weight ramps up): the "
                        "effective weights are read before and after each least-connection pick and the reply must be minimal "
                        "for some weight vector between the two readings (TraceSlb.RangeOK).")


def run_conc(ctx, cases):
    for i, c in enumerate(cases):
        c["id"] = i + 1
    res = ctx.harness("balancer", ["conc-run"], cases=cases, timeout=1500, race=True)
    stderr = ctx.last_stderr or ""
    for sig, text in vlib.race_reports(stderr):
        ctx.report(sig, text, case=None, harness="balancer", cmd="conc-run")
    events = [x for x in res if "ev" in x]
    summ = [x for x in res if x.get("summary")]
    crash = [x for x in res if "_harness_exit" in x]
    if not summ or (crash and "DATA RACE" not in stderr):
        raise vlib.MachineryError("conc-run died: %s %s" % (res[-2:], stderr[-800:]))
    tp = summ[0].get("table_phase", {})
    ctx.cov["conc_table_phase"] = {k: (v if k != "panic" else bool(v)) for k, v in tp.items()}
    if tp.get("panic"):
        ctx.report("panic/table-reload-vs-balance", str(tp["panic"])[:1500], harness="balancer", cmd="conc-run")
    if tp.get("hang"):
        ctx.report("hang/table-reload-vs-balance", "Balance/Lookup did not return within 5 s", harness="balancer", cmd="conc-run")
    details = {}
    for i, e in enumerate(events):
        e.pop("algo", None)
        if "detail" in e:
            details[i + 1] = e.pop("detail")
    trace = "".join(json.dumps(e, separators=(",", ":")) + "\n" for e in events)
    r = ctx.tlc("Balancer", "TraceConc", "TraceConc.cfg", mode="trace", timeout=1500,
                extra_files={"trace.ndjson": trace}, count=False)
    rep = [c for c in r.cases if c.get("done")]
    if not r.ok or not rep or rep[0]["consumed"] != len(events):
        raise vlib.MachineryError("TraceConc did not complete: %s %s" % (r.error or r.violation, r.out[-800:]))
    by_id = {c["id"]: c for c in cases}
    for b in rep[0]["bad"]:
        lo = max(0, b["l"] - 6)
        ctx.report("%s/conc" % b["why"], "events up to the rejected one: %s %s" %
                   (str(events[lo:b["l"]])[:1200], details.get(b["l"], "")),
                   case=by_id.get(b["cid"]), harness="balancer", cmd="conc-run")
    npicks = sum(1 for e in events if e["ev"] == "pick_end")
    ctx.cov["conc_events"] = {"events": len(events), "picks": npicks}
    if npicks == 0:
        raise vlib.MachineryError("concurrent driver recorded no picks")
    ctx.traces(len(cases))


def conc_cases(ctx, n, ops):
    import random
    rnd = random.Random(ctx.seed * 101 + 5)
    out = []
    for i in range(n):
        out.append({"w": [rnd.randint(1, 3), rnd.randint(0, 2), rnd.randint(-1, 2), 1],
                    "pickers": rnd.choice([2, 4, 8]), "ops": ops, "seed": ctx.seed * 1000 + i, "nolog": i % 2 == 1})
    return out


def run_gate(ctx):
    """SlbGate.tla: an availability flip between the two passes of a least-connection pick, replayed
    deterministically through the verif scheduler gate."""
    q = ctx.tier == "quick"
    d = {"N": 3, "MAXCONN": 1} if q else {"N": 3, "MAXCONN": 2}
    ctx.cov["constants"]["MC_SlbGate"] = d
    ctx.tlc_must_pass("Balancer", "SlbGate", "MC_SlbGate.cfg", defines=d, timeout=1800)
    r = ctx.tlc("Balancer", "GenSlbGate", "Gen_SlbGate.cfg", mode="sim", sim_num=3000 if q else 40000, sim_depth=3,
                defines={"N": 3, "MAXCONN": 2}, timeout=1800, count=False)
    if not r.ok or not r.cases:
        raise vlib.MachineryError("GenSlbGate failed: %s %s" % (r.error or r.violation, r.out[-400:]))
    cases = r.cases
    for i, c in enumerate(cases):
        c["id"] = i + 1
    res = ctx.harness("balancer", ["gate-run"], cases=cases, timeout=900)
    summ = [x for x in res if x.get("summary")]
    if not summ or summ[0]["cases"] != len(cases) or any("_harness_exit" in x for x in res):
        raise vlib.MachineryError("gate-run died: %s" % res[-2:])
    if summ[0]["gate_reached"] == 0:
        raise vlib.MachineryError("the scheduler gate lc_second_pass was never reached (hook removed?)")
    ctx.cov["gate_reached"] = summ[0]["gate_reached"]
    nd = 0
    for x in res:
        if "ok" not in x:
            continue
        if x.get("drift"):
            nd += 1
            if nd == 1:
                ctx.drift("action=LcPick(two passes) " + x["drift"])
        if not x["ok"]:
            ctx.report(x["sig"], x.get("detail", ""), case=x.get("case"), harness="balancer", cmd="gate-run")
    ctx.traces(len(cases))
    for c in cases:
        ctx.count({k: c[k] for k in ("w", "conns", "av", "flips", "algo")}, nontrivial=len(c["flips"]) > 0)


def check_c05(ctx):
    q = ctx.tier == "quick"
    check_all(ctx, {"panic", "hang"}, "C05")
    # every algorithm while a restarted backend ramps up (its effective weight is 0 at the very beginning)
    ss = slowstart_cases(ctx, 10 if q else 80, algos=("smooth", "simple", "sticky", "wlc_smooth", "wlc_simple"),
                         ramp=(1, 30), stream=5)
    # the very beginning of a long ramp (effective weight still 0), every algorithm alone, 1 and 2 backends
    for n in (1, 2):
        for algo in ("smooth", "simple", "sticky", "wlc_smooth", "wlc_simple"):
            ss.append({"ops": [{"op": "load", "n": n, "ord": list(range(1, n + 1)), "w": [1] * n},
                               {"op": "slowstart", "b": 1, "t": 30}] + [{"op": "pick", "algo": algo, "r": 0}] * 8})
    run_cases(ctx, ss, twin=False, label="C05-slowstart", decisive={"panic", "hang"})
    run_gate(ctx)
    run_conc(ctx, conc_cases(ctx, 6 if q else 40, 300 if q else 800))
    ctx.cov["rule"] += (" Plus really concurrent executions (picker goroutines over all five algorithms, one availability "
                        "flipper per backend, a reloader, a slow-start setter; BalTable reloads against Balance), harness "
                        "built with -race: call start/end events validated by TLC (TraceConc: every call returns, a "
                        "returned backend may have been eligible at some instant of the call, an error only if at some "
                        "instant nothing need have been eligible); half of the runs record nothing so that only the "
                        "balancer's own locks order the goroutines (race detection).")


PROPS = {"C06": check_c06, "C09": check_c09, "C02": check_c02, "C01": check_c01, "C03": check_c03, "C04": check_c04, "C05": check_c05}


def replay(ctx, pid, rep):
    if rep.get("cmd") == "conc-run":
        for _ in range(3):
            run_conc(ctx, [dict(rep["case"])] if rep.get("case") else conc_cases(ctx, 6, 300))
        rc = ctx.finish()
        print("replay: %s" % ("violation reproduced" if rc == 1 else "no violation on the current tree (3 runs)"))
        return rc
    if rep.get("cmd") == "health-run":
        rc = 0
        for _ in range(5):           # concurrent: repeat the script a few times
            run_health(ctx, [dict(rep["case"])])
        rc = ctx.finish()
        print("replay: %s" % ("violation reproduced" if rc == 1 else "no violation on the current tree (5 runs)"))
        return rc
    if rep.get("cmd") == "reload-run":
        run_reload(ctx, [rep["case"]])
        rc = ctx.finish()
        print("replay: %s" % ("violation reproduced" if rc == 1 else "no violation on the current tree"))
        return rc
    if rep.get("cmd") in ("gslb-run", "sticky-run", "gate-run"):
        res = ctx.harness("balancer", [rep["cmd"]], cases=[rep["case"]], timeout=600)
        for x in res:
            print(json.dumps(x)[:600])
        bad = [x for x in res if x.get("ok") is False]
        print("replay: %s" % ("violation reproduced" if bad else "see recorded events above"))
        return 1 if bad else 0
    case = dict(rep["case"])
    twin = case.pop("twin", False)
    n = run_cases(ctx, [case], twin=twin, label="replay")
    rc = ctx.finish()
    print("replay: %s" % ("violation reproduced" if rc == 1 else "no violation on the current tree"))
    return rc
