"""h2conn family: specs/H2/Conn*.tla  <->  the real bfe_http2 server (C33, C34, C35, C37, C38).

Pipeline for C33/C34/C35:
  1. TLC checks exhaustively that the mechanism model Conn.tla (one serverConn: stream states,
     inflow/flow windows, body pipes, write scheduler, handler steps) satisfies the Layer-P monitor
     ConnP.tla (what a client may rely on, wire + handler API only).
  2. TLC (GenConn) simulates behaviours = sequences of stimuli (client frames, handler commands)
     with real octet counts.
  3. cmd/h2conn run replays them on the REAL server over an in-memory connection (standard peer:
     golang.org/x/net/http2 Framer + hpack), one stimulus at a time, each followed by an exact
     quiescence wait, and records the wire/handler events.
  4. TLC (TraceConn) folds the Layer-P monitor over the recorded events; failed obligations come
     back as `bad`.  Verdicts only from step 4.  Layer-M summaries are compared as MODEL-DRIFT.
C38: ConnResp.tla enumerates handler scripts with the response the property dictates; the real
     server's decoded response is compared with it.
C37: ConnFlood.tla; a reader-stalled client floods the real server.
"""
import json

from lib import vlib

SPEC = "H2"
GEN_WORKERS = 4

C33_WHY = {"Replenished", "HandlerData"}
C34_WHY = {"DataFits", "DataOrder", "SendAfterEnd", "DataBeforeHeaders"}
C35_WHY = {"Outcome", "MustStart", "BadStart", "OverLimit", "Ack", "Panic"}


def prop_of(b):
    """Which property a failed Layer-P obligation belongs to."""
    if b["why"] in C33_WHY:
        return "C33"
    if b["why"] in C34_WHY:
        return "C34"
    if b["why"] == "Outcome" and b["k"] == "DATA" and b["state"].startswith("open"):
        return "C33"
    if b["why"] == "Hang":
        return "hang"
    return "C35"


ERR = {0: "NO_ERROR", 1: "PROTOCOL_ERROR", 2: "INTERNAL_ERROR", 3: "FLOW_CONTROL_ERROR", 5: "STREAM_CLOSED",
       6: "FRAME_SIZE_ERROR", 7: "REFUSED_STREAM", 8: "CANCEL", 9: "COMPRESSION_ERROR", 11: "ENHANCE_YOUR_CALM"}


def step_of(e):
    """TLA+ event record -> harness step."""
    if e["ev"] == "wrace":
        return {"a": "wrace", "s": e["s"], "n": e["n"], "code": e["code"]}
    if e["ev"] == "race":
        return {"a": "race", "s": e["s"], "n": e["n"], "code": e["code"]}
    if e["ev"] == "hc":
        return {"a": "h", "s": e["s"], "op": e["op"], "n": e["n"]}
    st = {"a": "c", "k": e["k"], "s": e["s"], "n": e["n"], "p": e["p"], "es": e["es"], "inc": e["inc"],
          "code": e["code"], "iws": e["iws"], "mfs": e["mfs"], "req": e["req"], "cl": e["cl"]}
    if e["op"] == "neh":
        st["neh"] = True
    if e["iws"] == -2:
        st["iws"] = 2147483648
    return st


def harness_cfg(d):
    sw = int(d["SW0"])
    return {"sw": 0 if sw == 65535 else sw, "maxs": int(d["MAXS"]), "osw": int(d["OSW0"]), "mfs": -1,
            "ocwadd": int(d["OCW0"]) - 65535, "cap": 0}


def gen(ctx, defines, num, depth, label, exhaustive=False):
    """Behaviours of GenConn: seeded simulation, or (exhaustive) every behaviour within the constants."""
    if exhaustive:
        r = ctx.tlc(SPEC, "GenConn", "GenConn.cfg", mode="mc", defines=defines, timeout=2400, count=False)
    else:
        # -simulate num is per worker
        r = ctx.tlc(SPEC, "GenConn", "GenConn.cfg", mode="sim", sim_num=max(1, num // GEN_WORKERS), sim_depth=depth,
                    workers=GEN_WORKERS, defines=defines, timeout=1200, count=False)
    if not r.ok:
        raise vlib.MachineryError("GenConn (%s) failed: %s %s" % (label, r.error or r.violation, r.out[-800:]))
    seen, out = set(), []
    cfg = harness_cfg(defines)
    for c in r.cases:
        if "steps" not in c or not c["steps"]:
            continue
        steps = [step_of(x["e"]) for x in c["steps"]]
        key = json.dumps(steps, sort_keys=True)
        if key in seen:
            continue
        seen.add(key)
        # a bounded transport for behaviours in which the client stops reading for a while
        ccfg = dict(cfg, cap=256) if any(st.get("a") == "wrace" for st in steps) else cfg
        out.append({"cfg": ccfg, "steps": steps, "expM": [x["m"] for x in c["steps"]]})
    if not out:
        raise vlib.MachineryError("GenConn (%s) produced no behaviours" % label)
    return out


def _tok(t):
    if t == "close":
        return "close"
    return t


def sig_of(b):
    d = b["d"]
    if b["why"] == "Outcome":
        # d is the printed set of answer tokens: canonicalise to rst:<code>/ga:<code>/close/none
        import re
        toks = []
        for m in re.finditer(r't \|-> \\?"(\w+)\\?", c \|-> (\d+)|c \|-> (\d+), t \|-> \\?"(\w+)\\?"', d):
            t = m.group(1) or m.group(4)
            c = m.group(2) or m.group(3)
            toks.append("close" if t == "close" else "%s:%s" % (t, ERR.get(int(c), c)))
        if not toks:
            for m in re.finditer(r'\[s \|-> (\d+), t \|-> \\?"(\w+)\\?", c \|-> (\d+)\]', d):
                toks.append("close" if m.group(2) == "close" else "%s:%s" % (m.group(2), ERR.get(int(m.group(3)), m.group(3))))
        det = "+".join(sorted(set(toks))) or "no-error"
    elif b["why"] == "Replenished":
        import re
        m = re.search(r'"?(conn|stream)\\?"?(?:, (-?\d+), (-?\d+))?', d)
        det = "?"
        if m:
            if m.group(1) == "stream":
                det = "stream"
            else:
                det = "conn-leak" if int(m.group(2)) < int(m.group(3)) else "conn-overcredit"
    else:
        det = ""
    return "%s/%s/%s/%s" % (b["why"], b["k"], b["state"], det)


def compare_m(ctx, case, mobs):
    """Layer-M diagnostics: the model's summary at every quiescent point vs. the real serverConn.
    Which of two streams with queued DATA the scheduler serves first is a Go map-iteration choice:
    from the first quiescent point at which two streams are blocked on the shared connection window,
    only the connection-level numbers are compared."""
    exp = case.get("expM") or []
    by_step = {m["step"]: m for m in mobs if m["step"] > 0}
    amb = None
    for i, m in enumerate(exp):
        if isinstance(m, dict) and sum(1 for x in m["q"] if x > 0) > 1:
            amb = i + 1
            break
    skipped = [-m["step"] for m in mobs if m["step"] < 0]
    if skipped and (amb is None or skipped[0] <= amb):
        return "handler command skipped at step %d (handler not idle)" % skipped[0]
    stname = {"Open": "open", "HalfClosedRemote": "hcr"}
    for i, m in enumerate(exp):
        o = by_step.get(i + 1)
        if o is None or not isinstance(m, dict):
            continue
        if skipped and i + 1 >= skipped[0]:
            return None
        if o["done"] != (m["conn"] != "up"):
            return "step %d: connection %s, model %s" % (i + 1, "ended" if o["done"] else "up", m["conn"])
        if o["done"]:
            return None
        if (o["inC"], o["outC"]) != (m["inC"], m["outC"]):
            return "step %d: conn windows in/out real %s model %s" % (i + 1, (o["inC"], o["outC"]), (m["inC"], m["outC"]))
        live = {str(s + 1): m["st"][s] for s in range(len(m["st"])) if m["st"][s] in ("open", "hcr")}
        real = {s: stname.get(v["st"], v["st"]) for s, v in o["streams"].items()}
        if live != real:
            if amb is not None and i + 1 >= amb:
                return None
            return "step %d: streams real %s model %s" % (i + 1, real, live)
        for s in live:
            k = int(s) - 1
            v = o["streams"][s]
            if m["st"][k] == "open" and v["in"] != m["inS"][k]:
                return "step %d: stream %s inflow real %d model %d" % (i + 1, s, v["in"], m["inS"][k])
            if v["buf"] != m["buf"][k]:
                return "step %d: stream %s buffered real %d model %d" % (i + 1, s, v["buf"], m["buf"][k])
            if (amb is None or i + 1 < amb) and v["out"] != m["outS"][k]:
                return "step %d: stream %s flow real %d model %d" % (i + 1, s, v["out"], m["outS"][k])
    return None


TRACE_CHUNK = 6000     # events per TLC trace-validation run
TRACE_PAR = 4


def validate(ctx, events, label):
    """Fold Layer P (TraceConn) over the recorded events; connections are independent, so the
    trace is cut at connection boundaries and the pieces are validated by parallel TLC runs."""
    import concurrent.futures
    chunks, cur, last = [], [], None
    for e in events:
        if e["ev"] == "init" and len(cur) >= TRACE_CHUNK:
            chunks.append(cur)
            cur = []
        cur.append(e)
    if cur:
        chunks.append(cur)

    def one(ch):
        trace = "".join(json.dumps(e, separators=(",", ":")) + "\n" for e in ch)
        r = ctx.tlc(SPEC, "TraceConn", "TraceConn.cfg", mode="trace", timeout=2400,
                    extra_files={"trace.ndjson": trace}, count=False)
        rep = [c for c in r.cases if c.get("done")]
        if not r.ok or not rep or rep[0]["consumed"] != len(ch):
            raise vlib.MachineryError("trace validation did not complete (%s): %s %s" %
                                      (label, r.error or r.violation, r.out[-800:]))
        return rep[0]["bad"]

    out = []
    with concurrent.futures.ThreadPoolExecutor(max_workers=TRACE_PAR) as ex:
        for bad in ex.map(one, chunks):
            out.extend(bad)
    return out


def run_cases(ctx, cases, decisive, label):
    """Replay cases on the real server, validate the recorded events with TLC against Layer P."""
    for i, c in enumerate(cases):
        c["id"] = i + 1
    send = [{"id": c["id"], "cfg": c["cfg"], "steps": c["steps"]} for c in cases]
    res = ctx.harness("h2conn", ["run"], cases=send, timeout=1500)
    crash = [r for r in res if "_harness_exit" in r]
    summ = [r for r in res if r.get("summary")]
    if crash or not summ:
        raise vlib.MachineryError("h2conn harness died: %s" % (crash or res[-1:]))
    events = [r for r in res if "ev" in r]
    mobs = {}
    for r in res:
        if r.get("m"):
            mobs.setdefault(r["cid"], []).append(r)
    panics = {r["cid"]: r["text"] for r in res if r.get("panic")}
    allbad = validate(ctx, events, label)
    ctx.traces(len(cases))
    by_id = {c["id"]: c for c in cases}
    nbad = 0
    hangs = []
    for b in sorted(allbad, key=lambda b: (b["cid"], b["l"])):
        pr = prop_of(b)
        if pr == "hang":
            hangs.append(b)
            continue
        if pr not in decisive:
            continue
        nbad += 1
        case = by_id[b["cid"]]
        sig = sig_of(b)
        if sig.endswith("/stream"):
            # which stream-level credit is missing: is response DATA of that stream queued behind a
            # closed send window at this quiescent point (serve-loop snapshot)?
            for m in mobs.get(b["cid"], []):
                if m["step"] == b["step"] and m.get("streams", {}).get(str(b["s"]), {}).get("q", 0) > 0:
                    sig += "-behind-blocked-response-data"
        ev = [e for e in events if e["cid"] == b["cid"] and e["step"] >= b["step"] - 1 and e["step"] <= b["step"]]
        det = "%s stream %s: %s; steps[0..%d]; events of the failing step: %s %s" % (
            b["why"], b["s"], b["d"], b["step"],
            [{k: v for k, v in e.items() if v not in (0, "", False, [], None) and k not in ("cid", "step")} for e in ev][-8:],
            ("panic: " + panics[b["cid"]][:200]) if b["cid"] in panics else "")
        ctx.report(sig, det[:1800], case={"cfg": case["cfg"], "steps": case["steps"][:max(b["step"], 1)]},
                   harness="h2conn", cmd="run")
    if hangs:
        raise vlib.MachineryError("%d case(s) did not reach quiescence within the timeout (e.g. case %s)" %
                                  (len(hangs), by_id[hangs[0]["cid"]]["steps"]))
    ndrift, ex = 0, None
    badc = {b["cid"] for b in allbad}
    for c in cases:
        if c["id"] in badc:
            continue
        d = compare_m(ctx, c, mobs.get(c["id"], []))
        if d:
            ndrift += 1
            ex = ex or "%s in %s" % (d, c["steps"][:6])
    if ndrift:
        ctx.drift("action=quiescent-summary %d of %d behaviours differ from the mechanism model, e.g. %s" %
                  (ndrift, len(cases), ex))
    for c in cases:
        ctx.count(c["steps"], nontrivial=len(c["steps"]) > 1)
    for c in cases[:2]:
        ctx.sample({"steps": c["steps"][:6],
                    "recorded": [{k: v for k, v in e.items() if v not in (0, "", False, [], None)}
                                 for e in events if e["cid"] == c["id"]][:10]})
    return nbad


BASE = {"ESS": "{TRUE, FALSE}", "DATALENS": "{1}", "SW0": 39321, "OCW0": 65536, "OSW0": 32768, "MAXS": 2, "SIDS": "{1,3}", "TRAILERS": '{"trailers"}',
        "PADS": "{0}", "WUINCS": "{1}", "IWS": "Absent", "MFS": "Absent", "CLS": "ClNone",
        "READLENS": "{1}", "WRITELENS": "{16384}", "MINSTEPS": 3, "MAXDATA": 5, "MAXHDRS": 3,
        "HEAVY": "{}", "FIRSTH": "TRUE"}


def defs(**kw):
    d = dict(BASE)
    d.update(kw)
    return d


U = 13107   # 65535 / 5: five of these fill the connection receive window exactly


def check_c33(ctx):
    q = ctx.tier == "quick"
    mc = {"MAXSID": 3, "SIDS": "{1,3}", "STEPS": 4 if q else 5, "CLS": "ClOne" if q else "ClZeroOne"}
    ctx.cov["constants"]["MC_Conn33"] = mc
    ctx.tlc_must_pass(SPEC, "ConnMC", "Conn_MC33.cfg", defines=mc, timeout=2400, coverage=not q)
    cases = []
    for sw, num in ((3 * U, 480 if q else 2400), (65535, 160 if q else 800)):
        g = defs(SW0=sw, KINDS='{"HEADERS","DATA","RST","RACE"}', REQS='{"post","get"}',
                 DATALENS="{0,1,%d,%d,%d,%d}" % (U, 2 * U, 3 * U, 3 * U + 1), PADS="{0,1,256}", CLS="ClSome",
                 HOPS='{"read","ret","write","closebody"}', READLENS="{1,%d,65535}" % U, STEPS=9, MINSTEPS=6,
                 HEAVY='{"DATA","h-read","RACE"}')
        ctx.cov["constants"]["Gen_C33_sw%d" % sw] = g
        cases += gen(ctx, g, num, 150, "C33")
    # the enforced connection window = the advertised one: three stream ids (one may be closed and still
    # receive DATA), boundary-directed DATA lengths (exactly the remaining window / one octet more)
    go = defs(SW0=65535, MAXS=3, SIDS="{1,3,5}", ESS="{FALSE}", KINDS='{"HEADERS","DATA","RST","BOUND"}',
              REQS='{"post"}', DATALENS="{1,%d}" % U, PADS="{0}", HOPS='{"ret"}', STEPS=8, MINSTEPS=7,
              HEAVY='{"DATA"}')
    ctx.cov["constants"]["Gen_C33_overrun"] = go
    cases += gen(ctx, go, 320 if q else 1600, 150, "C33-overrun")
    ctx.cov["rule"] = ("cases = TLC-simulated behaviours of GenConn (HEADERS/DATA with padding/RST_STREAM, handler "
                       "reads, returns) with real octet counts on two stream-window configurations; each is replayed "
                       "on a real bfe_http2 server connection and the recorded wire/handler events are validated by "
                       "TLC against Layer P (Excess, HandlerData, Replenished).")
    run_cases(ctx, cases, {"C33"}, "C33")


def check_c34(ctx):
    q = ctx.tier == "quick"
    mc = {"MAXSID": 3, "SIDS": "{1,3}", "STEPS": 4 if q else 5}
    ctx.cov["constants"]["MC_Conn34"] = mc
    ctx.tlc_must_pass(SPEC, "ConnMC", "Conn_MC34.cfg", defines=mc, timeout=2400, coverage=not q)
    cases = []
    for osw, num in ((32768, 400 if q else 2000), (0, 120 if q else 600), (65535, 80 if q else 400)):
        g = defs(OSW0=osw, KINDS='{"HEADERS","WU","SETTINGS","RST"}', REQS='{"get"}',
                 WUINCS="{1,16384,32768}", IWS="IwsFlow", MFS="MfsFlow",
                 HOPS='{"write","hdr","ret"}', WRITELENS="{1,16384,32768,49152,65536}", STEPS=10, MINSTEPS=6,
                 HEAVY='{"h-write","WU"}')
        ctx.cov["constants"]["Gen_C34_osw%d" % osw] = g
        cases += gen(ctx, g, num, 220, "C34")
    ctx.cov["rule"] = ("cases = TLC-simulated behaviours of GenConn (two concurrent responses, WINDOW_UPDATE on stream "
                       "and connection, SETTINGS changing INITIAL_WINDOW_SIZE / MAX_FRAME_SIZE, RST_STREAM) replayed on a "
                       "real server; every DATA/HEADERS frame the client received is validated by TLC against the windows "
                       "the client had granted at that point (DataFits, DataOrder, SendAfterEnd, DataBeforeHeaders).")
    run_cases(ctx, cases, {"C34"}, "C34")


ALLKINDS = '{"HEADERS","NEH","DATA","RST","WU","SETTINGS","PING","PRIORITY","PINGACK","UNKNOWN","CONT","PUSH","WRACE"}'
ALLREQS = ('{"get","post","tetrailers","nomethod","nopath","emptypath","noscheme","duppath","badpseudo","resppseudo",'
           '"upper","pseudoafter","connhdr","te"}')


def check_c35(ctx):
    q = ctx.tier == "quick"
    mc = {"MAXSID": 3, "MAXS": 2, "SIDS": "{1,3}", "REQS": '{"get","post","nomethod","upper","connhdr"}',
          "STEPS": 3 if q else 4, "MAXDATA": 2, "MAXHDRS": 3, "KINDS": ALLKINDS}
    ctx.cov["constants"]["MC_Conn35"] = mc
    ctx.tlc_must_pass(SPEC, "ConnMC", "Conn_MC35.cfg", defines=mc, timeout=2400, coverage=not q)
    cases = []
    g = defs(MAXS=2, SIDS="{1,2,3,5,7}", KINDS=ALLKINDS, REQS=ALLREQS, TRAILERS='{"trailers","trailerspseudo","trailersupper"}',
             DATALENS="{0,1,%d}" % U, PADS="{0,1}", CLS="ClZero", WUINCS="{0,1,2147483647}", IWS="IwsAll", MFS="MfsAll",
             HOPS='{"read","write","ret"}', STEPS=7, MINSTEPS=3, MAXHDRS=5, HEAVY='{"HEADERS"}', FIRSTH="FALSE")
    ctx.cov["constants"]["Gen_C35"] = g
    cases += gen(ctx, g, 450 if q else 2000, 150, "C35")
    # every sequence of 2 (thorough: 3, the first one opening a stream) stimuli over a smaller alphabet
    gx = defs(MAXS=2, SIDS="{1,3}", KINDS='{"HEADERS","NEH","DATA","RST","WU","SETTINGS","PING","CONT","WRACE"}',
              REQS='{"get","post","upper","connhdr"}', TRAILERS='{"trailers"}', DATALENS="{0,1}", PADS="{0}", CLS="ClZero",
              WUINCS="{0,1}", IWS="Absent", MFS="MfsFlow", HOPS='{"read","write","ret"}', WRITELENS="{1}",
              STEPS=2, MINSTEPS=1, FIRSTH="FALSE")
    ctx.cov["constants"]["Gen_C35_exhaustive2"] = gx
    cases += gen(ctx, gx, 0, 0, "C35-exhaustive", exhaustive=True)
    # the advertised concurrency limit: every sequence of 3 (thorough 4) stimuli made of requests (valid,
    # malformed at request level, malformed at header-block level) on 3 stream ids, RST_STREAM and
    # handler returns against a limit of 1
    gl = defs(MAXS=1, SIDS="{1,3,5}", ESS="{TRUE}", KINDS='{"HEADERS","RST"}', REQS='{"get","nopath","upper"}',
              TRAILERS="{}", HOPS='{"ret"}', STEPS=3 if q else 4, MINSTEPS=1, FIRSTH="TRUE")
    ctx.cov["constants"]["Gen_C35_limit"] = gl
    cases += gen(ctx, gl, 0, 0, "C35-limit", exhaustive=True)
    if not q:
        gx3 = dict(gx, STEPS=3, FIRSTH="TRUE")
        ctx.cov["constants"]["Gen_C35_exhaustive3"] = gx3
        cases += gen(ctx, gx3, 0, 0, "C35-exhaustive3", exhaustive=True)
    ctx.cov["rule"] = ("cases = TLC-simulated sequences of client frames of every kind (HEADERS incl. malformed / "
                       "connection-specific / trailers / without END_HEADERS, DATA, RST_STREAM, WINDOW_UPDATE incl. 0 and "
                       "overflow, SETTINGS incl. invalid, PING, PRIORITY, CONTINUATION, PUSH_PROMISE, unknown) interleaved "
                       "with handler reads, writes and returns, replayed on a real server; the answer to every frame is "
                       "validated by TLC against the set RFC 7540 allows in the client-side stream state; recovered panics "
                       "of the serve goroutine are violations.")
    run_cases(ctx, cases, {"C35"}, "C35")


# ---------------------------------------------------------------------------- C38
def judge_resp(script, exp, o):
    """Compare the decoded response with what ConnResp.tla dictates; returns [(sig, detail)]."""
    out = []
    if o.get("hang") or o.get("panic"):
        return [("hang" if o.get("hang") else "panic", str(o.get("panic")))]
    if o["status"] != exp["status"]:
        out.append(("status/%s" % exp["status"], "got %s" % o["status"]))
    if [p for p in o["pseudo"]] != [[":status", str(o["status"])]]:
        out.append(("pseudo", str(o["pseudo"])))
    names = [h[0] for h in o["hdrs"]] + [h[0] for h in o["trailers"]]
    for n in names:
        if n != n.lower():
            out.append(("field-case/%s" % n.lower(), n))
        if n.lower() in exp["banned"]:
            out.append(("connection-specific/%s" % n.lower(), n))
    have = {(h[0], h[1]) for h in o["hdrs"]}
    mine = set()
    for f in exp["fields"]:
        mine.add(f["name"])
        if f["present"] and (f["name"], f["val"]) not in have:
            out.append(("field-missing/%s" % f["name"], "%s: %s not among %s" % (f["name"], f["val"], sorted(have))))
    for n, v in o["hdrs"]:
        if n.lower() not in mine and n.lower() not in exp["auto"] and n.lower() not in exp["banned"]:
            out.append(("field-extra/%s" % n.lower(), "%s: %s" % (n, v)))
    if o["body_len"] != exp["body"] or not o["body_ok"]:
        out.append(("body/%s" % ("head" if script["method"] == "HEAD" else script["status"]),
                    "got %d octets (pattern ok=%s), expected %d" % (o["body_len"], o["body_ok"], exp["body"])))
    cl = [v for n, v in o["hdrs"] if n == "content-length"]
    if cl and script["method"] != "HEAD" and exp["status"] not in (204, 304) and cl[0] != str(o["body_len"]):
        out.append(("content-length", "%s vs body %d" % (cl, o["body_len"])))
    if sorted((t[0], t[1]) for t in o["trailers"]) != sorted((t["name"], t["val"]) for t in exp["trailers"]):
        out.append(("trailers/%s" % script["trailers"], "got %s expected %s" % (o["trailers"], exp["trailers"])))
    fr = [f for f in o["frames"] if f != "I"]
    es = [e for f, e in zip(o["frames"], o["es"]) if f != "I"]
    shape = "".join(fr)
    import re
    if not re.fullmatch(r"HD*T?", shape):
        out.append(("frame-order", shape))
    if es.count(True) != 1 or not es or not es[-1]:
        out.append(("endstream", "%s es=%s" % (shape, es)))
    if exp["trailers"] and not shape.endswith("T"):
        out.append(("trailers-after-body", shape))
    return out


def resp_sig(script, what):
    items = "+".join(sorted({h["name"].lower() for h in script["hdrs"]})) or "-"
    return "%s/%s/%s/%s" % (what, script["method"], script["status"], items)


def run_resp(ctx, cases, label):
    for i, c in enumerate(cases):
        c["id"] = i + 1
    res = ctx.harness("h2conn", ["resp"], cases=[{"id": c["id"], "script": c["script"]} for c in cases], timeout=1500)
    crash = [r for r in res if "_harness_exit" in r]
    if crash or not [r for r in res if r.get("summary")]:
        raise vlib.MachineryError("h2conn resp harness died: %s" % (crash or res[-1:]))
    obs = {r["id"]: r["obs"] for r in res if "obs" in r}
    n = 0
    for c in cases:
        o = obs.get(c["id"])
        if o is None:
            raise vlib.MachineryError("no observation for case %s" % c["id"])
        ctx.count(c["script"])
        bad = judge_resp(c["script"], c["expect"], o)
        if [b for b in bad if b[0] == "hang"]:
            raise vlib.MachineryError("response script did not complete: %s" % c["script"])
        for what, det in bad:
            n += 1
            ctx.report(resp_sig(c["script"], what), "script %s: %s; observed %s" % (c["script"], det, json.dumps(o)[:900]),
                       case={"script": c["script"], "expect": c["expect"]}, harness="h2conn", cmd="resp")
    ctx.traces(len(cases))
    for c in cases[:2]:
        ctx.sample({"script": c["script"], "expect": {k: c["expect"][k] for k in ("status", "body", "trailers")},
                    "observed": {k: obs[c["id"]][k] for k in ("status", "hdrs", "frames", "es", "body_len", "trailers")}})
    return n


def check_c38(ctx):
    q = ctx.tier == "quick"
    d = {"METHODS": '{"GET","HEAD"}', "STATUSES": "{0,200,204,304,404}", "MAXITEMS": 1 if q else 2,
         "PLANS": "{1,2,4,6,7,8}" if q else "{1,2,3,4,5,6,7,8}", "TRAILERS": '{"none","declared","prefix"}',
         "CLS": '{"none","exact"}'}
    ctx.cov["constants"]["ConnResp"] = d
    r = ctx.tlc(SPEC, "ConnResp", "ConnResp.cfg", mode="mc", defines=d, timeout=1500)
    if not r.ok:
        raise vlib.MachineryError("ConnResp failed: %s %s" % (r.error or r.violation, r.out[-600:]))
    cases = [c for c in r.cases if "script" in c]
    if not cases:
        raise vlib.MachineryError("ConnResp printed no scripts")
    ctx.cov["exhaustive"] = True
    ctx.cov["rule"] = ("cases = every handler script ConnResp.tla enumerates within the constants (method x status x "
                       "header-item subsets incl. connection-specific, upper-case and multi-valued fields x write/flush "
                       "plans x trailer declaration modes x declared Content-Length), each run in a handler of the real "
                       "bfe_http2 server; the response decoded by a standard HTTP/2 peer is compared with the TLC-printed "
                       "expectation (status, fields lower-cased, connection-specific removed, body, trailers, END_STREAM).")
    run_resp(ctx, cases, "C38")


# ---------------------------------------------------------------------------- C37
FLOOD_CAP = 256                       # octets the server->client direction holds while the client does not read
FLOOD_ESCAPE = (FLOOD_CAP + 4096) // 9 + 16   # frames that can leave the queue before the writer blocks
FLOOD_HIST = 3 * FLOOD_ESCAPE          # a connection with a past: answered PINGs before the flood


def run_flood(ctx, cases, label):
    for i, c in enumerate(cases):
        c["id"] = i + 1
    send = [{"id": c["id"], "cap": FLOOD_CAP, "hist": c.get("hist", 0), "goaway": bool(c.get("goaway")), "bursts": [{"k": b["k"], "n": b["n"]} for b in c["bursts"]]} for c in cases]
    res = ctx.harness("h2conn", ["flood"], cases=send, timeout=1500)
    crash = [r for r in res if "_harness_exit" in r]
    if crash or not [r for r in res if r.get("summary")]:
        raise vlib.MachineryError("h2conn flood harness died: %s" % (crash or res[-1:]))
    obs = {r["id"]: r["obs"] for r in res if "obs" in r}
    n = early = 0
    for c in cases:
        o = obs.get(c["id"])
        if o is None or o.get("hang"):
            raise vlib.MachineryError("flood case did not complete: %s %s" % (c["bursts"], o))
        kinds = "+".join(sorted({b["k"] for b in c["bursts"]}))
        ctx.count([c.get("hist", 0), bool(c.get("goaway"))] + [(b["k"], b["n"]) for b in c["bursts"]])
        bad = []
        if o.get("panic"):
            bad.append(("panic", o["panic"]))
        for b, smp in zip(c["bursts"], o["samples"]):
            if o["limit"] != b["bound"]:
                raise vlib.MachineryError("server limit %s differs from the spec constant %s" % (o["limit"], b["bound"]))
            if not smp["closed"] and max(smp["queued"], smp["real"]) > b["bound"]:
                bad.append(("over-limit", "control frames pending: counter %d, really queued %d > %d after %s" % (
                    smp["queued"], smp["real"], b["bound"], b)))
            if b["mustClose"] and not smp["closed"]:
                bad.append(("not-closed", "connection still up after %s (queued %d)" % (b, smp["queued"])))
            if smp["closed"] and not b["mayClose"]:
                early += 1
        if o["received"] > o["limit"] + FLOOD_ESCAPE:
            bad.append(("delivered", "%d control frames delivered after resuming" % o["received"]))
        for what, det in bad[:1]:
            n += 1
            ctx.report("%s/%s/%s%s" % (what, kinds, "fresh" if not c.get("hist") else "used", "+goaway" if c.get("goaway") else ""),
                       "after %d answered PINGs, bursts %s: %s; observed %s" % (
                           c.get("hist", 0), [(b["k"], b["n"]) for b in c["bursts"]], det, json.dumps(o)[:600]),
                       case={"hist": c.get("hist", 0), "goaway": bool(c.get("goaway")), "bursts": c["bursts"]}, harness="h2conn", cmd="flood")
    if early:
        ctx.drift("action=flood %d behaviours: connection closed although at most Limit control frames were elicited" % early)
    ctx.traces(len(cases))
    for c in cases[:2]:
        ctx.sample({"bursts": [(b["k"], b["n"]) for b in c["bursts"]], "observed": obs[c["id"]]})
    return n


def check_c37(ctx):
    q = ctx.tier == "quick"
    mc = {"STEPS": 4 if q else 5}
    ctx.cov["constants"]["MC_ConnFlood"] = dict(mc, Limit=3, Escape=2, Bursts="{1,2,4}")
    ctx.tlc_must_pass(SPEC, "ConnFlood", "ConnFlood_MC.cfg", defines=mc, timeout=1500, want_cases=False)
    g = {"ESCAPE": FLOOD_ESCAPE, "BURSTS": "{1,2,4000,5000,6000,9999,10001,%d}" % (10001 + FLOOD_ESCAPE),
         "KINDS": '{"PING","WU0","DATAC","SETTINGS"}', "STEPS": 3, "HISTS": "{0, 1, %d}" % FLOOD_HIST}
    ctx.cov["constants"]["Gen_ConnFlood"] = dict(g, Limit=10000)
    r = ctx.tlc(SPEC, "ConnFlood", "ConnFlood_Gen.cfg", mode="sim", sim_num=140 if q else 600, sim_depth=8,
                defines=g, timeout=900, count=False)
    if not r.ok:
        raise vlib.MachineryError("ConnFlood generator failed: %s %s" % (r.error or r.violation, r.out[-600:]))
    seen, cases = set(), []
    for c in r.cases:
        if "bursts" not in c:
            continue
        k = json.dumps([c.get("hist", 0), bool(c.get("goaway"))] + [(b["k"], b["n"]) for b in c["bursts"]])
        if k not in seen:
            seen.add(k)
            cases.append(c)
    if not cases:
        raise vlib.MachineryError("ConnFlood generator printed no behaviours")
    ctx.cov["rule"] = ("cases = TLC-simulated flood patterns of ConnFlood (bursts of PING / zero WINDOW_UPDATE / DATA on a "
                       "closed stream / SETTINGS around the real limit of 10000) sent to a real server whose client has "
                       "stopped reading (bounded in-memory transport); after every burst the connection state and "
                       "serverConn.queuedControlFrames are sampled on the serve loop and compared with the TLC-printed "
                       "expectation (bound, mustClose); after resuming the number of delivered control frames is bounded.")
    run_flood(ctx, cases, "C37")


PROPS = {"C33": check_c33, "C34": check_c34, "C35": check_c35, "C37": check_c37, "C38": check_c38}


def replay(ctx, pid, rep):
    case = dict(rep["case"])
    if rep.get("cmd") == "run":
        run_cases(ctx, [case], {"C33", "C34", "C35"} if pid in ("C33", "C34", "C35") else {pid}, "replay")
    elif rep.get("cmd") == "resp":
        run_resp(ctx, [case], "replay")
    elif rep.get("cmd") == "flood":
        run_flood(ctx, [case], "replay")
    rc = ctx.finish()
    print("replay: %s" % ("violation reproduced" if rc == 1 else "no violation on the current tree"))
    return rc
