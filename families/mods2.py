"""mods2 family: specs/Mod/{Static,Access,Compress}.tla  <->  mod_static (C50), the access-control
modules mod_auth_basic / mod_auth_jwt / mod_secure_link / mod_block / mod_auth_request (C51) and
mod_compress (C54).

Pipeline (every property):
  1. TLC checks exhaustively, within the constants of the tier, that the mechanism model
     (Layer M: the code as it is after the accepted fix commits) stays inside Layer P
     (Allowed(in), the set of answers the property's statement permits), and in the same run
     prints one JSON case per input: the input, `allow` (Layer P) and `expM` (Layer M).
  2. harness/cmd/mods2 constructs the real modules (NewModuleX + Init on a generated conf root,
     i.e. through the real loaders), turns every case into a real request / credential /
     response and drives the handler the module registered.
  3. A real-code answer outside `allow` is a violation (ctx.report); an answer inside `allow` but
     different from `expM` is MODEL-DRIFT.
"""
import json
import random
import time

from lib import vlib

SPEC = "Mod"


def tla_set(xs):
    return "{" + ", ".join(json.dumps(x) for x in xs) + "}"


def tla_bools(xs):
    return "{" + ", ".join("TRUE" if x else "FALSE" for x in xs) + "}"


def tla_ints(xs):
    return "{" + ", ".join(str(x) for x in xs) + "}"


def tlc_cases(ctx, module, cfg, defines, extra=None, timeout=900, count=True, label=""):
    """One TLC run that both model-checks (all invariants of the cfg) and prints the cases."""
    r = ctx.tlc(SPEC, module, cfg, defines=defines, extra_files=extra, timeout=timeout, count=count)
    if not r.ok:
        raise vlib.MachineryError("TLC %s/%s (%s) failed: violation=%s error=%s %s" %
                                  (SPEC, module, label, r.violation, r.error, r.out[-400:]))
    hdr = [c for c in r.cases if "hdr" in c]
    cases = [c for c in r.cases if "hdr" not in c]
    if not cases:
        raise vlib.MachineryError("TLC %s printed no cases (%s)" % (module, label))
    return hdr[:1], cases


def drive(ctx, sub, hdr, cases, describe, timeout=1500):
    """Replay cases on the real modules; report Layer-P contradictions; return #failures."""
    for i, c in enumerate(cases):
        c["id"] = i + 1
    t0 = time.time()
    res = ctx.harness("mods2", [sub], cases=hdr + cases, timeout=timeout)
    ctx.notes.append("harness %s: %d cases in %.1fs" % (sub, len(cases), time.time() - t0))
    crash = [r for r in res if "_harness_exit" in r]
    if crash or not any(r.get("summary") for r in res):
        raise vlib.MachineryError("mods2 %s harness died: %s" % (sub, (crash or res[-1:])))
    by_id = {c["id"]: c for c in cases}
    got = [r for r in res if "id" in r]
    if len(got) != len(cases):
        raise vlib.MachineryError("mods2 %s: %d cases in, %d results out" % (sub, len(cases), len(got)))
    bad = 0
    drift = []
    for r in got:
        c = by_id[r["id"]]
        ctx.count(describe(c), nontrivial=True)
        if not r.get("ok"):
            bad += 1
            case = {k: v for k, v in c.items() if k != "id"}
            ctx.report(r.get("sig", "?"), (r.get("detail") or "")[:1500],
                       case={"hdr": hdr, "case": case}, harness="mods2", cmd=sub)
        if r.get("drift"):
            drift.append(r["drift"])
    if drift:
        ctx.drift("action=%s %d answers differ from the mechanism model, e.g. %s" % (sub, len(drift), drift[:2]))
    ctx.traces(len(got))
    for c, r in list(zip(cases, got))[:2]:
        ctx.sample({"case": describe(c), "allow": c.get("allow"), "observed": r.get("obs")})
    return bad


# ----------------------------------------------------------------------------- C50

FULL = ["a.txt", "sub", "b.txt", "out", "c.txt", "secret.txt", "index.html", "empty", "zz", "root",
        "rootx", "s.txt", ".", "..", "", "...", "a.txt.gz", "%2e%2e", ".%2E", "%2e", "sub%2fb.txt",
        "..%2fout", "..%2F..", "%2e%2e%2fout%2fsecret.txt", "..%5cout", "%00", "a.txt%00", "<long>",
        "<rawnul>"]
CORE = ["a.txt", "sub", "out", "c.txt", "zz", "..", ".", "", "%2e%2e", "..%2fout"]
CORE8 = ["a.txt", "sub", "out", "c.txt", "..", "", "%2e%2e", "..%2fout"]


def static_defs(maxseg, alpha, methods, defaults, compress, aes):
    return {"MAXSEG": maxseg, "ALPHA": tla_set(alpha), "METHODS": tla_set(methods),
            "DEFAULTS": tla_set(defaults), "COMPRESS": tla_bools(compress), "AES": tla_set(aes)}


def static_desc(c):
    return [c["segs"], c["method"], c["def"], c["compress"], c["ae"]]


def given_paths(ctx, n, lo, hi):
    """Seeded long paths, biased towards escapes: handed to TLC, which computes the expectations."""
    rnd = random.Random(ctx.seed * 104729 + 50)
    hot = ["..", "..", "%2e%2e", ".%2E", "..%2fout", "..%2F..", "out", "root", "rootx", "secret.txt", "a.txt",
           "sub", "", "."]
    seen = set()
    while len(seen) < n:
        ln = rnd.randint(lo, hi)
        p = tuple(rnd.choice(hot) if rnd.random() < 0.6 else rnd.choice(FULL) for _ in range(ln))
        seen.add(p)
    body = ",\n  ".join("<<" + ", ".join(json.dumps(s) for s in p) + ">>" for p in sorted(seen))
    return ("---------------------------- MODULE StaticGiven ----------------------------\n"
            "GivenPaths == {\n  " + body + " }\n"
            "=============================================================================\n")


def check_c50(ctx):
    q = ctx.tier == "quick"
    ctx.cov["rule"] = ("inputs = request path (list of raw segments over dot segments, empty segments, encoded dots and "
                       "separators, NUL, over-long names, names of files inside and outside the root) x method x default-file "
                       "setting x EnableCompress x Accept-Encoding; TLC enumerates all paths up to MaxSeg segments and checks "
                       "the mechanism model against Layer P (served file under root or default, exact bytes and length, "
                       "GET/HEAD only, no listing, 404 for missing); every input is replayed on mod_static (real Init, real "
                       "request parser, temp tree with a secret outside the root). distinct = distinct inputs.")
    runs = []
    if q:
        runs.append(("full2", static_defs(2, FULL, ["GET", "HEAD", "POST"], ["", "index.html"], [True, False], ["", "gzip"]), None))
        runs.append(("core4", static_defs(4, CORE, ["GET"], ["", "index.html"], [True], ["gzip"]), None))
        runs.append(("given", static_defs(0, CORE, ["GET"], ["", "sub/b.txt"], [True, False], ["gzip"]),
                     given_paths(ctx, 2000, 3, 7)))
    else:
        runs.append(("full3", static_defs(3, FULL, ["GET"], ["", "index.html"], [True], ["gzip"]), None))
        runs.append(("full2", static_defs(2, FULL, ["GET", "HEAD", "POST", "PUT", "DELETE", "OPTIONS"],
                                          ["", "index.html", "sub/b.txt"], [True, False], ["", "gzip"]), None))
        runs.append(("core5", static_defs(5, CORE8, ["GET"], ["", "index.html"], [True], ["gzip"]), None))
        runs.append(("given", static_defs(0, CORE, ["GET", "HEAD"], ["", "sub/b.txt"], [True, False], ["", "gzip"]),
                     given_paths(ctx, 5000, 3, 8)))
        # model checking only (no replay): the full alphabet one segment deeper with all switches
        d = static_defs(3, FULL, ["GET"], ["", "index.html"], [True, False], ["", "gzip"])
        ctx.cov["constants"]["MC_Static_full3"] = d
        ctx.tlc_must_pass(SPEC, "Static", "MC_Static.cfg", defines=d, timeout=2400)
    for name, d, given in runs:
        ctx.cov["constants"]["Static_" + name] = {k: v for k, v in d.items()}
        hdr, cases = tlc_cases(ctx, "GenStatic", "GenMC_Static.cfg", d,
                               extra={"StaticGiven.tla": given} if given else None,
                               timeout=2400, label=name)
        if not hdr:
            raise vlib.MachineryError("GenStatic printed no tree header")
        drive(ctx, "static", hdr, cases, static_desc)
    ctx.cov["exhaustive"] = True
    ctx.assumptions += ["symlink-free tree on a POSIX file system",
                        "NUL / over-long names / directories without default file: any status >= 400 is accepted "
                        "(gray: the code answers 500 like net/http.FileServer)",
                        "paths with dot segments, empty segments, encoded dots or separators may be resolved lexically "
                        "or refused; plain paths have exactly one permitted answer"]


# ----------------------------------------------------------------------------- C51

KEYSETS = ["oct2", "oct-hs256", "rsa", "rsa-rs256", "ec-es256", "mixed"]
EXPS = ["absent", "future", "past"]
NBFS = ["absent", "past", "future"]
IATS = ["absent", "past", "soon", "far"]
HDRS_T = ["bearer", "absent", "lower", "two-spaces", "basic-scheme", "no-token", "extra-part", "two-segments"]
SCHEMES = ["basic", "jwt", "slink", "blockip", "blockrule", "authreq"]


def access_desc(c):
    return c["in"]


def check_c51(ctx):
    q = ctx.tier == "quick"
    ctx.cov["rule"] = ("inputs = per scheme (basic, jwt, secure link, block ip table, block rules, auth_request) the "
                       "credential class x rule configuration x rule coverage; TLC enumerates all of them, checks the "
                       "mechanism model against Layer P (admit iff valid under the documented scheme, documented "
                       "rejection otherwise) and prints the cases; the harness builds real htpasswd files, JWKs, "
                       "tokens signed with stdlib crypto, signed links, blocklists and a loopback auth service and "
                       "drives the handlers the modules registered. distinct = distinct inputs.")
    d = {"SCHEMES": tla_set(SCHEMES), "KEYSETS": tla_set(KEYSETS),
         "EXPS": tla_set(EXPS), "NBFS": tla_set(NBFS), "IATS": tla_set(IATS), "HDRS": tla_set(HDRS_T),
         "MAXRULES": 2 if q else 3}
    ctx.cov["constants"]["Access"] = d
    hdr, cases = tlc_cases(ctx, "GenAccess", "GenMC_Access.cfg", d, timeout=2400, label="access")
    if not hdr:
        raise vlib.MachineryError("GenAccess printed no header")
    drive(ctx, "access", hdr, cases, access_desc, timeout=2400)
    ctx.cov["exhaustive"] = True
    ctx.assumptions += ["credential classes are symbolic; one concrete representative per class",
                        "gray (either verdict accepted): lower-case / doubly spaced Bearer scheme, iat in the future, "
                        "auth service answers other than 2xx/401/403 or unreachable",
                        "RSA/EC key bits come from the system CSPRNG (verdicts do not depend on them)",
                        "secure-link 'uri' and 'remote_addr' nodes are driven as in the module's documentation "
                        "(RequestURI without the signature arguments)"]


# ----------------------------------------------------------------------------- C54

def compress_defs(maxitems, codings, qs, forms, absent, rules, ces, cls, kinds, bodies, flushes, quals):
    return {"MAXITEMS": maxitems, "CODINGS": tla_set(codings), "QS": tla_set(qs), "FORMS": tla_set(forms),
            "ABSENT": "TRUE" if absent else "FALSE", "RULES": tla_set(rules), "CES": tla_set(ces),
            "CLS": tla_bools(cls), "KINDS": tla_set(kinds), "BODIES": tla_set(bodies),
            "FLUSHES": tla_ints(flushes), "QUALITIES": tla_set(quals)}


def compress_desc(c):
    return c["in"]


def check_c54(ctx):
    q = ctx.tier == "quick"
    ctx.cov["rule"] = ("inputs = Accept-Encoding (list of codings with weights and optional-whitespace forms, or absent) x "
                       "rule action x backend Content-Encoding x Content-Length x response kind x body size class x "
                       "FlushSize x quality; TLC enumerates them, checks the mechanism model against Layer P (compress only "
                       "with the rule's coding, only if accepted per RFC 7231 5.3.4, never an encoded body) and prints the "
                       "cases; the harness runs mod_compress' response filter on real responses whose body arrives in "
                       "seeded chunk sizes, reads the result with seeded buffer sizes and decodes it with compress/gzip / "
                       "andybalholm/brotli. distinct = distinct inputs.")
    allr = ["noprod", "nocond", "gzip", "brotli"]
    allce = ["", "identity", "gzip", "br", "deflate"]
    if q:
        decide = compress_defs(2, ["gzip", "br", "identity", "*", "x-gzip", "GZIP"], ["", "0", "0.5"], ["t", "s"], True,
                               allr, allce, [True], ["GET200"], ["small"], [512], ["lo"])
        shape = compress_defs(1, ["gzip", "br"], [""], ["t"], True, ["gzip", "brotli"], ["", "identity"],
                              [True, False], ["GET200", "HEAD200", "204", "304"],
                              ["empty", "one", "small", "flush", "flush+1", "multi", "large", "random"],
                              [64, 4096], ["lo", "hi"])
    else:
        decide = compress_defs(2, ["gzip", "br", "identity", "*", "deflate", "x-gzip", "GZIP"],
                               ["", "0", "0.0", "0.5", "1"], ["t", "s", "a"], True,
                               allr, allce, [True], ["GET200"], ["small"], [512], ["lo"])
        shape = compress_defs(1, ["gzip", "br", "*"], ["", "0"], ["t", "s"], True, allr, ["", "identity", "gzip"],
                              [True, False], ["GET200", "HEAD200", "204", "304"],
                              ["empty", "one", "small", "flush-1", "flush", "flush+1", "multi", "large", "random"],
                              [64, 100, 512, 4096], ["lo", "hi"])
    for name, d in (("decide", decide), ("shape", shape)):
        ctx.cov["constants"]["Compress_" + name] = d
        hdr, cases = tlc_cases(ctx, "GenCompress", "GenMC_Compress.cfg", d, timeout=2400, label=name)
        drive(ctx, "compress", [], cases, compress_desc, timeout=2400)
    ctx.cov["exhaustive"] = True
    ctx.assumptions += ["compressing is optional: not compressing an acceptable response is never a violation",
                        "Vary: Accept-Encoding is not demanded by the statement and not checked",
                        "write chunkings and read sizes are seeded samples, not enumerated"]


PROPS = {"C50": check_c50, "C51": check_c51, "C54": check_c54}
SUB = {"C50": "static", "C51": "access", "C54": "compress"}


def replay(ctx, pid, rep):
    box = rep["case"]
    desc = {"C50": static_desc, "C51": access_desc, "C54": compress_desc}[pid]
    drive(ctx, rep.get("cmd") or SUB[pid], box.get("hdr") or [], [dict(box["case"])], desc)
    rc = ctx.finish()
    print("replay: %s" % ("violation reproduced" if rc == 1 else "no violation on the current tree"))
    return rc
