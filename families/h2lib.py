"""h2lib family: library-level HTTP/2 properties of bfe_http2 and bfe_http2/hpack.

  C30  specs/H2/Hpack.tla (+GenHpack, TraceHpack)       <-> hpack.Encoder + hpack.Decoder
  C31  specs/H2/HpackDecode.tla (+GenHpackDecode)       <-> hpack.Decoder.Write/Close
  C32  specs/H2/Frame.tla (+GenFrame)                   <-> bfe_http2.Framer
  C36  specs/H2/Priority.tla (+GenPriority)             <-> adjustStreamPriority / processPriority

Verdicts come only from what the real code did (harness/cmd/h2lib); the expectations come from
the TLC-printed cases.  Mechanism-only differences are MODEL-DRIFT.
"""
import json
import random
from concurrent.futures import ThreadPoolExecutor

from lib import vlib

SPEC = "H2"


def _gen(ctx, module, cfg, defines, mode="mc", num=0, depth=0, timeout=900, count=False, label=""):
    r = ctx.tlc(SPEC, module, cfg, mode=mode, sim_num=num, sim_depth=depth, defines=defines,
                timeout=timeout, count=count)
    if not r.ok:
        raise vlib.MachineryError("%s %s (%s) failed: %s %s" %
                                  (module, cfg, label, r.error or r.violation, r.out[-800:]))
    if not r.cases:
        raise vlib.MachineryError("%s %s (%s) produced no cases" % (module, cfg, label))
    return r


def _par(*thunks):
    """Run independent TLC / harness invocations side by side (each has its own scratch dir)."""
    with ThreadPoolExecutor(max_workers=len(thunks)) as ex:
        futs = [ex.submit(t) for t in thunks]
        return [f.result() for f in futs]


def _run(ctx, sub, cases, timeout=900):
    for i, c in enumerate(cases):
        c["id"] = i + 1
    res = ctx.harness("h2lib", [sub], cases=cases, timeout=timeout)
    crash = [r for r in res if "_harness_exit" in r]
    bad = [r for r in res if "_bad_case" in r]
    out = [r for r in res if "id" in r]
    if crash or bad or len(out) != len(cases):
        odd = [r for r in res if "id" not in r][:2]
        raise vlib.MachineryError("h2lib %s: %d results for %d cases; crash=%s bad=%s other=%s" %
                                  (sub, len(out), len(cases), crash[:1], bad[:1], str(odd)[:600]))
    return out


def _strip(case):
    c = dict(case)
    c.pop("id", None)
    return c


def _judge(ctx, sub, cases, res, drift_label):
    """Common post-processing: !ok -> report (violation or known finding); drift -> MODEL-DRIFT."""
    by_id = {c["id"]: c for c in cases}
    nd = 0
    ex = []
    for r in res:
        if not r.get("ok", False):
            ctx.report(r.get("sig", "unknown"), (r.get("detail") or "")[:1500],
                       case={"sub": sub, "case": _strip(by_id[r["id"]])}, harness="h2lib", cmd=sub)
        elif r.get("drift"):
            nd += 1
            if len(ex) < 2:
                ex.append(r["drift"][:300])
    if nd:
        ctx.drift("action=%s %d case(s) differ from the mechanism model, e.g. %s" % (drift_label, nd, ex))


# ---------------------------------------------------------------------------- C36

def _prio_random(ctx, num, n, length, stream=0):
    """Seeded operation sequences beyond the model's bounds (more stream objects, longer runs).
    Expectation: none for the exact map (post omitted -> property only)."""
    rnd = random.Random(ctx.seed * 104729 + stream)
    out = []
    for _ in range(num):
        nxt = 1
        opened = []
        ops = []
        while len(ops) < length:
            x = rnd.random()
            if x < 0.25 and nxt <= n:
                hp = rnd.random() < 0.7
                ops.append({"k": "open", "s": nxt, "hp": hp, "dep": rnd.randint(0, n) if hp else 0,
                            "excl": hp and rnd.random() < 0.5, "w": rnd.randint(0, 255)})
                opened.append(nxt)
                nxt += 1
            elif x < 0.35 and opened:
                s = rnd.choice(opened)
                ops.append({"k": "close", "s": s, "hp": False, "dep": 0, "excl": False})
            else:
                ops.append({"k": "prio", "s": rnd.randint(1, n), "hp": True, "dep": rnd.randint(0, n),
                            "excl": rnd.random() < 0.5, "w": rnd.randint(0, 255)})
        out.append({"ops": ops})
    return out


def _prio_model(n, ops):
    """Reference run of Priority.tla's Adjust in python, only to attach the Layer-M expectation to
    the seeded long runs (diagnostic; the verdict is acyclicity/termination observed on the code)."""
    st = ["idle"] * (n + 1)
    par = [0] * (n + 1)

    def onwalk(frm, x):
        k = 0
        while frm != 0 and k <= n + 1:
            if frm == x:
                return True
            frm = par[frm]
            k += 1
        return False

    def adjust(s, dep, excl):
        if st[s] != "open":
            return
        p = dep if dep != 0 and st[dep] == "open" else 0
        if p == s:
            return
        if onwalk(p, s):
            par[p] = par[s]
        par[s] = p
        if excl and (p != 0 or dep == 0):
            for t in range(1, n + 1):
                if t != s and st[t] == "open" and par[t] == p:
                    par[t] = s

    steps = []
    for op in ops:
        if op["k"] == "open":
            st[op["s"]] = "open"
            if op["hp"]:
                adjust(op["s"], op["dep"], op["excl"])
        elif op["k"] == "prio":
            adjust(op["s"], op["dep"], op["excl"])
        else:
            st[op["s"]] = "closed"
        steps.append({"op": op, "post": {"st": st[1:], "par": par[1:]}, "acyclic": True})
    return steps


def _wire_prio(ctx, wire):
    for i, c in enumerate(wire):
        c["id"] = i + 1
    res = ctx.harness("h2conn", ["prio"], cases=wire, timeout=1500)
    out = [r for r in res if "id" in r]
    mach = [r for r in res if "_harness_exit" in r or "_bad_case" in r or r.get("machinery")]
    if mach or len(out) != len(wire):
        raise vlib.MachineryError("h2conn prio: %d results for %d cases; %s" % (len(out), len(wire), str(mach[:2])[:600]))
    if not any(r.get("steps", 0) > 0 for r in out):
        raise vlib.MachineryError("h2conn prio: no operation was executed on the wire")
    by_id = {c["id"]: c for c in wire}
    for r in out:
        if not r.get("ok", False):
            ctx.report(r.get("sig", "unknown"), (r.get("detail") or "")[:1500],
                       case={"sub": "wire-prio", "case": _strip(by_id[r["id"]])}, harness="h2conn", cmd="prio")


def check_c36(ctx):
    q = ctx.tier == "quick"
    ctx.cov["rule"] = ("one TLC run checks Acyclic on every reachable state of Priority.tla (N stream objects, all "
                       "Open/PRIORITY/Close operations with every dependency incl. self, idle, closed, exclusive; the histories are also sent as real HEADERS/PRIORITY/RST_STREAM frames to a real serverConn whose parent pointers are read on the serve loop after each frame) and "
                       "prints every transition; each transition is replayed on real *stream objects through the real "
                       "adjustStreamPriority/processPriority (pre-state built from the printed snapshot) and compared: "
                       "acyclic + returns = property, equal parent map = mechanism.  Plus TLC-simulated and seeded long "
                       "sequences from the initial state.  distinct = distinct (pre-state, op) pairs / sequences.")
    n = 4
    d = {"N": n, "OPS": 0, "SEQ": "FALSE"}
    ctx.cov["constants"]["Priority_GenMC"] = d
    r = _gen(ctx, "GenPriority", "Priority_GenMC.cfg", d, timeout=1500, count=True, label="transitions")
    cases = r.cases
    if not q:
        d5 = {"N": 5}
        ctx.cov["constants"]["Priority_MC"] = d5
        ctx.tlc_must_pass(SPEC, "Priority", "Priority_MC.cfg", defines=d5, timeout=2400)
    ctx.cov["exhaustive"] = True
    # histories from the initial state (simulation) with more stream objects
    for nn, num, depth in ((5, 200, 14),) if q else ((5, 3000, 16), (6, 3000, 20)):
        ds = {"N": nn, "OPS": depth, "SEQ": "TRUE"}
        ctx.cov["constants"]["Priority_Gen_sim_N%d" % nn] = ds
        rs = _gen(ctx, "GenPriority", "Priority_Gen.cfg", ds, mode="sim", num=num, depth=depth + 3,
                  label="sim N=%d" % nn)
        cases += rs.cases
    for c in _prio_random(ctx, 100 if q else 2000, 9, 60 if q else 120):
        cases.append({"ops": _prio_model(9, c["ops"])})
    res = _run(ctx, "prio-run", cases)
    _judge(ctx, "prio-run", cases, res, "priority")
    # the same histories as real frames on a real serverConn (processHeaders / processPriority / closeStream
    # as the serve loop runs them): HEADERS carrying priority fields, PRIORITY, RST_STREAM
    hist = [{"ops": c["ops"]} for c in cases if "ops" in c]
    wire = hist[:150] if q else hist[:1500]
    _wire_prio(ctx, wire)
    ctx.cov["constants"]["wire_histories"] = len(wire)
    for c in cases:
        if "pre" in c:
            ctx.count([c["pre"], c["op"]], nontrivial=c["pre"] != c["post"] or c["op"]["k"] == "prio")
        else:
            ctx.count([s["op"] for s in c["ops"]])
    ctx.traces(len(cases))
    ctx.sample({"transition": {k: cases[len(cases) // 3][k] for k in ("pre", "op", "post") if k in cases[len(cases) // 3]}})


# ---------------------------------------------------------------------------- C30

HP_SETS = {
    "mc_quick": {"NAMES": '{":method", "cookie", "x-a"}', "VALUES": '{"GET", "v", "ww"}',
                 "MAXVALS": "{0, 37, 80, 4096}", "LIMITS": "{40, 100, 4096}", "STEPS": 4, "LONG": "{}"},
    "mc_thorough": {"NAMES": '{":method", "cookie", "x-a"}', "VALUES": '{"GET", "v", "ww"}',
                    "MAXVALS": "{0, 37, 80, 4096}", "LIMITS": "{40, 100, 4096}", "STEPS": 6, "LONG": "{}"},
    "gen_small": {"NAMES": '{":method", "x-a"}', "VALUES": '{"GET", "v"}',
                  "MAXVALS": "{0, 37, 4096}", "LIMITS": "{40, 4096}", "STEPS": 3, "LONG": "{}"},
    "gen_sim": {"NAMES": '{":method", "cookie", "x-a", "x-bb"}', "VALUES": '{"GET", "", "v", "ww", "xyz"}',
                "MAXVALS": "{0, 37, 40, 80, 120, 4096, 8192}", "LIMITS": "{40, 100, 4096}", "STEPS": 14, "LONG": "{}"},
    # integer-coding boundaries (RFC 7541 5.1): for prefix width N the values 2^N-2, 2^N-1, 2^N-1+127, +128, +129,
    # +16383, +16384 as table sizes (N = 5) and string lengths (N = 7); the larger limit lets them reach the wire
    "gen_bound": {"NAMES": '{":method", "x-a"}', "VALUES": '{"GET", "v"}',
                  "MAXVALS": "{30, 31, 158, 159, 160, 16414, 16415, 4096}", "LIMITS": "{4096, 65536}", "STEPS": 10,
                  "LONG": "{126, 127, 254, 255, 256}"},
}


def _hpack_trace(ctx, events, label):
    """Validate recorded events with TraceHpack; returns the list of bad records."""
    trace = "".join(json.dumps(e, separators=(",", ":")) + "\n" for e in events)
    r = ctx.tlc(SPEC, "TraceHpack", "Hpack_Trace.cfg", mode="trace", timeout=1500,
                extra_files={"trace.ndjson": trace}, count=False)
    rep = [c for c in r.cases if c.get("done")]
    if not r.ok or not rep or rep[0]["consumed"] != len(events):
        raise vlib.MachineryError("TraceHpack did not complete (%s): %s %s" %
                                  (label, r.error or r.violation, r.out[-800:]))
    return rep[0]["bad"]


def _hpack_record(ctx, lines, label):
    res = ctx.harness("h2lib", ["hpack-record"], cases=lines, timeout=900)
    crash = [r for r in res if "_harness_exit" in r or "_bad_case" in r]
    events = [r for r in res if "ev" in r]
    if crash or not events:
        raise vlib.MachineryError("hpack-record died (%s): %s" % (label, crash[:1]))
    return events


def _hpack_report_bad(ctx, events, bad):
    """Map every rejected recorded run back to a replayable script (the ops up to the failing event)."""
    by_cid = {}
    for i, e in enumerate(events):
        by_cid.setdefault(e["cid"], []).append((i + 1, e))
    for b in bad:
        evs = by_cid[b["cid"]]
        script = []
        fe = None
        for pos, e in evs:
            if e["ev"] != "start":
                script.append({"op": e["ev"], "f": e["f"], "arg": e["arg"]})
            if pos == b["l"]:
                fe = e
                break
        kind = "sensitive" if fe and fe["f"]["s"] else "plain"
        pending = bool(fe and any(r["k"] == "upd" for r in fe.get("reps", [])))
        sig = "%s/%s/pending=%s" % (b["why"], kind, pending)
        det = "recorded run %d, event %d: %s" % (b["cid"], b["l"], json.dumps(fe)[:1200])
        ctx.report(sig, det, case={"sub": "hpack-record", "case": {"script": script}}, harness="h2lib",
                   cmd="hpack-record")


def check_c30(ctx):
    q = ctx.tier == "quick"
    ctx.cov["rule"] = ("TLC checks Hpack.tla (encoder mechanism + RFC 7541 decoder) exhaustively for RoundTrip, "
                       "NoDecodeError, InSync, Enc/DecBounds, UpdatesAtStart, MinSignalled; GenHpack behaviours "
                       "(exhaustive small alphabet, simulated longer ones; canonical strings and seeded octet strings "
                       "of the same lengths) are replayed through the real hpack.Encoder -> hpack.Decoder and "
                       "golang.org/x/net's decoder, Layer P evaluated on every field (decoded field, wire shape, "
                       "size-update placement and 4.2 signalling, table bounds, encoder table = newest part of decoder "
                       "table), Layer M = predicted representations and tables; long seeded runs recorded from the "
                       "real pair are validated by TLC (TraceHpack) stepping the RFC decoder over the observed wire. "
                       "distinct = distinct operation sequences.")
    mcd = HP_SETS["mc_quick" if q else "mc_thorough"]
    ctx.cov["constants"]["Hpack_MC"] = mcd
    cases = []
    g1 = HP_SETS["gen_small"]
    ctx.cov["constants"]["Hpack_Gen_exhaustive"] = g1
    g2 = HP_SETS["gen_sim"]
    ctx.cov["constants"]["Hpack_Gen_sim"] = g2
    g3 = HP_SETS["gen_bound"]
    ctx.cov["constants"]["Hpack_Gen_boundaries"] = g3
    ctx.build("h2lib")
    ctx.cov["checker_cmd"] = "cd specs/H2 && tlc -workers %d -config Hpack_MC.cfg -noGenerateSpecTE Hpack.tla" % vlib.NCPU
    _, base, sim, bnd, events = _par(
        lambda: ctx.tlc_must_pass(SPEC, "Hpack", "Hpack_MC.cfg", defines=mcd, timeout=3000),
        lambda: _gen(ctx, "GenHpack", "Hpack_Gen.cfg", g1, timeout=1500, label="exhaustive").cases,
        lambda: _gen(ctx, "GenHpack", "Hpack_Gen.cfg", g2, mode="sim", num=400 if q else 4000, depth=40,
                     label="sim").cases,
        lambda: _gen(ctx, "GenHpack", "Hpack_Gen.cfg", g3, mode="sim", num=150 if q else 1500, depth=30,
                     label="boundaries").cases,
        lambda: _hpack_record(ctx, [{"cases": 12 if q else 100, "ops": 150 if q else 400, "boundary": True,
                                     "full": not q}], "record"))
    for alt in range(0, 2 if q else 4):
        for c in base + sim + bnd:
            cases.append({"ops": c["ops"], "alt": alt})
    res = _run(ctx, "hpack-run", cases)
    _judge(ctx, "hpack-run", cases, res, "encode")
    for c in cases:
        ctx.count([[o["op"], o["f"], o["arg"]] for o in c["ops"]] + [c["alt"]],
                  nontrivial=any(o["op"] == "field" for o in c["ops"]))
    ctx.traces(len(cases))
    ctx.sample({"replayed": [{k: o[k] for k in ("op", "f", "arg", "reps")} for o in sim[0]["ops"][:6]]})
    # code -> spec: long seeded runs of the real pair
    bad = _hpack_trace(ctx, events, "record")
    _hpack_report_bad(ctx, events, bad)
    runs = len({e["cid"] for e in events})
    ctx.traces(runs)
    ctx.cov["constants"]["recorded"] = {"runs": runs, "events": len(events)}
    fe = [e for e in events if e["ev"] == "field"]
    ctx.sample({"recorded_event": {k: fe[len(fe) // 2].get(k) for k in ("f", "reps", "wire", "emax", "dmax")}})
    for cid in {e["cid"] for e in events}:
        ctx.count(["recorded", ctx.seed, cid])


# ---------------------------------------------------------------------------- C31

GO_VENDORED_TABLES = "src/vendor/golang.org/x/net/http2/hpack/tables.go"
HUFF_SYMS = [("a", 97), ("b", 98), ("j", 106), ("&", 38), ("!", 33), ("$", 36), ("X", 2), ("Y", 10)]


def huff_table_text():
    """specs/H2/HuffTable.tla derived from the Go distribution's vendored copy of RFC 7541 Appendix B
    (independent of bfe_http2/hpack/tables.go).  Refuses to produce a table that disagrees with the
    RFC-known anchors."""
    import re
    import subprocess
    goroot = subprocess.run(["go", "env", "GOROOT"], stdout=subprocess.PIPE, text=True,
                            env=vlib._env()).stdout.strip()
    src = open("%s/%s" % (goroot, GO_VENDORED_TABLES)).read()

    def arr(name):
        m = re.search(name + r" = \[256\]\w+\{(.*?)\n\}", src, re.S)
        return [int(x, 0) for x in re.findall(r"0x[0-9a-f]+|\d+", m.group(1))]
    codes, lens = arr("huffmanCodes"), arr("huffmanCodeLen")
    anchors = {48: (0x0, 5), 97: (0x3, 5), 38: (0xf8, 8), 10: (0x3ffffffc, 30), 0: (0x1ff8, 13), 255: (0x3ffffee, 26)}
    if len(codes) != 256 or len(lens) != 256 or any((codes[k], lens[k]) != v for k, v in anchors.items()):
        raise vlib.MachineryError("vendored Huffman table disagrees with RFC 7541 Appendix B anchors")
    # prefix-freeness of the full table (a transcription slip would show here)
    full = sorted(format(codes[i], "0%db" % lens[i]) for i in range(256)) + ["1" * 30]
    full.sort()
    for x, y in zip(full, full[1:]):
        if y.startswith(x):
            raise vlib.MachineryError("vendored Huffman table is not prefix free")
    rows = []
    for ch, o in HUFF_SYMS:
        bits = format(codes[o], "0%db" % lens[o])
        rows.append('  [ch |-> "%s", oct |-> %d, code |-> <<%s>>]' % (ch, o, ", ".join(bits)))
    rows.append('  [ch |-> "#", oct |-> 256, code |-> <<%s>>]' % ", ".join("1" * 30))
    return ("--------------------------- MODULE HuffTable ---------------------------\n"
            "(* Sub-table of the RFC 7541 Appendix B Huffman code: symbols with code lengths 5, 6, 7, 8,  *)\n"
            "(* 10, 13, 28, 30 and EOS (last row, 30 one-bits).  GENERATED by families/h2lib.py from the  *)\n"
            "(* Go distribution's vendored golang.org/x/net/http2/hpack/tables.go (an independent copy;   *)\n"
            "(* the generator checks RFC anchors and prefix-freeness) and re-checked on every run.        *)\n"
            "(* ch: the character standing for the symbol in the spec's strings; oct: the octet.          *)\n"
            "HuffSyms == <<\n" + ",\n".join(rows) + " >>\n"
            "=========================================================================\n")


def check_huff_table():
    want = huff_table_text()
    have = open(vlib.SPECS + "/H2/HuffTable.tla").read()
    if want != have:
        raise vlib.MachineryError("specs/H2/HuffTable.tla differs from the table derived from the Go "
                                  "distribution's vendored hpack/tables.go")


def check_c31(ctx):
    q = ctx.tier == "quick"
    check_huff_table()
    d = {"TIER": ctx.tier, "HUFFLEN": 2 if q else 3}
    ctx.cov["constants"]["HpackDecode_GenMC"] = d
    ctx.cov["rule"] = ("one TLC run enumerates header blocks structurally (1-2 representations out of a menu of "
                       "indexed / literal x3 / size-update items with canonical, non-minimal, 9- and 10-continuation "
                       "integers, raw and Huffman strings with every padding class and EOS; cut short by 1-3 octets or "
                       "with an over-announced string; all Huffman strings up to HuffLen symbols over a 9-symbol "
                       "sub-table), serialises them to octets, computes the RFC 7541 verdict and checks that the "
                       "octet-level incremental decoder model agrees at every split point; every block is replayed "
                       "through hpack.Decoder.Write/Write/Close at every split point under recover: error iff the "
                       "RFC says so (either where the RFC leaves it open), fields equal, split-independent. "
                       "distinct = distinct blocks.")
    r = _gen(ctx, "GenHpackDecode", "HpackDecode_GenMC.cfg", d, timeout=2400, count=True, label="blocks")
    cases = r.cases
    ctx.cov["exhaustive"] = True
    res = _run(ctx, "hpackdec-run", cases, timeout=1500)
    _judge(ctx, "hpackdec-run", cases, res, "decode")
    kinds = {}
    xd = 0
    xex = []
    for c, rr in zip(cases, res):
        ctx.count([c["bytes"]], nontrivial=len(c["bytes"]) > 0)
        kinds[c["kind"]] = kinds.get(c["kind"], 0) + 1
        o = rr.get("obs") or {}
        if "xnet" in o:
            xd += 1
            if len(xex) < 3:
                xex.append({"bytes": c["bytes"], "why": c["why"], "kind": c["kind"], "xnet": o["xnet"][:300]})
    ctx.traces(sum(len(c["bytes"]) + 1 for c in cases))
    ctx.cov["constants"]["blocks"] = kinds
    ctx.notes.append({"witness_x_net_hpack_disagreements": xd, "examples": xex})
    errs = [c for c in cases if c["kind"] == "err"]
    oks = [c for c in cases if c["kind"] == "ok" and c["fields"]]
    ctx.sample({"must_fail": {k: errs[len(errs) // 2][k] for k in ("bytes", "why", "desc")}})
    ctx.sample({"must_decode": {k: oks[len(oks) // 2][k] for k in ("bytes", "fields", "desc")}})


# ---------------------------------------------------------------------------- C32

FRAME_CTX_QUICK = ["none", "hdr1", "hdr1e"]
FRAME_CTX_ALL = ["none", "hdr1", "hdr1es", "hdr1c", "hdr1e", "hdrE", "pp1", "ppE"]


def check_c32(ctx):
    q = ctx.tier == "quick"
    names = FRAME_CTX_QUICK if q else FRAME_CTX_ALL
    d = {"CTX": "{%s}" % ",".join('"%s"' % n for n in names)}
    ctx.cov["constants"]["Frame_GenMC"] = {"UseCtx": names, "MAXR": 16384}
    ctx.cov["rule"] = ("one TLC run enumerates every frame shape (type x flag set x stream class x reserved bit x length "
                       "class x Pad Length x SETTINGS value class x increment class) in every CONTINUATION context, "
                       "checks that the mechanism verdict lies in the RFC 7540 verdict set (plus layout and "
                       "flags-ignored sanity) and prints the case; each case is laid out as octets (canonical "
                       "representative + seeded alternatives: stream ids up to 2^31-1, random payload, unknown type "
                       "octets), read with Framer.ReadFrame (error class/code in the allowed set, all fields equal, "
                       "reader state probed with a following PING) and, when the Write methods can express it, written "
                       "with Framer.Write* and read back.  distinct = distinct non-gray (context, shape, alternative).")
    r = _gen(ctx, "GenFrame", "Frame_GenMC.cfg", d, timeout=1500, count=True, label="shapes")
    base = r.cases
    cases = []
    for alt in range(0, 2 if q else 4):
        for c in base:
            cc = dict(c)
            cc["alt"] = alt
            cases.append(cc)
    ctx.cov["exhaustive"] = True
    res = _run(ctx, "frame-run", cases, timeout=1500)
    _judge(ctx, "frame-run", cases, res, "read-frame")
    xd = {}
    apis = {}
    for c, rr in zip(cases, res):
        ctx.count([c["cname"], c["sh"], c["alt"]], nontrivial=not c["gray"])
        o = rr.get("obs") or {}
        if "xnet" in o:
            k = "%s bfe=%s x/net=%s" % (c["sh"]["t"], o.get("got"), o["xnet"])
            xd[k] = xd.get(k, 0) + 1
        if "api" in o:
            apis[o["api"]] = apis.get(o["api"], 0) + 1
    ctx.traces(len(cases))
    ctx.notes.append({"witness_x_net_http2_disagreements (type bfe x/net: cases)": xd,
                      "write_api_round_trips": apis})
    if len(apis) < 12:
        raise vlib.MachineryError("write-API round trips covered only %s" % sorted(apis))
    ok = [c for c in cases if not c["gray"] and c["allowed"] == [["ok", ""]]]
    bad = [c for c in cases if not c["gray"] and c["allowed"] != [["ok", ""]]]
    ctx.sample({"accepted": {k: ok[len(ok) // 2][k] for k in ("cname", "sh", "off", "dlen", "nexp")}})
    ctx.sample({"rejected": {k: bad[len(bad) // 2][k] for k in ("cname", "sh", "allowed", "m")}})
    ctx.cov["constants"]["cases"] = {"accepted": len(ok), "rejected": len(bad), "gray": len(cases) - len(ok) - len(bad)}


# ---------------------------------------------------------------------------- registry

PROPS = {"C30": check_c30, "C31": check_c31, "C36": check_c36, "C32": check_c32}

SUBS = {"prio-run"}


def replay(ctx, pid, rep):
    case = rep["case"]
    sub = case["sub"]
    c = dict(case["case"])
    if sub == "hpack-record":
        events = _hpack_record(ctx, [{"id": 1, "script": c["script"]}], "replay")
        _hpack_report_bad(ctx, events, _hpack_trace(ctx, events, "replay"))
        rc = ctx.finish()
        print("replay: %s" % ("violation reproduced" if rc == 1 else "no violation on the current tree"))
        return rc
    if sub == "wire-prio":
        _wire_prio(ctx, [c])
    else:
        res = _run(ctx, sub, [c])
        _judge(ctx, sub, [c], res, "replay")
    rc = ctx.finish()
    print("replay: %s" % ("violation reproduced" if rc == 1 else "no violation on the current tree"))
    return rc
