"""http1 family: specs/Http1/{Chunked,EnumChunked,StructChunked,TraceChunked,Parse,GenParse}.tla
<-> bfe_http (chunked.go, transfer.go, request.go) and bfe_net/textproto.

C23  1. TLC checks, for every enumerated class string and every structured body, that the mechanism
        model of chunked.go (Layer M) answers only what the RFC 7230 grammar automaton (Layer P) allows.
     2. TLC prints every string with its Layer-P verdict; cmd/http1 chunked renders the classes into
        bytes (canonical + seeded alternatives), feeds the real chunkedReader (raw and through
        ReadRequest/Body with trailer and a pipelined next request; buffer sizes, delivery splits, read
        sizes) and applies Layer P's Allowed relation to what the code did.
     3. cmd/http1 chunkenc runs TLC-chosen write patterns through the real chunkedWriter; the wire is
        abstracted to class items and validated by TLC (TraceChunked: strictly in the grammar, payload
        ranges = the writes) and decoded again by the real reader (round trip).
C24  1. TLC checks that the mechanism model of ReadMIMEHeaderAndKeys/fixTransferEncoding/fixLength
        (Layer M) is allowed by the RFC 7230 3.3.3 decision (Layer P) for all messages <= MaxLines lines.
     2. TLC prints pairs of pipelined messages with class (must-reject / frame / gray) and framing;
        cmd/http1 parse runs ReadRequest twice on one bfe_bufio.Reader and compares accept/reject,
        body bytes, and the offset at which the next request starts.
Verdicts come only from what the real code did; model-vs-code differences inside Layer P are MODEL-DRIFT.
"""
import json
import os
import time

from lib import vlib

SPEC = "Http1"

# TLC computes initial states on the JVM's main thread, whose stack size the java launcher fixes before
# JAVA_TOOL_OPTIONS (-Xss64m, set by vlib) is read; JDK_JAVA_OPTIONS is read by the launcher itself.
os.environ.setdefault("JDK_JAVA_OPTIONS", "-Xss64m")

# ----------------------------------------------------------------------------- C23
_CH = {"0": ("H", 0, 0), "1": ("H", 1, 0), "2": ("H", 2, 0), "a": ("H", 10, 1), "A": ("H", 10, 2),
       ";": ("SEMI", 0, 0), "_": ("WS", 0, 0), "r": ("CR", 0, 0), "n": ("LF", 0, 0),
       "x": ("TOK", 0, 0), "y": ("OTH", 0, 0)}


def _items_of(s):
    return [{"c": _CH[ch][0], "v": _CH[ch][1], "u": _CH[ch][2], "k": 1} for ch in s]


def _gen(ctx, module, cfg, defines, timeout=900, count=False):
    """One TLC run that both checks Conform (Layer M allowed by Layer P) in every state and prints
    every state as a case.  A Conform counterexample is a machinery failure (spec alone)."""
    r = ctx.tlc(SPEC, module, cfg, defines=defines, timeout=timeout, count=count)
    if not r.ok:
        raise vlib.MachineryError("%s %s failed: %s %s" % (module, cfg, r.error or r.violation, r.out[-500:]))
    if not r.cases:
        raise vlib.MachineryError("%s %s printed no cases" % (module, cfg))
    return r.cases


def _run_harness(ctx, sub, cases, timeout=1500):
    res = ctx.harness("http1", [sub], cases=cases, timeout=timeout)
    crash = [r for r in res if "_harness_exit" in r or "_bad_case" in r]
    summ = [r for r in res if r.get("summary")]
    if crash or not summ:
        raise vlib.MachineryError("http1 %s harness died: %s" % (sub, (crash or res[-1:])))
    if summ[0]["cases"] != len(cases):
        raise vlib.MachineryError("http1 %s consumed %d of %d cases" % (sub, summ[0]["cases"], len(cases)))
    return [r for r in res if not r.get("summary")], summ[0]


def chunked_cases(ctx, cases, reps, label):
    """Replay decoder cases; report failures."""
    for i, c in enumerate(cases):
        c["id"] = i + 1
        c.setdefault("reps", reps)
        c.setdefault("tr", "none")
        c.setdefault("trv", "accept")
    slim = [{k: c[k] for k in ("id", "items", "p", "m", "tr", "trv", "reps", "raw", "cfg", "path") if k in c}
            for c in cases]
    out, summ = _run_harness(ctx, "chunked", slim)
    by_id = {c["id"]: c for c in cases}
    drift = [r for r in out if r.get("drift")]
    if summ.get("drift"):
        ctx.drift("action=chunkedReader %d answers differ from the mechanism model, e.g. %s" %
                  (summ["drift"], [d["drift"] + " input=" + d["raw"][:80] for d in drift[:2]]))
    for r in out:
        if r.get("ok") or "sig" not in r:
            continue
        c = by_id[r["id"]]
        case = {"kind": "chunked", "items": c["items"], "p": c["p"], "m": c["m"], "tr": c["tr"], "trv": c["trv"],
                "raw": r["raw"], "cfg": r["cfg"], "path": r["path"], "reps": 0}
        ctx.report(r["sig"], ("%s; input (hex) %s cfg %s; Layer P: %s" %
                              (r["detail"], r["raw"][:400], r["cfg"], json.dumps(c["p"])))[:1500],
                   case=case, harness="http1", cmd="chunked")
    for c in cases:
        ctx.count([c["items"], c["tr"]], nontrivial=True)
    ctx.traces(summ["evals"])
    for c in cases[:1] + cases[len(cases) // 2:len(cases) // 2 + 1]:
        ctx.sample({"input": c.get("s") or c.get("shape"), "layerP": c["p"], "trailer": c["tr"]})
    return summ


def encoder_cases(ctx, pats, label):
    """Trace validation of the real chunkedWriter's output against Layer P."""
    for i, c in enumerate(pats):
        c["id"] = i + 1
    out, summ = _run_harness(ctx, "chunkenc", pats)
    wires = {r["id"]: r for r in out if "wire" in r}
    if len(wires) != len(pats):
        raise vlib.MachineryError("chunkenc returned %d wires for %d patterns" % (len(wires), len(pats)))
    by_id = {c["id"]: c for c in pats}
    trace = "".join(json.dumps({"id": i, "items": w["wire"], "writes": [x for x in by_id[i]["writes"] if x > 0],
                                "fail": w.get("fail", "")}, separators=(",", ":")) + "\n"
                    for i, w in sorted(wires.items()))
    r = ctx.tlc(SPEC, "TraceChunked", "Trace_Chunked.cfg", mode="trace", timeout=900,
                extra_files={"trace.ndjson": trace}, count=False)
    verdicts = {c["id"]: c for c in r.cases if "why" in c}
    if not r.ok or len(verdicts) != len(wires):
        raise vlib.MachineryError("encoder trace validation did not complete (%d of %d): %s %s" %
                                  (len(verdicts), len(wires), r.error or r.violation, r.out[-600:]))
    ctx.traces(len(wires))
    for i, v in sorted(verdicts.items()):
        c, w = by_id[i], wires[i]
        why = v["why"]
        if why == "ok":
            wire = bytes.fromhex(w["hex"])
            got = b"".join(wire[s:s + n] for s, n in v["segs"])
            if got != bytes.fromhex(w["data"]):
                why = "decoded-content"
        if why != "ok":
            shape = "zero-write" if 0 in c["writes"] else ("empty" if not c["writes"] else "writes")
            ctx.report("encoder/%s/%s" % (why, shape),
                       "writes %s produced wire (hex) %s: %s" % (c["writes"][:20], w["hex"][:300], why),
                       case={"kind": "chunkenc", "writes": c["writes"]}, harness="http1", cmd="chunkenc")
        ctx.count(["enc", c["writes"]], nontrivial=bool(c["writes"]))
    ctx.sample({"writes": pats[len(pats) // 2]["writes"], "wire_items": wires[pats[len(pats) // 2]["id"]]["wire"][:12]})


def check_c23(ctx):
    q = ctx.tier == "quick"
    ctx.cov["rule"] = ("cases = (a) every class string over {0,1,2,a,A,';',SP/HTAB,CR,LF,token byte,other byte} of "
                       "length <= N that is a completable live prefix of the RFC 7230 4.1 grammar extended by one "
                       "arbitrary symbol (+T more after leaving the grammar), (b) structured bodies (size forms incl. "
                       "16/17 digits and 2^64 wrap, chunk-ext forms, line endings, data endings, last-chunk forms, "
                       "trailers), all printed by TLC with the Layer-P verdict; each is rendered to bytes (canonical + "
                       "seeded alternatives) and decoded by the real chunkedReader raw and via ReadRequest/Body under "
                       "several buffer/split/read sizes; (c) write patterns through the real chunkedWriter, wire "
                       "validated by TLC and round-tripped. distinct = distinct (class string, trailer) inputs.")
    ed = {"N": 9, "T": 2, "F": 2, "ND": 3} if q else {"N": 11, "T": 1, "F": 2, "ND": 3}
    sd = {"K": 2, "PAIRS": "FALSE"} if q else {"K": 2, "PAIRS": "TRUE"}
    ctx.cov["constants"]["EnumChunked"] = ed
    ctx.cov["constants"]["StructChunked"] = sd
    t0 = time.time()
    def lap(what):
        ctx.notes.append("%s %.1fs" % (what, time.time() - t0))
    enum = _gen(ctx, "EnumChunked", "Gen_Chunked.cfg", ed, timeout=1500, count=True)
    for c in enum:
        c["items"] = _items_of(c["s"])
    st = _gen(ctx, "StructChunked", "Gen_Struct.cfg", sd, timeout=1500, count=True)
    lap("gen")
    chunked_cases(ctx, enum, 2, "enum")
    lap("replay-enum")
    chunked_cases(ctx, st, 2 if q else 4, "struct")
    lap("replay-struct")
    pats = _gen(ctx, "GenEnc", "Gen_Enc.cfg", {"W": 3 if q else 4})
    encoder_cases(ctx, pats, "enc")
    lap("encoder")
    ctx.cov["exhaustive"] = True
    ctx.assumptions += [
        "chunk-size lines shorter than the reader's buffer and than maxLineLength (4096)",
        "gray (no accept/reject verdict, only payload-prefix, panic, hang): whitespace or extra CR after the chunk "
        "size, bare LF ending a size line, more than 16 size digits that are all leading zeros, malformed chunk-ext "
        "content, bare-LF trailer end",
        "raw chunkedReader: a clean io.EOF when the stream ends inside chunk data is tolerated (every caller wraps "
        "it in body, which then fails reading the trailer); decisive on the ReadRequest/Body path",
    ]


# ----------------------------------------------------------------------------- C24
_PKEYS = ("id", "rl", "hs", "tail", "p", "o", "m", "rl2", "hs2", "tail2", "p2", "o2", "m2", "reps",
          "raw", "h1", "h2", "split")


def parse_cases(ctx, cases, label, reps=1):
    seen = set()
    uniq = []
    for c in cases:
        k = json.dumps([c["rl"], c["hs"], c["tail"], c["rl2"], c["hs2"], c.get("raw")])
        if k not in seen:
            seen.add(k)
            uniq.append(c)
    cases = uniq
    for i, c in enumerate(cases):
        c["id"] = i + 1
        c.setdefault("reps", reps)
    out, summ = _run_harness(ctx, "parse", [{k: c[k] for k in _PKEYS if k in c} for c in cases])
    by_id = {c["id"]: c for c in cases}
    if summ.get("drift"):
        ctx.drift("action=ReadRequest %d answers differ from the mechanism model, e.g. %s" %
                  (summ["drift"], [r["drift"] for r in out if r.get("drift")][:2]))
    if summ.get("witness_disagree"):
        ctx.notes.append("diagnostic: Go net/http.ReadRequest (library level, no server-side header-name check) "
                         "differs from Layer P on %s" % json.dumps(summ["witness_disagree"], sort_keys=True))
    for r in out:
        if r.get("ok") or "sig" not in r:
            continue
        c = by_id[r["id"]]
        case = {k: c[k] for k in _PKEYS if k in c and k not in ("id", "reps")}
        case.update({"kind": "parse", "raw": r["raw"], "h1": r["h1"], "h2": r["h2"], "split": r["split"], "reps": 0})
        ctx.report(r["sig"], ("message %d: %s; stream %r; Layer P %s" %
                              (r["msg"], r["detail"], bytes.fromhex(r["raw"])[:300], json.dumps(c["p"] if r["msg"] == 1 else c["p2"])))[:1500],
                   case=case, harness="http1", cmd="parse")
    for c in cases:
        ctx.count([c["rl"], c["hs"], c["tail"], c["rl2"], c["hs2"]], nontrivial=True)
    ctx.traces(summ["evals"])
    for c in cases[len(cases) // 3:len(cases) // 3 + 1] + cases[-1:]:
        ctx.sample({"msg1": [c["rl"]] + c["hs"], "tail": c["tail"], "layerP": c["p"], "outcome": c["o"],
                    "msg2": [c["rl2"]] + c["hs2"]})
    return summ


def check_c24(ctx):
    q = ctx.tier == "quick"
    ctx.cov["rule"] = ("cases = pairs of pipelined messages printed by TLC (GenParse): request-line variant x list of "
                       "header-line variants (26-variant alphabet; request line = method x version, 14 variants) x tail (no bytes / A bytes / B bytes / chunked body) x "
                       "second message; exhaustive up to the stated number of header lines, -simulate beyond; each with "
                       "Layer P's class (reject / accept / ifacc / gray), RFC 7230 3.3.3 framing, body length and the "
                       "offset of the next request. cmd/http1 parse renders them (canonical + seeded spellings, delivery "
                       "splits), runs bfe_http.ReadRequest on one bfe_bufio.Reader, reads the body to EOF, compares "
                       "accept/reject, body bytes and next-request offset, then parses the second message. "
                       "distinct = distinct (message 1, tail, message 2).")
    # every Gen run checks Conform (Layer M allowed by Layer P) in every state it prints, so the exhaustive Gen
    # run is the MC run of the quick tier; thorough adds a deeper Conform-only run.
    tails = '{"none", "a", "b", "ch"}'
    allhv = ('{"F", "WSC", "WSCL", "WSTE", "BADN", "CLa", "CLb", "CLplus", "CLbad", "CLlist", "CLempty", "TEc", "TEg", '
             '"TEgc", "TEcg", "TEi", "TEci", "TEic", "TEcc", "TEx", "OBS", "EMPTYN", "NOCOLON", "FLF", "CLaLF", "FCR"}')
    # after a request line whose method is varied (HEAD, PUT, DELETE, OPTIONS, CONNECT, PATCH, TRACE) the quick
    # tier uses the framing-relevant core of the alphabet; thorough uses all of it up to 2 lines
    corehv = '{"F", "CLa", "CLb", "TEc", "TEg", "WSCL", "CLbad", "TEci"}'
    cases = []
    g1 = {"LINES": 2, "GLINES": 1, "TAILS": tails, "M2S": "{2, 3}" if q else "{2, 3, 6}",
          "MHVS": corehv if q else allhv}
    ctx.cov["constants"]["Gen_Parse_exhaustive"] = dict(g1, A=30, B=35, CHLEN=41)
    cases += _gen(ctx, "GenParse", "Gen_Parse.cfg", g1, timeout=1500, count=True)
    if not q:
        mcd = {"LINES": 3, "GLINES": 2, "MHVS": corehv}
        ctx.cov["constants"]["MC_Parse"] = mcd
        ctx.tlc_must_pass(SPEC, "GenParse", "MC_Parse.cfg", defines=mcd, timeout=2400)
        g2 = {"LINES": 3, "GLINES": 1, "TAILS": tails, "M2S": "{1}", "MHVS": corehv}
        ctx.cov["constants"]["Gen_Parse_exhaustive3"] = g2
        cases += _gen(ctx, "GenParse", "Gen_Parse.cfg", g2, timeout=2400)
    g3 = {"LINES": 4, "GLINES": 2, "TAILS": tails, "M2S": "{1, 2, 3, 4, 5, 6, 7}", "MHVS": allhv}
    ctx.cov["constants"]["Gen_Parse_simulate"] = g3
    r = ctx.tlc(SPEC, "GenParse", "Gen_Parse.cfg", mode="sim", sim_num=250 if q else 2500, sim_depth=5,
                defines=g3, timeout=1500, count=False)
    if not r.ok or not r.cases:
        raise vlib.MachineryError("GenParse -simulate failed: %s %s" % (r.error or r.violation, r.out[-500:]))
    cases += r.cases
    parse_cases(ctx, cases, "C24", reps=2 if q else 4)
    ctx.cov["exhaustive"] = True
    ctx.assumptions += [
        "reject class = what every RFC 7230 parser must refuse: whitespace before the colon, non-token field-name "
        "byte, differing or non-numeric Content-Length (no Transfer-Encoding), Transfer-Encoding whose final coding "
        "is not chunked; gray (no accept/reject verdict, only panic/hang and self-consistency of the announced "
        "length): leading empty line, bare-LF request line, missing version, obs-fold on framing fields or first "
        "line, empty field name, line without colon, signed / list / empty Content-Length, TE on HTTP/1.0, "
        "chunked twice, identity alone",
        "every request line carries a Host field; the method is varied (GET, POST, HEAD, PUT, DELETE, OPTIONS, CONNECT, PATCH, TRACE: for a request it never implies an absent body), request targets are not (C25)",
        "Go's net/http.ReadRequest is run on the same bytes as an independent witness (diagnostic, see notes)",
    ]


# ----------------------------------------------------------------------------- replay
def replay(ctx, pid, rep):
    case = dict(rep["case"])
    kind = case.pop("kind", "chunked")
    if kind == "chunked":
        chunked_cases(ctx, [case], 0, "replay")
    elif kind == "chunkenc":
        encoder_cases(ctx, [case], "replay")
    else:
        parse_cases(ctx, [case], "replay")
    rc = ctx.finish()
    print("replay: %s" % ("violation reproduced" if rc == 1 else "no violation on the current tree"))
    return rc


PROPS = {"C23": check_c23, "C24": check_c24}
