"""tlsrec family: specs/Tls/{Padding,Record,Msg}*.tla  <->  bfe_tls (conn.go, cipher_suites.go,
handshake_messages.go, ticket.go).

C43  Padding.tla      removePadding / removePaddingSSL30: TLC-enumerated payload shapes replayed on the
                      real functions + a sweep of all (length <= 300, p) pairs validated by TracePadding.
C42  Record.tla       record-level man-in-the-middle between a standard TLS peer and the real bfe_tls
                      connection; TLC enumerates the tamperings and the expected delivered prefix.
C45  Msg.tla          handshake message codec: TLC enumerates shapes (type x presence x cut/perturbation),
                      the harness concretises and runs the real marshal/unmarshal under recover.
Verdicts come only from what the real code returned / delivered.
"""
import json
import random

from lib import vlib

BIG_LENS = "15,16,17,31,32,33,48,64,127,128,254,255,256,257,258,272,299,300"
VCS = '"x01","x80","xff"'


def _need(res, what):
    crash = [r for r in res if "_harness_exit" in r]
    summ = [r for r in res if r.get("summary")]
    if crash or not summ:
        raise vlib.MachineryError("tlsrec harness (%s) died: %s" % (what, (crash or res[-1:])))
    return summ[0]


# ---------------------------------------------------------------------------------------- C43
def pad_replay(ctx, cases, label):
    if not cases:
        raise vlib.MachineryError("no padding cases generated (%s)" % label)
    for i, c in enumerate(cases):
        c["id"] = i + 1
    res = ctx.harness("tlsrec", ["padding-replay"], cases=cases, timeout=3000)
    summ = _need(res, "padding-replay")
    if summ["cases"] != len(cases):
        raise vlib.MachineryError("padding-replay consumed %d of %d cases" % (summ["cases"], len(cases)))
    rows = [r for r in res if "id" in r]
    answered = {r["id"] for r in rows}
    if len(answered) != len(cases):
        raise vlib.MachineryError("padding-replay answered %d of %d cases" % (len(answered), len(cases)))
    drift = [r for r in rows if r.get("drift")]
    if drift:
        ctx.drift("action=Remove %d answers differ from the mechanism model, e.g. %s" %
                  (len(drift), drift[0]["drift"]))
    nbad = 0
    for r in rows:
        if not r["ok"]:
            nbad += 1
            ctx.report(r["sig"], r.get("detail", ""), case={"kind": "padding", "case": r.get("case")},
                       harness="tlsrec", cmd="padding-replay")
    for c in cases:
        ctx.count([c["len"], c["p"], c["bad"], c["vc"]], nontrivial=c["len"] > 0)
    for c in cases[:1] + cases[len(cases) // 2:len(cases) // 2 + 1]:
        ctx.sample({"case": {k: c[k] for k in ("len", "p", "bad", "vc", "expP")},
                    "observed": [r.get("obs") for r in rows if r["id"] == c["id"]][:1]})
    return nbad


def pad_sweep(ctx, maxlen):
    res = ctx.harness("tlsrec", ["padding-sweep", str(maxlen)], timeout=3000)
    summ = _need(res, "padding-sweep")
    events = [r for r in res if "rows" in r]
    if len(events) != 2 * (maxlen + 1):
        raise vlib.MachineryError("padding-sweep produced %d trace lines" % len(events))
    trace = "".join(json.dumps(e, separators=(",", ":")) + "\n" for e in events)
    r = ctx.tlc("Tls", "TracePadding", "Trace_Padding.cfg", mode="trace", timeout=3000,
                extra_files={"trace.ndjson": trace}, count=False, heap="4g")
    rep = [c for c in r.cases if c.get("done")]
    if not r.ok or not rep or rep[0]["consumed"] != len(events):
        raise vlib.MachineryError("TracePadding did not complete: %s %s" % (r.error or r.violation, r.out[-600:]))
    ctx.traces(len(events))
    ctx.cov["evaluations"] += summ["calls"]
    ctx.cov["distinct_nontrivial"] += summ["calls"]
    ctx.cov["constants"]["sweep"] = {"max_len": maxlen, "p": "0..255", "calls": summ["calls"]}
    for b in rep[0]["bad"]:
        n, p, pos, fill = b["len"], b["p"], b["b"], b["fill"]
        bad = ([pos] if pos else []) + ([i for i in range(1, n - p) if i != pos] if fill else [])
        sig = "%s/%s/p:%s/bad:%s" % (b["v"], b["why"], _pclass(n, p),
                                     "any" if b["v"] == "ssl30" else _bclass(n, p, bad))
        det = "%s len=%d p=%d corrupted position=%d fill=%d -> removed=%d good-code=%d (%s)" % (
            b["v"], n, p, pos, fill, b["rm"], b["g"], b["why"])
        ctx.report(sig, det, case={"kind": "padding", "case": {
            "len": n, "p": p, "bad": sorted(bad), "vc": "x01",
            "expP": {"valid": _valid(n, p, bad), "valid30": n >= 1 and p + 1 <= n}, "expM": None}},
            harness="tlsrec", cmd="padding-replay")
    return len(rep[0]["bad"])


def _valid(n, p, bad):
    return n >= 1 and p + 1 <= n and not any(n - p <= b <= n - 1 for b in bad)


def _pclass(n, p):
    if n == 0:
        return "empty"
    if p == 255:
        return "255"
    if p + 1 == n:
        return "whole"
    if p + 1 > n:
        return "over"
    if p == 0:
        return "zero"
    if p == 254:
        return "254"
    return "inner"


def _bclass(n, p, bad):
    lo = max(1, n - p)
    inw = [b for b in bad if lo <= b <= n - 1]
    if not inw:
        return "none"
    if len(inw) == 1:
        return "first" if inw[0] == lo else ("last" if inw[0] == n - 1 else "middle")
    return "several"


def pad_record(ctx, cases, label):
    """C43 through the record layer: forged CBC records (correct MAC, chosen padding bytes) per version."""
    if not cases:
        raise vlib.MachineryError("no record-layer padding cases (%s)" % label)
    for i, c in enumerate(cases):
        c["id"] = i + 1
        c.setdefault("rseed", ctx.seed * 1000003 + i + 1)
    res = ctx.harness("tlsrec", ["padding-record"], cases=cases, timeout=3000)
    summ = _need(res, "padding-record")
    rows = {r["id"]: r for r in res if "id" in r}
    mach = [r for r in rows.values() if "machinery" in r]
    if mach:
        raise vlib.MachineryError("padding-record could not drive %d cases, e.g. %s" % (len(mach), mach[0]["machinery"]))
    if summ["cases"] != len(cases) or len(rows) != len(cases):
        raise vlib.MachineryError("padding-record answered %d of %d cases" % (len(rows), len(cases)))
    drift = [r for r in rows.values() if r.get("drift")]
    if drift:
        ctx.drift("action=Decrypt %d answers differ from the mechanism model, e.g. %s" % (len(drift), drift[0]["drift"]))
    for c in cases:
        r = rows[c["id"]]
        ctx.count(["rec", c["ver"], c["suite"], c["p"], c["bad"]])
        if not r["ok"]:
            rc = dict(c)
            rc.pop("id", None)
            ctx.report(r["sig"], r.get("detail", ""), case={"kind": "padrec", "case": rc},
                       harness="tlsrec", cmd="padding-record")
    ctx.traces(len(cases))
    c = cases[len(cases) // 2]
    ctx.sample({"record_layer_case": {k: c[k] for k in ("ver", "suite", "p", "bad", "expP")},
                "observed": rows[c["id"]].get("obs")})


REC_P = "0,1,2,7,8,15,16,17,31,100,254,255"


def check_c43(ctx):
    q = ctx.tier == "quick"
    gd = {"SMALL": 9 if q else 12, "BIG": BIG_LENS, "VC": VCS}
    ctx.cov["constants"]["Gen_Padding"] = gd
    if not q:
        mcd = {"SMALL": 12, "BIG": BIG_LENS}
        ctx.cov["constants"]["MC_Padding"] = mcd
        ctx.tlc_must_pass("Tls", "Padding", "MC_Padding.cfg", defines=mcd, timeout=3000, coverage=False)
    # GenPadding checks MechOK (mechanism model satisfies the statement) on every element it prints
    r = ctx.tlc_must_pass("Tls", "GenPadding", "Gen_Padding.cfg", defines=gd, timeout=3000, count=q)
    ctx.cov["rule"] = ("cases = every element of Padding!Space (complete: all lengths <= MaxSmall x every p in "
                       "0..len+1,254,255 x every subset of positions differing from p; structured: boundary p and "
                       "one corrupted byte at first/middle/last padding byte for lengths up to 300) x value class, "
                       "each run through the real removePadding and removePaddingSSL30 and compared with the "
                       "Layer-P verdict printed by TLC; plus all (length <= 300, p in 0..255) pairs called on the "
                       "real functions and validated by TracePadding.tla; plus, through the record layer, forged CBC "
                       "records with a correct MAC and chosen padding bytes (PaddingRec: version x p x corruption "
                       "class x CBC suite) fed to the real receiving Conn. distinct = distinct (len,p,bad,vc) / "
                       "(version,suite,p,class).")
    ctx.cov["exhaustive"] = True
    pad_replay(ctx, r.cases, "C43")
    pad_sweep(ctx, 300)
    rd = {"RECP": REC_P}
    ctx.cov["constants"]["Gen_PaddingRec"] = {"RecP": REC_P, "Versions": "ssl30,tls10,tls11,tls12"}
    rr = ctx.tlc_must_pass("Tls", "GenPaddingRec", "Gen_PaddingRec.cfg", defines=rd, timeout=3000)
    rcases = []
    for su in (["002f", "000a", "e019"] if q else ["002f", "000a", "e019", "0035", "c013", "c014", "c012"]):
        for c in rr.cases:
            cc = dict(c)
            cc["suite"] = su
            rcases.append(cc)
    pad_record(ctx, rcases, "C43")
    ctx.assumptions.append("bytes are abstracted to 'equals p / differs from p'; the differing value is x01/x80/xff "
                           "(replay) or seeded random (sweep)")
    ctx.assumptions.append("constant-time execution of removePadding is not checked")
    ctx.assumptions.append("record-layer cases: the forging sender is a bfe_tls sending half keyed by the package's own "
                           "key schedule (overlay export); SSL 3.0 paddings of 8 bytes or more are gray")


# ---------------------------------------------------------------------------------------- C42
REGIONS = '"type", "vmaj", "vmin", "lenhi", "lenlo", "lenover", "first", "mid", "macstart", "pad", "last"'

# peer / version / suite.  peer "go": Go's crypto/tls client (the standard peer); peer "bfe": bfe_tls's own
# client, for what crypto/tls cannot speak (SSL 3.0, SM4-SM3) and as the receiver in the s2c direction.
GO_MAIN = ["go/tls12/c02f", "go/tls12/cca8", "go/tls12/c013", "go/tls11/c013", "go/tls10/c013",
           "go/tls12/000a", "go/tls10/000a", "go/tls12/0005", "go/tls10/c011", "go/tls12/002f"]
GO_MORE = ["go/tls11/002f", "go/tls10/002f", "go/tls12/0035", "go/tls10/0035", "go/tls12/c014", "go/tls11/c014",
           "go/tls11/000a", "go/tls12/c012", "go/tls11/c012", "go/tls10/c012", "go/tls11/0005", "go/tls10/0005",
           "go/tls12/c011", "go/tls11/c011", "go/tls12/c02b", "go/tls12/cca9", "go/tls12/c009", "go/tls10/c009",
           "go/tls12/c00a", "go/tls11/c00a", "go/tls12/c007", "go/tls10/c007", "go/tls10/c014", "go/tls11/c013"]
BFE_MAIN = ["bfe/tls12/e019", "bfe/tls10/e019"]
# SSL 3.0: no standard peer available (crypto/tls dropped it, bfe_tls's client refuses it): both ends are
# bfe_tls record layers keyed by the package's own key schedule, no handshake (no "hsfinished" injection)
RAW_MAIN = ["raw/ssl30/002f", "raw/ssl30/0005", "raw/ssl30/000a"]
RAW_MORE = ["raw/ssl30/0035", "raw/ssl30/c013", "raw/ssl30/c011", "raw/ssl30/e019", "raw/tls10/002f", "raw/tls12/c02f"]
BFE_MORE = ["bfe/tls11/e019", "bfe/tls12/c02f",
            "bfe/tls12/cca8", "bfe/tls12/c013", "bfe/tls10/c013", "bfe/tls12/0005"]


CBC_SUITES = {"002f", "0035", "000a", "c009", "c00a", "c012", "c013", "c014", "e019"}


def pad_auth(combo):
    """Record.tla PadAuth: FALSE exactly for SSL 3.0 with a block cipher (padding outside the MAC)."""
    f = combo.split("/")
    return not (f[1] == "ssl30" and f[2] in CBC_SUITES)


def rec_gen(ctx, n, k):
    d = {"N": n, "K": k, "PADAUTH": "TRUE"}
    r = ctx.tlc("Tls", "GenRecord", "Gen_Record.cfg", defines=d, timeout=1500, count=False)
    if not r.ok:
        raise vlib.MachineryError("GenRecord failed: %s %s" % (r.error or r.violation, r.out[-500:]))
    # different action orders produce the same wire: one case per distinct wire
    seen, out = set(), []
    for c in r.cases:
        key = json.dumps(c["wire"], sort_keys=True)
        if key not in seen:
            seen.add(key)
            out.append(c)
    return out


def rec_run(ctx, cases, label):
    if not cases:
        raise vlib.MachineryError("no record cases (%s)" % label)
    for i, c in enumerate(cases):
        c["id"] = i + 1
        c.setdefault("rseed", ctx.seed * 1000003 + i + 1)
    res = ctx.harness("tlsrec", ["record-run"], cases=cases, timeout=3000,
                      env={"GODEBUG": "tlsrsakex=1,tls3des=1,tls10server=1,tlsmaxrsasize=8192"})
    summ = _need(res, "record-run")
    rows = {r["id"]: r for r in res if "id" in r}
    if summ["cases"] != len(cases) or len(rows) != len(cases):
        raise vlib.MachineryError("record-run answered %d of %d cases" % (len(rows), len(cases)))
    mach = [r for r in rows.values() if "machinery" in r]
    if mach:
        raise vlib.MachineryError("record-run could not drive %d cases, e.g. %s" % (len(mach), mach[0]["machinery"]))
    drift = [r for r in rows.values() if r.get("drift")]
    if drift:
        ctx.drift("action=Recv %d observations differ from the mechanism model, e.g. %s" %
                  (len(drift), drift[0]["drift"]))
    nbad = 0
    for c in cases:
        r = rows[c["id"]]
        ctx.count([c["combo"], c["wire"]], nontrivial=c["wire"] != [] )
        if not r["ok"]:
            nbad += 1
            rc = dict(c)
            rc.pop("id", None)
            ctx.report(r["sig"], r.get("detail", ""), case={"kind": "record", "case": rc},
                       harness="tlsrec", cmd="record-run")
    ctx.traces(len(cases))
    for c in cases[1:2] + cases[len(cases) // 2:len(cases) // 2 + 1]:
        ctx.sample({"combo": c["combo"], "wire": c["wire"], "expP": c["expP"], "observed": rows[c["id"]].get("obs")})
    return nbad


def check_c42(ctx):
    q = ctx.tier == "quick"
    mcd = {"N": 3 if q else 4, "K": 2, "PADAUTH": "TRUE"}
    ctx.cov["constants"]["MC_Record"] = dict(mcd, regions=REGIONS.replace('"', ""), PADAUTH="TRUE and FALSE")
    ctx.tlc_must_pass("Tls", "Record", "MC_Record.cfg", defines=mcd, timeout=3000, coverage=not q)
    # SSL 3.0 block ciphers: padding outside the MAC; the weaker Layer P must hold for that mechanism too
    ctx.tlc_must_pass("Tls", "Record", "MC_Record.cfg", defines=dict(mcd, PADAUTH="FALSE"), timeout=3000)
    rnd = random.Random(ctx.seed * 104729 + 42)
    allw = rec_gen(ctx, 3 if q else 4, 2)
    singles = [c for c in allw if len(c["acts"]) <= 1]
    pairs = [c for c in allw if len(c["acts"]) == 2]
    ctx.cov["constants"]["Gen_Record"] = {"singles": "N=%d,K<=1 (%d wires)" % (3 if q else 4, len(singles)),
                                          "pairs": "N=%d,K=2 (%d wires)" % (3 if q else 4, len(pairs))}
    cases = []

    def add(combo, d, pool, num):
        pick = pool if num is None or num >= len(pool) else rnd.sample(pool, num)
        for c in pick:
            if combo.startswith("raw/") and any(w["inj"] == "hsfinished" for w in c["wire"]):
                continue
            cc = dict(c)
            cc["combo"] = combo + "/" + d
            cc["padauth"] = pad_auth(combo)
            cases.append(cc)

    if q:
        for cb in GO_MAIN + BFE_MAIN + RAW_MAIN:
            add(cb, "c2s", singles, None)
            add(cb, "c2s", pairs, 60)
        for cb in ["raw/ssl30/002f", "bfe/tls12/c02f", "bfe/tls10/c013", "bfe/tls11/0005", "go/tls12/c02f", "go/tls10/c013"]:
            add(cb, "s2c", singles, 40)
    else:
        for cb in GO_MAIN + BFE_MAIN + RAW_MAIN + GO_MORE + BFE_MORE + RAW_MORE:
            add(cb, "c2s", singles, None)
        for cb in GO_MAIN + BFE_MAIN + RAW_MAIN:
            add(cb, "c2s", pairs, 1500)
        for cb in GO_MORE + BFE_MORE + RAW_MORE:
            add(cb, "c2s", pairs, 150)
        for cb in GO_MAIN + BFE_MAIN + BFE_MORE + RAW_MAIN:
            add(cb, "s2c", singles, None)
            add(cb, "s2c", pairs, 100)
    ctx.cov["rule"] = ("cases = wires enumerated by TLC from GenRecord (every single adversary action on 3 (quick) / 4 records; "
                       "every / a seeded sample of the distinct wires reachable with 2 actions) x (peer, version, "
                       "cipher suite, direction); each is played by a record-level man-in-the-middle on net.Pipe "
                       "between the peer and the real bfe_tls connection after an untouched handshake; judged: bytes "
                       "delivered by Conn.Read -- which is called 3 more times after its first error -- are a prefix of the "
                       "sent stream, nothing comes out after the error and the error stays, nothing at or behind the first "
                       "non-authentic record is delivered, the run ends in an error that is not a clean EOF when a "
                       "non-authentic record reached the receiver. distinct = distinct (combo, wire).")
    ctx.cov["exhaustive"] = False
    ctx.cov["constants"]["combos"] = {"c2s": len({c["combo"] for c in cases if c["combo"].endswith("c2s")}),
                                      "s2c": len({c["combo"] for c in cases if c["combo"].endswith("s2c")})}
    rec_run(ctx, cases, "C42")
    ctx.assumptions.append("MAC/AEAD unforgeability is assumed (spec), not tested; the adversary never holds keys")
    ctx.assumptions.append("loss of the tail of the stream (whole records or < 5 header bytes) ends in a clean EOF: "
                           "bfe_tls does not require close_notify (documented leniency, named in Record.tla)")
    ctx.assumptions.append("handshake records are passed through untouched (handshake tampering belongs to C41)")
    ctx.assumptions.append("SSL 3.0 with a block cipher: padding is not covered by the MAC (protocol design, POODLE class); "
                           "an edit confined to padding is accepted 1 time in 256 by any conforming receiver, so for these "
                           "combinations only 'delivered bytes are a prefix of what was sent' and 'the run ends in an error' "
                           "are decisive (Record.tla, PadAuth = FALSE)")


# ---------------------------------------------------------------------------------------- C45
def msg_run(ctx, shapes, label):
    if not shapes:
        raise vlib.MachineryError("no message shapes (%s)" % label)
    for i, c in enumerate(shapes):
        c["id"] = i + 1
    res = ctx.harness("tlsrec", ["msg-run"], cases=shapes, timeout=3000)
    summ = _need(res, "msg-run")
    mach = [r for r in res if "machinery" in r]
    if mach:
        raise vlib.MachineryError("msg-run: %d shapes could not be driven, e.g. %s" % (len(mach), mach[0]["machinery"][:800]))
    done = {r["id"] for r in res if r.get("shape")}
    if summ["shapes"] != len(shapes) or len(done) != len(shapes):
        raise vlib.MachineryError("msg-run answered %d of %d shapes" % (len(done), len(shapes)))
    if summ["evals"] == 0:
        raise vlib.MachineryError("msg-run evaluated nothing")
    nbad = 0
    for r in res:
        if "sig" in r and r.get("ok") is False:
            nbad += 1
            ctx.report(r["sig"], r.get("detail", "")[:1500], case={"kind": "msg", "case": r.get("case")},
                       harness="tlsrec", cmd="msg-run")
    ctx.cov["evaluations"] += summ["evals"]
    ctx.cov["distinct_nontrivial"] += summ["evals"]
    ctx.cov["constants"].setdefault("msg_run", {}).update(
        {"shapes": len(shapes), "evaluated": summ["evals"], "not_instantiable": summ["skipped"]})
    ctx.traces(len(shapes))
    for c in shapes[:1] + shapes[len(shapes) // 2:len(shapes) // 2 + 1]:
        ctx.sample({"type": c["t"], "presence": c["pres"], "nodes": [n["id"] for n in c["nodes"]],
                    "ops": len(c["ops"]), "example_op": c["ops"][len(c["ops"]) // 2] if c["ops"] else None})
    return nbad


def check_c45(ctx):
    q = ctx.tier == "quick"
    # quick: one TLC run (GenMsg enumerates the shapes and checks the sanity invariants of the rule for
    # every operation of each shape); thorough: additionally Msg.tla with one state per operation.
    if not q:
        mcd = {"MAXP": 2}
        ctx.cov["constants"]["MC_Msg"] = {"MaxPresence": 2}
        ctx.tlc_must_pass("Tls", "Msg", "MC_Msg.cfg", defines=mcd, timeout=3000, coverage=False, heap="6g")
    gd = {"MAXP": 2 if q else 9}
    ctx.cov["constants"]["Gen_Msg"] = {"MaxPresence": gd["MAXP"]}
    r = ctx.tlc_must_pass("Tls", "GenMsg", "Gen_Msg.cfg", defines=gd, timeout=3000, count=q, heap="6g")
    shapes = r.cases
    for c in shapes:
        c["ops"] = sorted(c["ops"], key=lambda o: (o["k"] != "rt", o["node"], o["w"], o["framed"]))
        c["pres"] = sorted(c["pres"])
        c["reps"] = 4 if q else 12
        c["rep0"] = 0
        c["fuzz"] = 60 if q else 400
    ctx.cov["rule"] = ("shapes = (message type x presence vector of optional fields) enumerated by TLC with the node "
                       "list in wire order and every operation (round trip; cut before / inside the tag / inside the "
                       "length / after the length / inside / one byte before the end of every node, framed and raw; "
                       "length or count +1, max, -1, 0 on every prefixed node; content of every prefixed node, remainder and of the "
                       "whole body sized to 250-254, 255, 256-261, 65530-65534, 65535, 65536-65541 bytes where the "
                       "enclosing lengths allow) and its verdict accept / reject / any; "
                       "each shape is filled with seeded contents (several variants), marshalled by the real code, "
                       "walked along the node list, and every operation is run through the real unmarshal under "
                       "recover on exact-capacity buffers, plus seeded random mutations (panic check only). "
                       "evaluations = unmarshal calls judged.")
    ctx.cov["exhaustive"] = not q
    msg_run(ctx, shapes, "C45")
    ctx.assumptions.append("poor fit for TLA+: TLC contributes the shape enumeration and the must-reject rule; "
                           "round-trip equality is judged on the real structs (field by field, the package's own "
                           "equal(), and re-marshalling)")
    ctx.assumptions.append("gray (panic-checked only): raw cuts (header not re-framed), cuts where the grammar lets the "
                           "message end (before the extension block, inside an unprefixed remainder), lowered lengths, "
                           "raised lengths that do not reach the end of the message, the handshake header's own length")
    ctx.assumptions.append("cipher-suite lists never contain 0x00ff (TLS_EMPTY_RENEGOTIATION_INFO_SCSV), which by RFC 5746 "
                           "is parsed as secureRenegotiation=true")


PROPS = {"C42": check_c42, "C43": check_c43, "C45": check_c45}


def replay(ctx, pid, rep):
    case = rep["case"]
    kind = case.get("kind")
    if kind == "padding":
        pad_replay(ctx, [dict(case["case"])], "replay")
    elif kind == "padrec":
        pad_record(ctx, [dict(case["case"])], "replay")
    elif kind == "record":
        rec_run(ctx, [dict(case["case"])], "replay")
    elif kind == "msg":
        msg_run(ctx, [dict(case["case"])], "replay")
    else:
        raise vlib.MachineryError("unknown replay kind %r" % kind)
    rc = ctx.finish()
    print("replay: %s" % ("violation reproduced" if rc == 1 else "no violation on the current tree"))
    return rc
