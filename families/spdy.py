"""Spdy family: specs/Spdy/{FrameDefs,Frame,GenFrame,Conn,GenConn}.tla  <->  bfe_spdy.

C39 (framing)    1. TLC: Frame.tla -- the parser model refines the draft's verdict over the whole
                    shape space (Refines, AllocOK, BoundaryOK).
                 2. TLC: GenFrame.tla enumerates (mc) / simulates (sim) cases: a prefix of written
                    header frames (compression state) + one final shape, each with its Layer-P verdict.
                 3. harness `spdy frames`: replay on a pair of real Framers, per item: frame/error,
                    field comparison, sentinel frame (boundary), allocation, panic, watchdog.
C40 (server)     1. TLC: Conn.tla -- server model vs wire-level obligations, exhaustive, small constants.
                 2. TLC: GenConn.tla enumerates / simulates scripts (client frames + handler steps)
                    with per-step expectation sets.
                 3. harness `spdy conn`: lock-step replay against the real server on net.Pipe.
Verdicts only from what the real code did; model-vs-code differences inside the allowed sets are
MODEL-DRIFT.
"""
import json
import os
import random

from lib import vlib

SPEC = "Spdy"


# ----------------------------------------------------------------------------- helpers
def _set(xs):
    return "{" + ",".join('"%s"' % x for x in xs) + "}"


def _alphabet():
    a = json.load(open(os.path.join(vlib.SPECS, SPEC, "alphabet.json")))
    a.pop("_comment", None)
    return a


def _crash_text(res):
    for r in res:
        if "_harness_exit" in r:
            return r
    return None


# ----------------------------------------------------------------------------- C39
ALL_BM = ["none", "cntmore", "cnt1025", "cnthuge", "namebig", "namemax", "valbig", "valmax",
          "truncname", "truncval", "trail", "notzlib"]


def frame_consts(tier):
    if tier == "quick":
        return {"RN1": _set(["lc", "uc", "empty", "na8", "forbid"]),
                "RN2": _set(["lc", "uc", "empty", "dup", "na8", "forbid"]),
                "RV1": _set(["v", "e", "m", "nul0"]), "RV2": _set(["v"]),
                "BMS": _set(ALL_BM),
                "WN1": _set(["lc", "uc", "na8", "naU", "naK", "bad8"]), "WN2": _set(["lc", "naK"]),
                "WV1": _set(["v", "e", "m", "long", "bin"]), "WV2": _set(["v", "m"])}
    return {"RN1": _set(["lc", "uc", "empty", "na8", "forbid"]),
            "RN2": _set(["lc", "uc", "empty", "dup", "na8", "forbid"]),
            "RV1": _set(["v", "e", "m", "nul0"]), "RV2": _set(["v", "m", "nul0"]),
            "BMS": _set(ALL_BM),
            "WN1": _set(["lc", "uc", "na8", "naU", "naK", "bad8"]),
            "WN2": _set(["lc", "uc", "na8", "naU", "naK", "bad8"]),
            "WV1": _set(["v", "e", "m", "long", "bin"]), "WV2": _set(["v", "m", "long"])}


SIM_CONSTS = {"RN1": _set(["lc", "uc", "empty"]), "RN2": _set(["lc", "dup"]),
              "RV1": _set(["v", "m"]), "RV2": _set(["v"]),
              "BMS": _set(["none", "cntmore", "namebig", "valmax", "truncval", "trail"]),
              "WN1": _set(["lc", "uc", "naK", "bad8"]), "WN2": _set(["naK"]),
              "WV1": _set(["v", "long"]), "WV2": _set(["m"]),
              "WARMK": _set(["syn", "reply", "headers"]), "WARMN": _set(["lc", "uc", "naK", "na8"]),
              "WARMV": _set(["v", "long", "m"])}


def _frame_sig_case(c):
    return {"seq": c["seq"], "var": c.get("var", 0)}


def run_frame_cases(ctx, cases, label=""):
    """Replay on the real framers; returns number of reported contradictions."""
    if not cases:
        raise vlib.MachineryError("no frame cases generated (%s)" % label)
    for i, c in enumerate(cases):
        c["id"] = i + 1
    head = json.dumps({"alphabet": _alphabet()}, separators=(",", ":")) + "\n"
    text = head + "".join(json.dumps(c, separators=(",", ":")) + "\n" for c in cases)
    res = ctx.harness("spdy", ["frames"], stdin_text=text, timeout=3000)
    crash = _crash_text(res)
    results = [r for r in res if "id" in r]
    if any("_fatal" in r for r in res):
        raise vlib.MachineryError("spdy frames: %s" % [r for r in res if "_fatal" in r][:1])
    nrep = 0
    if crash is not None:
        # the process died (fatal error / out of memory are not recoverable): find the case
        done = {r["id"] for r in results}
        cand = [c for c in cases if c["id"] not in done][:80]
        found = False
        for c in cand:
            one = ctx.harness("spdy", ["frames"], stdin_text=head + json.dumps(c) + "\n", timeout=300)
            cr = _crash_text(one)
            if cr is not None:
                found = True
                last = c["seq"][-1]["s"]
                ctx.report("crash/%s/%s/bm=%s" % (last["mode"], last["k"], last["bm"]),
                           "harness process died replaying this case: " + cr["_stderr"][-1200:],
                           case=_frame_sig_case(c), harness="spdy", cmd="frames")
                nrep += 1
                break
        if not found:
            raise vlib.MachineryError("spdy frames harness died and no single case reproduces it: %s"
                                      % crash["_stderr"][-1500:])
    summ = [r for r in res if r.get("summary")]
    if crash is None and (not summ or summ[0]["cases"] != len(cases)):
        raise vlib.MachineryError("spdy frames: %d results for %d cases" % (len(results), len(cases)))
    by_id = {c["id"]: c for c in cases}
    drift = {}
    for r in results:
        c = by_id[r["id"]]
        ctx.count(_frame_sig_case(c))
        if r.get("drift"):
            drift.setdefault(r["drift"].split(":")[0].rsplit(",v=", 1)[0], r["drift"])
        if not r["ok"]:
            if r.get("sig") == "machinery":
                raise vlib.MachineryError("spdy frames: %s" % r.get("detail"))
            nrep += 1
            ctx.report(r["sig"], "%s | items observed: %s" % (r.get("detail", "")[:1200], r.get("obs")),
                       case=_frame_sig_case(c), harness="spdy", cmd="frames")
    ctx.traces(len(results))
    if drift:
        ex = list(drift.values())[:3]
        ctx.drift("action=ReadFrame %d shape classes where the code's frame/error differs from the parser "
                  "model inside an open (gray) verdict, e.g. %s" % (len(drift), ex))
    if summ and summ[0].get("alloc_skipped"):
        ctx.notes.append("%d cases not replayed: their shape class had already shown an allocation above "
                         "the cap (violation reported for the class)" % summ[0]["alloc_skipped"])
    for c in cases[:2]:
        r = next((x for x in results if x["id"] == c["id"]), {})
        ctx.sample({"case": [dict(it["s"], p=it["p"]) for it in c["seq"]], "observed": r.get("obs")})
    return nrep


def gen_frames(ctx, defines, mode="mc", num=0, depth=0, timeout=1500):
    r = ctx.tlc(SPEC, "GenFrame", "Gen_Frame.cfg", mode=mode, sim_num=num, sim_depth=depth,
                defines=defines, timeout=timeout, count=False)
    if not r.ok:
        raise vlib.MachineryError("GenFrame failed: %s %s" % (r.error or r.violation, r.out[-500:]))
    return r.cases


def check_c39(ctx):
    q = ctx.tier == "quick"
    fc = frame_consts(ctx.tier)
    ctx.cov["constants"]["MC_Frame"] = fc
    ctx.tlc_must_pass(SPEC, "Frame", "MC_Frame.cfg", defines=fc, timeout=1500)
    rnd = random.Random(ctx.seed * 104729 + 39)
    warm = {"MAXWARM": 0 if q else 1, "WARMK": _set(["syn"]), "WARMN": _set(["lc", "naK"]),
            "WARMV": _set(["v", "long"])}
    g1 = dict(fc, **warm)
    ctx.cov["constants"]["Gen_Frame_exhaustive"] = g1
    cases = gen_frames(ctx, g1, timeout=2400)
    for c in cases:
        c["var"] = 0
    nmc = len(cases)
    if not q:
        # the same cases with seeded alternative representatives of every class
        for c in list(cases):
            if rnd.random() < 0.5:
                cases.append({"seq": c["seq"], "var": rnd.randint(1, 1 << 30)})
    g2 = dict(SIM_CONSTS, MAXWARM=5)
    ctx.cov["constants"]["Gen_Frame_simulate"] = g2
    sim = gen_frames(ctx, g2, mode="sim", num=150 if q else 3000, depth=9, timeout=2400)
    for c in sim:
        c["var"] = rnd.randint(1, 1 << 30)
    cases += sim
    ctx.cov["rule"] = ("cases = every shape of the abstract frame space (%d exhaustive cases: prefix of written header "
                       "frames x final shape) plus TLC-simulated longer prefixes (%d) on one zlib context; each is "
                       "replayed on a pair of real bfe_spdy.Framer objects; per item: frame-or-error against the "
                       "Layer-P verdict, field-by-field comparison, sentinel PING (frame boundary), allocation <= "
                       "64 x frame + 1 MiB, recover, watchdog. distinct = distinct (shape sequence, representative "
                       "variant)." % (nmc, len(sim)))
    ctx.cov["exhaustive"] = True
    ctx.assumptions.append("no independent SPDY/3.1 implementation is available offline: the spec is the only "
                           "reference; raw frames are compressed with the framer's own zlib writer and dictionary")
    ctx.assumptions.append("coverage is the enumerated shape space (alphabet.json), not all octet strings; "
                           "decompression ratios above 64:1 are not generated")
    run_frame_cases(ctx, cases, "C39")


# ----------------------------------------------------------------------------- C40
def check_c40(ctx):
    raise vlib.MachineryError("C40 not built yet")


PROPS = {"C39": check_c39, "C40": check_c40}


def replay(ctx, pid, rep):
    case = dict(rep["case"])
    if rep.get("cmd") == "frames":
        run_frame_cases(ctx, [case], "replay")
    else:
        run_conn_cases(ctx, [case], "replay")
    rc = ctx.finish()
    print("replay: %s" % ("violation reproduced" if rc == 1 else "no violation on the current tree"))
    return rc
