"""Spdy family: specs/Spdy/{FrameDefs,Frame,GenFrame,Conn,GenConn}.tla  <->  bfe_spdy.

C39 (framing)    1. TLC: Frame.tla -- the parser model refines the draft's verdict over the whole
                    shape space (Refines, AllocOK, BoundaryOK).
                 2. TLC: GenFrame.tla enumerates (mc) / simulates (sim) cases: a prefix of written
                    header frames (compression state) + one final shape, each with its Layer-P verdict.
                 3. harness `spdy frames`: replay on a pair of real Framers, per item: frame/error,
                    field comparison, sentinel frame (boundary), allocation, panic, watchdog.
C40 (server)     1. TLC: Conn.tla -- server model vs wire-level obligations, exhaustive, small constants.
                 2. TLC: GenConn.tla enumerates / simulates scripts (client frames + handler steps)
                    with per-step expectation sets.
                 3. harness `spdy conn`: lock-step replay against the real server on net.Pipe.
Verdicts only from what the real code did; model-vs-code differences inside the allowed sets are
MODEL-DRIFT.
"""
import json
import os
import random

from lib import vlib

SPEC = "Spdy"


# ----------------------------------------------------------------------------- helpers
def _set(xs):
    return "{" + ",".join('"%s"' % x for x in xs) + "}"


def _alphabet():
    a = json.load(open(os.path.join(vlib.SPECS, SPEC, "alphabet.json")))
    a.pop("_comment", None)
    return a


def _crash_text(res):
    for r in res:
        if "_harness_exit" in r:
            return r
    return None


def _chunks(xs, k):
    k = max(1, min(k, (len(xs) + 199) // 200))
    n = (len(xs) + k - 1) // k
    return [xs[i:i + n] for i in range(0, len(xs), n)]


def _par(ctx, sub, texts, timeout):
    """Run the harness once per stdin text, a few processes side by side (every process has its
    own allocation statistics / panic counters, so attribution stays per case)."""
    ctx.build("spdy")
    if len(texts) == 1:
        return [ctx.harness("spdy", [sub], stdin_text=texts[0], timeout=timeout)]
    from concurrent.futures import ThreadPoolExecutor
    with ThreadPoolExecutor(max_workers=len(texts)) as ex:
        return list(ex.map(lambda s: ctx.harness("spdy", [sub], stdin_text=s, timeout=timeout), texts))


NPROC = max(1, min(4, vlib.NCPU // 3))


# ----------------------------------------------------------------------------- C39
ALL_BM = ["none", "cntmore", "cnt1025", "cnthuge", "namebig", "namemax", "valbig", "valmax",
          "truncname", "truncval", "trail", "notzlib"]


def frame_consts(tier):
    if tier == "quick":
        return {"RN1": _set(["lc", "uc", "empty", "na8", "forbid"]),
                "RN2": _set(["lc", "uc", "empty", "dup", "na8", "forbid"]),
                "RV1": _set(["v", "e", "m", "nul0"]), "RV2": _set(["v"]),
                "BMS": _set(ALL_BM),
                "WN1": _set(["lc", "uc", "na8", "naU", "naK", "bad8"]), "WN2": _set(["lc", "naK"]),
                "WV1": _set(["v", "e", "m", "long", "bin"]), "WV2": _set(["v", "m"])}
    return {"RN1": _set(["lc", "uc", "empty", "na8", "forbid"]),
            "RN2": _set(["lc", "uc", "empty", "dup", "na8", "forbid"]),
            "RV1": _set(["v", "e", "m", "nul0"]), "RV2": _set(["v", "m", "nul0"]),
            "BMS": _set(ALL_BM),
            "WN1": _set(["lc", "uc", "na8", "naU", "naK", "bad8"]),
            "WN2": _set(["lc", "uc", "na8", "naU", "naK", "bad8"]),
            "WV1": _set(["v", "e", "m", "long", "bin"]), "WV2": _set(["v", "m", "long"])}


SIM_CONSTS = {"RN1": _set(["lc", "uc", "empty"]), "RN2": _set(["lc", "dup"]),
              "RV1": _set(["v", "m"]), "RV2": _set(["v"]),
              "BMS": _set(["none", "cntmore", "namebig", "valmax", "truncval", "trail"]),
              "WN1": _set(["lc", "uc", "naK", "bad8"]), "WN2": _set(["naK"]),
              "WV1": _set(["v", "long"]), "WV2": _set(["m"]),
              "WARMK": _set(["syn", "reply", "headers"]), "WARMN": _set(["lc", "uc", "naK", "na8"]),
              "WARMV": _set(["v", "long", "m"]), "REJK": _set(["syn", "reply", "headers"])}


def _frame_sig_case(c):
    return {"seq": c["seq"], "var": c.get("var", 0)}


def run_frame_cases(ctx, cases, label=""):
    """Replay on the real framers; returns number of reported contradictions."""
    if not cases:
        raise vlib.MachineryError("no frame cases generated (%s)" % label)
    for i, c in enumerate(cases):
        c["id"] = i + 1
    head = json.dumps({"alphabet": _alphabet()}, separators=(",", ":")) + "\n"
    parts = _chunks(cases, NPROC)
    outs = _par(ctx, "frames", [head + "".join(json.dumps(c, separators=(",", ":")) + "\n" for c in p)
                                for p in parts], 3000)
    results, nrep, skipped = [], 0, 0
    for part, res in zip(parts, outs):
        if any("_fatal" in r for r in res):
            raise vlib.MachineryError("spdy frames: %s" % [r for r in res if "_fatal" in r][:1])
        got = [r for r in res if "id" in r]
        results += got
        crash = _crash_text(res)
        summ = [r for r in res if r.get("summary")]
        if crash is None:
            if not summ or summ[0]["cases"] != len(part):
                raise vlib.MachineryError("spdy frames: %d results for %d cases" % (len(got), len(part)))
            skipped += summ[0].get("alloc_skipped", 0)
            continue
        # the process died (fatal error / out of memory are not recoverable): find the case
        done = {r["id"] for r in got}
        found = False
        for c in [c for c in part if c["id"] not in done][:80]:
            one = ctx.harness("spdy", ["frames"], stdin_text=head + json.dumps(c) + "\n", timeout=300)
            cr = _crash_text(one)
            if cr is not None:
                found = True
                last = c["seq"][-1]["s"]
                ctx.report("crash/%s/%s/bm=%s" % (last["mode"], last["k"], last["bm"]),
                           "harness process died replaying this case: " + cr["_stderr"][-1200:],
                           case=_frame_sig_case(c), harness="spdy", cmd="frames")
                nrep += 1
                break
        if not found:
            raise vlib.MachineryError("spdy frames harness died and no single case reproduces it: %s"
                                      % crash["_stderr"][-1500:])
    summ = [{"alloc_skipped": skipped}]
    by_id = {c["id"]: c for c in cases}
    drift = {}
    for r in results:
        c = by_id[r["id"]]
        ctx.count(_frame_sig_case(c))
        if r.get("drift"):
            drift.setdefault(r["drift"].split(":")[0].rsplit(",v=", 1)[0], r["drift"])
        if not r["ok"]:
            if r.get("sig") == "machinery":
                raise vlib.MachineryError("spdy frames: %s" % r.get("detail"))
            nrep += 1
            ctx.report(r["sig"], "%s | items observed: %s" % (r.get("detail", "")[:1200], r.get("obs")),
                       case=_frame_sig_case(c), harness="spdy", cmd="frames")
    ctx.traces(len(results))
    if drift:
        ex = list(drift.values())[:3]
        ctx.drift("action=ReadFrame %d shape classes where the code's frame/error differs from the parser "
                  "model inside an open (gray) verdict, e.g. %s" % (len(drift), ex))
    if summ and summ[0].get("alloc_skipped"):
        ctx.notes.append("%d cases not replayed: their shape class had already shown an allocation above "
                         "the cap (violation reported for the class)" % summ[0]["alloc_skipped"])
    for c in cases[:2]:
        r = next((x for x in results if x["id"] == c["id"]), {})
        ctx.sample({"case": [dict(it["s"], p=it["p"]) for it in c["seq"]], "observed": r.get("obs")})
    return nrep


def gen_frames(ctx, defines, mode="mc", num=0, depth=0, timeout=1500):
    r = ctx.tlc(SPEC, "GenFrame", "Gen_Frame.cfg", mode=mode, sim_num=num, sim_depth=depth,
                defines=defines, timeout=timeout, count=False)
    if not r.ok:
        raise vlib.MachineryError("GenFrame failed: %s %s" % (r.error or r.violation, r.out[-500:]))
    return r.cases


def check_c39(ctx):
    q = ctx.tier == "quick"
    fc = frame_consts(ctx.tier)
    ctx.cov["constants"]["MC_Frame"] = fc
    ctx.tlc_must_pass(SPEC, "Frame", "MC_Frame.cfg", defines=fc, timeout=1500)
    rnd = random.Random(ctx.seed * 104729 + 39)
    warm = {"MAXWARM": 0 if q else 1, "WARMK": _set(["syn"]), "WARMN": _set(["naK"]),
            "WARMV": _set(["v", "long"]), "REJK": _set([])}
    g1 = dict(fc, **warm)
    ctx.cov["constants"]["Gen_Frame_exhaustive"] = g1
    cases = gen_frames(ctx, g1, timeout=2400)
    for c in cases:
        c["var"] = 0
    nmc = len(cases)
    if not q:
        # the same cases with seeded alternative representatives of every class
        for c in list(cases):
            if rnd.random() < 0.2:
                cases.append({"seq": c["seq"], "var": rnd.randint(1, 1 << 30)})
    # sequences: every prefix of <= 1 frame (longer mixed prefixes: simulation) out of {one written SYN_REPLY,
    # the 8 frame structs the writer must refuse} before every final shape of a reduced class set:
    # a refused write must leave no trace on the frames that follow
    # ... and the frames the reader must reject with a stream error (illegal name, block intact):
    # the connection goes on, their block must have been consumed whole
    g1r = dict(SIM_CONSTS, MAXWARM=1, WARMK=_set(["reply"]), WARMN=_set(["naK"]), WARMV=_set(["v"]),
               REJK=_set(["reply"] if q else ["syn", "reply", "headers"]))
    ctx.cov["constants"]["Gen_Frame_exhaustive_refused_prefixes"] = g1r
    seqs = gen_frames(ctx, g1r, timeout=2400)
    for c in seqs:
        c["var"] = 0
    cases += seqs
    nmc = len(cases) if q else nmc + len(seqs)
    g2 = dict(SIM_CONSTS, MAXWARM=5)
    ctx.cov["constants"]["Gen_Frame_simulate"] = g2
    sim = gen_frames(ctx, g2, mode="sim", num=150 if q else 2000, depth=9, timeout=2400)
    for c in sim:
        c["var"] = rnd.randint(1, 1 << 30)
    cases += sim
    ctx.cov["rule"] = ("cases = every shape of the abstract frame space (%d exhaustive cases: prefix of written header "
                       "frames -- incl. frames the writer must refuse, which must leave no trace -- x final shape) plus "
                       "TLC-simulated longer prefixes (%d) on one zlib context; each is "
                       "replayed on a pair of real bfe_spdy.Framer objects; per item: frame-or-error against the "
                       "Layer-P verdict, field-by-field comparison, sentinel PING (frame boundary), allocation <= "
                       "64 x frame + 1 MiB, recover, watchdog. distinct = distinct (shape sequence, representative "
                       "variant)." % (nmc, len(sim)))
    ctx.cov["exhaustive"] = True
    ctx.assumptions.append("no independent SPDY/3.1 implementation is available offline: the spec is the only "
                           "reference; raw frames are compressed with the framer's own zlib writer and dictionary")
    ctx.assumptions.append("coverage is the enumerated shape space (alphabet.json), not all octet strings; "
                           "decompression ratios above 64:1 are not generated")
    run_frame_cases(ctx, cases, "C39")


# ----------------------------------------------------------------------------- C40
MAXD = 2147483647
U = 16384


def _iset(xs):
    return "{" + ",".join(str(x) for x in xs) + "}"


def conn_consts(ids, dsizes, wuds, iws, hwrites, steps, noise=None, maxs=2, cls=(0, U)):
    # CLS: content-lengths a SYN_STREAM without FIN declares (the spec adds "none declared")
    d = {"IDS": _iset(ids), "MAXS": maxs, "DSIZES": _iset(dsizes), "WUDS": _iset(wuds), "IWS": _iset(iws),
         "HWRITES": _iset(hwrites), "STEPS": steps, "CLS": _iset(cls)}
    if noise is not None:
        d["NOISE"] = noise
    return d


def _script(c):
    return [[s["a"], s["id"], s["x"], s["f"]] for s in c["steps"]]


def _conn_harness(ctx, cases, slow=1):
    """-> (results, crashed): crashed = scripts whose replay killed the harness process."""
    for c in cases:
        c["slow"] = slow
    parts = _chunks(cases, NPROC)
    outs = _par(ctx, "conn", ["".join(json.dumps(c, separators=(",", ":")) + "\n" for c in p) for p in parts], 3000)
    results, crashed = [], []
    for part, res in zip(parts, outs):
        if any("_fatal" in r for r in res):
            raise vlib.MachineryError("spdy conn: %s" % [r for r in res if "_fatal" in r][:1])
        while True:
            got = [r for r in res if "id" in r]
            results += got
            crash = _crash_text(res)
            if crash is None:
                if len(got) != len(part):
                    raise vlib.MachineryError("spdy conn: %d results for %d scripts" % (len(got), len(part)))
                break
            # results are flushed per script, scripts run in order: the first one without a result
            # is the one that killed the process (a panic on the server's reader / writer goroutine)
            done = {r["id"] for r in got}
            rest = [c for c in part if c["id"] not in done]
            if not rest:
                break
            crashed.append((rest[0], crash["_stderr"][-1800:]))
            part = rest[1:]
            if not part:
                break
            res = ctx.harness("spdy", ["conn"], cases=part, timeout=3000)
    return results, crashed


def run_conn_cases(ctx, cases, label="", maxs=2):
    if not cases:
        raise vlib.MachineryError("no conn scripts generated (%s)" % label)
    for i, c in enumerate(cases):
        c["id"] = i + 1
        c["maxs"] = c.get("maxs", maxs)
    by_id = {c["id"]: c for c in cases}
    results, crashed = _conn_harness(ctx, cases)
    nrep = 0
    for cul, err in crashed[:10]:
        _, again = _conn_harness(ctx, [cul], slow=3)
        if not again:
            raise vlib.MachineryError("spdy conn harness died, not reproducible on script %d: %s" % (cul["id"], err))
        nrep += 1
        ctx.report("crash/" + cul["steps"][-1]["why"], "the process died (unrecovered panic / fatal error) replaying "
                   "this script: " + again[0][1], case={"steps": cul["steps"], "maxs": cul["maxs"]},
                   harness="spdy", cmd="conn")
    # a contradiction must reproduce when the script is replayed on its own with tripled timeouts
    failing = [by_id[r["id"]] for r in results if not r["ok"]]
    confirmed = {}
    if failing:
        if any(r.get("sig") == "machinery" for r in results if not r["ok"]):
            bad = [r for r in results if r.get("sig") == "machinery"][0]
            raise vlib.MachineryError("spdy conn: %s" % bad.get("detail"))
        again, died = _conn_harness(ctx, failing[:60], slow=3)
        if died:
            raise vlib.MachineryError("spdy conn harness died during confirmation runs")
        confirmed = {r["id"]: r for r in again if not r["ok"]}
    drift = {}
    steps_checked = 0
    for r in results:
        c = by_id[r["id"]]
        steps_checked += r.get("steps", 0)
        ctx.count(_script(c))
        if r.get("drift"):
            drift.setdefault(r["drift"].split("]")[0].split("[")[-1], r["drift"])
        if not r["ok"]:
            r2 = confirmed.get(r["id"])
            if r2 is None:
                ctx.notes.append("script %d: %s seen once, not reproduced with tripled timeouts (not reported)"
                                 % (r["id"], r["sig"]))
                continue
            nrep += 1
            k = r2.get("steps", len(c["steps"]))
            ctx.report(r2["sig"], "%s | wire log: %s" % (r2.get("detail", "")[:1500], (r2.get("log") or [])[-40:]),
                       case={"steps": c["steps"][:max(k, 1)], "maxs": c["maxs"]}, harness="spdy", cmd="conn")
    ctx.traces(len(results))
    ctx.cov["steps_checked_against_impl"] = ctx.cov.get("steps_checked_against_impl", 0) + steps_checked
    if drift:
        ctx.drift("action=serve %d step kinds where the real server and the model differ inside Layer P, e.g. %s"
                  % (len(drift), list(drift.values())[:2]))
    for c in cases[-2:]:
        ctx.sample({"script": [dict(a=s["a"], id=s["id"], x=s["x"], f=s["f"], why=s["why"], allowed=s["allowed"],
                                    model=s["m"]) for s in c["steps"][:10]]})
    return nrep


def gen_conn(ctx, defines, mode="mc", num=0, depth=0, timeout=2400):
    r = ctx.tlc(SPEC, "GenConn", "Gen_Conn.cfg", mode=mode, sim_num=num, sim_depth=depth,
                defines=defines, timeout=timeout, count=False)
    if not r.ok:
        raise vlib.MachineryError("GenConn failed: %s %s" % (r.error or r.violation, r.out[-600:]))
    return r.cases


def check_c40(ctx):
    q = ctx.tier == "quick"
    mc = conn_consts([1, 2, 3], [0, U, 5 * U], [U, MAXD], [0, 4 * U], [5 * U], 4) if q else \
        conn_consts([1, 2, 3], [0, U, 2 * U, 5 * U], [U // 2, MAXD], [0, U, 4 * U], [U, 5 * U], 5)
    ctx.cov["constants"]["MC_Conn"] = mc
    ctx.tlc_must_pass(SPEC, "Conn", "MC_Conn.cfg", defines=mc, timeout=3000)
    cases = []
    g1 = conn_consts([1, 2, 3], [0, U, 2 * U, 5 * U], [U, MAXD], [0, U, 4 * U], [U, 5 * U], 2, noise=9) if q else \
        conn_consts([1, 2, 3], [0, U, 5 * U], [U, MAXD], [0, 4 * U], [5 * U], 3, noise=1)
    ctx.cov["constants"]["Gen_Conn_exhaustive"] = g1
    ex = gen_conn(ctx, g1)
    # one stream, every script: reaches negative send windows, blocked writers, SETTINGS changes
    g1n = conn_consts([1], [U], [U // 2, MAXD], [0, 4 * U], [5 * U], 4 if q else 5, noise=0)
    ctx.cov["constants"]["Gen_Conn_exhaustive_one_stream"] = g1n
    ex += gen_conn(ctx, g1n)
    cases += ex
    broad = conn_consts([1, 2, 3, 5], [0, U, 2 * U, 5 * U], [0, U, MAXD], [0, U, 4 * U, MAXD], [U, 5 * U], 14, noise=2)
    flow = conn_consts([1, 3], [U, 3 * U], [U // 2, U, MAXD], [0, 4 * U], [5 * U], 16, noise=0)
    ctx.cov["constants"]["Gen_Conn_sim_broad"] = broad
    ctx.cov["constants"]["Gen_Conn_sim_flow"] = flow
    nsim = 250 if q else 4000
    s1 = gen_conn(ctx, broad, mode="sim", num=nsim, depth=18)
    s2 = gen_conn(ctx, flow, mode="sim", num=nsim, depth=20)
    cases += s1 + s2
    ctx.cov["rule"] = ("scripts = every sequence of client frames and handler steps up to %d steps (3 stream ids) resp. %d steps "
                       "(one stream id) (%d, exhaustive) plus "
                       "TLC-simulated scripts of up to 16 steps (%d broad, %d flow-control focused); each is replayed in "
                       "lock step against the real bfe_spdy server on net.Pipe; after every step the wire events and "
                       "handler observations are compared with the step's Layer-P expectation printed by TLC (outcome in "
                       "the allowed set, handlers started, WINDOW_UPDATE sums = octets consumed, DATA within the client's "
                       "windows, silence after RST/FIN, body delivery, bfe_spdy panic counters). distinct = distinct "
                       "scripts." % (g1["STEPS"], g1n["STEPS"], len(ex), len(s1), len(s2)))
    ctx.assumptions.append("the client side of the replay is the repository's own Framer (no independent SPDY "
                           "implementation offline); lock-step replay: handler/serve-loop concurrency is explored at "
                           "step granularity only; scripts in which two streams compete for the session send window "
                           "(scheduler's choice) are not generated")
    run_conn_cases(ctx, cases, "C40")


PROPS = {"C39": check_c39, "C40": check_c40}


def replay(ctx, pid, rep):
    case = dict(rep["case"])
    if rep.get("cmd") == "frames":
        run_frame_cases(ctx, [case], "replay")
    else:
        run_conn_cases(ctx, [case], "replay")
    rc = ctx.finish()
    print("replay: %s" % ("violation reproduced" if rc == 1 else "no violation on the current tree"))
    return rc
