"""Pipe family: specs/Pipe/{PipeP,Pipe,GenPipe,TracePipe}.tla  <->  bfe_util/pipe  (C21).

Pipeline:
  1. TLC checks exhaustively that the mechanism model Pipe.tla (one action per critical section
     of pipe.go, writer / reader / closer processes, FixedBuffer with slide-on-write) satisfies
     Layer P (PipeP.tla) on every reply, cannot deadlock as a closed system, and, under fairness and
     without state constraint, the liveness properties (written ~> read \\/ broken, a blocked Read
     returns, the reader terminates).
  2. spec -> code: TLC (GenPipe) enumerates / simulates sequentialised schedules; cmd/pipe replay
     steps them on a real pipe (the blocking Read in its own goroutine, blocked-or-returned learnt
     from the hooks) and records the events.
  3. code -> spec: cmd/pipe conc runs writer / reader / closer goroutines freely on real pipes
     (seeded sizes and pacing, -race) and records the hook events ordered by the per-pipe
     sequence number assigned under p.mu.
  4. TLC (TracePipe) validates all recorded events against Layer P, evaluating every obligation
     at every step; rejected cases come back as `bad`.
Verdicts only from step 4 (real replies), from race reports inside package pipe, and from panics.
Differences between the real replies and the mechanism model are MODEL-DRIFT.
"""
import glob
import json
import os
import random
import re
import subprocess

from lib import vlib

SELFTEST_BASE = 9000000     # cids of deliberately corrupted cases (binding self-test)


# ---------------------------------------------------------------------------- constants
def mc_consts(ctx, which):
    q = ctx.tier == "quick"
    if which == "safety":
        if q:
            return {"CAPS": "1,2,3", "MAXW": 3, "MAXR": 2, "WRITES": 3, "COPS": 3, "ERRREADS": 2,
                    "CERRS": '"eof","e1"', "BERRS": '"e2"', "SIGW": "TRUE", "SIGC": "TRUE"}
        return {"CAPS": "1,2,3", "MAXW": 3, "MAXR": 3, "WRITES": 4, "COPS": 3, "ERRREADS": 2,
                "CERRS": '"eof","e1"', "BERRS": '"eof","e2"', "SIGW": "TRUE", "SIGC": "TRUE"}
    if q:
        return {"CAPS": "2", "MAXW": 3, "MAXR": 2, "WRITES": 2, "COPS": 2, "ERRREADS": 2,
                "CERRS": '"eof","e1"', "BERRS": '"e2"', "SIGW": "TRUE", "SIGC": "TRUE"}
    return {"CAPS": "1,2", "MAXW": 3, "MAXR": 2, "WRITES": 3, "COPS": 3, "ERRREADS": 2,
            "CERRS": '"eof","e1"', "BERRS": '"e2"', "SIGW": "TRUE", "SIGC": "TRUE"}


# ---------------------------------------------------------------------------- generators
def gen(ctx, defines, mode="mc", num=0, depth=0, timeout=900):
    r = ctx.tlc("Pipe", "GenPipe", "Gen.cfg", mode=mode, sim_num=num, sim_depth=depth,
                defines=defines, timeout=timeout, count=False)
    if not r.ok:
        raise vlib.MachineryError("GenPipe failed: %s %s" % (r.error or r.violation, r.out[-500:]))
    return r.cases


def scenarios(ctx, num, stream=0):
    """Seeded parameters of the concurrent scenarios (cmd/pipe conc)."""
    rnd = random.Random(ctx.seed * 104729 + 17 + stream)
    out = []
    for _ in range(num):
        big = rnd.random() < 0.08
        cap = rnd.choice([16, 64, 200]) if big else rnd.choice([1, 2, 2, 3, 3, 4, 5, 8])
        over = rnd.random() < 0.35                       # payloads that may not fit
        wmax = cap + 2 if over else max(1, cap // 2 if rnd.random() < 0.5 else cap)
        nwr = rnd.randint(0, 10 if not big else 6)
        writes = [0 if rnd.random() < 0.03 else rnd.randint(1, wmax) for _ in range(nwr)]
        reads = [rnd.randint(1, cap + 1) for _ in range(rnd.randint(1, 4))]
        sc = {"cap": cap, "pool": rnd.random() < 0.5, "writes": writes, "reads": reads,
              "writer_eof": False, "closer": [], "abandon": 0, "drain_eof": False,
              "err_reads": rnd.choice([1, 1, 2, 3]), "pace": rnd.randint(1, 1 << 30)}
        nev = nwr + max(1, sum(writes) // max(1, min(reads)))
        pos = lambda: rnd.randint(0, nev + 2)
        mode = rnd.choice(["drain_eof", "drain_eof", "writer_eof", "close_at", "break_at", "abandon", "mixed"])
        sc["mode"] = mode
        if mode == "drain_eof":
            sc["drain_eof"] = True
        elif mode == "writer_eof":
            sc["writer_eof"] = True
            if rnd.random() < 0.5:                       # closeStream after endStream
                a = pos()
                sc["closer"] = [{"op": "close", "e": "e1", "after": a}, {"op": "release", "e": "", "after": a}]
        elif mode == "close_at":
            a = pos()
            sc["closer"] = [{"op": "close", "e": rnd.choice(["e1", "e2", "eof"]), "after": a}]
            if rnd.random() < 0.6:
                sc["closer"].append({"op": "release", "e": "", "after": a})
        elif mode == "break_at":
            a = pos()
            sc["closer"] = [{"op": "break", "e": rnd.choice(["e2", "eof"]), "after": a}]
            if rnd.random() < 0.4:
                sc["closer"].append({"op": "close", "e": "e1", "after": a + rnd.randint(0, 3)})
        elif mode == "abandon":
            sc["abandon"] = rnd.randint(1, max(1, sum(writes)))
            sc["writer_eof"] = rnd.random() < 0.5
        else:
            acts, rel = [], False
            for _ in range(rnd.randint(1, 3)):
                op = rnd.choice(["close", "close", "break", "release"])
                if op == "release":
                    if rel:
                        continue
                    rel = True
                acts.append({"op": op, "e": "" if op == "release" else rnd.choice(["eof", "e1", "e2"]), "after": pos()})
            acts.sort(key=lambda x: x["after"])
            # a release without any close/break would (rightly) leave the reader blocked until the
            # final close: fine, but keep the closed system: the harness closes at the end
            sc["closer"] = acts
        out.append(sc)
    return out


# ---------------------------------------------------------------------------- binding self-test
def corruptions(events_by_cid):
    """Deliberately wrong traces derived from recorded ones; TracePipe must reject every one.
    Returns list of (name, events)."""
    out = []
    want = {"swap": None, "dropwrite": None, "early_close": None, "dup": None, "silent": None}
    for cid, evs in events_by_cid.items():
        kinds = [e["ev"] for e in evs]
        if want["swap"] is None:
            for i, e in enumerate(evs):
                if e["ev"] == "read" and e["n"] >= 2 and e["data"][0] != e["data"][1]:
                    c = json.loads(json.dumps(evs))
                    c[i]["data"][0], c[i]["data"][1] = c[i]["data"][1], c[i]["data"][0]
                    want["swap"] = c
                    break
        if want["dropwrite"] is None and "stuck" not in kinds:
            for i, e in enumerate(evs):
                if e["ev"] == "write" and e["n"] >= 1 and any(x["ev"] == "read" and x["n"] > 0 for x in evs[i:]) \
                        and not e["fb"]:
                    want["dropwrite"] = evs[:i] + evs[i + 1:]
                    break
        if want["early_close"] is None:
            for i, e in enumerate(evs):
                if e["ev"] == "read" and e["n"] >= 1 and e["fc"] and not e["fb"]:
                    cerr = next((x["err"] for x in evs[:i] if x["ev"] == "close"), None)
                    if cerr:
                        c = json.loads(json.dumps(evs[:i + 1]))
                        c[i].update({"n": 0, "data": [], "err": cerr})
                        want["early_close"] = c
                        break
        if want["dup"] is None:
            for i, e in enumerate(evs):
                if e["ev"] == "read" and e["n"] >= 1 and not e["fb"]:
                    want["dup"] = evs[:i + 1] + [dict(e)]
                    break
        if want["silent"] is None:
            for i, e in enumerate(evs):
                if e["ev"] == "write" and e["err"] == "full" and not e["fb"]:
                    c = json.loads(json.dumps(evs[:i + 1]))
                    c[i]["err"] = "none"
                    want["silent"] = c
                    break
        if all(v is not None for v in want.values()):
            break
    for name, evs in want.items():
        if evs is not None:
            out.append((name, evs))
    return out


# ---------------------------------------------------------------------------- running
def _race_check(ctx, label, case):
    err = getattr(ctx, "last_stderr", "") or ""
    if "WARNING: DATA RACE" not in err:
        return
    frames = re.findall(r"^\s+(\S*bfe_util/pipe\.\S+)\(\)", err, flags=re.M)
    if not frames:
        raise vlib.MachineryError("race report outside package pipe (harness bug?) in %s:\n%s" % (label, err[:3000]))
    fn = frames[0].split("bfe_util/pipe.")[-1]
    ctx.report("race/%s" % fn, "race detector report while running %s:\n%s" % (label, err[:3000]),
               case=case, harness="pipe", cmd=label)


def _split(res, label):
    events = [r for r in res if "ev" in r]
    summ = [r for r in res if r.get("summary")]
    crash = [r for r in res if "_harness_exit" in r]
    return events, summ, crash


def run_all(ctx, sched_cases, conc_cases, label="", selftest=True, ext=None):
    """Execute schedules and scenarios on the real code, validate everything recorded with TLC.
    ext: [(info, events)] already recorded elsewhere (pipes of the repository's existing tests)."""
    events = []
    origin = {}          # cid -> ("replay"|"conc"|"tests", case)
    cid = 0
    for c in sched_cases:
        cid += 1
        c["id"] = cid
        origin[cid] = ("replay", c)
    for c in conc_cases:
        cid += 1
        c["id"] = cid
        origin[cid] = ("conc", c)
    drift_total = 0
    for mode, cases in (("replay", sched_cases), ("conc", conc_cases)):
        if not cases:
            continue
        res = ctx.harness("pipe", [mode], cases=cases, race=True, timeout=900)
        evs, summ, crash = _split(res, mode)
        _race_check(ctx, mode, {"mode": mode, "cases": cases[:50]})
        race = "WARNING: DATA RACE" in (getattr(ctx, "last_stderr", "") or "")
        if (crash and not race) or not summ:
            raise vlib.MachineryError("pipe harness (%s) died: %s" % (mode, (crash or res[-1:])))
        s = summ[0]
        if s["mismatch"]:
            raise vlib.MachineryError("binding broken: hook events do not cover the API calls in %d case(s), e.g. %s"
                                      % (s["mismatch"], s["mismatch_example"]))
        if s["drift"]:
            drift_total += s["drift"]
            ctx.drift("action=%s %d case(s) differ from the mechanism model, e.g. %s" %
                      (mode, s["drift"], s["drift_examples"][:2]))
        if not evs:
            raise vlib.MachineryError("pipe harness (%s) recorded no events" % mode)
        events += evs
    for info, evs in (ext or []):
        cid += 1
        origin[cid] = ("tests", info)
        for e in evs:
            e["cid"] = cid
            events.append(e)
    if not events:
        raise vlib.MachineryError("nothing recorded (%s)" % label)
    by_cid = {}
    for e in events:
        by_cid.setdefault(e["cid"], []).append(e)
    # binding self-test: corrupted copies of recorded cases must be rejected by the same TLC run
    expected_reject = {}
    if selftest:
        for k, (name, evs) in enumerate(corruptions(by_cid)):
            scid = SELFTEST_BASE + k
            expected_reject[scid] = name
            for e in evs:
                e2 = dict(e)
                e2["cid"] = scid
                events.append(e2)
    details = {}
    lines = []
    for i, e in enumerate(events):
        e = dict(e)
        if "detail" in e:
            details[i + 1] = e.pop("detail")
        e.pop("g", None)
        e.pop("seq", None)
        lines.append(json.dumps(e, separators=(",", ":")))
    r = ctx.tlc("Pipe", "TracePipe", "Trace.cfg", mode="trace", timeout=1800,
                extra_files={"trace.ndjson": "\n".join(lines) + "\n"}, count=False)
    rep = [c for c in r.cases if c.get("done")]
    if not r.ok or not rep or rep[0]["consumed"] != len(events):
        raise vlib.MachineryError("trace validation did not complete (%s): %s %s" %
                                  (label, r.error or r.violation, r.out[-600:]))
    rejected = set()
    nbad = 0
    for b in rep[0]["bad"]:
        if b["cid"] >= SELFTEST_BASE:
            rejected.add(b["cid"])
            continue
        nbad += 1
        mode, case = origin[b["cid"]]
        ev = events[b["l"] - 1]
        flags = "".join(ch for ch, on in (("c", ev["fc"]), ("b", ev["fb"]), ("r", ev["fr"])) if on) or "-"
        sig = "%s/%s/%s/%s" % (b["why"], ev["ev"], mode, flags)
        if mode == "tests":
            sig += "/%s:%s" % (case["pkg"], "+".join(case["tests"][:3]))
        k = sum(1 for e in events[:b["l"]] if e["cid"] == b["cid"])
        det = "%s case cid=%d, event #%d of the case: %s %s; events of the case: %s" % (
            mode, b["cid"], k, json.dumps(ev), details.get(b["l"], ""),
            json.dumps([[e["ev"], e["asked"], e["n"], e["err"], e["data"][:12]] for e in by_cid[b["cid"]][:k]])[:1200])
        ctx.report(sig, det[:3000], case={"mode": mode, "case": case, "recorded": by_cid[b["cid"]][:k]},
                   harness="pipe", cmd=mode)
    if selftest:
        missed = [n for c, n in expected_reject.items() if c not in rejected]
        ctx.cov["binding_selftest"] = "rejected %d of %d corrupted traces (%s)" % (
            len(expected_reject) - len(missed), len(expected_reject), ",".join(sorted(expected_reject.values())))
        if missed:
            raise vlib.MachineryError("binding self-test: TracePipe accepted corrupted traces: %s" % missed)
    hv = [d for d in rep[0]["drift"] if d["cid"] < SELFTEST_BASE]
    if hv:
        ex = hv[0]
        ctx.drift("action=hook-view %d event(s): buffered length / flags seen by the hook differ from the model, e.g. %s at %s"
                  % (len(hv), ex["why"], json.dumps(events[ex["l"] - 1])[:300]))
    ctx.traces(len(by_cid))
    for cid_, evs in by_cid.items():
        mode, case = origin[cid_]
        key = case.get("ops") if mode == "replay" else [[e["ev"], e["asked"], e["n"], e["err"]] for e in evs]
        ctx.count({"cap": case.get("cap"), "k": key, "t": case.get("tests")},
                  nontrivial=any(e["ev"] == "read" for e in evs))
    shown = 0
    for cid_, evs in by_cid.items():
        if shown < 2 and len(evs) > 5:
            shown += 1
            ctx.sample({"mode": origin[cid_][0],
                        "recorded": [[e["ev"], e["asked"], e["n"], e["err"], e["data"][:8], e.get("seq")] for e in evs[:10]]})
    return nbad


# ---------------------------------------------------------------------------- existing tests
TEST_PKGS = {"bfe_http2": "bfe_http2", "bfe_spdy": "bfe_spdy", "bfe_util/pipe": "pipe"}
UNBOUNDED = 1 << 30


def existing_tests(ctx, pkgs):
    """Run the repository's own tests of `pkgs` with a test-only tracer ADDED to each test binary
    (go test -overlay; nothing is written into the repository) and return [(info, events)], one
    entry per pipe object those tests created, in the TracePipe event format."""
    repo = vlib.REPO
    hook = os.path.join(repo, "bfe_util/pipe/zz_verif_trace.go")
    if not os.path.exists(hook) or "VerifSetDefaultTracer" not in open(hook).read():
        msg = ("existing-tests stage NOT RUN: %s lacks pipe.VerifSetDefaultTracer (second `verif hooks:` "
               "commit of branch verif-pipe)" % repo)
        print("NOTE " + msg)
        ctx.notes.append(msg)
        ctx.cov["existing_tests"] = {"skipped": msg}
        return []
    d = os.path.join(ctx.scratch, "xt")
    os.makedirs(d, exist_ok=True)
    tmpl = open(os.path.join(vlib.HARNESS, "overlay_tests", "pipe", "zz_verif_pipetrace_test.go.tmpl")).read()
    ov = {}
    for rel in pkgs:
        dst = os.path.join(repo, rel, "zz_verif_pipetrace_test.go")
        if os.path.exists(dst):
            raise vlib.MachineryError("overlay must only add files: %s exists" % dst)
        src = os.path.join(d, rel.replace("/", "_") + "_pipetrace_test.go")
        open(src, "w").write(tmpl.replace("@PKG@", TEST_PKGS[rel]))
        ov[dst] = src
    json.dump({"Replace": ov}, open(os.path.join(d, "overlay.json"), "w"))
    # private go.mod / go.sum so that -mod=mod can never rewrite the repository's
    for f in ("go.mod", "go.sum"):
        open(os.path.join(d, f), "w").write(open(os.path.join(repo, f)).read())
    trace = os.path.join(d, "pt")
    cmd = ["go", "test", "-modfile=" + os.path.join(d, "go.mod"), "-tags", "verif",
           "-overlay", os.path.join(d, "overlay.json"), "-count=1", "-vet=off", "-timeout", "15m"] + \
          ["./" + rel + "/" for rel in pkgs]
    env = vlib._env({"VERIF_PIPE_TRACE": trace})
    try:
        p = subprocess.run(cmd, cwd=repo, env=env, stdout=subprocess.PIPE, stderr=subprocess.STDOUT,
                           text=True, errors="replace", timeout=1200)
    except subprocess.TimeoutExpired:
        raise vlib.MachineryError("existing tests timed out: %s" % " ".join(cmd))
    passed = set(re.findall(r"^ok\s+github.com/bfenetworks/bfe/(\S+)", p.stdout, flags=re.M))
    failed = [rel for rel in pkgs if rel not in passed]
    if p.returncode != 0 or failed:
        # no verdict from a package whose own tests fail; the traces of the others are still validated and the
        # failure is raised by the caller unless another stage has a verdict
        ctx.xt_error = "existing tests did not pass in %s (no verdict from them): %s\n%s" % (
            failed or "?", " ".join(cmd), p.stdout[-2500:])
    out, stats, ooc = [], {}, []
    for rel in pkgs:
        if rel in failed:
            stats[rel] = {"tests": 0, "pipes": 0, "events": 0, "failed": True}
            continue
        files = glob.glob("%s.%s.*" % (trace, TEST_PKGS[rel]))
        lines = [json.loads(l) for f in files for l in open(f) if l.strip()] if len(files) == 1 else []
        if not lines:
            raise vlib.MachineryError("existing tests of %s recorded no pipe events (%d trace files)" % (rel, len(files)))
        pipes = {}
        for l in lines:
            pipes.setdefault(l["pipe"], []).append(l)
        tests = set()
        nev = 0
        for pid_, ls in sorted(pipes.items()):
            ls.sort(key=lambda x: x["seq"])         # the hook's per-pipe order
            if [x["seq"] for x in ls] != list(range(1, len(ls) + 1)):
                raise vlib.MachineryError("%s pipe %d: sequence numbers not contiguous" % (rel, pid_))
            names = ls[0].get("tests") or ["?"]
            tests.update(names)
            if sum(1 for x in ls if x["op"] == "release") > 1:
                ooc.append("%s %s: Release called more than once (outside the contract, not judged)" % (rel, names))
                continue
            cap = next((x["cap"] for x in ls if x["cap"] >= 0), UNBOUNDED)
            rel0 = ls[0]["fr"] and ls[0]["op"] != "release"
            evs = [{"ev": "new", "cap": cap, "asked": 0, "n": 0, "err": "none", "data": [], "blen": -2,
                    "fc": False, "fb": False, "fr": bool(rel0)}]
            for x in ls:
                evs.append({"ev": x["op"], "cap": cap, "asked": x["asked"], "n": x["n"], "err": x["err"],
                            "data": list(bytes.fromhex(x["data"])), "blen": x["blen"],
                            "fc": x["fc"], "fb": x["fb"], "fr": x["fr"], "seq": x["seq"]})
            nev += len(ls)
            out.append(({"pkg": rel, "tests": sorted(names), "pipe": pid_, "cap": cap}, evs))
        stats[rel] = {"tests": len(tests - {"?"}), "pipes": len(pipes), "events": nev}
    ctx.cov["existing_tests"] = {"packages": stats, "out_of_contract": ooc,
                                 "tests": sum(v["tests"] for v in stats.values()),
                                 "pipes": sum(v["pipes"] for v in stats.values()),
                                 "events": sum(v["events"] for v in stats.values()),
                                 "cmd": "cd %s && VERIF_PIPE_TRACE=<file> %s" % (repo, " ".join(cmd[:2] + cmd[3:]))}
    for o in ooc:
        ctx.assumptions.append("existing test outside the contract: " + o)
    return out


def check_c21(ctx):
    q = ctx.tier == "quick"
    ctx.cov["rule"] = ("TLC exhaustively checks Pipe.tla (writer, reader, closer over a FixedBuffer model) against "
                       "Layer P, deadlock freedom of the closed system and liveness under fairness. cases = "
                       "(a) TLC-enumerated and TLC-simulated sequential schedules replayed on real pipes, "
                       "(b) seeded really-concurrent scenarios (3-4 goroutines, -race), (c) every pipe created by the "
                       "repository's existing tests of bfe_util/pipe (quick) and bfe_http2, bfe_spdy (thorough), traced by "
                       "a test-only file added with go test -overlay (see coverage.existing_tests); every recorded event "
                       "(ordered by the hook's per-pipe sequence number) is validated by TLC against Layer P. "
                       "distinct = distinct schedules / recorded event sequences containing a Read.")
    ctx.assumptions += [
        "one reader goroutine per pipe (RequestBody.Read from the handler), as in bfe_http2/bfe_spdy; "
        "Cond.Signal wakes one waiter, so several concurrent readers are outside the contract",
        "Release is called at most once per pipe (a second Release dereferences the nil buffer)",
        "Release gives up the unread buffered bytes by design (closeStream): after it a Read reports the "
        "close error without the dropped bytes; modelled as the named action PRelease",
        "which of several given close errors is reported is left open by the property (set membership); "
        "the code's rule (first error wins, a recorded io.EOF is replaced) is Layer M",
        "sync.Mutex / sync.Cond behave as documented (no spurious wake-ups, Wait enqueues before unlocking)",
    ]
    # 1. the model on its own
    sc = mc_consts(ctx, "safety")
    ctx.cov["constants"]["MC"] = sc
    ctx.tlc_must_pass("Pipe", "Pipe", "MC.cfg", defines=sc, timeout=1500, coverage=not q)
    # Terminated is a stuttering step (never a new state); any other action TLC never took = vacuous model
    unc = [a for a in ctx.cov.pop("coverage_zero_actions", []) if not a.startswith("Terminated@")]
    if unc:
        raise vlib.MachineryError("vacuous model: actions never taken: %s" % unc)
    lc = mc_consts(ctx, "live")
    ctx.cov["constants"]["MC_Live"] = lc
    # fairness of the reader only: every accepted byte is read unless broken / released
    ctx.tlc_must_pass("Pipe", "Pipe", "MC_LiveReader.cfg", timeout=1500, workers=4,
                      defines=dict(lc, PROPS="CaughtUp" if q else "CaughtUp Progress"))
    # fairness of all three: a blocked Read returns, the reader terminates
    ctx.tlc_must_pass("Pipe", "Pipe", "MC_Live.cfg", timeout=1500, workers=4, count=False,
                      defines=dict(lc, PROPS="Unblocks Termination"))
    # 2. schedules
    cases = []
    g0 = {"CAPS": "2", "MAXW": 3, "MAXR": 2, "WRITES": 2, "COPS": 1, "ERRREADS": 1,
          "CERRS": '"e1"', "BERRS": '"e2"', "OPS": 6, "GATE": 0} if q else \
         {"CAPS": "1,2", "MAXW": 2, "MAXR": 2, "WRITES": 2, "COPS": 2, "ERRREADS": 1,
          "CERRS": '"eof","e1"', "BERRS": '"e2"', "OPS": 7, "GATE": 0}
    ctx.cov["constants"]["Gen_exhaustive"] = g0
    cases += gen(ctx, g0, timeout=1500)
    g1 = {"CAPS": "1,2,3,4", "MAXW": 5, "MAXR": 4, "WRITES": 6, "COPS": 3, "ERRREADS": 2,
          "CERRS": '"eof","e1","e2"', "BERRS": '"eof","e2"', "OPS": 16, "GATE": 12}
    ctx.cov["constants"]["Gen_simulate"] = g1
    cases += gen(ctx, g1, mode="sim", num=400 if q else 4000, depth=24)
    conc = scenarios(ctx, 300 if q else 3000)
    # 3. the pipes the repository's existing tests create (quick: the pipe package's own tests only)
    ctx.xt_error = None
    ext = existing_tests(ctx, ["bfe_util/pipe"] if q else ["bfe_http2", "bfe_spdy", "bfe_util/pipe"])
    run_all(ctx, cases, conc, label="C21", ext=ext)
    if ctx.xt_error:
        if not ctx.violations:
            raise vlib.MachineryError(ctx.xt_error)
        ctx.notes.append(ctx.xt_error[:600])


PROPS = {"C21": check_c21}


def replay(ctx, pid, rep):
    c = rep["case"]
    mode, case = c["mode"], c.get("case")
    ctx.xt_error = None
    if mode == "tests":
        ext = [x for x in existing_tests(ctx, [case["pkg"]]) if set(x[0]["tests"]) & set(case["tests"])]
        n = run_all(ctx, [], [], label="replay", selftest=False, ext=ext)
    elif "cases" in c:
        # a race report: run the whole batch again
        cs = [dict(x) for x in c["cases"]]
        n = run_all(ctx, cs if mode == "replay" else [], cs if mode == "conc" else [], label="replay", selftest=False)
    elif mode == "replay":
        n = run_all(ctx, [dict(case)], [], label="replay", selftest=False)
    else:
        # a concurrent scenario is not deterministic: run it many times
        n = run_all(ctx, [], [dict(case) for _ in range(200)], label="replay", selftest=False)
    rc = ctx.finish()
    print("replay: %s" % ("violation reproduced" if rc == 1 else "no violation on the current tree"))
    return rc
