"""mods1 family: specs/Mod/{Actions,Cors,Prison}*.tla  <->  bfe_basic/action, mod_rewrite,
mod_header, mod_redirect (C49), mod_cors (C52), mod_prison (C53).

C49 / C52 (replay): TLC checks the mechanism functions against the documented postconditions
for every enumerated (action|rule, parameters, request) and prints each as a case with the
expected result; harness/cmd/mods1 loads the rule through the module's own reload handler and
runs the filters the module registered (bfe_module callbacks) on a request parsed by bfe_http;
this file compares the observation with the TLC-printed expectation (fields named in `judge`).

C53 (trace validation): TLC checks the counter/jail mechanism against the Layer-P window
obligations exhaustively, TLC -simulate generates arrival schedules, the harness plays them
in real time against mod_prison and TracePrison.tla validates the recorded (time, key, verdict)
events against Layer P with a slack zone around every decision boundary.
"""
import json
import os
import re

from lib import vlib

SPEC = "Mod"


# --------------------------------------------------------------------------- documents
def _doc(path):
    p = os.path.join(vlib.REPO, path)
    if not os.path.exists(p):
        raise vlib.MachineryError("document missing: " + path)
    return open(p, encoding="utf8").read()


def _table_names(md, heading):
    """first column of the markdown table that follows `heading`."""
    i = md.find(heading)
    if i < 0:
        raise vlib.MachineryError("heading %r not found in document" % heading)
    names = []
    started = False
    for line in md[i:].splitlines()[1:]:
        if line.startswith("|"):
            started = True
            cell = line.split("|")[1].strip()
            if re.fullmatch(r"%?[A-Za-z_]+", cell) and cell.lower() not in ("action", "variable"):
                names.append(cell)
        elif started and line.strip() and not line.startswith("|"):
            break
    return names


def _json_blocks(md):
    return re.findall(r"```json\s*\n(.*?)```", md, re.S)


def tla_set(xs):
    return "{" + ", ".join('"%s"' % x for x in sorted(xs)) + "}"


def doc_constants():
    rw = _doc("docs/en_us/modules/mod_rewrite/mod_rewrite.md")
    hd = _doc("docs/en_us/modules/mod_header/mod_header.md")
    rd = _doc("docs/en_us/modules/mod_redirect/mod_redirect.md")
    vars_ = [v.lstrip("%") for v in _table_names(hd, "## Builtin Variables")]
    d = {"DOC_REWRITE": tla_set(_table_names(rw, "### Actions")),
         "DOC_HEADER": tla_set(_table_names(hd, "### Actions")),
         "DOC_REDIRECT": tla_set(_table_names(rd, "### Actions")),
         "DOC_VARS": tla_set(vars_)}
    examples = []
    for fam, md in (("rewrite", rw), ("header", hd), ("redirect", rd)):
        for b in _json_blocks(md):
            examples.append({"fam": fam, "cmd": "DOC_EXAMPLE", "params": [], "class": "doc-example",
                             "judge": ["accept"], "doc": b, "req": {}, "exp": {"code": 0}})
    return d, examples


# --------------------------------------------------------------------------- C49
def _norm_q(q):
    return {k: v for k, v in (q or {}).items() if v}


def judge_action(case, obs):
    """-> list of (what, detail) contradictions of Layer P; drift -> list of str."""
    bad, drift = [], []
    judge = set(case["judge"])
    exp = case.get("exp", {})
    if obs.get("panic"):
        return [("panic", obs["panic"][:600])], drift
    if not obs.get("accepted"):
        if judge:
            bad.append(("reject", obs.get("loaderr", "")[:300]))
        return bad, drift
    if case.get("doc"):
        return bad, drift
    cmp = {
        "host": (exp.get("host"), obs.get("host")),
        "path": (exp.get("path"), obs.get("path")),
        "q": (_norm_q(exp.get("q")), _norm_q(obs.get("q"))),
        "hdr": (exp.get("hdr"), obs.get("hdr")),
        "rhdr": (exp.get("rhdr"), obs.get("rhdr")),
    }
    for f in ("host", "path", "q", "hdr", "rhdr"):
        e, o = cmp[f]
        if e != o:
            if f in judge:
                bad.append((f, "expected %s=%s observed %s" % (f, json.dumps(e, sort_keys=True), json.dumps(o, sort_keys=True))))
            elif not judge or f in ("host", "path", "q"):
                drift.append(f)
    if case["fam"] == "redirect":
        e = (exp.get("url"), exp.get("code"))
        o = (obs.get("url"), obs.get("code"))
        ok = e == o and obs.get("location") == exp.get("url") and obs.get("redirected") is True
        if not ok:
            if "url" in judge:
                bad.append(("url", "expected redirect %s observed url=%r code=%r location=%r redirected=%r" %
                            (e, obs.get("url"), obs.get("code"), obs.get("location"), obs.get("redirected"))))
            else:
                drift.append("url")
    elif "rawq" in exp and exp["rawq"] != obs.get("rawq") and not bad:
        drift.append("rawq")
    return bad, drift


def run_actions(ctx, cases, label=""):
    if not cases:
        raise vlib.MachineryError("no cases (%s)" % label)
    cases.sort(key=lambda c: (c["fam"], c["cmd"], c["params"], c.get("doc", ""), c["exp"].get("code", 0)))
    for i, c in enumerate(cases):
        c["id"] = i + 1
    res = ctx.harness("mods1", ["actions"], cases=cases, timeout=1200)
    crash = [r for r in res if "_harness_exit" in r or "_bad_case" in r]
    if crash:
        raise vlib.MachineryError("mods1 actions harness failed: %s" % str(crash[:2])[:1500])
    by = {r["id"]: r["obs"] for r in res if "id" in r}
    if len(by) != len(cases):
        raise vlib.MachineryError("mods1 actions: %d results for %d cases" % (len(by), len(cases)))
    nbad = 0
    drifts = {}
    for c in cases:
        obs = by[c["id"]]
        bad, drift = judge_action(c, obs)
        ctx.count([c["fam"], c["cmd"], c["params"], c["req"], c.get("doc", "")], nontrivial=bool(c["judge"]))
        for what, det in bad:
            nbad += 1
            sig = "%s/%s/%s/%s" % (c["fam"], c["cmd"], c["class"], what)
            rc = {k: c[k] for k in ("fam", "cmd", "params", "class", "judge", "req", "exp") if k in c}
            if c.get("doc"):
                rc["doc"] = c["doc"]
            ctx.report(sig, "%s %s on %s: %s" % (c["cmd"], c["params"], json.dumps(c["req"], sort_keys=True)[:300], det),
                       case=rc, harness="mods1", cmd="actions")
        for f in drift:
            k = "%s/%s/%s/%s" % (c["fam"], c["cmd"], c["class"], f)
            drifts[k] = drifts.get(k, 0) + 1
    for c in cases[:1] + cases[len(cases) // 2:len(cases) // 2 + 1]:
        ctx.sample({"case": {k: c[k] for k in ("cmd", "params", "class", "judge", "req")}, "expected": c["exp"],
                    "observed": by[c["id"]]})
    if drifts:
        ctx.drift("action=Do %d case classes differ from the mechanism model (undocumented shapes or raw spelling), e.g. %s"
                  % (len(drifts), sorted(drifts.items())[:6]))
    ctx.traces(len(cases))
    return nbad


def check_c49(ctx):
    q = ctx.tier == "quick"
    defs, examples = doc_constants()
    runs = [{"KEYS": '{"a", "b"}', "MAXPAIRS": 3}] if q else \
           [{"KEYS": '{"a", "b", "c"}', "MAXPAIRS": 3}, {"KEYS": '{"a", "b"}', "MAXPAIRS": 4}]
    cases = []
    seen = set()
    for r in runs:
        d = dict(defs, **r)
        ctx.cov["constants"]["Actions(%s,%s)" % (r["KEYS"], r["MAXPAIRS"])] = d
        # one TLC run: PostOK / Documented checked and the case printed in every enumerated state
        g = ctx.tlc_must_pass(SPEC, "GenActions", "Actions_MC.cfg", defines=d, timeout=1500)
        if not g.cases or len(g.cases) != g.distinct:
            raise vlib.MachineryError("GenActions printed %d cases for %d states" % (len(g.cases), g.distinct))
        for c in g.cases:
            k = json.dumps(c, sort_keys=True)
            if k not in seen:
                seen.add(k)
                cases.append(c)
    cmds = {c["cmd"] for c in cases if c["judge"]}
    missing = set(re.findall(r'"(\w+)"', defs["DOC_REWRITE"] + defs["DOC_HEADER"] + defs["DOC_REDIRECT"])) - cmds
    if missing:
        raise vlib.MachineryError("documented actions without a decisive case: %s" % sorted(missing))
    cases += examples
    ctx.cov["exhaustive"] = True
    ctx.cov["rule"] = ("cases = every (action, parameter class, request shape) state of Actions.tla: all documented "
                       "rewrite/header/redirect actions of docs/en_us/modules (action lists and variables read from "
                       "the documents at run time), queries = all ordered lists of <= MaxPairs pairs over Keys x "
                       "{plain, percent-encoded key} x {k=1, k=2, k without '='}, hosts/paths/header multiplicities "
                       "as listed in the spec, plus the documents' own example rule files; each is loaded through the "
                       "module's reload handler and executed by the module's registered filters on a request parsed "
                       "by bfe_http; distinct = distinct decisive (non-gray) cases.")
    ctx.assumptions += [
        "effects the documents do not define (prefixes without slashes, suffix/prefix cutting a label/segment, rename "
        "onto an existing key, URL_FROM_QUERY without the query, text around a %variable, cookie actions) are gray: "
        "replayed for panics and mechanism drift only",
        "query parameters are compared in the decoded view (key -> ordered values); raw spelling is Layer M",
    ]
    run_actions(ctx, cases, "C49")


# --------------------------------------------------------------------------- registry
PROPS = {"C49": check_c49}


def replay(ctx, pid, rep):
    case = rep["case"]
    if pid == "C49":
        run_actions(ctx, [dict(case)], "replay")
    rc = ctx.finish()
    print("replay: %s" % ("violation reproduced" if rc == 1 else "no violation on the current tree"))
    return rc
