"""mods1 family: specs/Mod/{Actions,Cors,Prison}*.tla  <->  bfe_basic/action, mod_rewrite,
mod_header, mod_redirect (C49), mod_cors (C52), mod_prison (C53).

C49 / C52 (replay): TLC checks the mechanism functions against the documented postconditions
for every enumerated (action|rule, parameters, request) and prints each as a case with the
expected result; harness/cmd/mods1 loads the rule through the module's own reload handler and
runs the filters the module registered (bfe_module callbacks) on a request parsed by bfe_http;
this file compares the observation with the TLC-printed expectation (fields named in `judge`).

C53 (trace validation): TLC checks the counter/jail mechanism against the Layer-P window
obligations exhaustively, TLC -simulate generates arrival schedules, the harness plays them
in real time against mod_prison and TracePrison.tla validates the recorded (time, key, verdict)
events against Layer P with a slack zone around every decision boundary.
"""
import json
import os
import re

from lib import vlib

SPEC = "Mod"


# --------------------------------------------------------------------------- documents
def _doc(path):
    p = os.path.join(vlib.REPO, path)
    if not os.path.exists(p):
        raise vlib.MachineryError("document missing: " + path)
    return open(p, encoding="utf8").read()


def _table_names(md, heading):
    """first column of the markdown table that follows `heading`."""
    i = md.find(heading)
    if i < 0:
        raise vlib.MachineryError("heading %r not found in document" % heading)
    names = []
    started = False
    for line in md[i:].splitlines()[1:]:
        if line.startswith("|"):
            started = True
            cell = line.split("|")[1].strip()
            if re.fullmatch(r"%?[A-Za-z_]+", cell) and cell.lower() not in ("action", "variable"):
                names.append(cell)
        elif started and line.strip() and not line.startswith("|"):
            break
    return names


def _json_blocks(md):
    return re.findall(r"```json\s*\n(.*?)```", md, re.S)


def tla_set(xs):
    return "{" + ", ".join('"%s"' % x for x in sorted(xs)) + "}"


def doc_constants():
    rw = _doc("docs/en_us/modules/mod_rewrite/mod_rewrite.md")
    hd = _doc("docs/en_us/modules/mod_header/mod_header.md")
    rd = _doc("docs/en_us/modules/mod_redirect/mod_redirect.md")
    vars_ = [v.lstrip("%") for v in _table_names(hd, "## Builtin Variables")]
    d = {"DOC_REWRITE": tla_set(_table_names(rw, "### Actions")),
         "DOC_HEADER": tla_set(_table_names(hd, "### Actions")),
         "DOC_REDIRECT": tla_set(_table_names(rd, "### Actions")),
         "DOC_VARS": tla_set(vars_)}
    examples = []
    for fam, md in (("rewrite", rw), ("header", hd), ("redirect", rd)):
        for b in _json_blocks(md):
            examples.append({"fam": fam, "cmd": "DOC_EXAMPLE", "params": [], "class": "doc-example",
                             "judge": ["accept"], "doc": b, "req": {}, "exp": {"code": 0}})
    return d, examples


# --------------------------------------------------------------------------- C49
def _norm_q(q):
    return {k: v for k, v in (q or {}).items() if v}


def judge_action(case, obs):
    """-> list of (what, detail) contradictions of Layer P; drift -> list of str."""
    bad, drift = [], []
    judge = set(case["judge"])
    exp = case.get("exp", {})
    if obs.get("panic"):
        return [("panic", obs["panic"][:600])], drift
    if not obs.get("accepted"):
        if judge:
            bad.append(("reject", obs.get("loaderr", "")[:300]))
        return bad, drift
    if case.get("doc"):
        return bad, drift
    cmp = {
        "host": (exp.get("host"), obs.get("host")),
        "path": (exp.get("path"), obs.get("path")),
        "q": (_norm_q(exp.get("q")), _norm_q(obs.get("q"))),
        "hdr": (exp.get("hdr"), obs.get("hdr")),
        "rhdr": (exp.get("rhdr"), obs.get("rhdr")),
    }
    for f in ("host", "path", "q", "hdr", "rhdr"):
        e, o = cmp[f]
        if e != o:
            if f in judge:
                bad.append((f, "expected %s=%s observed %s" % (f, json.dumps(e, sort_keys=True), json.dumps(o, sort_keys=True))))
            elif not judge or f in ("host", "path", "q"):
                drift.append(f)
    if case["fam"] == "redirect":
        e = (exp.get("url"), exp.get("code"))
        o = (obs.get("url"), obs.get("code"))
        ok = e == o and obs.get("location") == exp.get("url") and obs.get("redirected") is True
        if not ok:
            if "url" in judge:
                bad.append(("url", "expected redirect %s observed url=%r code=%r location=%r redirected=%r" %
                            (e, obs.get("url"), obs.get("code"), obs.get("location"), obs.get("redirected"))))
            elif e != o:
                drift.append("url")
    elif "rawq" in exp and exp["rawq"] != obs.get("rawq") and not bad:
        drift.append("rawq")
    return bad, drift


def run_actions(ctx, cases, label=""):
    if not cases:
        raise vlib.MachineryError("no cases (%s)" % label)
    cases.sort(key=lambda c: (c["fam"], c["cmd"], c["params"], c.get("doc", ""), c["exp"].get("code", 0)))
    for i, c in enumerate(cases):
        c["id"] = i + 1
    res = ctx.harness("mods1", ["actions"], cases=cases, timeout=1200)
    crash = [r for r in res if "_harness_exit" in r or "_bad_case" in r]
    if crash:
        raise vlib.MachineryError("mods1 actions harness failed: %s" % str(crash[:2])[:1500])
    by = {r["id"]: r["obs"] for r in res if "id" in r}
    if len(by) != len(cases):
        raise vlib.MachineryError("mods1 actions: %d results for %d cases" % (len(by), len(cases)))
    nbad = 0
    drifts = {}
    for c in cases:
        obs = by[c["id"]]
        bad, drift = judge_action(c, obs)
        ctx.count([c["fam"], c["cmd"], c["params"], c["req"], c.get("doc", "")], nontrivial=bool(c["judge"]))
        for what, det in bad:
            nbad += 1
            sig = "%s/%s/%s/%s" % (c["fam"], c["cmd"], c["class"], what)
            rc = {k: c[k] for k in ("fam", "cmd", "params", "class", "judge", "req", "exp") if k in c}
            if c.get("doc"):
                rc["doc"] = c["doc"]
            ctx.report(sig, "%s %s on %s: %s" % (c["cmd"], c["params"], json.dumps(c["req"], sort_keys=True)[:300], det),
                       case=rc, harness="mods1", cmd="actions")
        for f in drift:
            k = "%s/%s/%s/%s" % (c["fam"], c["cmd"], c["class"], f)
            drifts[k] = drifts.get(k, 0) + 1
    for c in cases[:1] + cases[len(cases) // 2:len(cases) // 2 + 1]:
        ctx.sample({"case": {k: c[k] for k in ("cmd", "params", "class", "judge", "req")}, "expected": c["exp"],
                    "observed": by[c["id"]]})
    if drifts:
        ctx.drift("action=Do %d case classes differ from the mechanism model (undocumented shapes or raw spelling), e.g. %s"
                  % (len(drifts), sorted(drifts.items())[:6]))
    ctx.traces(len(cases))
    return nbad


def check_c49(ctx):
    q = ctx.tier == "quick"
    defs, examples = doc_constants()
    runs = [{"KEYS": '{"a", "b"}', "MAXPAIRS": 3, "JUNK": "FALSE"}, {"KEYS": '{"a", "b", "ab"}', "MAXPAIRS": 2, "JUNK": "TRUE"},
            {"KEYS": '{"a", "u n", "u+n", "u%n"}', "MAXPAIRS": 2, "JUNK": "FALSE"}] if q else \
           [{"KEYS": '{"a", "b", "ab", "ba"}', "MAXPAIRS": 3, "JUNK": "TRUE"},
            {"KEYS": '{"a", "b", "u n", "u+n", "u%n", "u&n", "u=n"}', "MAXPAIRS": 2, "JUNK": "FALSE"}]
    cases = []
    seen = set()
    for r in runs:
        d = dict(defs, **r)
        ctx.cov["constants"]["Actions(%s,%s,junk=%s)" % (r["KEYS"], r["MAXPAIRS"], r["JUNK"])] = d
        # one TLC run: PostOK / Documented checked and the case printed in every enumerated state
        g = ctx.tlc_must_pass(SPEC, "GenActions", "Actions_MC.cfg", defines=d, timeout=1500)
        if not g.cases or len(g.cases) != g.distinct:
            raise vlib.MachineryError("GenActions printed %d cases for %d states" % (len(g.cases), g.distinct))
        for c in g.cases:
            k = json.dumps(c, sort_keys=True)
            if k not in seen:
                seen.add(k)
                cases.append(c)
    cmds = {c["cmd"] for c in cases if c["judge"]}
    missing = set(re.findall(r'"(\w+)"', defs["DOC_REWRITE"] + defs["DOC_HEADER"] + defs["DOC_REDIRECT"])) - cmds
    if missing:
        raise vlib.MachineryError("documented actions without a decisive case: %s" % sorted(missing))
    cases += examples
    ctx.cov["exhaustive"] = True
    ctx.cov["rule"] = ("cases = every (action, parameter class, request shape) state of Actions.tla: all documented "
                       "rewrite/header/redirect actions of docs/en_us/modules (action lists and variables read from "
                       "the documents at run time), queries = all ordered lists of <= MaxPairs pairs over Keys x "
                       "{plain, percent-encoded key} x {k=1, k=a, k without '='} (keys ab / ba contain a and b; keys 'u n', 'u+n', 'u%n', 'u&n', 'u=n' in every escaped spelling incl. '+', also as configured parameters), hosts/paths/header multiplicities "
                       "as listed in the spec, plus the documents' own example rule files; each is loaded through the "
                       "module's reload handler and executed by the module's registered filters on a request parsed "
                       "by bfe_http; distinct = distinct decisive (non-gray) cases.")
    ctx.assumptions += [
        "effects the documents do not define (prefixes without slashes, suffix/prefix cutting a label/segment, rename "
        "onto an existing key, URL_FROM_QUERY without the query, text around a %variable, cookie actions) are gray: "
        "replayed for panics and mechanism drift only",
        "query parameters are compared in the decoded view (key -> ordered values); raw spelling is Layer M",
    ]
    run_actions(ctx, cases, "C49")


# --------------------------------------------------------------------------- C52
def _vary_tokens(lines):
    out = set()
    for ln in lines or []:
        for t in ln.split(","):
            t = t.strip().lower()
            if t:
                out.add(t)
    return out


def judge_cors(case, obs):
    bad, drift = [], []
    P, M = case["expP"], case["expM"]
    if obs.get("panic"):
        return [("panic", obs["panic"][:600])], drift
    if not obs.get("loaded"):
        # a rule that cannot be loaded grants nothing: only the mechanism model says which rules load
        if M["loads"]:
            drift.append("rejected")
        return bad, drift
    if not M["loads"]:
        drift.append("loaded")
    ac = {k.lower(): v for k, v in (obs.get("ac") or {}).items()}
    acao = ac.get("access-control-allow-origin", "")
    acac = ac.get("access-control-allow-credentials", "")
    if P["allowed"]:
        if acao != P["acao"]:
            bad.append(("acao", "allowed origin: expected Access-Control-Allow-Origin %r observed %r" % (P["acao"], acao)))
    elif ac:
        bad.append(("leak", "origin not allowed by the rule but the response carries %s" % json.dumps(ac, sort_keys=True)))
    if acao == "*" and acac.lower() == "true":
        bad.append(("star-cred", "Access-Control-Allow-Origin: * together with Access-Control-Allow-Credentials: true"))
    vt = _vary_tokens(obs.get("vary"))
    keep = {t.lower() for t in P["keep"]}
    if not keep <= vt:
        bad.append(("vary-dropped", "Vary before %s after %s" % (sorted(keep), obs.get("vary"))))
    if P["needvary"] and not ({"origin", "*"} & vt):
        bad.append(("vary-origin-missing", "granted value depends on Origin but Vary after the filters is %s (before: %s)"
                    % (obs.get("vary"), case["req"]["vary"])))
    if not bad:
        others = sorted(k for k in (obs.get("ac") or {}) if k.lower() not in
                        ("access-control-allow-origin", "access-control-allow-credentials"))
        if acac != M["acac"] or others != sorted(M["other"]) or obs.get("preflight") != M["preflight"] \
                or (obs.get("vary") or []) != M["vary"]:
            drift.append("headers")
    return bad, drift


def run_cors(ctx, cases, label=""):
    if not cases:
        raise vlib.MachineryError("no cases (%s)" % label)
    cases.sort(key=lambda c: json.dumps(c["rules"], sort_keys=True))
    for i, c in enumerate(cases):
        c["id"] = i + 1
    res = ctx.harness("mods1", ["cors"], cases=cases, timeout=900)
    crash = [r for r in res if "_harness_exit" in r or "_bad_case" in r]
    if crash:
        raise vlib.MachineryError("mods1 cors harness failed: %s" % str(crash[:2])[:1500])
    by = {r["id"]: r["obs"] for r in res if "id" in r}
    if len(by) != len(cases):
        raise vlib.MachineryError("mods1 cors: %d results for %d cases" % (len(by), len(cases)))
    drifts = {}
    nbad = 0
    for c in cases:
        obs = by[c["id"]]
        bad, drift = judge_cors(c, obs)
        ctx.count([c["rules"], c["req"]], nontrivial=c["req"]["origin"] != "")
        for what, det in bad:
            nbad += 1
            sig = "cors/%s/%s/%s/%s/%s" % (c["form"], c["oclass"], c["kind"], c["vclass"], what)
            rc = {k: c[k] for k in ("form", "oclass", "kind", "vclass", "rules", "req", "expP", "expM")}
            ctx.report(sig, "rules %s request %s: %s" % (json.dumps(c["rules"]), json.dumps(c["req"]), det),
                       case=rc, harness="mods1", cmd="cors")
        for f in drift:
            k = "%s/%s/%s/%s" % (c["form"], c["kind"], c["vclass"], f)
            drifts[k] = drifts.get(k, 0) + 1
    for c in cases[len(cases) // 3:len(cases) // 3 + 1] + cases[-1:]:
        ctx.sample({"rules": c["rules"], "request": c["req"], "expected": c["expP"], "observed": by[c["id"]]})
    if drifts:
        ctx.drift("action=Apply %d case classes differ from the mechanism model, e.g. %s" % (len(drifts), sorted(drifts.items())[:6]))
    ctx.traces(len(cases))
    return nbad


def check_c52(ctx):
    d = {"MAXTOK": 2 if ctx.tier == "quick" else 3}
    g = ctx.tlc_must_pass(SPEC, "GenCors", "Cors_MC.cfg", defines=d, timeout=1500)
    if not g.cases or len(g.cases) != g.distinct:
        raise vlib.MachineryError("GenCors printed %d cases for %d states" % (len(g.cases), g.distinct))
    ctx.cov["exhaustive"] = True
    ctx.cov["constants"]["Cors"] = {"origins": "allowed, allowed2, other, suffix/prefix look-alikes, null, garbage, absent",
                                    "rule forms": "one, two, *, %origin, null, %origin+one", "credentials": "both",
                                    "rule lists": "1 rule; 2 (thorough: 3) rules over {/api prefix, catch-all, never matching} x {one, *, %origin} "
                                                  "x credentials, request path /x or /api/x: the first matching rule governs",
                                    "optional lists": "all set / none set", "request": "GET, preflight, bare OPTIONS",
                                    "vary before": "none, *, Accept-Encoding, Origin, origin, list with/without Origin, two lines; "
                                                   "plus every arrangement of <= MaxTok field names over {*, Accept-Encoding, Origin, "
                                                   "oRiGiN, X-Original-Host, Origin-Agent-Cluster, X-Forwarded-Origin, "
                                                   "x-forwarded-origin-country, X-*, *-Wild} in <= MaxTok lines, separators ',' and ', '",
                                    "MaxTok": d["MAXTOK"]}
    ctx.cov["rule"] = ("cases = every state of Cors.tla (origin class x rule form x credentials x optional lists x request "
                       "kind x pre-existing Vary); the rule is loaded by mod_cors' reload handler, the request is parsed by "
                       "bfe_http and passes the filters the module registered at HandleFoundProduct and (with a backend "
                       "response carrying the pre-existing Vary) HandleReadResponse; obligations: ACAO exactly for allowed "
                       "origins with the configured value, no Access-Control-* for others, never * with credentials, Vary "
                       "keeps its values and contains Origin (or *) when the granted value depends on the Origin - judged on the "
                       "parsed list of field names (names that merely contain 'origin' or '*' do not count). "
                       "distinct = cases with an Origin header.")
    ctx.assumptions += ["Vary is not judged when nothing is granted (whether a refusal must vary on Origin is left open)",
                        "which rule files the loader refuses is Layer M; '*' with credentials is judged on responses only"]
    run_cors(ctx, g.cases, "C52")


# --------------------------------------------------------------------------- C53
TICK_US = 40000          # scaled schedules: one tick = 40 ms
REAL_TICK_US = 300000    # unscaled schedules (CheckPeriod = StayPeriod = 1 s): boundaries 100 ms off the tick grid
SLACK_US = 3000          # TracePrison: undecided zone on either side of a decision boundary
WIDE_US = 1000           # an arrival whose call took longer than this tells nothing


ACTIONS = ["CLOSE", "FINISH", "PASS", "REQ_HEADER_SET"]      # the actions mod_prison.md lists


def prison_case(th, p, j, arr, kind="scaled", rules=None):
    """rules: the product's ordered rule list [{th, action}, ..] (all match every request);
    default one CLOSE rule with threshold th."""
    rules = rules or [{"th": th, "action": "CLOSE"}]
    if kind == "real":
        return {"th": th, "kind": "real", "cp_us": 1000000, "sp_us": 1000000, "tick_us": REAL_TICK_US, "arr": arr,
                "rules": rules}
    return {"th": th, "kind": "scaled", "cp_us": p * TICK_US + TICK_US // 2, "sp_us": j * TICK_US,
            "tick_us": TICK_US, "arr": arr, "rules": rules}


def rule_lists(ctx, n, stream):
    """Seeded two-rule lists over all action kinds; thresholds differ so that one rule jails while the
    other still counts."""
    import random
    rnd = random.Random(ctx.seed * 7927 + stream)
    out = []
    for i in range(n):
        a1, a2 = ACTIONS[i % 4], ACTIONS[(i // 4) % 4]       # all 16 ordered pairs in turn
        t1 = rnd.randint(0, 2)
        t2 = rnd.randint(0, 3)
        out.append([{"th": t1, "action": a1}, {"th": t2, "action": a2}])
    return out


def seeded_schedules(ctx, num, stream, maxt=40):
    """Seeded driver beyond the TLC-simulated schedules: bursts, silences and probes around the
    jail, long enough to see expiry, re-admission and a second jailing."""
    import random
    rnd = random.Random(ctx.seed * 104729 + stream)
    out = []
    for _ in range(num):
        th = rnd.choice([0, 1, 1, 2, 2, 3])
        nk = rnd.randint(1, 3)
        arr = []
        t = 0
        while t <= maxt and len(arr) < 60:
            x = rnd.random()
            if x < 0.30:                      # burst of one key in one tick
                k = rnd.randint(1, nk)
                arr += [{"k": k, "t": t}] * rnd.randint(1, th + 2)
            elif x < 0.65:
                arr.append({"k": rnd.randint(1, nk), "t": t})
            t += rnd.choice([0, 1, 1, 1, 2, 3, 4, 6, 7])
        if arr:
            out.append((th, arr))
    return out


def run_prison(ctx, cases, label=""):
    if not cases:
        raise vlib.MachineryError("no schedules (%s)" % label)
    for i, c in enumerate(cases):
        c["id"] = i + 1
    res = ctx.harness("mods1", ["prison"], cases=cases, timeout=600)
    crash = [r for r in res if "_harness_exit" in r or "_bad_case" in r]
    if crash:
        raise vlib.MachineryError("mods1 prison harness failed: %s" % str(crash[:2])[:1500])
    events = [r for r in res if "ev" in r]
    narr = sum(len(c["arr"]) for c in cases)
    want = sum((len(c["arr"]) + 1) * len(c["rules"]) for c in cases)
    if len(events) != want:
        raise vlib.MachineryError("mods1 prison: %d events, expected %d" % (len(events), want))
    by_id = {c["id"]: c for c in cases}
    nbad = 0
    for e in events:
        info = e.pop("info", None)
        if info:
            nbad += 1
            c = by_id[e["cid"] // 10]
            ctx.report("prison/%s/th%d/%s" % ("panic" if info.startswith("panic") else "result", c["th"], c["kind"]),
                       info[:800], case={k: c[k] for k in c if k != "id"}, harness="mods1", cmd="prison")
    trace = "".join(json.dumps(e, separators=(",", ":")) + "\n" for e in events)
    r = ctx.tlc(SPEC, "TracePrison", "Prison_Trace.cfg", mode="trace", timeout=900, count=False,
                defines={"S": SLACK_US, "W": WIDE_US}, extra_files={"trace.ndjson": trace})
    rep = [c for c in r.cases if c.get("done")]
    if not r.ok or not rep or rep[0]["consumed"] != len(events):
        raise vlib.MachineryError("trace validation did not complete (%s): %s %s" %
                                  (label, r.error or r.violation, r.out[-600:]))
    rep = rep[0]
    ctx.traces(sum(len(c["rules"]) for c in cases))
    for b in rep["bad"]:
        nbad += 1
        c = by_id[b["cid"] // 10]
        ri = b["cid"] % 10
        rule = c["rules"][ri - 1]
        ev = events[b["l"] - 1]
        mine = [e for e in events if e["cid"] == b["cid"] and e["ev"] == "arr"]
        upto = mine.index(ev) + 1
        sig = "prison/%s/th%d/%s" % (b["why"], rule["th"], c["kind"])
        if len(c["rules"]) > 1:
            sig += "/r%d:%s" % (ri, ">".join(r["action"] for r in c["rules"]))
        det = ("rules %s, verdicts of rule %d: Threshold=%d CheckPeriod=%dus StayPeriod=%dus; arrivals of the case up to "
               "the failing one (key, lo us, hi us, denied by this rule, unobservable): %s" %
               (c["rules"], ri, rule["th"], c["cp_us"], c["sp_us"],
                [(e["k"], e["lo"], e["hi"], e["deny"], e["u"]) for e in mine[:upto]][-14:]))
        rc = {k: c[k] for k in c if k != "id"}
        rc["arr"] = c["arr"][:upto]
        ctx.report(sig, det, case=rc, harness="mods1", cmd="prison")
    for c in cases:
        ctx.count([c["rules"], c["kind"], c["arr"]], nontrivial=len(c["arr"]) > c["th"])
    tot = rep["free"] + rep["decided"]
    ctx.cov.setdefault("prison_events", {"decided": 0, "either_way": 0})
    ctx.cov["prison_events"]["decided"] += rep["decided"]
    ctx.cov["prison_events"]["either_way"] += rep["free"]
    if tot and rep["decided"] * 10 < tot and len(cases) > 20:
        raise vlib.MachineryError("only %d of %d recorded arrivals were decisive (machine too loaded for the real-time "
                                  "driver?)" % (rep["decided"], tot))
    if rep["drift"]:
        ctx.drift("action=Arrive %d recorded verdicts differ from the counter/jail mechanism model, e.g. %s" %
                  (len(rep["drift"]), [events[d["l"] - 1] for d in rep["drift"][:2]]))
    c = cases[-1]
    ctx.sample({"schedule": c, "recorded": [e for e in events if e["cid"] // 10 == c["id"]][:12]})
    return nbad


def check_c53(ctx):
    q = ctx.tier == "quick"
    mcs = [(2, 1, 0, 10, 5), (2, 2, 1, 10, 5), (2, 0, 1, 10, 5)] if q else \
          [(2, th, s, 12, 6) for th in (0, 1, 2) for s in (0, 1)] + [(1, th, s, 17, 7) for th in (0, 1, 2) for s in (0, 1)]
    for nk, th, s, maxt, maxarr in mcs:
        d = {"NKEYS": nk, "NRULES": 1, "TH": th, "TH2": 0, "ACT1": "CLOSE", "ACT2": "CLOSE", "P": 3, "J": 2, "S": s,
             "MAXT": maxt, "MAXARR": maxarr}
        ctx.cov["constants"]["Prison_MC(keys=%d,th=%d,slack=%d)" % (nk, th, s)] = d
        ctx.tlc_must_pass(SPEC, "Prison", "Prison_MC.cfg", defines=d, timeout=2400)
    # rule lists: two rules matching the same request, per-rule windows, every ordered pair of kinds
    # (terminal / non-terminal) that behaves differently
    lists = [("REQ_HEADER_SET", "CLOSE", 1, 2), ("CLOSE", "REQ_HEADER_SET", 1, 2)] if q else \
            [(a1, a2, t1, t2) for a1 in ("PASS", "REQ_HEADER_SET", "CLOSE", "FINISH") for a2 in ("REQ_HEADER_SET", "CLOSE")
             for t1, t2 in ((1, 2), (2, 1))]
    for a1, a2, t1, t2 in lists:
        d = {"NKEYS": 1, "NRULES": 2, "TH": t1, "TH2": t2, "ACT1": a1, "ACT2": a2, "P": 3, "J": 2, "S": 1,
             "MAXT": 10, "MAXARR": 6}
        ctx.cov["constants"]["Prison_MC(rules=%s:%d>%s:%d)" % (a1, t1, a2, t2)] = d
        ctx.tlc_must_pass(SPEC, "Prison", "Prison_MC.cfg", defines=d, timeout=2400)
    cases = []
    for th in ((2,) if q else (0, 1, 2)):
        d = {"NKEYS": 2, "TH": th, "P": 3, "J": 2, "MAXT": 26, "MAXARR": 16}
        g = ctx.tlc(SPEC, "GenPrison", "Prison_Gen.cfg", mode="sim", defines=d, sim_num=120 if q else 150,
                    sim_depth=60, count=False, timeout=600)
        if not g.ok or not g.cases:
            raise vlib.MachineryError("GenPrison failed: %s %s" % (g.error or g.violation, g.out[-500:]))
        cases += [prison_case(c["th"], c["p"], c["j"], c["arr"]) for c in g.cases if c["arr"]]
    cases += [prison_case(th, 3, 2, arr) for th, arr in seeded_schedules(ctx, 150 if q else 400, 1)]
    # rule lists: the same kind of schedules against products with two rules (all 16 action pairs)
    sch = seeded_schedules(ctx, 96 if q else 320, 3)
    cases += [prison_case(max(r["th"] for r in rl), 3, 2, arr, rules=rl)
              for (th, arr), rl in zip(sch, rule_lists(ctx, len(sch), 4))]
    sch = seeded_schedules(ctx, 16 if q else 32, 5, maxt=26)
    cases += [prison_case(max(r["th"] for r in rl), 3, 3, arr, kind="real", rules=rl)
              for (th, arr), rl in zip(sch, rule_lists(ctx, len(sch), 6))]
    # a few schedules with the periods exactly as the rule file gives them (seconds): binds the unit conversion
    cases += [prison_case(th, 3, 3, arr, kind="real") for th, arr in seeded_schedules(ctx, 20 if q else 60, 2, maxt=26)]
    ctx.cov["constants"]["trace"] = {"tick_us": TICK_US, "CheckPeriod_us": 3 * TICK_US + TICK_US // 2, "StayPeriod_us": 2 * TICK_US,
                                     "slack_us": SLACK_US, "wide_us": WIDE_US, "real": "CheckPeriod = StayPeriod = 1 s, tick 300 ms"}
    ctx.cov["rule"] = ("TLC checks exhaustively that the counter/jail mechanism satisfies Layer P (never denied with <= "
                       "Threshold arrivals in the last CheckPeriod; denied from the (Threshold+1)-th arrival of a fresh "
                       "key's first period until first arrival + CheckPeriod + StayPeriod; re-admitted after expiry; per "
                       "key and per rule of a rule list). cases = TLC-simulated and seeded arrival schedules played in real time against mod_prison "
                       "(rule file loaded by the module, prisonHandler invoked through the HandleFoundProduct callback "
                       "list), recorded (key, time before, time after, verdict) validated by TLC against Layer P with a "
                       "slack zone around every decision boundary. distinct = schedules with more arrivals than Threshold.")
    ctx.assumptions += ["wall clock: every clock reading of one prisonHandler call lies between the two readings the "
                        "harness takes around it; calls longer than %d us and arrivals within %d us of a decision "
                        "boundary are matched either way" % (WIDE_US, SLACK_US),
                        "scaled schedules set checkPeriodNs/stayPeriodNs through an overlay setter after the real loader "
                        "ran; the seconds->ns conversion is covered by the unscaled schedules"]
    run_prison(ctx, cases, "C53")


# --------------------------------------------------------------------------- registry
PROPS = {"C49": check_c49, "C52": check_c52, "C53": check_c53}


def replay(ctx, pid, rep):
    case = rep["case"]
    if pid == "C49":
        run_actions(ctx, [dict(case)], "replay")
    elif pid == "C52":
        run_cors(ctx, [dict(case)], "replay")
    elif pid == "C53":
        # real time: play the schedule a few times side by side
        run_prison(ctx, [dict(case) for _ in range(5)], "replay")
    rc = ctx.finish()
    print("replay: %s" % ("violation reproduced" if rc == 1 else "no violation on the current tree"))
    return rc
