#!/usr/bin/env python3
"""Generates docs/SEEDED.md (seeded changes and which check catches them) and docs/FINDINGS.md from
seeded/*/meta.json and known_findings.json."""
import json, os, glob
V = os.path.dirname(os.path.dirname(os.path.abspath(__file__)))
rows = []
for d in sorted(glob.glob(os.path.join(V, "seeded", "C*"))):
    m = json.load(open(os.path.join(d, "meta.json")))
    det = [r for r in m.get("ran", []) if r["exit"] == 1]
    tier = det[0]["tier"] if det else "-"
    sig = ""
    if det:
        sigs = [l for l in det[0]["lines"] if l.strip().startswith("sig=")]
        sig = sigs[0].strip()[4:].split(" detail=")[0] if sigs else ""
    rows.append((os.path.basename(d), "yes" if m.get("confirmed") else "see note", "quick" if tier == "quick" else ("thorough only" if tier == "thorough" else "NOT DETECTED"),
                 sig[:70], (m.get("summary") or "")[:160].replace("|", "/"), (m.get("needs") or "")[:140].replace("|", "/"), m.get("history", "")))
with open(os.path.join(V, "docs", "SEEDED.md"), "w") as f:
    f.write("# Seeded changes (independent sub-agents, property text only) and the checks that catch them\n\n"
            "Each change is kept under `seeded/<id>/` (patch.diff, demonstration, meta.json).  `confirmed` = we re-ran the demonstration "
            "(fails with the change, passes without), `go build ./...`, and the existing tests of the touched packages ourselves.  "
            "The checks were run with `VERIF_REPO=<scratch worktree with the patch on current main>` (lib/seedcheck.py).\n\n"
            "| id | confirmed | detected by | signature | change | needs | history |\n|---|---|---|---|---|---|---|\n")
    for r in rows:
        f.write("| %s | %s | %s | `%s` | %s | %s | %s |\n" % r)
    n = len(rows); q = sum(1 for r in rows if r[2] == "quick"); t = sum(1 for r in rows if r[2] == "thorough only")
    f.write("\n%d seeded changes: %d caught by the quick tier, %d only by the thorough tier, %d not detected.\n" % (n, q, t, n - q - t))
kf = json.load(open(os.path.join(V, "known_findings.json")))["findings"]
with open(os.path.join(V, "docs", "FINDINGS.md"), "w") as f:
    f.write("# Genuine defects of baidu/bfe found by the checks\n\n| id | property | status | commit | what |\n|---|---|---|---|---|\n")
    for x in sorted(kf, key=lambda x: (x["property"], x["id"])):
        f.write("| %s | %s | %s | %s | %s |\n" % (x["id"], x["property"], x["status"], x.get("commit", ""), x["what"].replace("|", "/")[:400]))
    f.write("\n%d fixed (one `fix:` commit each in /repo), %d open (KNOWN-FINDING).\n" %
            (sum(1 for x in kf if x["status"] == "fixed"), sum(1 for x in kf if x["status"] == "open")))
print("docs written:", len(rows), "seeded,", len(kf), "findings")
