#!/usr/bin/env python3
"""Regenerates /verif/MANIFEST.json from families/registry.json (per-property metadata)."""
import json
import os
import subprocess

V = os.path.dirname(os.path.dirname(os.path.abspath(__file__)))
reg = {}
for fn in sorted(os.listdir(os.path.join(V, "families", "registry.d"))):
    if fn.endswith(".json"):
        reg.update(json.load(open(os.path.join(V, "families", "registry.d", fn))))
# merge findings.d/*.json into known_findings.json (ids are unique; existing entries win)
kf = json.load(open(os.path.join(V, "known_findings.json")))
have = {f["id"] for f in kf["findings"]}
fd = os.path.join(V, "findings.d")
if os.path.isdir(fd):
    for fn in sorted(os.listdir(fd)):
        if fn.endswith(".json"):
            for f in json.load(open(os.path.join(fd, fn))).get("findings", []):
                if f["id"] not in have:
                    kf["findings"].append(f)
                    have.add(f["id"])
    json.dump(kf, open(os.path.join(V, "known_findings.json"), "w"), indent=1)
props = [json.loads(l) for l in open(os.path.join(V, "properties.jsonl"))]
na = json.load(open(os.path.join(V, "families", "not_applicable.json")))
hooks = json.load(open(os.path.join(V, "families", "hooks.json")))

checks = []
engines = {}
for p in props:
    pid = p["id"]
    if pid not in reg:
        continue
    r = reg[pid]
    if r.get("disabled"):
        continue
    checks.append({
        "property_id": pid,
        "quick_cmd": "./check %s --tier quick" % pid,
        "thorough_cmd": "./check %s --tier thorough" % pid,
        "evidence_file": "/verif/evidence/%s.json" % pid,
        "replay_cmd_template": "./check %s --replay {path}" % pid,
        "engine": r.get("engine", r["family"]),
        "level_claimed": {"category": "model_checking", "text": r["level_text"],
                          "design_ref": r.get("design_ref", "DESIGN.md section 5, " + pid)},
        "level_note": r["level_note"],
        "technique": r.get("technique", "TLA+ spec checked with TLC; TLC-generated behaviours replayed on the real code and recorded traces validated against the spec by TLC"),
    })
    e = engines.setdefault(r.get("engine", r["family"]), {"name": r.get("engine", r["family"]),
                                                         "path": r.get("spec_path", "specs/"),
                                                         "serves_properties": [],
                                                         "kind_free_text": r.get("engine_kind", "TLA+ specification + TLC + Go conformance harness")})
    e["serves_properties"].append(pid)

claimed = {c["property_id"] for c in checks}
nal = [x for x in na if x["property_id"] not in claimed]
missing = [p["id"] for p in props if p["id"] not in claimed and p["id"] not in {x["property_id"] for x in nal}]
for m in missing:
    nal.append({"property_id": m, "reason": "check not built yet in this session (planned, see DESIGN.md section 5); not claimed"})

man = {
    "version": 1,
    "setup_cmd": "./check --setup",
    "hooks": hooks,
    "engines": list(engines.values()),
    "checks": checks,
    "not_applicable": sorted(nal, key=lambda x: x["property_id"]),
    "notes": "Model-based verification with explicit TLA+ specifications (specs/), TLC, and conformance harnesses (harness/) "
             "bound to /repo's working tree. Known findings: known_findings.json. See DESIGN.md.",
}
json.dump(man, open(os.path.join(V, "MANIFEST.json"), "w"), indent=1)
print("MANIFEST.json: %d checks, %d not_applicable" % (len(checks), len(nal)))
