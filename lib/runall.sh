#!/bin/bash
# lib/runall.sh <tier> <parallel> [ids...] — runs checks and prints one summary line each
tier=$1; par=$2; shift 2
ids="$@"; [ -z "$ids" ] && ids=$(./check --list | awk '{print $1}')
run() { p=$1; t0=$(date +%s); ./check $p --tier $tier > /tmp/runall_${tier}_$p.out 2>&1; rc=$?; echo "$p tier=$tier exit=$rc wall=$(( $(date +%s)-t0 ))s known=$(grep -c '^KNOWN-FINDING' /tmp/runall_${tier}_$p.out) $(grep -E '^(MACHINERY|VIOLATION)' /tmp/runall_${tier}_$p.out | head -1 | cut -c1-160)"; }
export -f run; export tier
echo $ids | tr ' ' '\n' | xargs -P $par -I{} bash -c 'run {}'
