#!/usr/bin/env python3
"""lib/seedcheck.py <ID> [<check id> ...] — confirm a seeded defect delivered under /tmp/mut/<ID> (worktree with the change
applied + out/{patch.diff,meta.json,demo}) and run our checks against it.  Steps: (1) demo fails with the change,
(2) demo passes without it, (3) go build ./... ok, (4) existing tests of the touched packages pass with the change,
(5) ./check <ID> with VERIF_REPO=<worktree> (quick; thorough if quick misses).  Result is stored in /verif/seeded/<ID>/."""
import json, os, shutil, subprocess, sys, time
V = os.path.dirname(os.path.dirname(os.path.abspath(__file__)))
ENV = dict(os.environ, GOFLAGS="-mod=mod", GOPROXY="off", GOSUMDB="off", GOTOOLCHAIN="local")
def sh(cmd, cwd, timeout=3000, env=None):
    p = subprocess.run(cmd, shell=True, cwd=cwd, env=env or ENV, stdout=subprocess.PIPE, stderr=subprocess.STDOUT, text=True, timeout=timeout)
    return p.returncode, p.stdout
def main():
    mid = sys.argv[1]
    checks = sys.argv[2:] or [mid]
    wt = os.environ.get("MUT_DIR", "/tmp/mut") + "/" + mid
    tag = os.environ.get("MUT_TAG", "")
    out = os.path.join(wt, "out")
    if not os.path.isdir(wt):
        # rebuild the scratch worktree from /verif/seeded/<id><tag>/ (patch.diff, demonstration, meta.json)
        src = os.path.join(V, "seeded", mid + tag)
        os.makedirs(os.path.dirname(wt), exist_ok=True)
        sh("git -C /repo worktree add --detach %s main" % wt, "/")
        os.makedirs(out, exist_ok=True)
        for f in os.listdir(src):
            shutil.copy(os.path.join(src, f), out)
        m0 = json.load(open(os.path.join(out, "meta.json")))
        pk = [a for a in (m0.get("demo_cmd") or "").split() if a.startswith("./")]
        for f in os.listdir(out):
            if f.endswith("_test.go") and pk:
                # a demonstration file goes into the package whose name it declares
                pkgname = [l.split()[1] for l in open(os.path.join(out, f)) if l.startswith("package ")][0].replace("_test", "")
                dst = [a for a in pk if a.rstrip("/.").split("/")[-1] == pkgname] or pk
                shutil.copy(os.path.join(out, f), os.path.join(wt, dst[0].rstrip("/.")))
    meta = json.load(open(os.path.join(out, "meta.json")))
    res = {"property": mid, "summary": meta.get("summary"), "needs": meta.get("needs"), "demo_cmd": meta.get("demo_cmd"), "ran": []}
    demo = meta["demo_cmd"]
    # rebase the worktree onto the current main (fix commits picked since it was created), change applied
    rc, _ = sh("git apply --check -R out/patch.diff", wt)
    if rc == 0:
        sh("git apply -R out/patch.diff", wt)
    sh("git checkout -q --detach main", wt)
    rc, o = sh("git apply out/patch.diff", wt)
    res["applies_on_main"] = rc == 0
    if rc != 0:
        res["apply_error"] = o[-800:]
        d = os.path.join(V, "seeded", mid + tag); os.makedirs(d, exist_ok=True)
        json.dump(res, open(os.path.join(d, "meta.json"), "w"), indent=1)
        print(json.dumps(res)); return
    rc1, o1 = sh(demo, wt)
    res["demo_fails_with_change"] = rc1 != 0
    sh("git apply -R out/patch.diff", wt)
    rc2, o2 = sh(demo, wt)
    res["demo_passes_without"] = rc2 == 0
    sh("git apply out/patch.diff", wt)
    rc3, o3 = sh("go build $(go list ./... 2>/dev/null | grep -v '/out$')", wt)
    res["builds"] = rc3 == 0
    pk = " ".join("./" + p.strip("./") + "/..." if not p.endswith("...") else p for p in meta.get("packages_tested", []))
    files = [l[6:] for l in open(os.path.join(out, "patch.diff")) if l.startswith("+++ b/")]
    pkgs = sorted({"./" + os.path.dirname(f) + "/" for f in files})
    # tests that fail / hang on the unmodified tree as well (Go version incompatibilities)
    skip = " -skip ECDSA" if any("bfe_tls" in p for p in pkgs) else (" -skip GetJSON" if any("bfe_module/" in p for p in pkgs) else "")
    # existing tests only: move demo test files away
    demos = [f for f in os.listdir(out) if f.endswith("_test.go")]
    moved = []
    rcg, og = sh("git status --porcelain", wt)
    for line in og.splitlines():
        if line.startswith("??") and line.strip().endswith("_test.go"):
            f = line[3:].strip(); shutil.move(os.path.join(wt, f), os.path.join(wt, f + ".off")); moved.append(f)
    rc4, o4 = sh("go test -mod=mod -vet=off -count=1 -timeout 600s%s %s" % (skip, " ".join(pkgs)), wt)
    for f in moved:
        shutil.move(os.path.join(wt, f + ".off"), os.path.join(wt, f))
    res["existing_tests_pass_with_change"] = rc4 == 0
    if rc4 != 0:
        res["existing_tests_output"] = o4[-1500:]
    res["confirmed"] = bool(res["demo_fails_with_change"] and res["demo_passes_without"] and res["builds"] and res["existing_tests_pass_with_change"])
    env = dict(ENV, VERIF_REPO=wt)
    for cid in checks:
        evf = os.path.join(V, "evidence", cid + ".json")      # the evidence file must keep describing the unchanged tree
        saved = open(evf).read() if os.path.exists(evf) else None
        for tier in ("quick", "thorough"):
            t = time.time()
            rc, o = sh("./check %s --tier %s" % (cid, tier), V, env=env, timeout=7200)
            lines = [l for l in o.splitlines() if l.startswith(("VIOLATION", "  sig=", "KNOWN-FINDING", "MACHINERY", "MODEL-DRIFT"))]
            res["ran"].append({"check": cid, "tier": tier, "exit": rc, "wall_s": round(time.time() - t), "lines": [l[:300] for l in lines[:6]]})
            if rc == 1 or tier == "thorough":
                break
        if saved is not None:
            open(evf, "w").write(saved)
    res["detected"] = any(r["exit"] == 1 for r in res["ran"])
    d = os.path.join(V, "seeded", mid + tag); os.makedirs(d, exist_ok=True)
    shutil.copy(os.path.join(out, "patch.diff"), d)
    for f in os.listdir(out):
        if f not in ("patch.diff", "meta.json"):
            src = os.path.join(out, f)
            if os.path.isfile(src): shutil.copy(src, d)
    json.dump(res, open(os.path.join(d, "meta.json"), "w"), indent=1)
    print(json.dumps({k: res[k] for k in ("property", "confirmed", "detected")}), [ (r["check"], r["tier"], r["exit"]) for r in res["ran"]])
main()
