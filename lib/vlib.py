"""Common machinery for the bfe TLA+ verification checks (python3 stdlib only).

One `Ctx` per check invocation.  A family plugin (families/<name>.py) uses it to
  * run TLC on a spec (exhaustive MC, -simulate, or trace validation) in a scratch copy,
  * build and run the family's Go harness against /repo's current working tree,
  * record coverage, violations and known findings,
  * write /verif/evidence/<id>.json and produce the exit code (0 held / 1 violation / 2 machinery).
"""
import atexit
import hashlib
import json
import os
import re
import shutil
import subprocess
import sys
import tempfile
import time

VERIF = os.path.dirname(os.path.dirname(os.path.abspath(__file__)))
REPO = os.environ.get("VERIF_REPO", "/repo")
HARNESS = os.path.join(VERIF, "harness")
SPECS = os.path.join(VERIF, "specs")
NCPU = os.cpu_count() or 4

GOENV = {
    "GOFLAGS": "-mod=mod",
    "GOPROXY": "off",
    "GOSUMDB": "off",
    "GOTOOLCHAIN": "local",
}


class MachineryError(Exception):
    """Anything that prevents a verdict: exit 2, never a violation."""


def _env(extra=None):
    e = dict(os.environ)
    e.update(GOENV)
    if extra:
        e.update(extra)
    return e


class TlcResult:
    def __init__(self):
        self.ok = False            # TLC finished and found no error
        self.violation = None      # name of violated invariant/property, if any
        self.generated = 0
        self.distinct = 0
        self.depth = 0
        self.cases = []            # JSON objects printed by the spec (PrintT(ToJson(..)))
        self.out = ""
        self.wall = 0.0
        self.cmd = ""
        self.coverage_zero = []
        self.error = None          # other TLC error (parse, runtime, timeout)

    def summary(self):
        return {"cmd": self.cmd, "generated": self.generated, "distinct": self.distinct,
                "depth": self.depth, "wall_s": round(self.wall, 2), "ok": self.ok,
                "violation": self.violation, "error": self.error}


_CASE_RE = re.compile(r'^"(\{.*\})"$')


def _tla_unquote(s):
    # TLC prints a string value with \" and \\ escapes; that is also valid JSON string syntax.
    return json.loads('"' + s + '"')


class Ctx:
    def __init__(self, pid, tier, seed, family):
        self.pid = pid
        self.tier = tier
        self.seed = seed
        self.family = family
        self.t0 = time.time()
        base = os.environ.get("TMPDIR", "/tmp")
        self.scratch = tempfile.mkdtemp(prefix="verif.%s." % pid, dir=base)
        atexit.register(lambda: shutil.rmtree(self.scratch, ignore_errors=True))
        self.cov = {"states": 0, "transitions": 0, "traces_validated_against_impl": 0,
                    "evaluations": 0, "distinct_nontrivial": 0, "samples": [],
                    "rule": "", "checker_cmd": "", "tlc_runs": [], "constants": {},
                    "known_findings_seen": [], "model_drift": [], "exhaustive": False}
        self.assumptions = []
        self.violations = []       # dicts {sig, detail, case, family, cmd}
        self.known_seen = []       # (finding, detail)
        self._bins = {}
        self._findings = None
        self._distinct = set()
        self.notes = []

    # ------------------------------------------------------------------ TLC
    def tlc(self, spec_dir, module, cfg, mode="mc", workers=None, timeout=600,
            sim_num=1000, sim_depth=50, extra_files=None, coverage=False,
            queue_dfs=False, heap=None, want_cases=True, defines=None, count=True):
        """Run TLC in a scratch copy of specs/<spec_dir>.  mode: mc | sim | trace.
        extra_files: {name: content or path} copied next to the spec (e.g. trace.ndjson).
        defines: {NAME: text} -> substituted for @NAME@ in the cfg file (per-tier constants)."""
        src = os.path.join(SPECS, spec_dir)
        run = tempfile.mkdtemp(prefix="tlc.", dir=self.scratch)
        for f in os.listdir(src):
            p = os.path.join(src, f)
            if os.path.isfile(p):
                shutil.copy(p, run)
        # shared modules
        common = os.path.join(SPECS, "common")
        if os.path.isdir(common):
            for f in os.listdir(common):
                if not os.path.exists(os.path.join(run, f)):
                    shutil.copy(os.path.join(common, f), run)
        for name, val in (extra_files or {}).items():
            dst = os.path.join(run, name)
            if isinstance(val, str) and os.path.isfile(val):
                shutil.copy(val, dst)
            else:
                with open(dst, "w") as fh:
                    fh.write(val)
        cfgp = os.path.join(run, cfg)
        if defines:
            txt = open(cfgp).read()
            for k, v in defines.items():
                txt = txt.replace("@%s@" % k, str(v))
            open(cfgp, "w").write(txt)
        if workers is None:
            workers = NCPU if mode == "mc" else 1
        cmd = ["tlc", "-metadir", os.path.join(run, "md"), "-config", cfg]
        if mode == "sim":
            cmd += ["-workers", str(workers), "-simulate", "num=%d" % sim_num,
                    "-depth", str(sim_depth), "-seed", str(self.seed)]
        elif mode == "trace":
            cmd += ["-workers", "1"]
        else:
            cmd += ["-workers", str(workers)]
        if coverage:
            cmd += ["-coverage", "1"]
        cmd += ["-noGenerateSpecTE", module + ".tla"]
        env = _env()
        jopts = ["-Xss64m"]
        if heap:
            jopts.append("-Xmx%s" % heap)
        if queue_dfs:
            jopts.append("-Dtlc2.tool.queue.IStateQueue=StateDeque")
        env["JAVA_TOOL_OPTIONS"] = " ".join(jopts)
        env["JDK_JAVA_OPTIONS"] = "-Xss64m"       # the JVM main thread (TLC computes initial states there)
        r = TlcResult()
        r.cmd = " ".join(cmd[:1] + cmd[3:])
        t = time.time()
        try:
            p = subprocess.run(cmd, cwd=run, env=env, stdout=subprocess.PIPE,
                               stderr=subprocess.STDOUT, timeout=timeout, text=True,
                               errors="replace")
            out = p.stdout
            rc = p.returncode
        except subprocess.TimeoutExpired as e:
            out = (e.stdout or b"").decode("utf8", "replace") if isinstance(e.stdout, bytes) else (e.stdout or "")
            rc = -1
            r.error = "timeout after %ds" % timeout
            subprocess.run(["pkill", "-f", run], check=False)
        r.wall = time.time() - t
        r.out = out
        for line in out.splitlines():
            m = _CASE_RE.match(line)
            if m and want_cases:
                try:
                    r.cases.append(json.loads(_tla_unquote(m.group(1))))
                except Exception:
                    pass
                continue
            m = re.match(r"^(\d+) states generated, (\d+) distinct states found", line)
            if m:
                r.generated = int(m.group(1))
                r.distinct = int(m.group(2))
            m = re.match(r"^The depth of the complete state graph search is (\d+)", line)
            if m:
                r.depth = int(m.group(1))
            m = re.match(r"^Error: Invariant (\S+) is violated", line)
            if m:
                r.violation = m.group(1)
            if line.startswith("Error: Action property") or line.startswith("Error: Temporal properties were violated"):
                r.violation = r.violation or line[7:].strip()
            if line.startswith("Error: Deadlock reached"):
                r.violation = r.violation or "Deadlock"
            m = re.match(r"^Error: (.*)$", line)
            if m and r.violation is None and r.error is None and \
                    not m.group(1).startswith("The behavior up to") and \
                    not m.group(1).startswith("The error occurred"):
                r.error = m.group(1)[:300]
            if mode == "sim":
                m = re.match(r"^The number of states generated: (\d+)", line)
                if m:
                    r.generated = int(m.group(1))
                    r.distinct = max(r.distinct, int(m.group(1)))
        if coverage:
            for line in out.splitlines():
                m = re.match(r"^<(\w+) line (\d+), col \d+ to line \d+, col \d+ of module (\w+)>: (\d+):(\d+)", line)
                if m and int(m.group(5)) == 0 and m.group(1) not in ("Init",):
                    r.coverage_zero.append("%s@%s:%s" % (m.group(1), m.group(3), m.group(2)))
        finished = ("Model checking completed" in out) or ("Finished in" in out and mode == "sim")
        r.ok = (rc == 0) and r.violation is None and r.error is None and \
               ("No error has been found" in out or mode == "sim")
        if mode == "sim" and rc == 0 and r.violation is None and r.error is None:
            r.ok = True
        if not r.ok and r.violation is None and r.error is None:
            r.error = "tlc exit %d: %s" % (rc, out[-400:])
        if count:
            self.cov["states"] += r.distinct
            self.cov["transitions"] += r.generated
        self.cov["tlc_runs"].append(dict(r.summary(), spec="%s/%s" % (spec_dir, module), cfg=cfg, mode=mode))
        if not self.cov["checker_cmd"]:
            self.cov["checker_cmd"] = "cd specs/%s && %s" % (spec_dir, r.cmd)
        # keep the output of failed runs for diagnosis
        if not r.ok:
            keep = os.path.join(VERIF, "evidence", "logs")
            os.makedirs(keep, exist_ok=True)
            with open(os.path.join(keep, "%s.%s.%s.tlc.log" % (self.pid, module, mode)), "w") as fh:
                fh.write(out[-20000:])
        return r

    def tlc_must_pass(self, *a, **kw):
        """MC run of the spec on its own: the model must satisfy its invariants.
        A counterexample on the spec alone is a machinery failure (exit 2) — verdicts come
        only from the real code (DESIGN 2.6)."""
        r = self.tlc(*a, **kw)
        if not r.ok:
            raise MachineryError("TLC on %s/%s failed: violation=%s error=%s" %
                                 (a[0], a[1], r.violation, r.error))
        if kw.get("coverage") and r.coverage_zero:
            self.cov.setdefault("coverage_zero_actions", []).extend(r.coverage_zero)
        return r

    # ------------------------------------------------------------------ Go harness
    def overlay_file(self):
        """overlay.json mapping non-existent files in REPO to export files under harness/overlay."""
        ov = {}
        root = os.path.join(HARNESS, "overlay")
        if os.path.isdir(root):
            for d, _, files in os.walk(root):
                for f in files:
                    if f.endswith(".go"):
                        rel = os.path.relpath(os.path.join(d, f), root)
                        ov[os.path.join(REPO, rel)] = os.path.join(d, f)
        p = os.path.join(self.scratch, "overlay.json")
        with open(p, "w") as fh:
            json.dump({"Replace": ov}, fh)
        return p

    def modfile(self):
        """Private copy of harness/go.mod (+ go.sum) for this run, `replace` pointing at REPO.
        Builds use -modfile so that harness/go.mod is never rewritten by concurrent checks and
        VERIF_REPO can point the whole check at another tree (a scratch worktree)."""
        p = os.path.join(self.scratch, "go.mod")
        if not os.path.exists(p):
            txt = open(os.path.join(HARNESS, "go.mod")).read()
            txt = re.sub(r"replace github.com/bfenetworks/bfe => \S+",
                         "replace github.com/bfenetworks/bfe => " + REPO, txt)
            open(p, "w").write(txt)
            sumtxt = open(os.path.join(REPO, "go.sum")).read()
            extra = os.path.join(HARNESS, "go.sum.extra")
            if os.path.exists(extra):
                sumtxt += open(extra).read()
            open(os.path.join(self.scratch, "go.sum"), "w").write(sumtxt)
        return p

    def build(self, cmdname, race=False):
        key = (cmdname, race)
        if key in self._bins:
            return self._bins[key]
        out = os.path.join(self.scratch, "vh_%s%s" % (cmdname, "_race" if race else ""))
        cmd = ["go", "build", "-modfile=" + self.modfile(), "-tags", "verif",
               "-overlay", self.overlay_file(), "-o", out]
        if race:
            # -race switches on checkptr, which aborts inside spaolacci/murmur3's unsafe arithmetic
            # (third-party code, unrelated to the properties): keep the race detector, drop checkptr
            cmd += ["-race", "-gcflags=all=-d=checkptr=0"]
        cmd.append("./cmd/" + cmdname)
        p = subprocess.run(cmd, cwd=HARNESS, env=_env(), stdout=subprocess.PIPE,
                           stderr=subprocess.STDOUT, text=True)
        if p.returncode != 0:
            raise MachineryError("harness build failed (binding broken?):\n" + p.stdout[-3000:])
        self._bins[key] = out
        return out

    def harness(self, cmdname, args, cases=None, race=False, timeout=600, env=None, stdin_text=None):
        """Run harness binary; cases (list of dicts) go to stdin as ndjson; returns list of result dicts."""
        binp = self.build(cmdname, race)
        data = stdin_text
        if cases is not None:
            data = "".join(json.dumps(c, separators=(",", ":")) + "\n" for c in cases)
        e = _env(env)
        e["VERIF_SEED"] = str(self.seed)
        e["VERIF_TIER"] = self.tier
        e["VERIF_REPO"] = REPO
        try:
            p = subprocess.run([binp] + list(args), input=data, cwd=self.scratch, env=e,
                               stdout=subprocess.PIPE, stderr=subprocess.PIPE, text=True,
                               errors="replace", timeout=timeout)
        except subprocess.TimeoutExpired:
            raise MachineryError("harness %s %s timed out after %ds" % (cmdname, args, timeout))
        res = []
        for line in p.stdout.split("\n"):          # not splitlines(): U+0085 etc. inside a JSON string is no line end
            line = line.strip()
            if line.startswith("{"):
                try:
                    res.append(json.loads(line))
                except Exception:
                    pass
        self.last_stderr = p.stderr
        if p.returncode != 0:
            # the harness recovers panics per case; a crash of the harness itself is machinery
            # unless it is a race report / fatal error which the family interprets.
            res.append({"_harness_exit": p.returncode, "_stderr": p.stderr[-4000:]})
        return res

    # ------------------------------------------------------------------ coverage
    def sample(self, obj, limit=5):
        if len(self.cov["samples"]) < limit:
            self.cov["samples"].append(obj)

    def count(self, obj, nontrivial=True):
        """Count one evaluated case; distinctness by canonical JSON."""
        self.cov["evaluations"] += 1
        if nontrivial:
            h = hashlib.sha1(json.dumps(obj, sort_keys=True).encode()).digest()[:10]
            if h not in self._distinct:
                self._distinct.add(h)
                self.cov["distinct_nontrivial"] += 1

    def traces(self, n):
        self.cov["traces_validated_against_impl"] += n

    # ------------------------------------------------------------------ findings / verdict
    def findings(self):
        if self._findings is None:
            p = os.path.join(VERIF, "known_findings.json")
            self._findings = json.load(open(p)).get("findings", []) if os.path.exists(p) else []
            d = os.path.join(VERIF, "findings.d")     # per-family drafts, merged by lib/mkmanifest.py
            have = {f["id"] for f in self._findings}
            if os.path.isdir(d):
                for fn in sorted(os.listdir(d)):
                    if fn.endswith(".json"):
                        for f in json.load(open(os.path.join(d, fn))).get("findings", []):
                            if f["id"] not in have:
                                self._findings.append(f)
                                have.add(f["id"])
        return self._findings

    def report(self, sig, detail, case=None, cmd=None, harness=None):
        """A real-code observation contradicting Layer P.  `sig` is the family's canonical
        signature of the failing case (string).  Matched against open known findings."""
        for f in self.findings():
            if f.get("property") != self.pid or f.get("status") != "open":
                continue
            pats = f.get("signatures") or [f.get("signature")]
            for pat in pats:
                if pat is not None and re.fullmatch(pat, sig):
                    self.known_seen.append((f, sig, detail))
                    return "known"
        self.violations.append({"sig": sig, "detail": detail, "case": case,
                                "family": self.family, "cmd": cmd, "harness": harness})
        return "violation"

    def drift(self, what):
        self.cov["model_drift"].append(what)

    def finish(self):
        wall = time.time() - self.t0
        seen = {}
        for f, sig, detail in self.known_seen:
            seen.setdefault(f["id"], [f, 0, sig, detail])[1] += 1
        for fid, (f, n, sig, detail) in sorted(seen.items()):
            print("KNOWN-FINDING: property=%s %s [%s; %d case(s), e.g. %s]" %
                  (self.pid, f["what"], fid, n, sig))
            self.cov["known_findings_seen"].append({"id": fid, "cases": n, "example": sig})
        for d in self.cov["model_drift"]:
            print("MODEL-DRIFT family=%s %s" % (self.family, d))
        rc = 0
        paths = []
        if self.violations:
            rc = 1
            rdir = os.path.join(VERIF, "replays")
            os.makedirs(rdir, exist_ok=True)
            seen_sig = set()
            for v in self.violations:
                if v["sig"] in seen_sig:
                    continue
                seen_sig.add(v["sig"])
                if len(seen_sig) > 20:
                    break
                h = hashlib.sha1((self.pid + v["sig"]).encode()).hexdigest()[:12]
                path = os.path.join(rdir, "%s-%s.json" % (self.pid, h))
                with open(path, "w") as fh:
                    json.dump({"property": self.pid, "family": self.family, "sig": v["sig"],
                               "detail": v["detail"], "harness": v.get("harness"),
                               "cmd": v.get("cmd"), "case": v.get("case"),
                               "tier": self.tier, "seed": self.seed}, fh, indent=1)
                paths.append(path)
                print("VIOLATION property=%s replay=%s" % (self.pid, path))
                print("  sig=%s detail=%s" % (v["sig"], str(v["detail"])[:400]))
        cov = dict(self.cov)
        if not cov["samples"]:
            cov["samples"] = ["(no sample recorded)"]
        cov["violating_signatures"] = sorted({v["sig"] for v in self.violations})[:50]
        ev = {"property_id": self.pid, "tier": self.tier, "seed": self.seed,
              "level": "model_checking", "coverage": cov, "assumptions": self.assumptions,
              "wall_s": round(wall, 2), "violations": len(self.violations)}
        if self.notes:
            ev["notes"] = self.notes
        write_evidence(self.pid, ev)
        return rc


def write_evidence(pid, ev):
    d = os.path.join(VERIF, "evidence")
    os.makedirs(d, exist_ok=True)
    tmp = os.path.join(d, ".%s.json.tmp" % pid)
    with open(tmp, "w") as fh:
        json.dump(ev, fh, indent=1, sort_keys=True)
        fh.write("\n")
    os.replace(tmp, os.path.join(d, "%s.json" % pid))


def machinery_evidence(pid, tier, seed, msg, wall):
    write_evidence(pid, {"property_id": pid, "tier": tier, "seed": seed, "level": "other",
                         "coverage": {"explanation": "machinery failure, no verdict: " + msg[:2000],
                                      "evaluations": 0, "distinct_nontrivial": 0},
                         "assumptions": [], "wall_s": round(wall, 2), "violations": 0})


def ensure_go_sum():
    """harness/go.sum is derived from /repo/go.sum plus the extra cached modules."""
    dst = os.path.join(HARNESS, "go.sum")
    src = os.path.join(REPO, "go.sum")
    extra = os.path.join(HARNESS, "go.sum.extra")
    want = open(src).read()
    if os.path.exists(extra):
        want += open(extra).read()
    if not os.path.exists(dst) or open(dst).read() != want:
        with open(dst, "w") as fh:
            fh.write(want)


def race_reports(stderr, limit=20):
    """Split Go race detector output into reports; returns [(signature, text)].
    signature = the innermost bfe frames of the two conflicting accesses."""
    out = []
    blocks = stderr.split("WARNING: DATA RACE")[1:]
    for blk in blocks[:limit]:
        blk = blk.split("==================")[0]
        parts = re.split(r"\n(?=Previous (?:read|write) at |Goroutine \d+ \()", blk)
        tops = []
        for part in parts[:2]:
            m = re.search(r"github\.com/bfenetworks/bfe/([\w/]+)\.([\w\(\)\*\.]+)\(\)", part)
            tops.append("%s.%s" % (m.group(1).split("/")[-1], m.group(2)) if m else "?")
        sig = "race/" + "|".join(sorted(tops))
        out.append((sig, "WARNING: DATA RACE" + blk[:2500]))
    return out
