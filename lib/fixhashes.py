#!/usr/bin/env python3
"""Rewrites commit hashes of `fixed` findings (findings.d/*.json, known_findings.json) and hook commits from
family-branch hashes to the hashes of the cherry-picked commits on /repo's main (matched by subject)."""
import json, os, re, subprocess, glob
V = os.path.dirname(os.path.dirname(os.path.abspath(__file__)))
def sh(*a):
    return subprocess.run(a, stdout=subprocess.PIPE, stderr=subprocess.DEVNULL, text=True).stdout
main = {}
for line in sh("git", "-C", "/repo", "log", "--format=%h\t%s", "main").splitlines():
    h, s = line.split("\t", 1)
    main.setdefault(s, h)
def to_main(h):
    subj = sh("git", "-C", "/repo", "show", "-s", "--format=%s", h).strip()
    return main.get(subj)
for f in glob.glob(os.path.join(V, "findings.d", "*.json")) + [os.path.join(V, "known_findings.json")]:
    d = json.load(open(f)); changed = False
    for x in d.get("findings", []):
        if x.get("status") == "fixed" and x.get("commit"):
            m = to_main(x["commit"])
            if m and m != x["commit"][:len(m)]:
                old = x["commit"]; x["commit"] = m
                x["what"] = x["what"].replace(old, m).replace(old[:7], m)
                changed = True
            elif not m:
                print("WARNING: no main commit for", f, x["id"], x["commit"])
    if changed:
        json.dump(d, open(f, "w"), indent=1); print("updated", f)
hooks = [l.split("\t")[0] for l in sh("git", "-C", "/repo", "log", "--format=%h\t%s", "main").splitlines() if l.split("\t")[1].startswith("verif hooks:")]
hp = os.path.join(V, "families", "hooks.json"); hj = json.load(open(hp)); hj["source_commits"] = list(reversed(hooks))
json.dump(hj, open(hp, "w"), indent=1); print("hook commits:", hj["source_commits"])
